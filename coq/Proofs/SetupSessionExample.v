(* The witness of D63 in the model: b 1.0, b 2.0 (current).  One object: setup b 1.0, unsetup b, setup b.
   Before the repair (reset = false) the third request sets b 1.0 up again - the commandLine entry of the VRO
   finds the entry the first request left; a fresh object, and the repaired code, set up the current b 2.0. *)
From Eupsv Require Import Base.Base Model.PathAlg Model.Setup Model.Resolve Model.SetupFull Model.SetupSession
     Proofs.SetupExample Proofs.SetupFullExample Generated.Config.

Definition sx_world : world := [ cx_prod "b" "1.0" []; cx_prod "b" "2.0" [] ].
Definition sx_fw : fworld :=
  {| fw_products := sx_world; fw_lines := []; fw_tags := [ (lit "b", lit "current", lit "2.0") ] |}.
Definition sx_st0 : state := {| s_env := [(lit "PATH", lit "/usr/bin")]; s_aliases := [] |}.
Definition sx_requests : list srequest :=
  [ (lit "b", Some (lit "1.0"), true, false); (lit "b", None, false, false); (lit "b", None, true, false) ].

Definition sx_decisions (reset : bool) : list (option (list decision)) :=
  map (fun o => match o with Ok (_, tr) => Some tr | Err _ => None end)
      (session_run vcmp_simple vmatch_simple sx_fw ex_cfg default_config ex_flavors reset 20 [] sx_st0 sx_requests).
