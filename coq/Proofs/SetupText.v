(* Lemmas about Model/SetupText.v: the setup actions derived from the text printed from a table syntax
   tree (Model/TableSpec.v) are the meaning of the tree, by C11's blocks_sound; worlds of printed texts;
   transport of the setup theorems to worlds given as texts. *)
From Eupsv Require Import Base.Base Base.BaseLemmas Model.PathAlg Model.Setup Model.Rx Model.Cond Model.Args
  Model.Legacy Model.Blocks Model.TableSpec Model.SetupText Proofs.SetupFrame Proofs.SetupInv.
From Eupsv Require Props.C11.

(* ---------------------------------------------------------------- map_res *)

Lemma map_res_map {A B C} (f : B -> res C) (g : A -> B) l :
  map_res f (map g l) = map_res (fun x => f (g x)) l.
Proof. induction l as [|a l IH]; cbn [map map_res]; [reflexivity|]. now rewrite IH. Qed.

Lemma map_res_ext {A B} (f g : A -> res B) l : (forall a, f a = g a) -> map_res f l = map_res g l.
Proof. intro H. induction l as [|a l IH]; cbn [map_res]; [reflexivity|]. now rewrite H, IH. Qed.

Lemma map_res_ext_in {A B} (f g : A -> res B) l : (forall a, In a l -> f a = g a) -> map_res f l = map_res g l.
Proof.
  induction l as [|a l IH]; intro H; cbn [map_res]; [reflexivity|].
  rewrite (H a (or_introl eq_refl)), IH; [reflexivity|]. intros b Hb. apply H. now right.
Qed.

Lemma map_res_app {A B} (f : A -> res B) l m :
  map_res f (l ++ m) = bind (map_res f l) (fun a => bind (map_res f m) (fun b => Ok (a ++ b))).
Proof.
  induction l as [|x l IH]; cbn [app map_res bind].
  - destruct (map_res f m); reflexivity.
  - destruct (f x) as [y|e]; cbn [bind]; [|reflexivity]. rewrite IH.
    destruct (map_res f l) as [a|e]; cbn [bind]; [|reflexivity].
    destruct (map_res f m) as [b|e]; reflexivity.
Qed.

(* ---------------------------------------------------------------- commands *)

(* the canonical command name and the flags of a documented command mean the action its kind means *)
Lemma tr_kind k args :
  tr_action (mkAction (fst (kind_sem k)) args (snd (kind_sem k))) = kind_action k args.
Proof. destruct k; reflexivity. Qed.

Lemma load_denote_cmd pi c : load_action pi (denote_cmd (pi_name pi) c) = cmd_setup_action pi c.
Proof.
  unfold load_action, cmd_setup_action, cmd_args, denote_cmd. destruct c as [k args lay]. cbn [c_kind c_args].
  destruct (kind_sem k) as [name extra] eqn:E. cbn [a_args a_cmd a_extra].
  destruct (expand_args pi (match k with KEnvUnset => [dir_env_name (pi_name pi)] | _ => args end)) as [args'|e];
    cbn [bind]; [|reflexivity].
  rewrite <- (tr_kind k args'), E. reflexivity.
Qed.

(* ---------------------------------------------------------------- items *)

Lemma pick_branch_cmds e top bs els : pick_branch e top bs els = map (denote_cmd top) (pick_cmds e bs els).
Proof.
  induction bs as [|b bs IH]; cbn [pick_branch pick_cmds].
  - destruct els as [[b l]|]; reflexivity.
  - destruct (denote e (b_cond b)); [reflexivity|exact IH].
Qed.

Lemma denote_items_cmds e top is : denote_items e top is = map (denote_cmd top) (items_cmds e is).
Proof.
  unfold denote_items, items_cmds. induction is as [|i is IH]; cbn [flat_map]; [reflexivity|].
  rewrite map_app, IH. f_equal. destruct i as [c|b0 elifs els cl]; cbn [denote_item item_cmds map]; [reflexivity|].
  apply pick_branch_cmds.
Qed.

(* the text printed from a well-formed items list yields the meaning of the list *)
Lemma table_setup_actions_print tc pi flavor is :
  wf_flavor flavor = true -> wf_items is = true ->
  table_setup_actions tc pi flavor (print_table is) = items_setup_actions tc pi flavor is.
Proof.
  intros Hf Hw. unfold table_setup_actions, items_setup_actions.
  rewrite (Props.C11.blocks_sound (pi_name pi) (mkCenv flavor (tc_types tc)) is Hf Hw). cbn [bind].
  rewrite map_res_app, denote_items_cmds, map_res_map.
  rewrite (map_res_ext _ (cmd_setup_action pi) _ (load_denote_cmd pi)). reflexivity.
Qed.

(* ---------------------------------------------------------------- worlds *)

Lemma product_of_text_print cfg tc ap :
  wf_aproduct cfg ap = true -> product_of_text cfg tc (print_product ap) = product_of_ast cfg tc ap.
Proof.
  intros Hw. unfold wf_aproduct in Hw. apply andb_true_iff in Hw. destruct Hw as [Hi Hf].
  unfold product_of_text, product_of_text_at, product_of_ast, print_product. cbn [t_name t_version t_dir t_text].
  destruct (negb (pinfo_ok _)); [reflexivity|].
  now rewrite (table_setup_actions_print tc _ _ (ap_items ap) Hf Hi).
Qed.

Lemma world_of_text_print cfg tc aw :
  wf_ast_world cfg aw = true -> world_of_text cfg tc (print_world aw) = world_of_ast cfg tc aw.
Proof.
  intro Hall. unfold wf_ast_world in Hall.
  unfold world_of_text, world_of_ast, print_world. rewrite map_res_map. apply map_res_ext_in.
  intros ap Hin. apply product_of_text_print. rewrite forallb_forall in Hall. now apply Hall.
Qed.

(* ---------------------------------------------------------------- the world a text world denotes *)

(* the products of the translated world are the products of the text world, in order, with the
   declared name, version and directory *)
Lemma product_of_text_fields cfg tc tp p :
  product_of_text cfg tc tp = Ok p -> p_name p = t_name tp /\ p_version p = t_version tp /\ p_dir p = t_dir tp.
Proof.
  unfold product_of_text, product_of_text_at. destruct (negb (pinfo_ok _)); [discriminate|].
  destruct (table_setup_actions _ _ _ _) as [acts|e]; cbn [bind]; [|discriminate].
  intro E. injection E as <-. repeat split.
Qed.

Lemma world_of_text_names cfg tc tw w :
  world_of_text cfg tc tw = Ok w ->
  map p_name w = map t_name tw /\ map p_version w = map t_version tw /\ map p_dir w = map t_dir tw.
Proof.
  unfold world_of_text. revert w. induction tw as [|tp tw IH]; intros w; cbn [map_res].
  - intro E. injection E as <-. repeat split.
  - destruct (product_of_text cfg tc tp) as [p|e] eqn:Ep; cbn [bind]; [|discriminate].
    destruct (map_res (product_of_text cfg tc) tw) as [w'|e]; cbn [bind]; [|discriminate].
    intro E. injection E as <-. destruct (product_of_text_fields cfg tc tp p Ep) as [A [B C]].
    destruct (IH w' eq_refl) as [A' [B' C']]. cbn [map]. now rewrite A, B, C, A', B', C'.
Qed.

(* ---------------------------------------------------------------- transport *)

Lemma setup_text_is_setup cfg tc tw w fuel st ds name fwd depth just :
  world_of_text cfg tc tw = Ok w ->
  setup_text cfg tc tw fuel st ds name fwd depth just = Ok (setup w cfg fuel st ds name fwd depth just).
Proof. intro H. unfold setup_text. now rewrite H. Qed.

Lemma request_text_is_request cfg tc tw w fuel st ds name fwd just :
  world_of_text cfg tc tw = Ok w ->
  request_text cfg tc tw fuel st ds name fwd just = request w cfg fuel st ds name fwd just.
Proof. intro H. unfold request_text. now rewrite H. Qed.
