(* A world given as table TEXTS on which the hypotheses of the setup theorems hold, used by the Examples
   at the end of Props/C01.v: two product names, lib in two versions and app, whose table has a dependency
   line, a conditional block on the setup type, path commands under two spellings, envSet with a quoted
   value, an alias; lib spells its own directory both ways.  The same tables as syntax trees (ex_aw):
   printing them gives exactly these texts. *)
From Eupsv Require Import Base.Base Model.PathAlg Model.Setup Model.Rx Model.Cond Model.Args Model.Legacy
  Model.Blocks Model.TableSpec Model.SetupText.

Definition text_of (l : list string) : str := flat_map (fun x => lit x ++ [c_nl]) l.

Definition ext_lib_text : str := text_of
  [ "# lib: a library";
    "envPrepend(PATH, ${PRODUCT_DIR}/bin)";
    "envSet(LIB_HOME, ""${LIB_DIR}/share data"")" ]%string.

Definition ext_app_text : str := text_of
  [ "setupRequired(lib 1.0)";
    "if (type == exact) {";
    "   pathAppend(LD_LIBRARY_PATH, ${PRODUCT_DIR}/lib)";
    "} else {";
    "   pathAppend(LD_LIBRARY_PATH, ${PRODUCT_DIR}/lib-dev)";
    "}";
    "envSet(APP_OPTS, ""-O2 -g"");";
    "addAlias(runapp, ${PRODUCT_DIR}/bin/app --fast)" ]%string.

Definition ext_tw : text_world :=
  [ mkTproduct (lit "lib") (lit "1.0") (lit "/s/Linux64/lib/1.0") ext_lib_text;
    mkTproduct (lit "lib") (lit "2.0") (lit "/s/Linux64/lib/2.0") ext_lib_text;
    mkTproduct (lit "app") (lit "1.0") (lit "/s/Linux64/app/1.0") ext_app_text ].

Definition ext_cfg : config :=
  {| c_flavor := lit "Linux64"; c_root := lit "/s"; c_max_depth := None; c_keep := false; c_flavors := [] |}.
(* Eups.setupType after selectVRO with the shipped VRO; the shipped implicit product *)
Definition ext_tc : tconfig := mkTconfig [lit "exact"] [lit "implicitProducts"].

(* the world these texts denote *)
Definition ext_lib (v : string) : product :=
  {| p_name := lit "lib"; p_version := lit v; p_dir := lit "/s/Linux64/lib/" ++ lit v;
     p_actions := [ APath false (lit "PATH") (lit "/s/Linux64/lib/" ++ lit v ++ lit "/bin") ":"%char;
                    ASet (lit "LIB_HOME") (lit "/s/Linux64/lib/" ++ lit v ++ lit "/share data");
                    ASetup true (lit "implicitProducts") false ] |}.
Arguments ext_lib v%string.
Definition ext_world : world :=
  [ ext_lib "1.0"; ext_lib "2.0";
    {| p_name := lit "app"; p_version := lit "1.0"; p_dir := lit "/s/Linux64/app/1.0";
       p_actions := [ ASetup false (lit "lib") false;
                      APath true (lit "LD_LIBRARY_PATH") (lit "/s/Linux64/app/1.0/lib") ":"%char;
                      ASet (lit "APP_OPTS") (lit "-O2 -g");
                      AAlias (lit "runapp") (lit "/s/Linux64/app/1.0/bin/app --fast");
                      ASetup true (lit "implicitProducts") false ] |} ].

Definition ext_order : list str := [lit "implicitProducts"; lit "lib"; lit "app"].

(* lib 2.0 is set up (the state  setup lib 2.0  reaches from the empty environment) ... *)
Definition ext_st0 : state :=
  {| s_env := [ (lit "LIB_DIR", lit "/s/Linux64/lib/2.0");
                (lit "SETUP_LIB", lit "lib 2.0 -f Linux64 -Z /s");
                (lit "PATH", lit "/s/Linux64/lib/2.0/bin");
                (lit "LIB_HOME", lit "/s/Linux64/lib/2.0/share data") ];
     s_aliases := [] |}.
(* ... setup app: app 1.0, lib 1.0 (replacing 2.0), the implicit product not found, twice *)
Definition ext_ds : list decision := [Some (lit "1.0"); Some (lit "1.0"); None; None].
Definition ext_final : state :=
  {| s_env := [ (lit "PATH", lit "/s/Linux64/lib/1.0/bin");
                (lit "APP_DIR", lit "/s/Linux64/app/1.0");
                (lit "SETUP_APP", lit "app 1.0 -f Linux64 -Z /s");
                (lit "LIB_DIR", lit "/s/Linux64/lib/1.0");
                (lit "SETUP_LIB", lit "lib 1.0 -f Linux64 -Z /s");
                (lit "LIB_HOME", lit "/s/Linux64/lib/1.0/share data");
                (lit "LD_LIBRARY_PATH", lit "/s/Linux64/app/1.0/lib");
                (lit "APP_OPTS", lit "-O2 -g") ];
     s_aliases := [ (lit "runapp", lit "/s/Linux64/app/1.0/bin/app --fast") ] |}.

(* ---- the same tables as syntax trees *)

Definition ext_lay (junk : list str) (indent spell : string) (g : arglay) (semi : bool) : cmdlay :=
  mkCmdlay junk (lit indent) (lit spell) [] g [] semi [].
Arguments ext_lay junk (indent spell)%string g semi.
Definition ext_atom (sp : string) (v : cvar) (o : cmpop) (x : string) : cond :=
  Atom (mkAlay (lit sp) 1 1 QNone) v o (lit x).
Arguments ext_atom sp%string v o x%string.
Definition ext_blay (s0 s2 : string) : bracelay := mkBracelay [] [] (lit s0) [] (lit " ") (lit s2) [].
Arguments ext_blay (s0 s2)%string.

Definition ext_lib_items : list item :=
  [ ICmd (mkCmd KEnvPrepend [lit "PATH"; lit "${PRODUCT_DIR}/bin"]
            (ext_lay [lit "# lib: a library"] "" "envPrepend" (mkArglay 0 [(lit ", ", false)] 0) false));
    ICmd (mkCmd KEnvSet [lit "LIB_HOME"; lit "${LIB_DIR}/share data"]
            (ext_lay [] "" "envSet" (mkArglay 0 [(lit ", ", true)] 0) false)) ].

Definition ext_app_items : list item :=
  [ ICmd (mkCmd KSetupRequired [lit "lib"; lit "1.0"]
            (ext_lay [] "" "setupRequired" (mkArglay 0 [(lit " ", false)] 0) false));
    IChain (mkBranch (ext_atom "type" CType OEq "exact")
              [mkCmd KPathAppend [lit "LD_LIBRARY_PATH"; lit "${PRODUCT_DIR}/lib"]
                 (ext_lay [] "   " "pathAppend" (mkArglay 0 [(lit ", ", false)] 0) false)]
              (ext_blay " " " "))
           []
           (Some ([mkCmd KPathAppend [lit "LD_LIBRARY_PATH"; lit "${PRODUCT_DIR}/lib-dev"]
                     (ext_lay [] "   " "pathAppend" (mkArglay 0 [(lit ", ", false)] 0) false)],
                  ext_blay " " " "))
           (ext_blay " " " ");
    ICmd (mkCmd KEnvSet [lit "APP_OPTS"; lit "-O2 -g"]
            (ext_lay [] "" "envSet" (mkArglay 0 [(lit ", ", true)] 0) true));
    ICmd (mkCmd KAddAlias [lit "runapp"; lit "${PRODUCT_DIR}/bin/app"; lit "--fast"]
            (ext_lay [] "" "addAlias" (mkArglay 0 [(lit ", ", false); (lit " ", false)] 0) false)) ].

Definition ext_aw : ast_world :=
  [ mkAproduct (lit "lib") (lit "1.0") (lit "/s/Linux64/lib/1.0") ext_lib_items;
    mkAproduct (lit "lib") (lit "2.0") (lit "/s/Linux64/lib/2.0") ext_lib_items;
    mkAproduct (lit "app") (lit "1.0") (lit "/s/Linux64/app/1.0") ext_app_items ].

(* ---- a product declared under the fall-back flavor whose table has a condition on the flavor *)

Definition exf_text : str := text_of
  [ "if (flavor == generic) {";
    "   envPrepend(PATH, ${PRODUCT_DIR}/bin)";
    "}" ]%string.
Definition exf_tw : text_world := [ mkTproduct (lit "tool") (lit "1.0") (lit "/s/generic/tool/1.0") exf_text ].
Definition exf_cfg : config :=
  {| c_flavor := lit "Linux64"; c_root := lit "/s"; c_max_depth := None; c_keep := false;
     c_flavors := [(lit "tool", lit "1.0", lit "generic")] |}.
Definition exf_st0 : state := {| s_env := [(lit "PATH", lit "/usr/bin")]; s_aliases := [] |}.
(* after  setup tool *)
Definition exf_st1 : state :=
  {| s_env := [ (lit "PATH", lit "/s/generic/tool/1.0/bin:/usr/bin");
                (lit "TOOL_DIR", lit "/s/generic/tool/1.0");
                (lit "SETUP_TOOL", lit "tool 1.0 -f generic -Z /s") ];
     s_aliases := [] |}.
