(* Soundness of the checker of Model/SetupWf.v: a world that passes it satisfies the hypotheses WF
   (Proofs/SetupFrame.v) and WF2 (Proofs/SetupInv.v) of the setup theorems, with the delimiter function
   and the rank function the checker computes. *)
From Eupsv Require Import Base.Base Base.BaseLemmas Model.PathAlg Proofs.PathAlg Model.Setup.
From Eupsv Require Import Proofs.SetupFrame Proofs.SetupInv Model.SetupWf.
From Coq Require Import Lia.

(* ---------------------------------------------------------------- the entries of a table *)

Lemma path_entries_In p var v d :
  In (var, v, d) (path_entries p) <-> exists ap, In (APath ap var v d) (p_actions p).
Proof.
  unfold path_entries. rewrite in_flat_map. split.
  - intros [a [Ha Hx]]. destruct a as [o n j|ap var' v' d'|k x|k|k x|]; cbn [In] in Hx; try contradiction.
    destruct Hx as [E|[]]. injection E as -> -> ->. now exists ap.
  - intros [ap Ha]. exists (APath ap var v d). split; [assumption|now left].
Qed.

Lemma set_entries_In p k v : In (k, v) (set_entries p) <-> In (ASet k v) (p_actions p).
Proof.
  unfold set_entries. rewrite in_flat_map. split.
  - intros [a [Ha Hx]]. destruct a as [o n j|ap var' v' d'|k' x|k'|k' x|]; cbn [In] in Hx; try contradiction.
    destruct Hx as [E|[]]. injection E as -> ->. assumption.
  - intro Ha. exists (ASet k v). split; [assumption|now left].
Qed.

Lemma dep_targets_In p m : In m (dep_targets p) <-> exists o j, In (ASetup o m j) (p_actions p).
Proof.
  unfold dep_targets. rewrite in_flat_map. split.
  - intros [a [Ha Hx]]. destruct a as [o n j|ap var' v' d'|k' x|k'|k' x|]; cbn [In] in Hx; try contradiction.
    destruct Hx as [E|[]]. subst n. now exists o, j.
  - intros [o [j Ha]]. exists (ASetup o m j). split; [assumption|now left].
Qed.

Lemma elem_pairs_In p var v :
  In (var, v) (elem_pairs p) <-> exists ap d, In (APath ap var v d) (p_actions p).
Proof.
  unfold elem_pairs. rewrite in_map_iff. split.
  - intros [[[a b] c] [E Hin]]. cbn [fst snd] in E. injection E as -> ->.
    apply path_entries_In in Hin. destruct Hin as [ap Ha]. now exists ap, c.
  - intros [ap [d Ha]]. exists (var, v, d). split; [reflexivity|]. apply path_entries_In. now exists ap.
Qed.

(* ---------------------------------------------------------------- helpers *)

Lemma pair_eqb_eq a b : pair_eqb a b = true <-> a = b.
Proof.
  destruct a as [a1 a2], b as [b1 b2]. unfold pair_eqb. cbn [fst snd].
  rewrite andb_true_iff, !str_eqb_eq. split; [intros [-> ->]; reflexivity|intro E; injection E; auto].
Qed.

Lemma disjoint_str_spec a b : disjoint_str a b = true -> forall x, In x a -> In x b -> False.
Proof.
  unfold disjoint_str. rewrite forallb_forall. intros H x Ha Hb.
  specialize (H x Ha). apply negb_true_iff in H. apply mem_str_not_In in H. contradiction.
Qed.

Lemma disjoint_pair_spec a b : disjoint_pair a b = true -> forall x, In x a -> In x b -> False.
Proof.
  unfold disjoint_pair. rewrite forallb_forall. intros H x Ha Hb.
  specialize (H x Ha). apply negb_true_iff in H.
  assert (T : existsb (pair_eqb x) b = true) by (apply existsb_exists; exists x; split; [assumption|now apply pair_eqb_eq]).
  rewrite T in H. discriminate.
Qed.

Lemma ends_with_refl p x : ends_with p (x ++ p) = true.
Proof. unfold ends_with. rewrite rev_app_distr. apply starts_with_refl. Qed.

(* the syntactic test covers every variable reserved for some name *)
Lemma reserved_maybe k : reserved k -> maybe_reserved k = true.
Proof.
  intros [n [E|[E|E]]]; subst k; unfold maybe_reserved, setup_var, dir_var, extra_var.
  - now rewrite starts_with_refl.
  - rewrite (ends_with_refl (lit "_DIR")). now rewrite orb_true_r.
  - rewrite (ends_with_refl (lit "_DIR_EXTRA")). now rewrite !orb_true_r.
Qed.

Lemma keys_sound (l : world) :
  check_keys l = true ->
  forall p q, In p l -> In q l -> p_name p = p_name q -> p_version p = p_version q -> p = q.
Proof.
  induction l as [|a l IH]; cbn [check_keys]; [intros _ p q []|].
  intro H. apply andb_true_iff in H. destruct H as [Hn Hl]. apply negb_true_iff in Hn.
  assert (Hno : forall x, In x l -> p_name x = p_name a -> p_version x = p_version a -> False).
  { intros x Hx E1 E2.
    assert (T : existsb (fun q => str_eqb (p_name q) (p_name a) && str_eqb (p_version q) (p_version a)) l = true).
    { apply existsb_exists. exists x. split; [assumption|]. rewrite E1, E2, !str_eqb_refl. reflexivity. }
    rewrite T in Hn. discriminate. }
  intros p q [<-|Hp] [<-|Hq] En Ev.
  - reflexivity.
  - exfalso. now apply (Hno q Hq).
  - exfalso. now apply (Hno p Hp).
  - now apply IH.
Qed.

Lemma word_ok_word x : word_ok x = true -> word x.
Proof.
  unfold word_ok, word. intro H. apply andb_true_iff in H. destruct H as [H1 H2]. split.
  - intros ->. discriminate.
  - now apply negb_true_iff.
Qed.

(* ---------------------------------------------------------------- the fields, one by one *)

Section Sound.
Variable w : world.
Variable order : list str.

Lemma actions_sound :
  check_actions w = true -> forall p a, In p w -> In a (p_actions p) -> action_ok w a = true.
Proof.
  unfold check_actions. rewrite forallb_forall. intros H p a Hp Ha.
  specialize (H p Hp). rewrite forallb_forall in H. now apply H.
Qed.

Lemma path_var_In var : path_var w var -> In var (path_vars w).
Proof.
  unfold path_var, path_vars. intros [p [ap [v [d [Hp Ha]]]]].
  apply in_map_iff. exists (var, v, d). split; [reflexivity|].
  apply in_flat_map. exists p. split; [assumption|]. apply path_entries_In. now exists ap.
Qed.

Lemma set_var_In k : set_var w k -> In k (set_vars w).
Proof.
  unfold set_var, set_vars. intros [p [v [Hp Ha]]].
  apply in_map_iff. exists (k, v). split; [reflexivity|].
  apply in_flat_map. exists p. split; [assumption|]. now apply set_entries_In.
Qed.

Lemma wf_sound : check_actions w = true -> check_vars w = true -> WF w (dl_of w).
Proof.
  intros HA HV. unfold check_vars in HV. apply andb_true_iff in HV. destruct HV as [HP HS].
  rewrite forallb_forall in HP, HS.
  split.
  - intros p ap var v d Hp Ha. pose proof (actions_sound HA p _ Hp Ha) as X. cbn [action_ok] in X.
    apply andb_true_iff in X. destruct X as [X X3]. apply andb_true_iff in X. destruct X as [X1 X2].
    split; [assumption|split; [assumption|]]. now apply ascii_eqb_eq.
  - intros p k v Hp Ha. pose proof (actions_sound HA p _ Hp Ha) as X. cbn [action_ok] in X.
    apply andb_true_iff in X. destruct X as [X1 X2]. split.
    + intros ->. discriminate.
    + now apply negb_true_iff.
  - intros p k Hp Ha. pose proof (actions_sound HA p _ Hp Ha) as X. discriminate.
  - intros var Hv Hs. apply path_var_In in Hv. apply set_var_In in Hs.
    specialize (HP var Hv). apply andb_true_iff in HP. destruct HP as [X _].
    apply negb_true_iff in X. apply mem_str_not_In in X. contradiction.
  - intros var Hv Hr. apply path_var_In in Hv.
    specialize (HP var Hv). apply andb_true_iff in HP. destruct HP as [_ X].
    rewrite (reserved_maybe var Hr) in X. discriminate.
  - intros k Hs Hr. apply set_var_In in Hs. specialize (HS k Hs).
    rewrite (reserved_maybe k Hr) in HS. discriminate.
Qed.

Lemma rank_sound :
  check_rank w order = true -> forall n m, dep_edge w n m -> rank_of order m < rank_of order n.
Proof.
  intros H n m [p [o [j [[Hp Hn] Ha]]]]. unfold check_rank in H. rewrite forallb_forall in H.
  specialize (H p Hp). rewrite forallb_forall in H. subst n. apply Nat.ltb_lt. apply H.
  apply dep_targets_In. now exists o, j.
Qed.

Lemma known_In n : known w n -> In n (known_names w).
Proof.
  intros [p [Hp [E|[o [j Ha]]]]]; unfold known_names; apply uniq_In; apply in_flat_map; exists p;
    (split; [assumption|]).
  - now left.
  - right. apply dep_targets_In. now exists o, j.
Qed.

Lemma own_var_In n k : own_var w n k -> In k (own_vars w n).
Proof.
  unfold own_var, own_vars. intros [E|[E|[E|[p [v [[Hp Hn] Ha]]]]]]; apply in_or_app.
  - left. left. now symmetry.
  - left. right. left. now symmetry.
  - left. right. right. left. now symmetry.
  - right. apply in_map_iff. exists (k, v). split; [reflexivity|]. apply in_flat_map. exists p. split.
    + apply filter_In. split; [assumption|]. now apply str_eqb_eq.
    + now apply set_entries_In.
Qed.

Lemma var_apart_sound :
  check_var_apart w = true ->
  forall n m k, known w n -> known w m -> n <> m -> own_var w n k -> ~ own_var w m k.
Proof.
  intros H n m k Kn Km Hne On Om. unfold check_var_apart in H. rewrite forallb_forall in H.
  specialize (H n (known_In n Kn)). rewrite forallb_forall in H. specialize (H m (known_In m Km)).
  apply orb_true_iff in H. destruct H as [E|D].
  - apply str_eqb_eq in E. contradiction.
  - apply (disjoint_str_spec _ _ D k); now apply own_var_In.
Qed.

Lemma elem_apart_sound :
  check_elem_apart w = true ->
  forall n m var v, n <> m -> own_elem w n var v -> ~ own_elem w m var v.
Proof.
  intros H n m var v Hne [p [ap [d [[Hp Hn] Ha]]]] [q [ap' [d' [[Hq Hm] Ha']]]].
  unfold check_elem_apart in H. rewrite forallb_forall in H. specialize (H p Hp).
  rewrite forallb_forall in H. specialize (H q Hq). apply orb_true_iff in H. destruct H as [E|D].
  - apply str_eqb_eq in E. congruence.
  - apply (disjoint_pair_spec _ _ D (var, v)); apply elem_pairs_In; eauto.
Qed.

Lemma versions_sound :
  check_versions w = true -> check_keys w = true ->
  forall p q, In p w -> In q w -> p_name p = p_name q -> p <> q ->
  disjoint_pair (elem_pairs p) (elem_pairs q) = true /\ disjoint_pair (set_entries p) (set_entries q) = true.
Proof.
  intros H K p q Hp Hq Hn Hne. unfold check_versions in H. rewrite forallb_forall in H.
  specialize (H p Hp). rewrite forallb_forall in H. specialize (H q Hq).
  apply orb_true_iff in H. destruct H as [H|H]; [apply orb_true_iff in H; destruct H as [H|H]|].
  - rewrite Hn, str_eqb_refl in H. discriminate.
  - apply str_eqb_eq in H. exfalso. apply Hne. now apply (keys_sound w K).
  - now apply andb_true_iff in H.
Qed.

Lemma set_once_sound :
  check_set_once w = true ->
  forall p k v v', In p w -> In (ASet k v) (p_actions p) -> In (ASet k v') (p_actions p) -> v = v'.
Proof.
  intros H p k v v' Hp Ha Hb. unfold check_set_once in H. rewrite forallb_forall in H.
  specialize (H p Hp). rewrite forallb_forall in H.
  apply set_entries_In in Ha. apply set_entries_In in Hb.
  specialize (H (k, v) Ha). rewrite forallb_forall in H. specialize (H (k, v') Hb). cbn [fst snd] in H.
  rewrite str_eqb_refl in H. cbn [negb orb] in H. now apply str_eqb_eq.
Qed.

Lemma words_sound :
  check_words w = true ->
  forall p, In p w -> word (p_name p) /\ word (p_version p) /\ p_version p <> lit "-f".
Proof.
  intros H p Hp. unfold check_words in H. rewrite forallb_forall in H. specialize (H p Hp).
  apply andb_true_iff in H. destruct H as [H H3]. apply andb_true_iff in H. destruct H as [H1 H2].
  split; [now apply word_ok_word|split; [now apply word_ok_word|]].
  apply negb_true_iff in H3. now apply str_eqb_neq.
Qed.

(* ---------------------------------------------------------------- the theorem *)

Theorem wf2_check_sound : wf2_check w order = true -> WF2 w (dl_of w) (rank_of order).
Proof.
  unfold wf2_check. rewrite !andb_true_iff.
  intros [[[[[[[[H1 H2] H3] H4] H5] H6] H7] H8] H9]. split.
  - now apply wf_sound.
  - now apply rank_sound.
  - now apply elem_apart_sound.
  - now apply var_apart_sound.
  - intros p q ap var v d ap' d' Hp Hq Hn Hne Ha Hb.
    destruct (versions_sound H6 H8 p q Hp Hq Hn Hne) as [D _].
    apply (disjoint_pair_spec _ _ D (var, v)); apply elem_pairs_In; eauto.
  - intros p q k v Hp Hq Hn Hne Ha Hb.
    destruct (versions_sound H6 H8 p q Hp Hq Hn Hne) as [_ D].
    apply (disjoint_pair_spec _ _ D (k, v)); now apply set_entries_In.
  - now apply set_once_sound.
  - now apply (keys_sound w).
  - now apply words_sound.
Qed.

Corollary wf_check_sound : wf2_check w order = true -> WF w (dl_of w).
Proof. intro H. exact (wf_base w (dl_of w) (rank_of order) (wf2_check_sound H)). Qed.

End Sound.

(* the empty environment is consistent and free of dollar references, whatever the world *)
Lemma Inv_nil w : Inv w [].
Proof.
  intro name. unfold clause, find_setup_product. cbn [alookup].
  intros q _. split.
  - intros ap var v d _ Hin. exact Hin.
  - intros k v _. discriminate.
Qed.

Lemma nodollar_nil w : nodollar_paths w [].
Proof. intros var _. reflexivity. Qed.

Print Assumptions wf2_check_sound.
Print Assumptions wf_check_sound.
