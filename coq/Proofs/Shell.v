(* C05 - lemmas about Model/Shell.v: the lexer of the shell fragment reads the emitter's
   quoting back exactly; the run of the lexed commands has the lookups of the computed
   environment. *)
From Eupsv Require Import Base.Base Base.BaseLemmas Model.Shell Proofs.ShellLib.

(* ------------------------------------------------------------------ character classes *)

(* a character that, outside quotes, simply extends the current word *)
Definition plain_char (c : ascii) : bool :=
  negb (ascii_eqb c c_squote) && negb (is_blank c) && negb (ascii_eqb c c_nl) &&
  negb (ascii_eqb c c_semi) && negb (is_operator c || is_unmodelled c).

Ltac sweep c := destruct c as [[] [] [] [] [] [] [] []]; vm_compute; reflexivity.

Lemma word_plain_b c : implb (is_word c) (plain_char c) = true.
Proof. sweep c. Qed.
Lemma name_start_plain_b c : implb (is_name_start c) (plain_char c) = true.
Proof. sweep c. Qed.
Lemma pathlike_plain_b c : implb (is_pathlike c) (plain_char c) = true.
Proof. sweep c. Qed.
Lemma claim_unspecial_pathlike_b c :
  implb (is_claim_char c && negb (is_re_space c || is_meta c)) (is_pathlike c) = true.
Proof. sweep c. Qed.
Lemma claim_not_squote_b c : implb (is_claim_char c) (negb (ascii_eqb c c_squote)) = true.
Proof. sweep c. Qed.
Lemma claim_not_quote_b c : implb (is_claim_char c) (negb (is_quote_char c)) = true.
Proof. sweep c. Qed.
Lemma word_not_eq_b c : implb (is_word c) (negb (ascii_eqb c c_eq)) = true.
Proof. sweep c. Qed.
Lemma name_start_word_b c : implb (is_name_start c) (is_word c) = true.
Proof. sweep c. Qed.
Lemma word_not_nl_b c : implb (is_word c) (negb (ascii_eqb c c_nl)) = true.
Proof. sweep c. Qed.

Lemma implb_elim (a b : bool) : implb a b = true -> a = true -> b = true.
Proof. destruct a, b; auto. Qed.

Lemma forallb_impl {A} (p q : A -> bool) l :
  (forall x, implb (p x) (q x) = true) -> forallb p l = true -> forallb q l = true.
Proof.
  intros H. induction l as [|x l IH]; [reflexivity|]. cbn [forallb]. intros Hp.
  apply andb_true_iff in Hp. destruct Hp as [H1 H2].
  rewrite (implb_elim _ _ (H x) H1). exact (IH H2).
Qed.

Lemma valid_name_words k : valid_name k = true -> forallb is_word k = true.
Proof.
  destruct k as [|c r]; [discriminate|]. cbn [valid_name forallb]. intros H.
  apply andb_true_iff in H. destruct H as [H1 H2].
  rewrite (implb_elim _ _ (name_start_word_b c) H1). exact H2.
Qed.

Lemma valid_name_plain k : valid_name k = true -> forallb plain_char k = true.
Proof. intros H. exact (forallb_impl _ _ _ word_plain_b (valid_name_words _ H)). Qed.

Lemma valid_name_nonempty k : valid_name k = true -> k <> [].
Proof. destruct k; [discriminate|intros _; discriminate]. Qed.

Lemma mem_ascii_forallb_neg (d : ascii) l :
  forallb (fun c => negb (ascii_eqb c d)) l = true -> mem_ascii d l = false.
Proof.
  induction l as [|x l IH]; [reflexivity|]. cbn [forallb mem_ascii]. intros H.
  apply andb_true_iff in H. destruct H as [H1 H2]. rewrite ascii_eqb_sym.
  apply negb_true_iff in H1. rewrite H1. exact (IH H2).
Qed.

Lemma claim_no_squote v : claim_value v = true -> mem_ascii c_squote v = false.
Proof.
  intros H. apply mem_ascii_forallb_neg. exact (forallb_impl _ _ _ claim_not_squote_b H).
Qed.

Lemma valid_name_no_eq k : valid_name k = true -> mem_ascii c_eq k = false.
Proof.
  intros H. apply mem_ascii_forallb_neg. exact (forallb_impl _ _ _ word_not_eq_b (valid_name_words _ H)).
Qed.

(* ------------------------------------------------------------------ the lexer, step by step *)

Lemma lex_plain_step c cur cmd done r :
  plain_char c = true ->
  lex false cur cmd done (c :: r) = lex false (Some (cur_text cur ++ [c])) cmd done r.
Proof.
  unfold plain_char. intros H.
  repeat (apply andb_true_iff in H; destruct H as [H ?]).
  repeat match goal with X : negb _ = true |- _ => apply negb_true_iff in X end.
  cbn [lex]. rewrite H, H2, H1, H0, H3. reflexivity.
Qed.

Lemma lex_plain w : forall cur cmd done r,
  forallb plain_char w = true ->
  lex false cur cmd done (w ++ r) =
  lex false (if nonempty w then Some (cur_text cur ++ w) else cur) cmd done r.
Proof.
  induction w as [|c w IH]; intros cur cmd done r H; [reflexivity|].
  cbn [forallb] in H. apply andb_true_iff in H. destruct H as [H1 H2].
  cbn [app nonempty]. rewrite (lex_plain_step _ _ _ _ _ H1). rewrite (IH _ _ _ _ H2).
  cbn [cur_text]. destruct w as [|d w]; cbn [nonempty]; [reflexivity|].
  rewrite <- app_assoc. reflexivity.
Qed.

Lemma lex_blank_step cur cmd done r :
  lex false cur cmd done (c_space :: r) = lex false None (flush_word cur cmd) done r.
Proof. reflexivity. Qed.

Lemma lex_in_quote v : forall u cmd done r,
  mem_ascii c_squote v = false ->
  lex true (Some u) cmd done (v ++ c_squote :: r) = lex false (Some (u ++ v)) cmd done r.
Proof.
  induction v as [|c v IH]; intros u cmd done r H.
  - cbn [app lex]. rewrite ascii_eqb_refl. rewrite app_nil_r. reflexivity.
  - cbn [mem_ascii] in H. destruct (ascii_eqb c_squote c) eqn:E; [discriminate|].
    cbn [app lex]. rewrite ascii_eqb_sym, E. cbn [cur_text]. rewrite (IH _ _ _ _ H).
    rewrite <- app_assoc. reflexivity.
Qed.

Lemma lex_quoted v cur cmd done r :
  mem_ascii c_squote v = false ->
  lex false cur cmd done (c_squote :: v ++ c_squote :: r) = lex false (Some (cur_text cur ++ v)) cmd done r.
Proof.
  intros H. cbn [lex]. rewrite ascii_eqb_refl. apply lex_in_quote. exact H.
Qed.

(* ------------------------------------------------------------------ quote_val is read back *)

Lemma strip_final_nl_head v a rest : strip_final_nl v = a :: rest -> exists t, v = a :: t.
Proof.
  unfold strip_final_nl. destruct (rev v) as [|c r] eqn:E.
  - intros H. exists rest. exact H.
  - destruct (ascii_eqb c c_nl); [|intros H; exists rest; exact H].
    intros H. assert (Hv : v = rev r ++ [c]).
    { rewrite <- (rev_involutive v). rewrite E. reflexivity. }
    rewrite H in Hv. exists (rest ++ [c]). exact Hv.
Qed.

Lemma claim_not_looks_quoted v : claim_value v = true -> looks_quoted v = false.
Proof.
  intros Hc. unfold looks_quoted. destruct (strip_final_nl v) as [|a rest] eqn:E; [reflexivity|].
  destruct (strip_final_nl_head _ _ _ E) as [t Ht]. subst v.
  cbn [claim_value forallb] in Hc. apply andb_true_iff in Hc. destruct Hc as [Ha _].
  pose proof (implb_elim _ _ (claim_not_quote_b a) Ha) as Hq. apply negb_true_iff in Hq.
  destruct (rev rest); [reflexivity|]. rewrite Hq. reflexivity.
Qed.

Lemma claim_unspecial_plain v :
  claim_value v = true -> existsb (fun c => is_re_space c || is_meta c) v = false ->
  forallb plain_char v = true.
Proof.
  induction v as [|c v IH]; [reflexivity|]. cbn [claim_value forallb existsb]. intros Hc He.
  apply andb_true_iff in Hc. destruct Hc as [H1 H2].
  apply orb_false_iff in He. destruct He as [E1 E2].
  assert (Hp : is_pathlike c = true).
  { apply (implb_elim _ _ (claim_unspecial_pathlike_b c)). rewrite H1, E1. reflexivity. }
  rewrite (implb_elim _ _ (pathlike_plain_b c) Hp). exact (IH H2 E2).
Qed.

(* the general form: appended to a word that has begun *)
Lemma lex_quote_val v u cmd done r :
  claim_value v = true ->
  lex false (Some u) cmd done (quote_val v ++ r) = lex false (Some (u ++ v)) cmd done r.
Proof.
  intros Hc. unfold quote_val. destruct (needs_quote v) eqn:En.
  - change ((c_squote :: v ++ [c_squote]) ++ r) with (c_squote :: (v ++ [c_squote]) ++ r).
    rewrite <- app_assoc. cbn [app]. rewrite lex_quoted; [reflexivity|]. exact (claim_no_squote _ Hc).
  - unfold needs_quote in En. rewrite (claim_not_looks_quoted _ Hc) in En. cbn [negb] in En.
    rewrite andb_true_r in En. destruct v as [|c v]; [rewrite app_nil_r; reflexivity|].
    cbn [nonempty andb] in En. rewrite (lex_plain _ _ _ _ _ (claim_unspecial_plain _ Hc En)).
    reflexivity.
Qed.

(* the core lemma of DESIGN C05: a quoted value lexes to the one word it denotes *)
Lemma sh_lex_quote_val v :
  claim_value v = true -> v <> [] -> sh_lex (quote_val v) = Ok [[v]].
Proof.
  intros Hc Hne. unfold sh_lex, quote_val. destruct (needs_quote v) eqn:En.
  - change (c_squote :: v ++ [c_squote]) with (c_squote :: v ++ c_squote :: []).
    rewrite lex_quoted; [reflexivity|]. exact (claim_no_squote _ Hc).
  - unfold needs_quote in En. rewrite (claim_not_looks_quoted _ Hc) in En. cbn [negb] in En.
    rewrite andb_true_r in En. destruct v as [|c v]; [congruence|].
    cbn [nonempty andb] in En. rewrite <- (app_nil_r (c :: v)) at 1.
    rewrite (lex_plain _ _ _ _ _ (claim_unspecial_plain _ Hc En)). reflexivity.
Qed.

(* ------------------------------------------------------------------ whole commands *)

Inductive scmd := SExport (k v : str) | SUnset (k : str).

Definition text_of (c : scmd) : str :=
  match c with SExport k v => export_cmd k v | SUnset k => unset_cmd k end.
Definition words_of (c : scmd) : list str :=
  match c with SExport k v => [s_export; k ++ c_eq :: v] | SUnset k => [s_unset; k] end.
Definition scmd_ok (c : scmd) : Prop :=
  match c with
  | SExport k v => valid_name k = true /\ claim_value v = true
  | SUnset k => valid_name k = true
  end.

Lemma s_export_sp_eq : s_export_sp = s_export ++ [c_space].
Proof. reflexivity. Qed.
Lemma s_unset_sp_eq : s_unset_sp = s_unset ++ [c_space].
Proof. reflexivity. Qed.
Lemma s_export_plain : forallb plain_char s_export = true.
Proof. reflexivity. Qed.
Lemma s_unset_plain : forallb plain_char s_unset = true.
Proof. reflexivity. Qed.
Lemma c_eq_plain : plain_char c_eq = true.
Proof. reflexivity. Qed.

(* after the text of a command the lexer holds its last word open and the others in cmd *)
Lemma lex_text_of c done r :
  scmd_ok c ->
  exists ws w, words_of c = ws ++ [w] /\
    lex false None [] done (text_of c ++ r) = lex false (Some w) ws done r.
Proof.
  destruct c as [k v|k]; cbn [scmd_ok text_of words_of].
  - intros [Hk Hv]. exists [s_export], (k ++ c_eq :: v). split; [reflexivity|].
    unfold export_cmd. rewrite s_export_sp_eq. repeat rewrite <- app_assoc.
    rewrite (lex_plain _ _ _ _ _ s_export_plain). cbn [app nonempty cur_text].
    rewrite lex_blank_step. cbn [flush_word app].
    rewrite (lex_plain _ _ _ _ _ (valid_name_plain _ Hk)).
    destruct k as [|c0 k0] eqn:Ek; [discriminate|]. cbn [nonempty cur_text]. rewrite <- Ek.
    cbn [app]. rewrite (lex_plain_step _ _ _ _ _ c_eq_plain). cbn [cur_text].
    rewrite (lex_quote_val _ _ _ _ _ Hv). rewrite <- app_assoc. reflexivity.
  - intros Hk. exists [s_unset], k. split; [reflexivity|].
    unfold unset_cmd. rewrite s_unset_sp_eq. repeat rewrite <- app_assoc.
    rewrite (lex_plain _ _ _ _ _ s_unset_plain). cbn [app nonempty cur_text].
    rewrite lex_blank_step. cbn [flush_word app].
    rewrite (lex_plain _ _ _ _ _ (valid_name_plain _ Hk)).
    destruct k as [|c0 k0]; [discriminate|]. reflexivity.
Qed.

Lemma flush_cmd_snoc ws (w : str) done : flush_cmd (ws ++ [w]) done = done ++ [ws ++ [w]].
Proof. unfold flush_cmd. destruct (ws ++ [w]) eqn:E; [destruct ws; discriminate|reflexivity]. Qed.

Lemma lex_semi_step w ws done r :
  lex false (Some w) ws done (c_semi :: r) = lex false None [] (done ++ [ws ++ [w]]) r.
Proof.
  cbn [lex flush_word]. change (ascii_eqb c_semi c_squote) with false. change (is_blank c_semi) with false.
  change (ascii_eqb c_semi c_nl) with false. change (ascii_eqb c_semi c_semi) with true. cbv iota.
  destruct (ws ++ [w]) eqn:E; [destruct ws; discriminate|reflexivity].
Qed.

Lemma lex_nl_step cur cmd done r :
  lex false cur cmd done (c_nl :: r) = lex false None [] (flush_cmd (flush_word cur cmd) done) r.
Proof. reflexivity. Qed.

Lemma lex_render_from cs : forall done,
  Forall scmd_ok cs ->
  lex false None [] done (render (map text_of cs)) = Ok (done ++ map words_of cs).
Proof.
  unfold render. induction cs as [|c cs IH]; intros done Hok.
  - cbn. rewrite app_nil_r. reflexivity.
  - inversion Hok as [|? ? Hc Hcs]; subst. cbn [map].
    destruct cs as [|c2 cs2].
    + cbn [map join_str].
      destruct (lex_text_of c done [c_nl] Hc) as [ws [w [Hw Hl]]]. rewrite Hl.
      rewrite lex_nl_step. cbn [flush_word]. rewrite flush_cmd_snoc. cbn [lex flush_word flush_cmd].
      rewrite Hw. reflexivity.
    + change (join_str sep (text_of c :: map text_of (c2 :: cs2)))
        with (text_of c ++ sep ++ join_str sep (map text_of (c2 :: cs2))).
      repeat rewrite <- app_assoc. unfold sep at 1. cbn [app].
      destruct (lex_text_of c done (c_semi :: c_nl :: join_str sep (map text_of (c2 :: cs2)) ++ [c_nl]) Hc)
        as [ws [w [Hw Hl]]].
      rewrite Hl. rewrite lex_semi_step. rewrite lex_nl_step. cbn [flush_word flush_cmd].
      rewrite (IH _ Hcs). rewrite <- app_assoc. cbn [app]. rewrite Hw. reflexivity.
Qed.

Lemma sh_lex_render cs :
  Forall scmd_ok cs -> sh_lex (render (map text_of cs)) = Ok (map words_of cs).
Proof. intros H. unfold sh_lex. rewrite (lex_render_from _ _ H). reflexivity. Qed.

(* ------------------------------------------------------------------ running the commands *)

Lemma split_assign_app k v :
  mem_ascii c_eq k = false -> split_assign (k ++ c_eq :: v) = Some (k, v).
Proof.
  induction k as [|c k IH]; cbn [app split_assign mem_ascii]; intros H.
  - rewrite ascii_eqb_refl. reflexivity.
  - destruct (ascii_eqb c_eq c) eqn:E; [discriminate|]. rewrite ascii_eqb_sym, E.
    rewrite (IH H). reflexivity.
Qed.

Lemma run_cmd_export k v e :
  valid_name k = true -> run_cmd (words_of (SExport k v)) e = Ok (aset k v e).
Proof.
  intros Hk. cbn [words_of run_cmd]. change (str_eqb s_export s_export) with true. cbv iota.
  cbn [run_export]. rewrite (split_assign_app _ _ (valid_name_no_eq _ Hk)). rewrite Hk. reflexivity.
Qed.

Lemma run_cmd_unset k e :
  valid_name k = true -> run_cmd (words_of (SUnset k)) e = Ok (aremove k e).
Proof.
  intros Hk. cbn [words_of run_cmd]. change (str_eqb s_unset s_export) with false.
  change (str_eqb s_unset s_unset) with true. cbv iota. cbn [run_unset]. rewrite Hk. reflexivity.
Qed.

Lemma sh_run_app a b e : sh_run (a ++ b) e = bind (sh_run a e) (sh_run b).
Proof.
  revert e. induction a as [|c a IH]; intros e; [reflexivity|].
  cbn [app sh_run]. destruct (run_cmd c e); [|reflexivity]. cbn [bind]. apply IH.
Qed.

Lemma sh_run_exports kvs : forall e,
  forallb valid_name (akeys kvs) = true ->
  sh_run (map words_of (map (fun kv => SExport (fst kv) (snd kv)) kvs)) e = Ok (set_all kvs e).
Proof.
  induction kvs as [|[k v] t IH]; intros e H; [reflexivity|].
  cbn [akeys map forallb fst snd] in H. apply andb_true_iff in H. destruct H as [H1 H2].
  cbn [map sh_run fst snd]. rewrite (run_cmd_export _ _ _ H1). cbn [bind]. exact (IH _ H2).
Qed.

Lemma sh_run_unsets ks : forall e,
  forallb valid_name ks = true ->
  sh_run (map words_of (map SUnset ks)) e = Ok (remove_all ks e).
Proof.
  induction ks as [|k t IH]; intros e H; [reflexivity|].
  cbn [forallb] in H. apply andb_true_iff in H. destruct H as [H1 H2].
  cbn [map sh_run]. rewrite (run_cmd_unset _ _ H1). cbn [bind]. exact (IH _ H2).
Qed.

(* ------------------------------------------------------------------ the emitter as scmd lists *)

Definition export_scmds (old new : env) : list scmd :=
  map (fun kv => SExport (fst kv) (snd kv)) (filter (changed old) new).
Definition unset_keys (is_eups : bool) (old new' : env) : list str :=
  filter (unset_wanted is_eups new') (akeys old).
Definition env_scmds (is_eups fwd : bool) (old new : env) : list scmd :=
  export_scmds old new ++ map SUnset (unset_keys is_eups old (new_after is_eups fwd new)).

Lemma emit_sh_noalias is_eups fwd old new :
  emit Sh is_eups fwd old new [] [] = Ok (map text_of (env_scmds is_eups fwd old new)).
Proof.
  unfold emit, env_scmds, export_scmds, unset_keys, exports, unsets.
  cbn [alias_sets filter map bind alias_unsets akeys]. rewrite app_nil_r.
  rewrite map_app. repeat rewrite map_map. reflexivity.
Qed.

Lemma forallb_filter {A} (p q : A -> bool) l : forallb p l = true -> forallb p (filter q l) = true.
Proof.
  induction l as [|x l IH]; [reflexivity|]. cbn [forallb filter]. intros H.
  apply andb_true_iff in H. destruct H as [H1 H2].
  destruct (q x); [cbn [forallb]; rewrite H1|]; exact (IH H2).
Qed.

Lemma akeys_filter_valid {V} (q : str * V -> bool) (m : amap V) :
  forallb valid_name (akeys m) = true -> forallb valid_name (akeys (filter q m)) = true.
Proof.
  induction m as [|[k v] m IH]; [reflexivity|]. cbn [akeys map forallb filter fst]. intros H.
  apply andb_true_iff in H. destruct H as [H1 H2].
  destruct (q (k, v)); [cbn [map forallb fst]; rewrite H1|]; exact (IH H2).
Qed.

Lemma env_scmds_ok is_eups fwd old new :
  valid_names old = true -> valid_names new = true -> claim_env old new = true ->
  Forall scmd_ok (env_scmds is_eups fwd old new).
Proof.
  intros Ho Hn Hc. unfold env_scmds. apply Forall_app. split.
  - unfold export_scmds. apply Forall_forall. intros c Hin. apply in_map_iff in Hin.
    destruct Hin as [[k v] [Hc0 Hin]]. subst c. apply filter_In in Hin. destruct Hin as [Hin Hch].
    cbn [scmd_ok fst snd]. split.
    + unfold valid_names in Hn. apply (forallb_In _ _ _ Hn). apply in_map_iff. exists (k, v). split; [reflexivity|exact Hin].
    + unfold claim_env in Hc. pose proof (forallb_In _ _ _ Hc Hin) as H. cbn [snd] in H.
      rewrite Hch in H. exact H.
  - apply Forall_forall. intros c Hin. apply in_map_iff in Hin. destruct Hin as [k [Hc0 Hin]]. subst c.
    cbn [scmd_ok]. unfold unset_keys in Hin. apply filter_In in Hin. destruct Hin as [Hin _].
    unfold valid_names in Ho. exact (forallb_In _ _ _ Ho Hin).
Qed.

(* the environment the model shell ends with when it starts from e *)
Definition final_env_from (e : env) (is_eups fwd : bool) (old new : env) : env :=
  remove_all (unset_keys is_eups old (new_after is_eups fwd new)) (set_all (filter (changed old) new) e).
Definition final_env (is_eups fwd : bool) (old new : env) : env := final_env_from old is_eups fwd old new.

Lemma sh_run_env_scmds_from e is_eups fwd old new :
  valid_names old = true -> valid_names new = true ->
  sh_run (map words_of (env_scmds is_eups fwd old new)) e = Ok (final_env_from e is_eups fwd old new).
Proof.
  intros Ho Hn. unfold env_scmds, export_scmds. rewrite map_app. rewrite sh_run_app.
  rewrite sh_run_exports; [|apply akeys_filter_valid; exact Hn]. cbn [bind].
  rewrite sh_run_unsets; [reflexivity|]. unfold unset_keys. apply forallb_filter. exact Ho.
Qed.

Lemma sh_run_env_scmds is_eups fwd old new :
  valid_names old = true -> valid_names new = true ->
  sh_run (map words_of (env_scmds is_eups fwd old new)) old = Ok (final_env is_eups fwd old new).
Proof. apply sh_run_env_scmds_from. Qed.

(* ------------------------------------------------------------------ lookups *)

Lemma changed_false_eq old k v : changed old (k, v) = false -> alookup k old = Some v.
Proof.
  unfold changed. cbn [fst snd]. destruct (alookup k old) as [v'|]; [|discriminate].
  intros H. apply negb_false_iff in H. apply str_eqb_eq in H. congruence.
Qed.

Lemma alookup_exports k old new :
  NoDup (akeys new) ->
  alookup k (set_all (filter (changed old) new) old) =
  match alookup k new with Some v => Some v | None => alookup k old end.
Proof.
  intros Hnd. rewrite alookup_set_all; [|apply NoDup_keys_filter; exact Hnd].
  rewrite (alookup_filter _ _ _ Hnd). destruct (alookup k new) as [v|]; [|reflexivity].
  destruct (changed old (k, v)) eqn:E; [reflexivity|]. exact (changed_false_eq _ _ _ E).
Qed.

Lemma alookup_new_after k is_eups fwd new :
  alookup k (new_after is_eups fwd new) =
  if negb fwd && is_eups && mem_str k eups_gone then None else alookup k new.
Proof.
  unfold new_after. destruct (negb fwd && is_eups); [|reflexivity].
  exact (alookup_remove_all k eups_gone new).
Qed.

Lemma alookup_protect k is_eups old new' :
  alookup k (protect is_eups old new') =
  match alookup k new' with
  | Some v => Some v
  | None => if negb is_eups && is_protected k then alookup k old else None
  end.
Proof.
  unfold protect. rewrite alookup_app. destruct (alookup k new') as [v|] eqn:E; [reflexivity|].
  rewrite (alookup_filter_key _ (fun k => negb is_eups && is_protected k && negb (amem k new'))).
  - unfold amem. rewrite E. cbn [negb]. rewrite andb_true_r. reflexivity.
  - intros kv. reflexivity.
Qed.

Lemma alookup_final_from e k is_eups fwd old new :
  NoDup (akeys new) ->
  alookup k (final_env_from e is_eups fwd old new) =
  if amem k old && unset_wanted is_eups (new_after is_eups fwd new) k then None
  else match alookup k (filter (changed old) new) with Some v => Some v | None => alookup k e end.
Proof.
  intros Hnd. unfold final_env_from. rewrite alookup_remove_all. unfold unset_keys.
  rewrite mem_str_filter. rewrite mem_str_akeys.
  rewrite alookup_set_all; [reflexivity|]. apply NoDup_keys_filter. exact Hnd.
Qed.

Lemma alookup_final k is_eups fwd old new :
  NoDup (akeys new) ->
  alookup k (final_env is_eups fwd old new) =
  if amem k old && unset_wanted is_eups (new_after is_eups fwd new) k then None
  else match alookup k new with Some v => Some v | None => alookup k old end.
Proof.
  intros Hnd. unfold final_env, final_env_from. rewrite alookup_remove_all. unfold unset_keys.
  rewrite mem_str_filter. rewrite mem_str_akeys. rewrite (alookup_exports _ _ _ Hnd). reflexivity.
Qed.

Lemma gone_ok_use is_eups fwd old new k :
  gone_ok is_eups fwd old new = true ->
  negb fwd && is_eups && mem_str k eups_gone = true ->
  amem k new = true -> amem k old = true.
Proof.
  unfold gone_ok. intros Hg Hc Hn.
  apply andb_true_iff in Hc. destruct Hc as [Hc Hm]. rewrite Hc in Hg.
  apply mem_str_In in Hm. pose proof (forallb_In _ _ _ Hg Hm) as H. cbn beta in H.
  rewrite Hn in H. exact H.
Qed.

Lemma final_equiv_protect is_eups fwd old new :
  NoDup (akeys new) -> gone_ok is_eups fwd old new = true ->
  env_equiv (final_env is_eups fwd old new) (protect is_eups old (new_after is_eups fwd new)).
Proof.
  intros Hnd Hg k. rewrite (alookup_final _ _ _ _ _ Hnd). rewrite alookup_protect.
  unfold unset_wanted. unfold amem at 2. rewrite alookup_new_after.
  destruct (negb fwd && is_eups && mem_str k eups_gone) eqn:Egone.
  - (* one of the three variables that unsetup of eups deletes at the end *)
    assert (He : is_eups = true).
    { destruct is_eups; [reflexivity|]. rewrite andb_false_r in Egone. discriminate. }
    subst is_eups. cbn [negb andb]. destruct (amem k old) eqn:Eo; cbn [andb]; [reflexivity|].
    destruct (alookup k new) as [v|] eqn:En.
    + pose proof (gone_ok_use _ _ _ _ _ Hg Egone) as H. unfold amem at 1 in H. rewrite En in H.
      specialize (H eq_refl). congruence.
    + unfold amem in Eo. destruct (alookup k old); [discriminate|reflexivity].
  - destruct (alookup k new) as [v|] eqn:En.
    + cbn [negb]. rewrite andb_false_r. rewrite andb_false_r. reflexivity.
    + cbn [negb]. rewrite andb_true_r. unfold amem.
      destruct (alookup k old) as [vo|] eqn:Eo; cbn [andb].
      * destruct (negb is_eups && is_protected k); reflexivity.
      * destruct (negb is_eups && is_protected k); reflexivity.
Qed.

Lemma in_claim_elim is_eups fwd old new :
  in_claim is_eups fwd old new = true ->
  valid_names old = true /\ valid_names new = true /\ nodup_keys (akeys new) = true /\
  claim_env old new = true /\ gone_ok is_eups fwd old new = true.
Proof.
  unfold in_claim. intros H. repeat (apply andb_true_iff in H; destruct H as [H ?]). auto.
Qed.

(* ------------------------------------------------------------------ --force *)

Lemma alookup_forget k forced caller :
  alookup k (forget forced caller) = if mem_str k forced then None else alookup k caller.
Proof. exact (alookup_remove_all k forced caller). Qed.

Lemma final_equiv_protect_forced is_eups fwd caller forced new :
  NoDup (akeys new) -> gone_ok is_eups fwd (forget forced caller) new = true ->
  forced_ok forced (new_after is_eups fwd new) = true ->
  env_equiv (final_env_from caller is_eups fwd (forget forced caller) new)
            (protect is_eups caller (new_after is_eups fwd new)).
Proof.
  intros Hnd Hg Hf k. set (old := forget forced caller) in *.
  destruct (mem_str k forced) eqn:Ef.
  - (* a forgotten variable: present in the computed environment, hence exported *)
    assert (Hold : alookup k old = None) by (unfold old; rewrite alookup_forget, Ef; reflexivity).
    apply mem_str_In in Ef. pose proof (forallb_In _ _ _ Hf Ef) as Hin. cbn beta in Hin.
    unfold amem in Hin. destruct (alookup k (new_after is_eups fwd new)) as [v|] eqn:En'; [|discriminate].
    rewrite alookup_protect, En'.
    assert (En : alookup k new = Some v).
    { rewrite alookup_new_after in En'. destruct (negb fwd && is_eups && mem_str k eups_gone); [discriminate|exact En']. }
    rewrite (alookup_final_from _ _ _ _ _ _ Hnd). unfold amem at 1. rewrite Hold. cbn [andb].
    rewrite (alookup_filter _ _ _ Hnd), En. unfold changed. cbn [fst snd]. rewrite Hold. reflexivity.
  - (* any other variable: the baseline and the caller's environment agree on it *)
    assert (Hold : alookup k old = alookup k caller) by (unfold old; rewrite alookup_forget, Ef; reflexivity).
    transitivity (alookup k (final_env is_eups fwd old new)).
    + unfold final_env. repeat rewrite (alookup_final_from _ _ _ _ _ _ Hnd). rewrite Hold. reflexivity.
    + rewrite (final_equiv_protect _ _ _ _ Hnd Hg k). repeat rewrite alookup_protect. rewrite Hold. reflexivity.
Qed.

Lemma emit_sound_forced_lemma is_eups fwd caller forced new :
  in_claim is_eups fwd (forget forced caller) new = true ->
  forced_ok forced (new_after is_eups fwd new) = true ->
  exists cmds env',
    emit Sh is_eups fwd (forget forced caller) new [] [] = Ok cmds /\
    sh_source (render cmds) caller = Ok env' /\
    env_equiv env' (protect is_eups caller (new_after is_eups fwd new)).
Proof.
  intros Hc Hf. destruct (in_claim_elim _ _ _ _ Hc) as [Ho [Hn [Hnd [Hcl Hg]]]].
  exists (map text_of (env_scmds is_eups fwd (forget forced caller) new)),
         (final_env_from caller is_eups fwd (forget forced caller) new).
  split; [apply emit_sh_noalias|]. split.
  - unfold sh_source. rewrite (sh_lex_render _ (env_scmds_ok _ _ _ _ Ho Hn Hcl)). cbn [bind].
    exact (sh_run_env_scmds_from _ _ _ _ _ Ho Hn).
  - exact (final_equiv_protect_forced _ _ _ _ _ (nodup_keys_NoDup _ Hnd) Hg Hf).
Qed.

(* ------------------------------------------------------------------ the headline lemma *)

Lemma emit_sound_lemma is_eups fwd old new :
  valid_names old = true -> valid_names new = true -> nodup_keys (akeys new) = true ->
  claim_env old new = true -> gone_ok is_eups fwd old new = true ->
  exists cmds env',
    emit Sh is_eups fwd old new [] [] = Ok cmds /\
    sh_source (render cmds) old = Ok env' /\
    env_equiv env' (protect is_eups old (new_after is_eups fwd new)).
Proof.
  intros Ho Hn Hnd Hc Hg.
  exists (map text_of (env_scmds is_eups fwd old new)), (final_env is_eups fwd old new).
  split; [apply emit_sh_noalias|]. split.
  - unfold sh_source. rewrite (sh_lex_render _ (env_scmds_ok _ _ _ _ Ho Hn Hc)). cbn [bind].
    exact (sh_run_env_scmds _ _ _ _ Ho Hn).
  - exact (final_equiv_protect _ _ _ _ (nodup_keys_NoDup _ Hnd) Hg).
Qed.

Lemma failed_changes_nothing e : sh_source (render emit_failed) e = Ok e.
Proof. reflexivity. Qed.

(* ------------------------------------------------------------------ consequences, per variable *)

Lemma sourced_lookup is_eups fwd old new env' :
  in_claim is_eups fwd old new = true -> sourced is_eups fwd old new env' ->
  env_equiv env' (protect is_eups old (new_after is_eups fwd new)).
Proof.
  intros Hc [cmds [He Hs]]. destruct (in_claim_elim _ _ _ _ Hc) as [Ho [Hn [Hnd [Hcl Hg]]]].
  destruct (emit_sound_lemma _ _ _ _ Ho Hn Hnd Hcl Hg) as [cmds2 [env2 [He2 [Hs2 Heq]]]].
  rewrite He in He2. inversion He2; subst cmds2. rewrite Hs in Hs2. inversion Hs2; subst env2. exact Heq.
Qed.

Lemma sourced_new_wins is_eups fwd old new env' k v :
  in_claim is_eups fwd old new = true -> sourced is_eups fwd old new env' ->
  alookup k (new_after is_eups fwd new) = Some v -> alookup k env' = Some v.
Proof.
  intros Hc Hs Hk. rewrite (sourced_lookup _ _ _ _ _ Hc Hs k). rewrite alookup_protect. rewrite Hk. reflexivity.
Qed.

Lemma sourced_removed is_eups fwd old new env' k :
  in_claim is_eups fwd old new = true -> sourced is_eups fwd old new env' ->
  alookup k (new_after is_eups fwd new) = None -> negb is_eups && is_protected k = false ->
  alookup k env' = None.
Proof.
  intros Hc Hs Hk Hp. rewrite (sourced_lookup _ _ _ _ _ Hc Hs k). rewrite alookup_protect. rewrite Hk, Hp. reflexivity.
Qed.

Lemma sourced_protected is_eups fwd old new env' k :
  in_claim is_eups fwd old new = true -> sourced is_eups fwd old new env' ->
  alookup k (new_after is_eups fwd new) = None -> negb is_eups && is_protected k = true ->
  alookup k env' = alookup k old.
Proof.
  intros Hc Hs Hk Hp. rewrite (sourced_lookup _ _ _ _ _ Hc Hs k). rewrite alookup_protect. rewrite Hk, Hp. reflexivity.
Qed.

Lemma emit_aliases_after is_eups fwd old new al oldal :
  exists envcmds a,
    emit Sh is_eups fwd old new [] [] = Ok envcmds /\
    emit Sh is_eups fwd old new al oldal = Ok (envcmds ++ a).
Proof.
  unfold emit. cbn [alias_sets filter map bind alias_unsets akeys]. eexists. eexists. split.
  - rewrite app_nil_r. reflexivity.
  - reflexivity.
Qed.
