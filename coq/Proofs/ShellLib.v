(* Helper lemmas for the C05 development that are not specific to the shell model:
   association-list lookups through folds, filters and appends; boolean NoDup. *)
From Eupsv Require Import Base.Base Base.BaseLemmas Model.Shell.

Lemma alookup_notin {V} k (m : amap V) : ~ In k (akeys m) -> alookup k m = None.
Proof.
  induction m as [|[k1 v1] m IH]; intros Hn; [reflexivity|].
  cbn [alookup]. destruct (str_eqb_spec k k1) as [->|Hne].
  - exfalso. apply Hn. left. reflexivity.
  - apply IH. intros Hin. apply Hn. right. exact Hin.
Qed.

Lemma alookup_in_keys {V} k (m : amap V) v : alookup k m = Some v -> In k (akeys m).
Proof.
  induction m as [|[k1 v1] m IH]; cbn [alookup]; [discriminate|].
  destruct (str_eqb_spec k k1) as [->|Hne]; intros H.
  - left. reflexivity.
  - right. exact (IH H).
Qed.

Lemma alookup_none_notin {V} k (m : amap V) : alookup k m = None -> ~ In k (akeys m).
Proof.
  induction m as [|[k1 v1] m IH]; cbn [alookup]; intros H Hin; [exact Hin|].
  destruct (str_eqb_spec k k1) as [->|Hne]; [discriminate|].
  destruct Hin as [Heq|Hin]; [cbn in Heq; congruence|exact (IH H Hin)].
Qed.

Lemma amem_alookup {V} k (m : amap V) : amem k m = match alookup k m with Some _ => true | None => false end.
Proof. reflexivity. Qed.

Lemma amem_true_in {V} k (m : amap V) : amem k m = true <-> In k (akeys m).
Proof.
  unfold amem. split.
  - destruct (alookup k m) eqn:E; [intros _; eapply alookup_in_keys; eauto|discriminate].
  - intros Hin. destruct (alookup k m) eqn:E; [reflexivity|].
    exfalso. exact (alookup_none_notin _ _ E Hin).
Qed.

Lemma alookup_app {V} k (a b : amap V) :
  alookup k (a ++ b) = match alookup k a with Some v => Some v | None => alookup k b end.
Proof.
  induction a as [|[k1 v1] a IH]; [reflexivity|].
  cbn [app alookup]. destruct (str_eqb k k1); [reflexivity|exact IH].
Qed.

(* a filter that looks at the key only *)
Lemma alookup_filter_key {V} (q : str * V -> bool) (q' : str -> bool) k (m : amap V) :
  (forall kv, q kv = q' (fst kv)) ->
  alookup k (filter q m) = if q' k then alookup k m else None.
Proof.
  intros Hq. induction m as [|[k1 v1] m IH].
  - cbn. destruct (q' k); reflexivity.
  - cbn [filter]. rewrite Hq. cbn [fst]. destruct (q' k1) eqn:E1.
    + cbn [alookup]. destruct (str_eqb_spec k k1) as [->|Hne].
      * rewrite E1. reflexivity.
      * exact IH.
    + rewrite IH. cbn [alookup]. destruct (str_eqb_spec k k1) as [->|Hne].
      * rewrite E1. reflexivity.
      * reflexivity.
Qed.

(* boolean NoDup *)
Lemma nodup_keys_NoDup l : nodup_keys l = true -> NoDup l.
Proof.
  induction l as [|k l IH]; cbn [nodup_keys]; intros H; [constructor|].
  apply andb_true_iff in H. destruct H as [H1 H2].
  constructor; [|exact (IH H2)].
  apply negb_true_iff in H1. apply mem_str_not_In. exact H1.
Qed.

(* a filter that looks at the value too needs unique keys *)
Lemma alookup_filter {V} (q : str * V -> bool) k (m : amap V) :
  NoDup (akeys m) ->
  alookup k (filter q m) =
  match alookup k m with Some v => if q (k, v) then Some v else None | None => None end.
Proof.
  induction m as [|[k1 v1] m IH]; intros Hnd; [reflexivity|].
  inversion Hnd as [|? ? Hn Hnd']; subst.
  cbn [filter alookup]. destruct (str_eqb_spec k k1) as [->|Hne].
  - destruct (q (k1, v1)) eqn:E.
    + cbn [alookup]. rewrite str_eqb_refl. reflexivity.
    + apply alookup_notin. intros Hin. apply Hn.
      unfold akeys in *. apply in_map_iff in Hin. destruct Hin as [[k2 v2] [Hk Hin]].
      apply filter_In in Hin. destruct Hin as [Hin _]. apply in_map_iff. exists (k2, v2). split; assumption.
  - destruct (q (k1, v1)).
    + cbn [alookup]. destruct (str_eqb_spec k k1); [congruence|]. exact (IH Hnd').
    + exact (IH Hnd').
Qed.

Lemma NoDup_keys_filter {V} (q : str * V -> bool) (m : amap V) : NoDup (akeys m) -> NoDup (akeys (filter q m)).
Proof.
  induction m as [|[k1 v1] m IH]; intros Hnd; [constructor|].
  inversion Hnd as [|? ? Hn Hnd']; subst. cbn [filter].
  destruct (q (k1, v1)); [|exact (IH Hnd')].
  cbn. constructor; [|exact (IH Hnd')].
  intros Hin. apply Hn. unfold akeys in *. apply in_map_iff in Hin. destruct Hin as [[k2 v2] [Hk Hin]].
  apply filter_In in Hin. destruct Hin as [Hin _]. apply in_map_iff. exists (k2, v2). split; assumption.
Qed.

(* a run of assignments *)
Definition set_all (kvs : amap str) (e : amap str) : amap str :=
  fold_left (fun e kv => aset (fst kv) (snd kv) e) kvs e.

Lemma alookup_set_all k (kvs e : amap str) :
  NoDup (akeys kvs) ->
  alookup k (set_all kvs e) = match alookup k kvs with Some v => Some v | None => alookup k e end.
Proof.
  revert e. induction kvs as [|[k1 v1] t IH]; intros e Hnd; [reflexivity|].
  inversion Hnd as [|? ? Hn Hnd']; subst.
  unfold set_all in *. cbn [fold_left fst snd]. rewrite (IH _ Hnd').
  cbn [alookup]. destruct (str_eqb_spec k k1) as [->|Hne].
  - rewrite (alookup_notin _ _ Hn). apply alookup_aset_same.
  - destruct (alookup k t); [reflexivity|]. apply alookup_aset_other. exact Hne.
Qed.

(* a run of removals *)
Definition remove_all (ks : list str) (e : amap str) : amap str :=
  fold_left (fun e k => aremove k e) ks e.

Lemma alookup_remove_all k ks (e : amap str) :
  alookup k (remove_all ks e) = if mem_str k ks then None else alookup k e.
Proof.
  revert e. induction ks as [|k1 t IH]; intros e; [reflexivity|].
  unfold remove_all in *. cbn [fold_left mem_str]. rewrite IH.
  destruct (str_eqb_spec k k1) as [->|Hne].
  - destruct (mem_str k1 t); [reflexivity|]. apply alookup_aremove_same.
  - destruct (mem_str k t); [reflexivity|]. apply alookup_aremove_other. exact Hne.
Qed.

Lemma mem_str_filter (p : str -> bool) k l : mem_str k (filter p l) = mem_str k l && p k.
Proof.
  induction l as [|x l IH]; [reflexivity|].
  cbn [filter mem_str]. destruct (p x) eqn:Ep.
  - cbn [mem_str]. destruct (str_eqb_spec k x) as [->|Hne]; [rewrite Ep; reflexivity|exact IH].
  - rewrite IH. destruct (str_eqb_spec k x) as [->|Hne]; [|reflexivity].
    rewrite Ep. destruct (mem_str x l); reflexivity.
Qed.

Lemma mem_str_akeys {V} k (m : amap V) : mem_str k (akeys m) = amem k m.
Proof.
  destruct (amem k m) eqn:E.
  - apply mem_str_In. apply amem_true_in. exact E.
  - apply mem_str_not_In. intros Hin. apply amem_true_in in Hin. congruence.
Qed.

Lemma forallb_In {A} (p : A -> bool) l x : forallb p l = true -> In x l -> p x = true.
Proof. intros H Hin. rewrite forallb_forall in H. exact (H x Hin). Qed.
