(* C05, extension - lemmas about Model/ShellSession.v *)
From Eupsv Require Import Base.Base Base.BaseLemmas Model.Shell Model.ShellSession Proofs.ShellLib Proofs.Shell.

(* ------------------------------------------------------------------ the front end *)

Lemma cli_stdout_render nv quiet cmds : cli_stdout nv quiet cmds = render cmds.
Proof. reflexivity. Qed.

Lemma front_end_listing nv quiet cmds :
  snd (front_end nv quiet cmds) = if 3 <? effective_verbose nv quiet then Some (listing cmds) else None.
Proof. reflexivity. Qed.

(* ------------------------------------------------------------------ a shell that starts from an equivalent environment *)

Lemma final_from_equiv S is_eups fwd old new :
  NoDup (akeys new) -> env_equiv S old ->
  env_equiv (final_env_from S is_eups fwd old new) (final_env is_eups fwd old new).
Proof.
  intros Hnd He k. unfold final_env.
  rewrite (alookup_final_from S _ _ _ _ _ Hnd). rewrite (alookup_final_from old _ _ _ _ _ Hnd).
  rewrite (He k). reflexivity.
Qed.

Lemma emit_sound_from S is_eups fwd old new :
  in_claim is_eups fwd old new = true -> env_equiv S old ->
  exists cmds env',
    emit Sh is_eups fwd old new [] [] = Ok cmds /\
    sh_source (render cmds) S = Ok env' /\
    env_equiv env' (protect is_eups old (new_after is_eups fwd new)).
Proof.
  intros Hc He. destruct (in_claim_elim _ _ _ _ Hc) as [Ho [Hn [Hnd [Hcl Hg]]]].
  exists (map text_of (env_scmds is_eups fwd old new)), (final_env_from S is_eups fwd old new).
  split; [apply emit_sh_noalias|]. split.
  - unfold sh_source. rewrite (sh_lex_render _ (env_scmds_ok _ _ _ _ Ho Hn Hcl)). cbn [bind].
    exact (sh_run_env_scmds_from _ _ _ _ _ Ho Hn).
  - intros k. rewrite (final_from_equiv S _ _ _ _ (nodup_keys_NoDup _ Hnd) He k).
    exact (final_equiv_protect _ _ _ _ (nodup_keys_NoDup _ Hnd) Hg k).
Qed.

(* ------------------------------------------------------------------ sessions, call by call *)

Fixpoint steps_sound (cur : env) (steps : list (env * str)) (calls : list apicall) : Prop :=
  match steps, calls with
  | [], [] => True
  | (b, text) :: s, c :: r =>
      b = cur /\
      (exists env', sh_source text b = Ok env' /\ env_equiv env' (call_shell_env b c)) /\
      steps_sound (call_after c) s r
  | _, _ => False
  end.

Lemma call_in_claim_call cur is_eups fwd new al oldal :
  call_in_claim cur (Call is_eups fwd new al oldal) = true ->
  in_claim is_eups fwd cur new = true /\ al = [] /\ oldal = [].
Proof.
  cbn [call_in_claim]. intros H. apply andb_true_iff in H. destruct H as [H1 H2].
  destruct al; [|discriminate]. destruct oldal; [|discriminate]. repeat split. exact H1.
Qed.

Lemma api_session_sound_lemma calls : forall cur,
  session_in_claim cur calls = true ->
  exists steps, api_session cur calls = Ok steps /\ steps_sound cur steps calls.
Proof.
  induction calls as [|c r IH]; intros cur H.
  - exists []. split; [reflexivity|exact I].
  - cbn [session_in_claim] in H. apply andb_true_iff in H. destruct H as [Hc Hr].
    destruct (IH _ Hr) as [rest [Er Sr]].
    destruct c as [is_eups fwd new al oldal|lft].
    + destruct (call_in_claim_call _ _ _ _ _ _ Hc) as [Hin [Ea Eo]]. subst al oldal.
      assert (He : env_equiv cur cur) by (intros k; reflexivity).
      destruct (emit_sound_from cur _ _ _ _ Hin He) as [cmds [env' [Em [Es Eq]]]].
      exists ((cur, render cmds) :: rest). split.
      * cbn [api_session call_cmds]. rewrite Em. cbn [bind]. rewrite Er. reflexivity.
      * cbn [steps_sound]. split; [reflexivity|]. split; [|exact Sr].
        exists env'. split; [exact Es|exact Eq].
    + exists ((cur, render emit_failed) :: rest). split.
      * cbn [api_session call_cmds bind]. rewrite Er. reflexivity.
      * cbn [steps_sound]. split; [reflexivity|]. split; [|exact Sr].
        exists cur. split; [apply failed_changes_nothing|intros k; reflexivity].
Qed.

(* ------------------------------------------------------------------ sessions, one shell for all the calls *)

Lemma protect_keeps is_eups cur new' :
  forallb (fun k => is_eups || negb (is_protected k) || amem k new') (akeys cur) = true ->
  env_equiv (protect is_eups cur new') new'.
Proof.
  intros H k. rewrite alookup_protect. destruct (alookup k new') as [v|] eqn:En; [reflexivity|].
  destruct (negb is_eups && is_protected k) eqn:Ep; [|reflexivity].
  destruct (alookup k cur) as [v|] eqn:Ec; [|reflexivity]. exfalso.
  apply alookup_in_keys in Ec. pose proof (forallb_In _ _ _ H Ec) as Hk. cbn beta in Hk.
  apply andb_true_iff in Ep. destruct Ep as [Ee Epk].
  unfold amem in Hk. rewrite En, Epk in Hk. destruct is_eups; discriminate.
Qed.

Lemma api_session_chained_lemma calls : forall cur S,
  session_in_claim cur calls = true -> session_keeps cur calls = true -> env_equiv S cur ->
  exists steps env',
    api_session cur calls = Ok steps /\
    sh_chain (map snd steps) S = Ok env' /\
    env_equiv env' (session_final cur calls).
Proof.
  induction calls as [|c r IH]; intros cur S H K He.
  - exists [], S. split; [reflexivity|]. split; [reflexivity|exact He].
  - cbn [session_in_claim] in H. apply andb_true_iff in H. destruct H as [Hc Hr].
    cbn [session_keeps] in K. apply andb_true_iff in K. destruct K as [Kc Kr].
    destruct c as [is_eups fwd new al oldal|lft]; [|discriminate].
    destruct (call_in_claim_call _ _ _ _ _ _ Hc) as [Hin [Ea Eo]]. subst al oldal.
    destruct (emit_sound_from S _ _ _ _ Hin He) as [cmds [env1 [Em [Es Eq]]]].
    assert (He1 : env_equiv env1 (call_after (Call is_eups fwd new [] []))).
    { intros k. rewrite (Eq k). exact (protect_keeps _ _ _ Kc k). }
    destruct (IH _ env1 Hr Kr He1) as [rest [env' [Er [Ech Efin]]]].
    exists ((cur, render cmds) :: rest), env'. split.
    + cbn [api_session call_cmds]. rewrite Em. cbn [bind]. rewrite Er. reflexivity.
    + split; [|exact Efin]. cbn [map snd sh_chain]. rewrite Es. cbn [bind]. exact Ech.
Qed.
