(* Lemmas about Model/UsesSeq.v: sessions of queries and database changes on one instance (C13). *)
From Coq Require Import Lia.
From Eupsv Require Import Base.Base Base.BaseLemmas Model.Graph Model.UsesSeq.
From Eupsv Require Import Proofs.GraphLib Proofs.GraphWalk Proofs.GraphListing Proofs.GraphOrder Proofs.GraphTotal.

(* ------------------------------------------------------------------ the world a database denotes *)

Lemma table_of_map (f : list tline -> list edge) d n v :
  table_of (map (fun it : (str * str) * list tline => (fst it, f (snd it))) d) n v = option_map f (lines_of d n v).
Proof.
  induction d as [|[[n' v'] ls] r IH]; simpl; [reflexivity|].
  destruct (str_eqb n n' && str_eqb v v'); [reflexivity | exact IH].
Qed.

Lemma table_of_world_of extra db n v :
  table_of (world_of extra db) n v =
  option_map (fun ls => map (resolve_line db) ls ++ extra) (lines_of (sd_decl db) n v).
Proof. unfold world_of. apply (table_of_map (fun ls => map (resolve_line db) ls ++ extra)). Qed.

Lemma declared_world_of extra db n v : declared (world_of extra db) n v = sdeclared db n v.
Proof.
  unfold declared, sdeclared. rewrite table_of_world_of. destruct (lines_of (sd_decl db) n v); reflexivity.
Qed.

Lemma world_of_keys extra db : map fst (world_of extra db) = map fst (sd_decl db).
Proof. unfold world_of. rewrite map_map. reflexivity. Qed.

Lemma world_of_length extra db : length (world_of extra db) = length (sd_decl db).
Proof. unfold world_of. apply map_length. Qed.

Lemma current_of_declared db n v : current_of db n = Some v -> sdeclared db n v = true.
Proof.
  unfold current_of. destruct (cur_get (sd_cur db) n) as [u|]; [|discriminate].
  destruct (sdeclared db n u) eqn:E; [|discriminate]. intros H. inversion H. subst. exact E.
Qed.

(* the edges every table ends with denote nothing declared and carry no version text *)
Definition extras_plain (extra : list edge) : Prop :=
  forall e, In e extra -> eres e = None /\ evers e = None.

Lemma resolve_line_wf extra db l :
  (forall r, eres (resolve_line db l) = Some r -> declared (world_of extra db) (ename (resolve_line db l)) r = true) /\
  (forall v', eres (resolve_line db l) = None -> evers (resolve_line db l) = Some v' ->
              declared (world_of extra db) (ename (resolve_line db l)) v' = false).
Proof.
  unfold resolve_line. destruct (tl_vers l) as [v|]; simpl.
  - destruct (sdeclared db (tl_name l) v) eqn:E; split.
    + intros r H. inversion H. subst. rewrite declared_world_of. exact E.
    + discriminate.
    + discriminate.
    + intros v' _ H. inversion H. subst. rewrite declared_world_of. exact E.
  - split.
    + intros r H. rewrite declared_world_of. apply current_of_declared, H.
    + discriminate.
Qed.

Lemma world_of_wf extra db : extras_plain extra -> wf_world (world_of extra db).
Proof.
  intros Hx n v es e T I. rewrite table_of_world_of in T.
  destruct (lines_of (sd_decl db) n v) as [ls|]; [|discriminate]. simpl in T. inversion T. subst es.
  apply in_app_or in I as [I|I].
  - apply in_map_iff in I as [l [<- _]]. apply resolve_line_wf.
  - destruct (Hx e I) as [A B]. split; [intros r H; congruence | intros v' _ H; congruence].
Qed.

(* ------------------------------------------------------------------ sessions *)

Lemma session_last_answer extra db h q :
  run_session extra db (h ++ [SAsk q]) =
  run_session extra db h ++ [answer_on (world_after extra db (changes_of h)) q].
Proof.
  revert db. induction h as [|[q'|o] r IH]; intros db; simpl.
  - reflexivity.
  - rewrite IH. reflexivity.
  - rewrite IH. reflexivity.
Qed.

Lemma session_answers extra db h a :
  In a (run_session extra db h) ->
  exists h1 q h2, h = h1 ++ SAsk q :: h2 /\ a = answer_on (world_after extra db (changes_of h1)) q.
Proof.
  revert db. induction h as [|[q'|o] r IH]; intros db; simpl.
  - tauto.
  - intros [<-|I].
    + exists [], q', r. split; reflexivity.
    + destruct (IH db I) as [h1 [q [h2 [-> ->]]]]. exists (SAsk q' :: h1), q, h2. split; reflexivity.
  - intros I. destruct (IH _ I) as [h1 [q [h2 [-> ->]]]]. exists (SChange o :: h1), q, h2. split; reflexivity.
Qed.

Lemma fuel_of_enough w : length w < fuel_of w.
Proof. unfold fuel_of. lia. Qed.

Lemma answer_on_ok w q :
  match answer_on w q with
  | AUses r => exists us, r = Ok us
  | ADeps r => exists l, r = Ok l
  end.
Proof.
  destruct q as [x ov|n v t]; simpl.
  - unfold uses. destruct (uses_index_total w (fuel_of w) (fuel_of_enough w)) as [idx E]. rewrite E.
    destruct (users_total_ok idx x ov) as [us [Eu _]]. eauto.
  - destruct t.
    + apply dependent_products_total, fuel_of_enough.
    + destruct (listing_plain w (n, Some v, true) (fuel_of w) (fuel_of_enough w)) as [l [E _]]. eauto.
Qed.

(* ------------------------------------------------------------------ moving the tag *)

Lemma cur_get_drop_same c n : cur_get (cur_drop c n) n = None.
Proof.
  induction c as [|[k v] r IH]; simpl; [reflexivity|].
  destruct (str_eqb n k) eqn:E; simpl; [exact IH | rewrite E; exact IH].
Qed.

Lemma cur_get_drop_other c n m : m <> n -> cur_get (cur_drop c n) m = cur_get c m.
Proof.
  intros N. induction c as [|[k v] r IH]; simpl; [reflexivity|].
  destruct (str_eqb n k) eqn:E; simpl.
  - apply str_eqb_eq in E. subst k. apply str_eqb_neq in N. rewrite N. exact IH.
  - destruct (str_eqb m k); [reflexivity | exact IH].
Qed.

Lemma cur_get_set_same c n v : cur_get (cur_set c n v) n = Some v.
Proof. unfold cur_set. simpl. rewrite str_eqb_refl. reflexivity. Qed.

Lemma cur_get_set_other c n v m : m <> n -> cur_get (cur_set c n v) m = cur_get c m.
Proof.
  intros N. unfold cur_set. simpl. destruct (str_eqb m n) eqn:E.
  - apply str_eqb_eq in E. contradiction.
  - apply cur_get_drop_other, N.
Qed.

Lemma sdeclared_retag db n v m u : sdeclared (retag db n v) m u = sdeclared db m u.
Proof. reflexivity. Qed.

Lemma current_of_retag_same db n v : sdeclared db n v = true -> current_of (retag db n v) n = Some v.
Proof.
  intros D. unfold current_of. cbn [retag sd_cur]. rewrite cur_get_set_same, sdeclared_retag, D. reflexivity.
Qed.

Lemma current_of_retag_other db n v m : m <> n -> current_of (retag db n v) m = current_of db m.
Proof.
  intros N. unfold current_of. cbn [retag sd_cur]. rewrite (cur_get_set_other _ _ _ _ N).
  destruct (cur_get (sd_cur db) m); reflexivity.
Qed.

Lemma current_of_untag_same db n : current_of (untag db n) n = None.
Proof. unfold current_of. cbn [untag sd_cur]. rewrite cur_get_drop_same. reflexivity. Qed.

Lemma resolve_line_retag_bare db n v l :
  sdeclared db n v = true -> tl_name l = n -> tl_vers l = None ->
  resolve_line (retag db n v) l = mkEdge n None (Some v) (tl_opt l).
Proof.
  intros D Hn Hv. unfold resolve_line. rewrite Hv, Hn, (current_of_retag_same db n v D). reflexivity.
Qed.

Lemma resolve_line_retag_other db n v l :
  tl_name l <> n \/ tl_vers l <> None -> resolve_line (retag db n v) l = resolve_line db l.
Proof.
  intros H. unfold resolve_line. destruct (tl_vers l) as [u|].
  - rewrite sdeclared_retag. reflexivity.
  - destruct H as [H|H]; [|congruence]. rewrite (current_of_retag_other db n v _ H). reflexivity.
Qed.

Lemma resolve_line_untag_bare db n l :
  tl_name l = n -> tl_vers l = None -> resolve_line (untag db n) l = mkEdge n None None (tl_opt l).
Proof.
  intros Hn Hv. unfold resolve_line. rewrite Hv, Hn, current_of_untag_same. reflexivity.
Qed.

Lemma apply_assign_declared db n v : sdeclared db n v = true -> apply_op db (SAssign n v) = retag db n v.
Proof. intros D. simpl. rewrite D. reflexivity. Qed.

Lemma apply_declare_tag_declared db n v : sdeclared db n v = true -> apply_op db (SDeclareTag n v) = retag db n v.
Proof. intros D. simpl. rewrite D. reflexivity. Qed.

(* a product whose table holds a bare line for n reaches, in the world after the tag was moved to n v, that version *)
Lemma step_after_retag extra db n v y ls l :
  sdeclared db n v = true ->
  lines_of (sd_decl db) (fst y) (snd y) = Some ls -> In l ls -> tl_name l = n -> tl_vers l = None ->
  step (world_of extra (retag db n v)) (pnode y) (n, Some v, true).
Proof.
  intros D L I Hn Hv. destruct y as [yn yv]. cbn [fst snd] in L. unfold step.
  exists (map (resolve_line (retag db n v)) ls ++ extra), (resolve_line (retag db n v) l). split; [|split].
  - unfold node_table, pnode, nreal, nver, nname. cbn [fst snd]. rewrite table_of_world_of. cbn [retag sd_decl].
    rewrite L. reflexivity.
  - apply in_or_app. left. apply in_map, I.
  - rewrite (resolve_line_retag_bare db n v l D Hn Hv). reflexivity.
Qed.

Lemma retag_keys extra db n v : map fst (world_of extra (retag db n v)) = map fst (sd_decl db).
Proof. rewrite world_of_keys. reflexivity. Qed.

Lemma lines_of_In d n v ls : lines_of d n v = Some ls -> In (n, v) (map fst d).
Proof.
  induction d as [|[[n' v'] ls'] r IH]; simpl; [discriminate|].
  destruct (str_eqb n n' && str_eqb v v') eqn:E.
  - apply andb_true_iff in E as [A B]. apply str_eqb_eq in A, B. subst. intros _. left. reflexivity.
  - intros H. right. apply IH, H.
Qed.

Lemma users_after_retag extra db n v y ls l us :
  sdeclared db n v = true ->
  lines_of (sd_decl db) (fst y) (snd y) = Some ls -> In l ls -> tl_name l = n -> tl_vers l = None ->
  y <> (n, v) ->
  uses (fuel_of (world_of extra (retag db n v))) (world_of extra (retag db n v)) n (Some v) = Ok us ->
  In y (map cuser us).
Proof.
  intros D L I Hn Hv Ny U. set (w' := world_of extra (retag db n v)) in *.
  unfold uses in U. destruct (uses_index (fuel_of w') w') as [idx|] eqn:Ei; [|discriminate].
  apply (uses_inverse_reach (fuel_of w') w' idx n (Some v) us y (fuel_of_enough w') Ei U). split.
  - unfold w'. rewrite retag_keys. destruct y as [yn yv]. apply (lines_of_In _ _ _ _ L).
  - exists (n, Some v, true). split; [|split].
    + destruct y as [yn yv]. unfold pnode. simpl. intros E. inversion E. subst. apply Ny. reflexivity.
    + apply rp_one. apply step_is_stepP. apply (step_after_retag extra db n v y ls l D L I Hn Hv).
    + split; reflexivity.
Qed.
