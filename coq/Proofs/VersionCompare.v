(* C10: facts about the model of stdCompare -- the shape of _splitVersion results, fuel,
   the unfolding equation, reflexivity and antisymmetry. *)
From Coq Require Import Lia.
From Eupsv Require Import Base.Base Base.BaseLemmas Model.VersionCompare Proofs.VersionCompareLib.

(* ---------------------------------------------------------------- _splitVersion *)

Lemma opt_group_spec d r e r1 :
  opt_group d r = (e, r1) ->
  (e = [] /\ r1 = r) \/ (e <> [] /\ r = d :: e ++ r1 /\ forallb notpm e = true).
Proof.
  unfold opt_group. destruct r as [|c r']; [intro H; inversion H; auto|].
  destruct (ascii_eqb_spec c d) as [->|N]; [|intro H; inversion H; auto].
  destruct (span notpm r') as [e' r2] eqn:E. destruct (nonempty e') eqn:Ne; intro H; inversion H; subst; auto.
  right. split; [now apply nonempty_true_iff|]. split.
  - f_equal. now apply span_app in E.
  - eapply span_all_fst; eauto.
Qed.

Lemma mp_suffix_spec v c ds base :
  mp_suffix v = Some (c, ds, base) ->
  v = base ++ c :: ds /\ all_digits ds = true /\ (ascii_eqb c c_m || ascii_eqb c c_p = true).
Proof.
  unfold mp_suffix. destruct (span is_digit (rev v)) as [rd rest] eqn:E.
  destruct rd as [|d0 rd']; [discriminate|]. destruct rest as [|c' rb]; [discriminate|].
  destruct (ascii_eqb c' c_m || ascii_eqb c' c_p) eqn:M; [|discriminate].
  remember (d0 :: rd') as rd eqn:Erd.
  intro H. inversion H; subst c ds base. split; [|split; [|assumption]].
  - pose proof (span_app _ _ _ _ E) as R.
    rewrite <- (rev_involutive v), R. rewrite rev_app_distr. simpl. now rewrite <- app_assoc.
  - apply span_all_fst in E. unfold all_digits. rewrite forallb_rev, E.
    destruct (rev rd) eqn:X; [|reflexivity].
    apply (f_equal (@length _)) in X. rewrite rev_length, Erd in X. discriminate.
Qed.

(* everything the later proofs need to know about a successful split *)
Lemma split_facts v p s t :
  split_version v = Ok (p, s, t) ->
  (forall q, forallb q v = true -> forallb q p = true /\ forallb q s = true /\ forallb q t = true) /\
  forallb notpm s = true /\ forallb notpm t = true /\
  (s <> [] -> length s < length v) /\ (t <> [] -> length t < length v) /\
  (v = [] -> s = [] /\ t = []).
Proof.
  unfold split_version. destruct v as [|c0 v0]; [intro H; inversion H; subst; simpl; repeat split; auto; congruence|].
  set (v := c0 :: v0).
  destruct (2 <? length (split_on c_minus v)).
  { intro H. inversion H; subst. simpl. repeat split; auto; congruence. }
  destruct (span notpm v) as [g1 r] eqn:E. destruct (nonempty g1) eqn:Ng; [|discriminate].
  destruct (opt_group c_minus r) as [eee r1] eqn:O1. destruct (opt_group c_plus r1) as [fff r2] eqn:O2.
  pose proof (span_app _ _ _ _ E) as V.
  apply opt_group_spec in O1. apply opt_group_spec in O2.
  destruct (nonempty eee || nonempty fff) eqn:Nef.
  - intro H. inversion H; subst p s t. clear H.
    assert (Q : forall q, forallb q v = true -> forallb q g1 = true /\ forallb q eee = true /\ forallb q fff = true).
    { intros q Hq. rewrite V, forallb_app_iff in Hq. apply andb_true_iff in Hq as [Hg Hr]. split; [assumption|].
      assert (He : forallb q eee = true /\ forallb q r1 = true).
      { destruct O1 as [[-> ->]|[_ [-> _]]]; [auto|]. simpl in Hr. apply andb_true_iff in Hr as [_ Hr].
        rewrite forallb_app_iff in Hr. now apply andb_true_iff in Hr. }
      destruct He as [He Hr1]. split; [assumption|].
      destruct O2 as [[-> ->]|[_ [-> _]]]; [reflexivity|]. simpl in Hr1. apply andb_true_iff in Hr1 as [_ Hr1].
      rewrite forallb_app_iff in Hr1. now apply andb_true_iff in Hr1 as [? _]. }
    assert (L : length v = length g1 + length r) by (rewrite V; apply app_length).
    split; [exact Q|].
    destruct O1 as [[-> ->]|[Ne1 [-> A1]]]; destruct O2 as [[-> ->]|[Ne2 [-> A2]]];
      simpl in L; rewrite ?app_length in L; simpl in L; rewrite ?app_length in L;
      repeat split; auto; try congruence; intros; try discriminate; try (subst v; simpl in *; lia).
  - apply orb_false_iff in Nef as [Ne Nf]. apply nonempty_false_iff in Ne, Nf. subst eee fff.
    destruct (mp_suffix v) as [[[c ds] base]|] eqn:M.
    + apply mp_suffix_spec in M as [V' [D _]].
      assert (Dn : forallb notpm ds = true).
      { unfold all_digits in D. apply andb_true_iff in D as [_ D]. eapply forallb_impl; [apply digit_notpm|exact D]. }
      assert (Dl : length ds < length v) by (rewrite V', app_length; simpl; lia).
      assert (Q : forall q, forallb q v = true -> forallb q base = true /\ forallb q ds = true).
      { intros q Hq. rewrite V', forallb_app_iff in Hq. apply andb_true_iff in Hq as [? Hq]. simpl in Hq.
        apply andb_true_iff in Hq as [_ ?]. auto. }
      destruct (ascii_eqb c c_m); intro H; inversion H; subst p s t;
        (split; [intros q Hq; destruct (Q q Hq); auto|]); repeat split; auto; try congruence; try discriminate.
    + intro H. inversion H; subst. split.
      * intros q Hq. rewrite V, forallb_app_iff in Hq. apply andb_true_iff in Hq as [? _]. auto.
      * repeat split; auto; congruence.
Qed.

Lemma notpm_no_minus x : forallb notpm x = true -> mem_ascii c_minus x = false.
Proof.
  induction x as [|c r IH]; cbn [mem_ascii forallb]; [reflexivity|]. intro H. apply andb_true_iff in H as [Hc Hr].
  rewrite IH by assumption. unfold notpm in Hc. apply negb_true_iff, orb_false_iff in Hc as [Hc _].
  rewrite ascii_eqb_sym. now rewrite Hc.
Qed.

(* a text free of hyphens and plus signs splits without error, and is its own primary
   unless it ends in m<digits> or p<digits> *)
Lemma split_simple x :
  forallb notpm x = true ->
  split_version x = Ok (x, [], []) \/
  exists c ds base, x = base ++ c :: ds /\ all_digits ds = true /\
    (split_version x = Ok (base, ds, []) \/ split_version x = Ok (base, [], ds)).
Proof.
  intro H. destruct x as [|c0 x0]; [left; reflexivity|].
  unfold split_version. rewrite (split_on_nodelim c_minus _ (notpm_no_minus _ H)). simpl length.
  change (2 <? 1) with false. cbv iota. rewrite (span_all _ _ H). simpl nonempty. cbv iota.
  simpl opt_group. simpl nonempty. simpl orb. cbv iota.
  destruct (mp_suffix (c0 :: x0)) as [[[c ds] base]|] eqn:M; [|now left].
  right. apply mp_suffix_spec in M as [V [D _]]. exists c, ds, base. split; [assumption|]. split; [assumption|].
  destruct (ascii_eqb c c_m); auto.
Qed.

Lemma split_simple_ok x : forallb notpm x = true -> exists y, split_version x = Ok y.
Proof.
  intro H. destruct (split_simple x H) as [E|[c [ds [base [_ [_ [E|E]]]]]]]; eauto.
Qed.

(* ---------------------------------------------------------------- fuel *)

Lemma sec_ter_ext (rec rec' : str -> str -> res comparison) s1 t1 s2 t2 :
  (s1 <> [] -> s2 <> [] -> rec s1 s2 = rec' s1 s2) ->
  (s1 <> [] \/ s2 <> [] \/ t1 <> [] \/ t2 <> [] -> rec t1 t2 = rec' t1 t2) ->
  sec_ter rec s1 t1 s2 t2 = sec_ter rec' s1 t1 s2 t2.
Proof.
  intros Hs Ht. unfold sec_ter.
  destruct (nonempty s1) eqn:A, (nonempty s2) eqn:B; cbn [orb andb]; try reflexivity.
  - apply nonempty_true_iff in A, B. rewrite (Hs A B).
    destruct (rec' s1 s2) as [[| |]|]; try reflexivity. apply Ht. now left.
  - destruct (nonempty t1) eqn:C, (nonempty t2) eqn:D; cbn [orb andb]; try reflexivity;
      apply Ht; right; right; [left; now apply nonempty_true_iff|left; now apply nonempty_true_iff|right; now apply nonempty_true_iff].
Qed.

Lemma fuel_indep fixed f1 : forall f2 strict v1 v2,
  length v1 + length v2 < f1 -> length v1 + length v2 < f2 ->
  std_compare_gen fixed f1 strict v1 v2 = std_compare_gen fixed f2 strict v1 v2.
Proof.
  induction f1 as [|f1 IH]; intros f2 strict v1 v2 H1 H2; [lia|].
  destruct f2 as [|f2]; [lia|]. cbn [std_compare_gen].
  destruct (split_version v1) as [[[p1 s1] t1]|e1] eqn:E1; [|reflexivity].
  destruct (split_version v2) as [[[p2 s2] t2]|e2] eqn:E2; [|reflexivity].
  apply split_facts in E1 as (_ & _ & _ & Ls1 & Lt1 & N1). apply split_facts in E2 as (_ & _ & _ & Ls2 & Lt2 & N2).
  assert (X : sec_ter (std_compare_gen fixed f1 false) s1 t1 s2 t2 = sec_ter (std_compare_gen fixed f2 false) s1 t1 s2 t2).
  { apply sec_ter_ext.
    - intros A B. specialize (Ls1 A). specialize (Ls2 B). apply IH; lia.
    - intros A.
      assert (length t1 <= length v1) by (destruct t1; [simpl; lia|]; assert (length (a :: t1) < length v1) by (apply Lt1; congruence); lia).
      assert (length t2 <= length v2) by (destruct t2; [simpl; lia|]; assert (length (a :: t2) < length v2) by (apply Lt2; congruence); lia).
      assert (length t1 + length t2 < length v1 + length v2).
      { destruct t1 as [|a t1]; [destruct t2 as [|b t2]|].
        - simpl. destruct v1 as [|x v1]; [|simpl; lia]. destruct v2 as [|y v2]; [|simpl; lia].
          destruct (N1 eq_refl), (N2 eq_refl). subst. intuition congruence.
        - assert (length (b :: t2) < length v2) by (apply Lt2; congruence). simpl in *. lia.
        - assert (length (a :: t1) < length v1) by (apply Lt1; congruence). lia. }
      apply IH; lia. }
  rewrite X. reflexivity.
Qed.

(* stdCompare with enough fuel *)
Definition scmp (fixed strict : bool) (v1 v2 : str) : res comparison :=
  std_compare_gen fixed (cmp_fuel v1 v2) strict v1 v2.

Lemma std_compare_scmp strict v1 v2 : std_compare strict v1 v2 = scmp true strict v1 v2.
Proof. reflexivity. Qed.

(* the unfolding equation: one level of stdCompare, recursive calls again with enough fuel *)
Lemma scmp_unfold fixed strict v1 v2 :
  scmp fixed strict v1 v2 =
  match split_version v1 with
  | Err e => Err e
  | Ok (p1, s1, t1) =>
      match split_version v2 with
      | Err e => Err e
      | Ok (p2, s2, t2) =>
          if str_eqb p1 p2 then sec_ter (scmp fixed false) s1 t1 s2 t2
          else match cmp_primaries strict p1 p2 with
               | Ok Eq => if fixed then sec_ter (scmp fixed false) s1 t1 s2 t2 else Ok Eq
               | r => r
               end
      end
  end.
Proof.
  unfold scmp at 1. unfold cmp_fuel. cbn [std_compare_gen].
  destruct (split_version v1) as [[[p1 s1] t1]|e1] eqn:E1; [|reflexivity].
  destruct (split_version v2) as [[[p2 s2] t2]|e2] eqn:E2; [|reflexivity].
  apply split_facts in E1 as (_ & _ & _ & Ls1 & Lt1 & N1). apply split_facts in E2 as (_ & _ & _ & Ls2 & Lt2 & N2).
  assert (X : sec_ter (std_compare_gen fixed (length v1 + length v2) false) s1 t1 s2 t2 = sec_ter (scmp fixed false) s1 t1 s2 t2).
  { apply sec_ter_ext.
    - intros A B. specialize (Ls1 A). specialize (Ls2 B). apply fuel_indep; unfold cmp_fuel; lia.
    - intros A.
      assert (length t1 + length t2 < length v1 + length v2).
      { destruct t1 as [|a t1]; [destruct t2 as [|b t2]|].
        - simpl. destruct v1 as [|x v1]; [|simpl; lia]. destruct v2 as [|y v2]; [|simpl; lia].
          destruct (N1 eq_refl), (N2 eq_refl). subst. intuition congruence.
        - assert (length (b :: t2) < length v2) by (apply Lt2; congruence). simpl in *. lia.
        - assert (length (a :: t1) < length v1) by (apply Lt1; congruence).
          destruct t2 as [|b t2]; [simpl in *; lia|].
          assert (length (b :: t2) < length v2) by (apply Lt2; congruence). simpl in *. lia. }
      apply fuel_indep; unfold cmp_fuel; lia. }
  rewrite X. reflexivity.
Qed.

(* ---------------------------------------------------------------- reflexivity *)

Lemma scmp_nil fixed strict : scmp fixed strict [] [] = Ok Eq.
Proof. reflexivity. Qed.

Lemma sec_ter_refl (rec : str -> str -> res comparison) s t :
  (s <> [] -> rec s s = Ok Eq) -> rec t t = Ok Eq -> sec_ter rec s t s t = Ok Eq.
Proof.
  intros Hs Ht. unfold sec_ter.
  destruct (nonempty s) eqn:A; cbn [orb andb].
  - apply nonempty_true_iff in A. now rewrite (Hs A).
  - destruct (nonempty t); [assumption|reflexivity].
Qed.

Lemma scmp_refl_aux fixed n : forall v strict,
  length v < n -> (exists y, split_version v = Ok y) -> scmp fixed strict v v = Ok Eq.
Proof.
  induction n as [|n IH]; intros v strict L [[[p s] t] E]; [lia|].
  rewrite scmp_unfold, E, str_eqb_refl.
  apply split_facts in E as (_ & Ns & Nt & Ls & Lt & _).
  apply sec_ter_refl.
  - intro A. apply IH; [specialize (Ls A); lia|now apply split_simple_ok].
  - destruct t as [|b t]; [apply scmp_nil|]. apply IH; [|now apply split_simple_ok].
    assert (length (b :: t) < length v) by (apply Lt; congruence). lia.
Qed.

Lemma scmp_refl fixed strict v : (exists y, split_version v = Ok y) -> scmp fixed strict v v = Ok Eq.
Proof. apply (scmp_refl_aux fixed (S (length v))). lia. Qed.

(* ---------------------------------------------------------------- components *)

Lemma starts_with_app p : forall y, starts_with p y = true -> y = p ++ skipn (length p) y.
Proof.
  induction p as [|c p IH]; intros y H; [reflexivity|].
  destruct y as [|d y]; [discriminate|]. simpl in H.
  destruct (ascii_eqb_spec c d) as [->|]; [|discriminate]. simpl. f_equal. now apply IH.
Qed.

Lemma starts_with_both x : forall y, starts_with x y = true -> starts_with y x = true -> x = y.
Proof.
  induction x as [|c x IH]; intros [|d y] H1 H2; try reflexivity; try discriminate.
  simpl in H1, H2. destruct (ascii_eqb_spec c d) as [->|]; [|discriminate].
  rewrite ascii_eqb_refl in H2. f_equal. now apply IH.
Qed.

Lemma all_digits_head d : all_digits d = true -> exists c r, d = c :: r /\ is_digit c = true.
Proof.
  unfold all_digits. destruct d as [|c r]; [discriminate|]. simpl. intro H.
  apply andb_true_iff in H as [H _]. eauto.
Qed.

Lemma decomp_some x pre d :
  decomp x = Some (pre, d) ->
  x = pre ++ d /\ pre <> [] /\ forallb not_digit pre = true /\ all_digits d = true.
Proof.
  unfold decomp. destruct (span not_digit x) as [a b] eqn:E.
  destruct (nonempty a && all_digits b) eqn:C; [|discriminate].
  intro H. inversion H; subst. apply andb_true_iff in C as [C1 C2].
  split; [now apply span_app in E|]. split; [now apply nonempty_true_iff|]. split; [|assumption].
  eapply span_all_fst; eauto.
Qed.

Lemma decomp_intro pre d :
  pre <> [] -> forallb not_digit pre = true -> all_digits d = true -> decomp (pre ++ d) = Some (pre, d).
Proof.
  intros Hn Hp Hd. destruct (all_digits_head d Hd) as [c [r [-> Hc]]].
  unfold decomp. rewrite span_stop; [|assumption|unfold not_digit; now rewrite Hc].
  apply nonempty_true_iff in Hn. now rewrite Hn, Hd.
Qed.

Lemma mpd_decomp pre y :
  pre <> [] -> forallb not_digit pre = true ->
  match_prefix_digits pre y =
  match decomp y with
  | Some (pre', d2) => if str_eqb pre pre' then Some d2 else None
  | None => None
  end.
Proof.
  intros Hn Hp. unfold match_prefix_digits.
  destruct (starts_with pre y) eqn:S.
  - apply starts_with_app in S. set (r := skipn (length pre) y) in *.
    destruct (all_digits r) eqn:D.
    + rewrite S, (decomp_intro pre r Hn Hp D). now rewrite str_eqb_refl.
    + destruct (decomp y) as [[pre' d2]|] eqn:E; [|reflexivity].
      destruct (str_eqb_spec pre pre') as [<-|]; [|reflexivity].
      apply decomp_some in E as (E & _ & _ & D2). rewrite S in E. apply app_inv_head in E. congruence.
  - destruct (decomp y) as [[pre' d2]|] eqn:E; [|reflexivity].
    destruct (str_eqb_spec pre pre') as [<-|]; [|reflexivity].
    apply decomp_some in E as (E & _). rewrite E, starts_with_refl in S. discriminate.
Qed.

Definition nometa (x : str) : Prop :=
  forall pre d, decomp x = Some (pre, d) -> existsb regex_meta pre = false.

(* the comparison of two components written symmetrically *)
Definition fallback (x y : str) : bool * comparison :=
  match py_int x, py_int y with
  | Some a, Some b => (true, Z.compare a b)
  | _, _ => (false, str_compare x y)
  end.

Lemma cmp_component_alt x y :
  nometa x ->
  cmp_component x y =
  Ok (match decomp x, decomp y with
      | Some (pre, d1), Some (pre', d2) =>
          if str_eqb pre pre' then (true, N.compare (num_of_digits d1) (num_of_digits d2)) else fallback x y
      | _, _ => fallback x y
      end).
Proof.
  intro Hx. unfold cmp_component. fold (fallback x y).
  destruct (decomp x) as [[pre d1]|] eqn:Ex; [|reflexivity].
  rewrite (Hx pre d1 Ex). apply decomp_some in Ex as (_ & Hn & Hp & _).
  rewrite (mpd_decomp pre y Hn Hp). destruct (decomp y) as [[pre' d2]|]; [|reflexivity].
  now destruct (str_eqb pre pre').
Qed.

Definition flip_pair (r : bool * comparison) : bool * comparison := (fst r, CompOpp (snd r)).

Lemma fallback_flip x y : fallback y x = flip_pair (fallback x y).
Proof.
  unfold fallback, flip_pair. destruct (py_int x), (py_int y); simpl; try (now rewrite (ok_anti _ ord_ok_str x y)).
  now rewrite Z.compare_antisym.
Qed.

Lemma cmp_component_flip x y :
  nometa x -> nometa y ->
  exists r, cmp_component x y = Ok r /\ cmp_component y x = Ok (flip_pair r).
Proof.
  intros Hx Hy. rewrite (cmp_component_alt x y Hx), (cmp_component_alt y x Hy).
  eexists. split; [reflexivity|]. f_equal.
  destruct (decomp x) as [[pre d1]|], (decomp y) as [[pre' d2]|]; try apply fallback_flip.
  rewrite (str_eqb_sym pre' pre). destruct (str_eqb pre pre'); [|apply fallback_flip].
  unfold flip_pair. simpl. now rewrite N.compare_antisym.
Qed.

Lemma cmp_component_self y : nometa y -> exists i, cmp_component y y = Ok (i, Eq).
Proof.
  intro Hy. rewrite (cmp_component_alt y y Hy).
  destruct (decomp y) as [[pre dd]|].
  - rewrite str_eqb_refl, N.compare_refl. eauto.
  - unfold fallback. destruct (py_int y).
    + rewrite Z.compare_refl. eauto.
    + rewrite (ok_refl _ ord_ok_str). eauto.
Qed.

Definition flip_res (r : res comparison) : res comparison :=
  match r with Ok c => Ok (CompOpp c) | Err e => Err e end.

Lemma cmp_loop_flip strict c1 : forall c2,
  Forall nometa c1 -> Forall nometa c2 ->
  cmp_loop strict c2 c1 = flip_res (cmp_loop strict c1 c2).
Proof.
  induction c1 as [|x r1 IH]; intros [|y r2] H1 H2; try reflexivity.
  inversion H1 as [|? ? Hx Hr1]; inversion H2 as [|? ? Hy Hr2]; subst.
  cbn [cmp_loop]. destruct (cmp_component_flip x y Hx Hy) as [[i d] [E1 E2]]. rewrite E1, E2.
  unfold flip_pair. cbn [fst snd].
  destruct d; cbn [CompOpp]; [now apply IH| |].
  - destruct (strict && negb i) eqn:S; [|reflexivity].
    rewrite (orb_comm (is_nil r2)). destruct (is_nil r1 || is_nil r2); [|reflexivity].
    destruct (starts_with x y) eqn:A, (starts_with y x) eqn:B; try reflexivity.
    exfalso. pose proof (starts_with_both x y A B) as ->.
    destruct (cmp_component_self y Hy) as [i' E]. congruence.
  - destruct (strict && negb i) eqn:S; [|reflexivity].
    rewrite (orb_comm (is_nil r2)). destruct (is_nil r1 || is_nil r2); [|reflexivity].
    destruct (starts_with x y) eqn:A, (starts_with y x) eqn:B; try reflexivity.
    exfalso. pose proof (starts_with_both x y A B) as ->.
    destruct (cmp_component_self y Hy) as [i' E]. congruence.
Qed.

(* ---------------------------------------------------------------- antisymmetry *)

Definition safe_char (c : ascii) : bool := negb (regex_meta c) || is_sep c.

Lemma wf_safe c : wf_char c = true -> ascii_eqb c c_plus = false -> safe_char c = true.
Proof. ascii_sweep c. Qed.

Lemma safe_nonsep_nometa c : safe_char c && negb (is_sep c) = true -> regex_meta c = false.
Proof. ascii_sweep c. Qed.

Lemma split_dotus_chars (q : ascii -> bool) p :
  forallb q p = true ->
  Forall (fun x => forallb (fun c => q c && negb (is_sep c)) x = true) (split_dotus p).
Proof.
  induction p as [|c r IH]; cbn [split_dotus forallb]; intro H.
  - repeat constructor.
  - apply andb_true_iff in H as [Hc Hr]. specialize (IH Hr).
    destruct (is_sep c) eqn:S; [constructor; [reflexivity|assumption]|].
    destruct (split_dotus r) as [|h t].
    + repeat constructor. cbn [forallb]. now rewrite Hc, S.
    + inversion IH; subst. constructor; [|assumption]. cbn [forallb]. now rewrite Hc, S.
Qed.

Lemma nometa_of_chars x : forallb (fun c => safe_char c && negb (is_sep c)) x = true -> nometa x.
Proof.
  intros H pre d E. apply decomp_some in E as (-> & _). rewrite forallb_app_iff in H.
  apply andb_true_iff in H as [H _]. clear d.
  induction pre as [|c pre IH]; [reflexivity|]. cbn [forallb existsb] in *.
  apply andb_true_iff in H as [Hc H]. now rewrite (safe_nonsep_nometa c Hc), IH.
Qed.

Lemma safe_components p :
  forallb wf_char p = true -> mem_ascii c_plus p = false -> Forall nometa (split_dotus p).
Proof.
  intros W P.
  assert (S : forallb safe_char p = true).
  { induction p as [|c r IH]; [reflexivity|]. cbn [forallb mem_ascii] in *.
    apply andb_true_iff in W as [Wc Wr]. destruct (ascii_eqb c_plus c) eqn:Ec; [discriminate|].
    rewrite ascii_eqb_sym in Ec. now rewrite (wf_safe c Wc Ec), IH. }
  apply split_dotus_chars in S. eapply Forall_impl; [|exact S]. intros x. apply nometa_of_chars.
Qed.

Lemma notpm_no_plus x : forallb notpm x = true -> mem_ascii c_plus x = false.
Proof.
  induction x as [|c r IH]; cbn [mem_ascii forallb]; [reflexivity|]. intro H. apply andb_true_iff in H as [Hc Hr].
  rewrite IH by assumption. unfold notpm in Hc. apply negb_true_iff, orb_false_iff in Hc as [_ Hc].
  rewrite ascii_eqb_sym. now rewrite Hc.
Qed.

Definition good (v : str) : Prop :=
  wf_name v = true /\ exists p s t, split_version v = Ok (p, s, t) /\ mem_ascii c_plus p = false.

Lemma accepts_good v : accepts v = true <-> good v.
Proof.
  unfold accepts, good. split.
  - intro H. apply andb_true_iff in H as [W H]. split; [assumption|].
    destruct (split_version v) as [[[p s] t]|]; [|discriminate]. apply negb_true_iff in H. eauto.
  - intros [W [p [s [t [E P]]]]]. now rewrite W, E, P.
Qed.

Lemma good_simple x : wf_name x = true -> forallb notpm x = true -> good x.
Proof.
  intros W N. split; [assumption|].
  destruct (split_simple x N) as [E|[c [ds [base [V [_ E]]]]]].
  - exists x, [], []. split; [assumption|now apply notpm_no_plus].
  - assert (P : mem_ascii c_plus base = false).
    { apply notpm_no_plus. rewrite V, forallb_app_iff in N. now apply andb_true_iff in N as [? _]. }
    destruct E as [E|E]; eauto 6.
Qed.

Lemma good_parts v p s t :
  good v -> split_version v = Ok (p, s, t) -> Forall nometa (split_dotus p) /\ good s /\ good t.
Proof.
  intros [W [p' [s' [t' [E' P]]]]] E. rewrite E in E'. inversion E'; subst p' s' t'. clear E'.
  apply split_facts in E as (Q & Ns & Nt & _). destruct (Q wf_char W) as (Wp & Ws & Wt).
  split; [now apply safe_components|]. split; now apply good_simple.
Qed.

Lemma good_nil : good [].
Proof. split; [reflexivity|]. exists [], [], []. split; reflexivity. Qed.

Lemma sec_ter_flip (rec : str -> str -> res comparison) s1 t1 s2 t2 :
  (s1 <> [] -> s2 <> [] -> rec s2 s1 = flip_res (rec s1 s2)) ->
  (s1 <> [] \/ s2 <> [] \/ t1 <> [] \/ t2 <> [] -> rec t2 t1 = flip_res (rec t1 t2)) ->
  sec_ter rec s2 t2 s1 t1 = flip_res (sec_ter rec s1 t1 s2 t2).
Proof.
  intros Hs Ht. unfold sec_ter.
  destruct (nonempty s1) eqn:A, (nonempty s2) eqn:B; cbn [orb andb]; try reflexivity.
  - apply nonempty_true_iff in A, B. rewrite (Hs A B).
    destruct (rec s1 s2) as [[| |]|]; try reflexivity. cbn [flip_res CompOpp]. apply Ht. now left.
  - destruct (nonempty t1) eqn:C, (nonempty t2) eqn:D; cbn [orb andb]; try reflexivity;
      apply Ht; right; right; [left; now apply nonempty_true_iff|left; now apply nonempty_true_iff|right; now apply nonempty_true_iff].
Qed.

Lemma scmp_flip_aux fixed n : forall v1 v2 strict,
  length v1 + length v2 < n -> good v1 -> good v2 ->
  scmp fixed strict v2 v1 = flip_res (scmp fixed strict v1 v2).
Proof.
  induction n as [|n IH]; intros v1 v2 strict L G1 G2; [lia|].
  rewrite (scmp_unfold fixed strict v2 v1), (scmp_unfold fixed strict v1 v2).
  destruct G1 as [W1 [p1 [s1 [t1 [E1 P1]]]]]. destruct G2 as [W2 [p2 [s2 [t2 [E2 P2]]]]].
  rewrite E1, E2.
  destruct (good_parts v1 p1 s1 t1) as (C1 & Gs1 & Gt1); [split; eauto 6|assumption|].
  destruct (good_parts v2 p2 s2 t2) as (C2 & Gs2 & Gt2); [split; eauto 6|assumption|].
  pose proof (split_facts _ _ _ _ E1) as (_ & _ & _ & Ls1 & Lt1 & N1).
  pose proof (split_facts _ _ _ _ E2) as (_ & _ & _ & Ls2 & Lt2 & N2).
  assert (X : sec_ter (scmp fixed false) s2 t2 s1 t1 = flip_res (sec_ter (scmp fixed false) s1 t1 s2 t2)).
  { apply sec_ter_flip.
    - intros A B. specialize (Ls1 A). specialize (Ls2 B). apply IH; auto; lia.
    - intros A.
      assert (length t1 + length t2 < length v1 + length v2).
      { destruct t1 as [|a t1]; [destruct t2 as [|b t2]|].
        - simpl. destruct v1 as [|x v1]; [|simpl; lia]. destruct v2 as [|y v2]; [|simpl; lia].
          destruct (N1 eq_refl), (N2 eq_refl). subst. intuition congruence.
        - assert (length (b :: t2) < length v2) by (apply Lt2; congruence). simpl in *. lia.
        - assert (length (a :: t1) < length v1) by (apply Lt1; congruence).
          destruct t2 as [|b t2]; [simpl in *; lia|].
          assert (length (b :: t2) < length v2) by (apply Lt2; congruence). simpl in *. lia. }
      apply IH; auto; lia. }
  rewrite (str_eqb_sym p2 p1). destruct (str_eqb p1 p2); [exact X|].
  unfold cmp_primaries. rewrite (cmp_loop_flip strict _ _ C1 C2).
  destruct (cmp_loop strict (split_dotus p1) (split_dotus p2)) as [[| |]|e]; try reflexivity.
  simpl. destruct fixed; [exact X|reflexivity].
Qed.

Lemma scmp_flip fixed strict v1 v2 :
  good v1 -> good v2 -> scmp fixed strict v2 v1 = flip_res (scmp fixed strict v1 v2).
Proof. apply (scmp_flip_aux fixed (S (length v1 + length v2))). lia. Qed.

(* ---------------------------------------------------------------- accepted names always compare *)

Lemma cmp_loop_defined strict c1 : forall c2,
  Forall nometa c1 ->
  (exists c, cmp_loop strict c1 c2 = Ok c) \/ (strict = true /\ cmp_loop strict c1 c2 = Err Unsortable).
Proof.
  induction c1 as [|x r1 IH]; intros [|y r2] H1; cbn [cmp_loop]; try (left; eexists; reflexivity).
  inversion H1 as [|? ? Hx Hr1]; subst.
  assert (E : exists r, cmp_component x y = Ok r) by (rewrite (cmp_component_alt x y Hx); eauto).
  destruct E as [[i d] ->].
  assert (D : forall d', (exists c : comparison,
     (if strict && negb i
      then if is_nil r1 || is_nil r2
           then if starts_with x y then Ok Lt else if starts_with y x then Ok Gt else Err Unsortable
           else Err Unsortable
      else Ok d') = Ok c) \/
     strict = true /\
     (if strict && negb i
      then if is_nil r1 || is_nil r2
           then if starts_with x y then Ok Lt else if starts_with y x then Ok Gt else Err Unsortable
           else Err Unsortable
      else Ok d') = Err Unsortable).
  { intro d'. destruct strict; [|left; eexists; reflexivity]. destruct i; [left; eexists; reflexivity|].
    cbn [andb negb]. destruct (is_nil r1 || is_nil r2); [|right; split; reflexivity].
    destruct (starts_with x y); [left; eexists; reflexivity|].
    destruct (starts_with y x); [left; eexists; reflexivity|right; split; reflexivity]. }
  destruct d; [now apply IH|apply D|apply D].
Qed.

Lemma sec_ter_defined (rec : str -> str -> res comparison) s1 t1 s2 t2 :
  (s1 <> [] -> s2 <> [] -> exists c, rec s1 s2 = Ok c) ->
  (s1 <> [] \/ s2 <> [] \/ t1 <> [] \/ t2 <> [] -> exists c, rec t1 t2 = Ok c) ->
  exists c, sec_ter rec s1 t1 s2 t2 = Ok c.
Proof.
  intros Hs Ht. unfold sec_ter.
  destruct (nonempty s1) eqn:A, (nonempty s2) eqn:B; cbn [orb andb]; try (eexists; reflexivity).
  - apply nonempty_true_iff in A, B. destruct (Hs A B) as [c ->].
    destruct c; try (eexists; reflexivity). apply Ht. now left.
  - destruct (nonempty t1) eqn:C, (nonempty t2) eqn:D; cbn [orb andb]; try (eexists; reflexivity);
      apply Ht; right; right; [left; now apply nonempty_true_iff|left; now apply nonempty_true_iff|right; now apply nonempty_true_iff].
Qed.

Lemma scmp_defined_aux fixed n : forall v1 v2 strict,
  length v1 + length v2 < n -> good v1 -> good v2 ->
  (exists c, scmp fixed strict v1 v2 = Ok c) \/ (strict = true /\ scmp fixed strict v1 v2 = Err Unsortable).
Proof.
  induction n as [|n IH]; intros v1 v2 strict L G1 G2; [lia|].
  rewrite (scmp_unfold fixed strict v1 v2).
  destruct G1 as [W1 [p1 [s1 [t1 [E1 P1]]]]]. destruct G2 as [W2 [p2 [s2 [t2 [E2 P2]]]]].
  rewrite E1, E2.
  destruct (good_parts v1 p1 s1 t1) as (C1 & Gs1 & Gt1); [split; eauto 6|assumption|].
  destruct (good_parts v2 p2 s2 t2) as (C2 & Gs2 & Gt2); [split; eauto 6|assumption|].
  pose proof (split_facts _ _ _ _ E1) as (_ & _ & _ & Ls1 & Lt1 & N1).
  pose proof (split_facts _ _ _ _ E2) as (_ & _ & _ & Ls2 & Lt2 & N2).
  assert (X : exists c, sec_ter (scmp fixed false) s1 t1 s2 t2 = Ok c).
  { apply sec_ter_defined.
    - intros A B. specialize (Ls1 A). specialize (Ls2 B).
      destruct (IH s1 s2 false) as [?|[? _]]; auto; [lia|discriminate].
    - intros A.
      assert (length t1 + length t2 < length v1 + length v2).
      { destruct t1 as [|a t1]; [destruct t2 as [|b t2]|].
        - simpl. destruct v1 as [|x v1]; [|simpl; lia]. destruct v2 as [|y v2]; [|simpl; lia].
          destruct (N1 eq_refl), (N2 eq_refl). subst. intuition congruence.
        - assert (length (b :: t2) < length v2) by (apply Lt2; congruence). simpl in *. lia.
        - assert (length (a :: t1) < length v1) by (apply Lt1; congruence).
          destruct t2 as [|b t2]; [simpl in *; lia|].
          assert (length (b :: t2) < length v2) by (apply Lt2; congruence). simpl in *. lia. }
      destruct (IH t1 t2 false) as [?|[? _]]; auto; [lia|discriminate]. }
  destruct (str_eqb p1 p2); [now left|].
  unfold cmp_primaries. destruct (cmp_loop_defined strict (split_dotus p1) (split_dotus p2) C1) as [[c ->]|[S ->]].
  - destruct c; eauto. destruct fixed; eauto.
  - now right.
Qed.

Lemma scmp_defined fixed strict v1 v2 :
  good v1 -> good v2 ->
  (exists c, scmp fixed strict v1 v2 = Ok c) \/ (strict = true /\ scmp fixed strict v1 v2 = Err Unsortable).
Proof. apply (scmp_defined_aux fixed (S (length v1 + length v2))). lia. Qed.
