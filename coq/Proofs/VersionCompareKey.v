(* C10: conventional names -- what the recogniser accepts, how such names split, and the
   refinement of the comparison to the lexicographic order on keys. *)
From Coq Require Import Lia.
From Eupsv Require Import Base.Base Base.BaseLemmas Model.VersionCompare Model.VersionKey
  Proofs.VersionCompareLib Proofs.VersionCompare.

Definition flat (rest : list (ascii * str)) : str := flat_map (fun sd => fst sd :: snd sd) rest.

Definition wf_rest (rest : list (ascii * str)) : Prop :=
  Forall (fun sd => is_sep (fst sd) = true /\ all_digits (snd sd) = true) rest.

Definition wf_part (p : part) : Prop :=
  let '(l, d0, rest) := p in
  forallb is_alpha l = true /\ ends_mp l = false /\ all_digits d0 = true /\ wf_rest rest.

Definition wf_opt (o : option part) : Prop := match o with Some p => wf_part p | None => True end.

Definition wf_cname (c : cname) : Prop :=
  let '(pp, sp, tp) := c in wf_part pp /\ wf_opt sp /\ wf_opt tp.

Definition print_opt (o : option part) : str := match o with Some p => print_part p | None => [] end.

(* ---------------------------------------------------------------- the recogniser *)

Lemma all_digits_rev cur : nonempty cur = true -> forallb is_digit cur = true -> all_digits (rev cur) = true.
Proof.
  intros N D. unfold all_digits. rewrite forallb_rev, D, andb_true_r.
  destruct cur as [|c cur]; [discriminate|]. simpl. now destruct (rev cur).
Qed.

Lemma parse_body_spec x : forall cur d0 rest,
  forallb is_digit cur = true ->
  parse_body cur x = Some (d0, rest) ->
  rev cur ++ x = d0 ++ flat rest /\ all_digits d0 = true /\ wf_rest rest.
Proof.
  induction x as [|c r IH]; intros cur d0 rest Hc; cbn [parse_body].
  - destruct (nonempty cur) eqn:N; [|discriminate]. intro H. inversion H; subst.
    split; [reflexivity|]. split; [now apply all_digits_rev|constructor].
  - destruct (is_digit c) eqn:D.
    + intro H. apply IH in H; [|cbn [forallb]; now rewrite D].
      destruct H as (H & ? & ?). split; [|auto]. rewrite <- H. cbn [rev]. now rewrite <- app_assoc.
    + destruct (is_sep c && nonempty cur) eqn:S; [|discriminate].
      apply andb_true_iff in S as [S N].
      destruct (parse_body [] r) as [[d rest']|] eqn:E; [|discriminate].
      intro H. inversion H; subst. apply IH in E; [|reflexivity]. destruct E as (E & Dd & Wr).
      cbn [rev app] in E. split; [|split].
      * unfold flat. cbn [flat_map fst snd]. fold (flat rest'). now rewrite E.
      * now apply all_digits_rev.
      * constructor; [split; assumption|assumption].
Qed.

Lemma parse_part_spec x p : parse_part x = Some p -> wf_part p /\ print_part p = x.
Proof.
  unfold parse_part. destruct (span is_alpha x) as [l b] eqn:E.
  destruct (ends_mp l) eqn:M; [discriminate|].
  destruct (parse_body [] b) as [[d0 rest]|] eqn:B; [|discriminate].
  intro H. inversion H; subst. apply parse_body_spec in B; [|reflexivity]. destruct B as (B & D & W).
  cbn [rev app] in B. split.
  - cbn. repeat split; auto. eapply span_all_fst; eauto.
  - cbn. fold (flat rest). rewrite <- B. symmetry. now apply span_app in E.
Qed.

Lemma parse_conv_spec v c : parse_conv v = Some c -> wf_cname c /\ print_cname c = v.
Proof.
  unfold parse_conv. destruct (span notpm v) as [xp r1] eqn:E1.
  pose proof (span_app _ _ _ _ E1) as V.
  destruct (parse_part xp) as [pp|] eqn:Pp; [|discriminate]. apply parse_part_spec in Pp as [Wp Xp].
  destruct r1 as [|c1 r].
  - intro H. inversion H; subst. split; [cbn; auto|]. cbn [print_cname]. now rewrite !app_nil_r.
  - destruct (ascii_eqb_spec c1 c_minus) as [->|Nm].
    + destruct (span notpm r) as [xs r2] eqn:E2. pose proof (span_app _ _ _ _ E2) as R.
      destruct (parse_part xs) as [sp|] eqn:Ps; [|discriminate]. apply parse_part_spec in Ps as [Ws Xs].
      destruct r2 as [|c2 r3].
      * intro H. inversion H; subst. split; [cbn; auto|]. cbn [print_cname]. now rewrite !app_nil_r.
      * destruct (ascii_eqb_spec c2 c_plus) as [->|]; [|discriminate].
        destruct (parse_part r3) as [tp|] eqn:Pt; [|discriminate]. apply parse_part_spec in Pt as [Wt Xt].
        intro H. inversion H; subst. split; [cbn; auto|]. cbn [print_cname]. reflexivity.
    + destruct (parse_part r) as [tp|] eqn:Pt; [|discriminate]. apply parse_part_spec in Pt as [Wt Xt].
      intro H. inversion H; subst. split; [cbn; auto|]. cbn [print_cname app].
      pose proof (span_snd_head _ _ _ _ _ E1) as Hc. unfold notpm in Hc. apply negb_false_iff, orb_true_iff in Hc.
      destruct Hc as [Hc|Hc]; apply ascii_eqb_eq in Hc; [contradiction|]. now subst.
Qed.

Lemma conv_spec v : conv v = true -> exists c, wf_cname c /\ print_cname c = v /\ key v = cname_key c.
Proof.
  unfold conv, key. destruct (parse_conv v) as [c|] eqn:E; [|discriminate]. intros _.
  apply parse_conv_spec in E as [W P]. eauto.
Qed.

(* ---------------------------------------------------------------- printed parts *)

Lemma all_digits_forall d : all_digits d = true -> forallb is_digit d = true /\ d <> [].
Proof.
  unfold all_digits. intro H. apply andb_true_iff in H as [N D]. split; [assumption|now apply nonempty_true_iff].
Qed.

Lemma flat_forallb (q : ascii -> bool) rest :
  (forall c, is_sep c = true -> q c = true) -> (forall c, is_digit c = true -> q c = true) ->
  wf_rest rest -> forallb q (flat rest) = true.
Proof.
  intros Hs Hd W. induction W as [|[s d] rest [S D] W IH]; [reflexivity|].
  cbn [fst snd] in *. change (flat ((s, d) :: rest)) with (s :: d ++ flat rest). cbn [forallb].
  rewrite forallb_app_iff, IH, (Hs s S). apply all_digits_forall in D as [D _].
  now rewrite (forallb_impl _ _ _ Hd D).
Qed.

Lemma part_forallb (q : ascii -> bool) l d0 rest :
  (forall c, is_alpha c = true -> q c = true) ->
  (forall c, is_sep c = true -> q c = true) -> (forall c, is_digit c = true -> q c = true) ->
  wf_part (l, d0, rest) -> forallb q (print_part (l, d0, rest)) = true.
Proof.
  intros Ha Hs Hd (L & _ & D & W). cbn [print_part]. fold (flat rest).
  rewrite !forallb_app_iff, (flat_forallb q rest Hs Hd W), (forallb_impl _ _ _ Ha L).
  apply all_digits_forall in D as [D _]. now rewrite (forallb_impl _ _ _ Hd D).
Qed.

Lemma part_notpm p : wf_part p -> forallb notpm (print_part p) = true.
Proof. destruct p as [[l d0] rest]. apply part_forallb; [apply alpha_notpm|apply sep_notpm|apply digit_notpm]. Qed.

Lemma wf_char_alpha c : is_alpha c = true -> wf_char c = true.
Proof. unfold wf_char. now intros ->. Qed.
Lemma wf_char_digit c : is_digit c = true -> wf_char c = true.
Proof. unfold wf_char. intros ->. now rewrite orb_true_r. Qed.
Lemma wf_char_sep c : is_sep c = true -> wf_char c = true.
Proof. unfold wf_char. intros ->. now rewrite !orb_true_r. Qed.

Lemma part_wf_name p : wf_part p -> wf_name (print_part p) = true.
Proof. destruct p as [[l d0] rest]. apply part_forallb; [apply wf_char_alpha|apply wf_char_sep|apply wf_char_digit]. Qed.

Lemma part_nonempty p : wf_part p -> print_part p <> [].
Proof.
  destruct p as [[l d0] rest]. intros (_ & _ & D & _). apply all_digits_forall in D as [_ D].
  cbn [print_part]. destruct l; [|discriminate]. destruct d0; [congruence|discriminate].
Qed.

Lemma last_opt_snoc {A} (l : list A) c : last_opt (l ++ [c]) = Some c.
Proof.
  induction l as [|x l IH]; [reflexivity|]. cbn [app last_opt].
  destruct (l ++ [c]) eqn:E; [destruct l; discriminate|]. exact IH.
Qed.

(* a text that is all digits, or whose last character that is not a digit is neither m nor
   p, does not end in m<digits> / p<digits> *)
Lemma mp_suffix_none x :
  forallb is_digit x = true \/
  (exists base c d, x = base ++ c :: d /\ forallb is_digit d = true /\ is_digit c = false /\
                    ascii_eqb c c_m || ascii_eqb c c_p = false) ->
  mp_suffix x = None.
Proof.
  unfold mp_suffix. intros [H|[base [c [d [-> [D [C M]]]]]]].
  - rewrite span_all by (now rewrite forallb_rev). now destruct (rev x).
  - rewrite rev_app_distr. cbn [rev]. rewrite <- app_assoc. cbn [app].
    rewrite span_stop by (rewrite ?forallb_rev; assumption). rewrite M. now destruct (rev d).
Qed.

Lemma part_mp_suffix p : wf_part p -> mp_suffix (print_part p) = None.
Proof.
  destruct p as [[l d0] rest]. intros (L & M & D & W). apply mp_suffix_none. cbn [print_part]. fold (flat rest).
  destruct (all_digits_forall _ D) as [Dd _].
  destruct rest as [|sd rest0].
  - cbn [flat flat_map]. rewrite app_nil_r.
    destruct l as [|c0 l0]; [now left|]. right.
    destruct (@exists_last _ (c0 :: l0)) as [l' [c E]]; [discriminate|]. rewrite E in *.
    exists l', c, d0. rewrite <- app_assoc. split; [reflexivity|]. split; [assumption|].
    unfold ends_mp in M. rewrite last_opt_snoc in M. split; [|assumption].
    rewrite forallb_app_iff in L. apply andb_true_iff in L as [_ L]. cbn [forallb] in L.
    apply andb_true_iff in L as [L _]. now apply alpha_not_digit.
  - right. destruct (@exists_last _ (sd :: rest0)) as [rest' [[s d] E]]; [discriminate|]. rewrite E in *.
    unfold wf_rest in W. apply Forall_app in W as [_ W]. inversion W as [|? ? [S Ds] _]; subst. cbn [fst snd] in *.
    exists (l ++ d0 ++ flat rest'), s, d. split.
    + unfold flat. rewrite flat_map_app. cbn [flat_map fst snd]. now rewrite app_nil_r, <- !app_assoc.
    + split; [now apply all_digits_forall in Ds as [? _]|]. split; [now apply sep_not_digit|now apply sep_not_mp].
Qed.

Lemma split_simple_eq x :
  forallb notpm x = true -> x <> [] ->
  split_version x =
  match mp_suffix x with
  | Some (c, ds, base) => if ascii_eqb c c_m then Ok (base, ds, []) else Ok (base, [], ds)
  | None => Ok (x, [], [])
  end.
Proof.
  intros H N. destruct x as [|c0 x0]; [congruence|].
  unfold split_version. rewrite (split_on_nodelim c_minus _ (notpm_no_minus _ H)). simpl length.
  change (2 <? 1) with false. cbv iota. rewrite (span_all _ _ H). reflexivity.
Qed.

Lemma part_split p : wf_part p -> split_version (print_part p) = Ok (print_part p, [], []).
Proof.
  intro W. rewrite split_simple_eq; [|now apply part_notpm|now apply part_nonempty].
  now rewrite part_mp_suffix.
Qed.

Lemma split_dotus_nosep a : forallb (fun c => negb (is_sep c)) a = true -> split_dotus a = [a].
Proof.
  induction a as [|c a IH]; [reflexivity|]. cbn [forallb split_dotus]. intro H.
  apply andb_true_iff in H as [Hc Ha]. apply negb_true_iff in Hc. now rewrite Hc, IH.
Qed.

Lemma split_dotus_app a s r :
  forallb (fun c => negb (is_sep c)) a = true -> is_sep s = true ->
  split_dotus (a ++ s :: r) = a :: split_dotus r.
Proof.
  intros Ha Hs. induction a as [|c a IH]; cbn [app split_dotus].
  - now rewrite Hs.
  - cbn [forallb] in Ha. apply andb_true_iff in Ha as [Hc Ha]. apply negb_true_iff in Hc.
    now rewrite Hc, IH.
Qed.

Lemma split_dotus_flat rest : forall a,
  forallb (fun c => negb (is_sep c)) a = true -> wf_rest rest ->
  split_dotus (a ++ flat rest) = a :: map snd rest.
Proof.
  induction rest as [|[s d] rest IH]; intros a Ha W.
  - cbn [flat flat_map map]. rewrite app_nil_r. now apply split_dotus_nosep.
  - inversion W as [|? ? [S D] W']; subst. cbn [fst snd] in *.
    change (flat ((s, d) :: rest)) with (s :: d ++ flat rest). cbn [map snd].
    rewrite split_dotus_app by assumption. f_equal. apply IH; [|assumption].
    apply all_digits_forall in D as [D _]. eapply forallb_impl; [|exact D].
    intros c Hc. now rewrite (digit_not_sep c Hc).
Qed.

Lemma part_components l d0 rest :
  wf_part (l, d0, rest) -> split_dotus (print_part (l, d0, rest)) = (l ++ d0) :: map snd rest.
Proof.
  intros (L & _ & D & W). cbn [print_part]. fold (flat rest). rewrite app_assoc.
  apply split_dotus_flat; [|assumption]. rewrite forallb_app_iff. apply all_digits_forall in D as [D _].
  apply andb_true_iff. split; (eapply forallb_impl; [|eassumption]); intros c Hc.
  - now rewrite (alpha_not_sep c Hc).
  - now rewrite (digit_not_sep c Hc).
Qed.

(* ---------------------------------------------------------------- how conventional names split *)

Lemma split_version_nonnil v :
  v <> [] ->
  split_version v =
  if 2 <? length (split_on c_minus v) then Ok (v, [], [])
  else
    let (g1, r) := span notpm v in
    if nonempty g1 then
      let (eee, r1) := opt_group c_minus r in
      let (fff, _) := opt_group c_plus r1 in
      if nonempty eee || nonempty fff then Ok (g1, eee, fff)
      else match mp_suffix v with
           | Some (c, ds, base) => if ascii_eqb c c_m then Ok (base, ds, []) else Ok (base, [], ds)
           | None => Ok (g1, [], [])
           end
    else Err Crash.
Proof. destruct v; [congruence|reflexivity]. Qed.

Lemma opt_group_take d xs r :
  forallb notpm xs = true -> xs <> [] -> (r = [] \/ exists c r', r = c :: r' /\ notpm c = false) ->
  opt_group d (d :: xs ++ r) = (xs, r).
Proof.
  intros H N R. unfold opt_group. rewrite ascii_eqb_refl.
  assert (S : span notpm (xs ++ r) = (xs, r)).
  { destruct R as [->|[c [r' [-> Hc]]]]; [rewrite app_nil_r; now apply span_all|now apply span_stop]. }
  rewrite S. apply nonempty_true_iff in N. now rewrite N.
Qed.

Lemma split_pst xp xs xt :
  forallb notpm xp = true -> xp <> [] -> forallb notpm xs = true -> xs <> [] ->
  forallb notpm xt = true -> xt <> [] ->
  split_version (xp ++ c_minus :: xs ++ c_plus :: xt) = Ok (xp, xs, xt).
Proof.
  intros Hp Np Hs Ns Ht Nt.
  rewrite split_version_nonnil by (destruct xp; [congruence|discriminate]).
  rewrite split_on_app by (now apply notpm_no_minus).
  rewrite split_on_nodelim.
  2:{ rewrite mem_ascii_app, (notpm_no_minus _ Hs). cbn [mem_ascii orb].
      change (ascii_eqb c_minus c_plus) with false. cbv iota. now apply notpm_no_minus. }
  cbn [length]. change (2 <? 2) with false. cbv iota.
  rewrite span_stop by (auto; reflexivity). apply nonempty_true_iff in Np. rewrite Np.
  rewrite (opt_group_take c_minus xs (c_plus :: xt) Hs Ns) by (right; eauto).
  replace (c_plus :: xt) with (c_plus :: xt ++ []) by (now rewrite app_nil_r).
  rewrite (opt_group_take c_plus xt [] Ht Nt) by (now left).
  apply nonempty_true_iff in Ns. now rewrite Ns.
Qed.

Lemma split_ps xp xs :
  forallb notpm xp = true -> xp <> [] -> forallb notpm xs = true -> xs <> [] ->
  split_version (xp ++ c_minus :: xs) = Ok (xp, xs, []).
Proof.
  intros Hp Np Hs Ns.
  rewrite split_version_nonnil by (destruct xp; [congruence|discriminate]).
  rewrite split_on_app by (now apply notpm_no_minus).
  rewrite split_on_nodelim by (now apply notpm_no_minus).
  cbn [length]. change (2 <? 2) with false. cbv iota.
  rewrite span_stop by (auto; reflexivity). apply nonempty_true_iff in Np. rewrite Np.
  replace (c_minus :: xs) with (c_minus :: xs ++ []) by (now rewrite app_nil_r).
  rewrite (opt_group_take c_minus xs [] Hs Ns) by (now left).
  cbn [opt_group]. apply nonempty_true_iff in Ns. now rewrite Ns.
Qed.

Lemma split_pt xp xt :
  forallb notpm xp = true -> xp <> [] -> forallb notpm xt = true -> xt <> [] ->
  split_version (xp ++ c_plus :: xt) = Ok (xp, [], xt).
Proof.
  intros Hp Np Ht Nt.
  rewrite split_version_nonnil by (destruct xp; [congruence|discriminate]).
  rewrite split_on_nodelim.
  2:{ rewrite mem_ascii_app, (notpm_no_minus _ Hp). cbn [mem_ascii orb].
      change (ascii_eqb c_minus c_plus) with false. cbv iota. now apply notpm_no_minus. }
  cbn [length]. change (2 <? 1) with false. cbv iota.
  rewrite span_stop by (auto; reflexivity). apply nonempty_true_iff in Np. rewrite Np.
  assert (O : opt_group c_minus (c_plus :: xt) = ([], c_plus :: xt)) by reflexivity. rewrite O.
  replace (c_plus :: xt) with (c_plus :: xt ++ []) by (now rewrite app_nil_r).
  rewrite (opt_group_take c_plus xt [] Ht Nt) by (now left).
  apply nonempty_true_iff in Nt. rewrite Nt. now rewrite orb_true_r.
Qed.

Lemma cname_split pp sp tp :
  wf_cname (pp, sp, tp) ->
  split_version (print_cname (pp, sp, tp)) = Ok (print_part pp, print_opt sp, print_opt tp).
Proof.
  intros (Wp & Ws & Wt). cbn [print_cname print_opt].
  pose proof (part_notpm _ Wp) as Hp. pose proof (part_nonempty _ Wp) as Np.
  destruct sp as [s|], tp as [t|]; cbn [wf_opt print_opt] in *.
  - apply split_pst; auto using part_notpm, part_nonempty.
  - rewrite app_nil_r. apply split_ps; auto using part_notpm, part_nonempty.
  - cbn [app]. apply split_pt; auto using part_notpm, part_nonempty.
  - cbn [app]. rewrite app_nil_r. now apply part_split.
Qed.

(* ---------------------------------------------------------------- components of conventional parts *)

Lemma py_int_digits d : all_digits d = true -> py_int d = Some (Z.of_N (num_of_digits d)).
Proof.
  intro D. destruct (all_digits_head d D) as [c [r [-> Hc]]]. unfold py_int.
  now rewrite (digit_not_minus c Hc), (digit_not_plus c Hc), D.
Qed.

Lemma decomp_digits d : all_digits d = true -> decomp d = None.
Proof.
  intro D. destruct (all_digits_head d D) as [c [r [-> Hc]]]. unfold decomp.
  rewrite span_nil_head by (unfold not_digit; now rewrite Hc). reflexivity.
Qed.

Lemma alpha_all_not_digit l : forallb is_alpha l = true -> forallb not_digit l = true.
Proof. apply forallb_impl. intros c H. unfold not_digit. now rewrite (alpha_not_digit c H). Qed.

Lemma decomp_letters l d :
  l <> [] -> forallb is_alpha l = true -> all_digits d = true -> decomp (l ++ d) = Some (l, d).
Proof. intros N L D. apply decomp_intro; auto using alpha_all_not_digit. Qed.

Lemma py_int_letters l d : l <> [] -> forallb is_alpha l = true -> py_int (l ++ d) = None.
Proof.
  intros N L. destruct l as [|c l]; [congruence|]. cbn [forallb] in L. apply andb_true_iff in L as [Hc _].
  cbn [app py_int]. rewrite (alpha_not_minus c Hc), (alpha_not_plus c Hc).
  unfold all_digits. cbn [forallb nonempty]. now rewrite (alpha_not_digit c Hc).
Qed.

Lemma alpha_no_meta l : forallb is_alpha l = true -> existsb regex_meta l = false.
Proof.
  induction l as [|c l IH]; [reflexivity|]. cbn [forallb existsb]. intro H.
  apply andb_true_iff in H as [Hc H]. now rewrite (alpha_not_meta c Hc), IH.
Qed.

Lemma nometa_ld l d : forallb is_alpha l = true -> all_digits d = true -> nometa (l ++ d).
Proof.
  intros L D pre dd E. destruct l as [|c l].
  - cbn [app] in E. rewrite (decomp_digits d D) in E. discriminate.
  - rewrite decomp_letters in E by (auto; discriminate). inversion E; subst. now apply alpha_no_meta.
Qed.

Lemma nometa_nil : nometa [].
Proof. intros pre d E. discriminate. Qed.

Lemma comp_digits d e :
  all_digits d = true -> all_digits e = true ->
  cmp_component d e = Ok (true, N.compare (num_of_digits d) (num_of_digits e)).
Proof.
  intros D E. rewrite cmp_component_alt by (apply (nometa_ld [] d); auto).
  rewrite (decomp_digits d D). unfold fallback. rewrite (py_int_digits d D), (py_int_digits e E).
  now rewrite N2Z.inj_compare.
Qed.

Lemma str_compare_letters l1 : forall l2 d e,
  forallb is_alpha l1 = true -> forallb is_alpha l2 = true -> all_digits d = true -> all_digits e = true ->
  l1 <> l2 -> str_compare (l1 ++ d) (l2 ++ e) = str_compare l1 l2.
Proof.
  unfold str_compare.
  induction l1 as [|c l1 IH]; intros [|c' l2] d e L1 L2 D E N; try congruence.
  - destruct (all_digits_head d D) as [x [r [-> Hx]]]. cbn [forallb] in L2. apply andb_true_iff in L2 as [Hc _].
    cbn [app lex_compare]. now rewrite (digit_lt_alpha x c' Hx Hc).
  - destruct (all_digits_head e E) as [x [r [-> Hx]]]. cbn [forallb] in L1. apply andb_true_iff in L1 as [Hc _].
    cbn [app lex_compare]. rewrite (ok_anti _ ord_ok_ascii x c). now rewrite (digit_lt_alpha x c Hx Hc).
  - cbn [forallb] in L1, L2. apply andb_true_iff in L1 as [_ L1]. apply andb_true_iff in L2 as [_ L2].
    cbn [app lex_compare]. destruct (ascii_compare c c') eqn:C; try reflexivity.
    apply (ok_eq _ ord_ok_ascii) in C. subst c'. apply IH; auto. congruence.
Qed.

(* the first components of two parts: equal letters are stripped and the numbers compared,
   different letters decide as strings *)
Lemma comp_first l1 d l2 e :
  forallb is_alpha l1 = true -> forallb is_alpha l2 = true -> all_digits d = true -> all_digits e = true ->
  cmp_component (l1 ++ d) (l2 ++ e) =
  Ok (if str_eqb l1 l2 then (true, N.compare (num_of_digits d) (num_of_digits e))
      else (false, str_compare l1 l2)).
Proof.
  intros L1 L2 D E. rewrite cmp_component_alt by (now apply nometa_ld). f_equal.
  destruct (str_eqb_spec l1 l2) as [<-|N].
  - destruct l1 as [|c l].
    + cbn [app]. rewrite (decomp_digits d D). unfold fallback.
      rewrite (py_int_digits d D), (py_int_digits e E). now rewrite N2Z.inj_compare.
    + rewrite !decomp_letters by (auto; discriminate). now rewrite str_eqb_refl.
  - assert (F : fallback (l1 ++ d) (l2 ++ e) = (false, str_compare l1 l2)).
    { unfold fallback. rewrite <- (str_compare_letters l1 l2 d e) by assumption.
      destruct l1 as [|c l1].
      - destruct l2 as [|c' l2]; [congruence|]. rewrite (py_int_letters (c' :: l2)) by (auto; discriminate).
        now destruct (py_int ([] ++ d)).
      - now rewrite (py_int_letters (c :: l1)) by (auto; discriminate). }
    destruct l1 as [|c l1]; [cbn [app]; now rewrite (decomp_digits d D)|].
    rewrite (decomp_letters (c :: l1)) by (auto; discriminate).
    destruct l2 as [|c' l2]; [cbn [app]; now rewrite (decomp_digits e E)|].
    rewrite (decomp_letters (c' :: l2)) by (auto; discriminate).
    destruct (str_eqb_spec (c :: l1) (c' :: l2)); [contradiction|assumption].
Qed.

Lemma cmp_loop_digits strict ds : forall es,
  Forall (fun d => all_digits d = true) ds -> Forall (fun d => all_digits d = true) es ->
  cmp_loop strict ds es = Ok (lex_compare N.compare (map num_of_digits ds) (map num_of_digits es)).
Proof.
  induction ds as [|d ds IH]; intros [|e es] Hd He; try reflexivity.
  inversion Hd; inversion He; subst. cbn [cmp_loop map lex_compare]. rewrite comp_digits by assumption.
  destruct (N.compare (num_of_digits d) (num_of_digits e)); [now apply IH| |]; now rewrite andb_false_r.
Qed.

Lemma wf_rest_digits rest : wf_rest rest -> Forall (fun d => all_digits d = true) (map snd rest).
Proof. intro W. induction W as [|[s d] rest [_ D] W IH]; constructor; auto. Qed.

Lemma map_num_rest rest : map num_of_digits (map snd rest) = map (fun sd : ascii * str => num_of_digits (snd sd)) rest.
Proof. now rewrite map_map. Qed.

Lemma cmp_primaries_parts strict p1 p2 :
  wf_part p1 -> wf_part p2 -> (strict = false \/ fst (fst p1) = fst (fst p2)) ->
  cmp_primaries strict (print_part p1) (print_part p2) = Ok (pkey_compare (part_key p1) (part_key p2)).
Proof.
  destruct p1 as [[l1 d] r1], p2 as [[l2 e] r2]. intros W1 W2 S.
  unfold cmp_primaries. rewrite !part_components by assumption.
  destruct W1 as (L1 & _ & D & R1), W2 as (L2 & _ & E & R2).
  cbn [cmp_loop]. rewrite comp_first by assumption.
  unfold pkey_compare, part_key. cbn [fst snd lex_compare].
  destruct (str_eqb_spec l1 l2) as [<-|N].
  - rewrite (ok_refl _ ord_ok_str). cbn [then_cmp].
    destruct (N.compare (num_of_digits d) (num_of_digits e)).
    + rewrite cmp_loop_digits by (now apply wf_rest_digits). now rewrite !map_num_rest.
    + now rewrite andb_false_r.
    + now rewrite andb_false_r.
  - destruct S as [->|S]; [|cbn [fst] in S; contradiction]. cbn [andb].
    destruct (str_compare l1 l2) eqn:C; try reflexivity.
    apply (ok_eq _ ord_ok_str) in C. contradiction.
Qed.

(* ---------------------------------------------------------------- the key order is a total order *)

Lemma ord_ok_ext {A} (c c' : A -> A -> comparison) : (forall a b, c a b = c' a b) -> ord_ok c -> ord_ok c'.
Proof.
  intros E [R Q An T]. split.
  - intro a. rewrite <- E. apply R.
  - intros a b. rewrite <- E. apply Q.
  - intros a b. rewrite <- !E. apply An.
  - intros a b d. rewrite <- !E. apply T.
Qed.

Lemma ord_ok_pair {A B} (ca : A -> A -> comparison) (cb : B -> B -> comparison) :
  ord_ok ca -> ord_ok cb ->
  ord_ok (fun x y : A * B => then_cmp (ca (fst x) (fst y)) (cb (snd x) (snd y))).
Proof.
  intros [Ra Ea Aa Ta] [Rb Eb Ab Tb]. split.
  - intros [a b]. cbn. now rewrite Ra, Rb.
  - intros [a b] [a' b']. cbn. destruct (ca a a') eqn:C; cbn; try discriminate.
    intro H. apply Ea in C. apply Eb in H. now subst.
  - intros [a b] [a' b']. cbn. rewrite (Aa a a'), (Ab b b'). now destruct (ca a a').
  - intros [a b] [a' b'] [a'' b'']. cbn.
    destruct (ca a a') eqn:C1; cbn; try discriminate.
    + apply Ea in C1. subst a'. destruct (ca a a''); cbn; auto. apply Tb.
    + intros _. destruct (ca a' a'') eqn:C2; cbn; try discriminate.
      * apply Ea in C2. subst a''. now rewrite C1.
      * now rewrite (Ta a a' a'' C1 C2).
Qed.

Lemma ord_ok_pkey : ord_ok pkey_compare.
Proof. apply (ord_ok_pair str_compare (lex_compare N.compare)); [apply ord_ok_str|apply ord_ok_lex, ord_ok_N]. Qed.

Lemma ord_ok_sec : ord_ok sec_compare.
Proof.
  destruct ord_ok_pkey as [R E An T]. split.
  - intros [a|]; cbn; auto.
  - intros [a|] [b|]; cbn; try discriminate; auto. intro H. f_equal. now apply E.
  - intros [a|] [b|]; cbn; auto.
  - intros [a|] [b|] [d|]; cbn; try discriminate; auto. apply T.
Qed.

Lemma ord_ok_ter : ord_ok ter_compare.
Proof.
  destruct ord_ok_pkey as [R E An T]. split.
  - intros [a|]; cbn; auto.
  - intros [a|] [b|]; cbn; try discriminate; auto. intro H. f_equal. now apply E.
  - intros [a|] [b|]; cbn; auto.
  - intros [a|] [b|] [d|]; cbn; try discriminate; auto. apply T.
Qed.

Lemma ord_ok_key : ord_ok key_compare.
Proof.
  eapply ord_ok_ext; [|apply (ord_ok_pair _ _ (ord_ok_pair _ _ ord_ok_pkey ord_ok_sec) ord_ok_ter)].
  intros [[p1 s1] t1] [[p2 s2] t2]. cbn. now destruct (pkey_compare p1 p2).
Qed.

(* ---------------------------------------------------------------- the refinement *)

Lemma sec_ter_nil (rec : str -> str -> res comparison) : sec_ter rec [] [] [] [] = Ok Eq.
Proof. reflexivity. Qed.

(* what stdCompare does with two primaries that are conventional parts *)
Lemma prim_stage strict p1 p2 (R : res comparison) :
  wf_part p1 -> wf_part p2 -> (strict = false \/ fst (fst p1) = fst (fst p2)) ->
  (if str_eqb (print_part p1) (print_part p2) then R
   else match cmp_primaries strict (print_part p1) (print_part p2) with
        | Ok Eq => R
        | r => r
        end) =
  match pkey_compare (part_key p1) (part_key p2) with Eq => R | c => Ok c end.
Proof.
  intros W1 W2 S. pose proof (cmp_primaries_parts strict p1 p2 W1 W2 S) as C.
  destruct (str_eqb_spec (print_part p1) (print_part p2)) as [E|N].
  - pose proof (cmp_primaries_parts strict p1 p1 W1 W1 (or_intror eq_refl)) as C'.
    rewrite (ok_refl _ ord_ok_pkey) in C'. rewrite <- E, C' in C. inversion C as [K]. reflexivity.
  - rewrite C. now destruct (pkey_compare (part_key p1) (part_key p2)).
Qed.

Lemma scmp_part a b :
  wf_part a -> wf_part b ->
  scmp true false (print_part a) (print_part b) = Ok (pkey_compare (part_key a) (part_key b)).
Proof.
  intros Wa Wb. rewrite scmp_unfold, !part_split by assumption. rewrite sec_ter_nil.
  rewrite (prim_stage false a b (Ok Eq) Wa Wb (or_introl eq_refl)).
  now destruct (pkey_compare (part_key a) (part_key b)).
Qed.

Lemma str_eqb_nonnil_nil x : x <> [] -> str_eqb x [] = false /\ str_eqb [] x = false.
Proof. destruct x; [congruence|]. auto. Qed.

Lemma scmp_part_nil a : wf_part a ->
  scmp true false (print_part a) [] = Ok Gt /\ scmp true false [] (print_part a) = Ok Lt.
Proof.
  intro W. pose proof (part_nonempty a W) as N. destruct (str_eqb_nonnil_nil _ N) as [E1 E2].
  rewrite !scmp_unfold, !part_split by assumption.
  change (split_version []) with (@Ok (str * str * str) ([], [], [])). cbv iota beta. rewrite E1, E2.
  unfold cmp_primaries. destruct a as [[l d] rest]. rewrite part_components by assumption.
  destruct W as (L & _ & D & _).
  assert (Nx : l ++ d <> []) by (apply all_digits_forall in D as [_ D]; destruct l; [exact D|discriminate]).
  change (split_dotus []) with [@nil ascii]. cbn [cmp_loop].
  rewrite (cmp_component_alt (l ++ d) []) by (now apply nometa_ld).
  rewrite (cmp_component_alt [] (l ++ d)) by apply nometa_nil.
  change (decomp []) with (@None (str * str)).
  assert (F1 : fallback (l ++ d) [] = (false, Gt)).
  { unfold fallback. change (py_int []) with (@None Z). destruct (l ++ d); [congruence|]. now destruct (py_int _). }
  assert (F2 : fallback [] (l ++ d) = (false, Lt)).
  { unfold fallback. change (py_int []) with (@None Z). destruct (l ++ d); [congruence|reflexivity]. }
  split.
  - destruct (decomp (l ++ d)) as [[? ?]|]; now rewrite F1.
  - now rewrite F2.
Qed.

Lemma scmp_ter t1 t2 :
  wf_opt t1 -> wf_opt t2 ->
  scmp true false (print_opt t1) (print_opt t2) =
  Ok (ter_compare (option_map part_key t1) (option_map part_key t2)).
Proof.
  intros W1 W2. destruct t1 as [a|], t2 as [b|]; cbn [print_opt option_map ter_compare wf_opt] in *.
  - now apply scmp_part.
  - now apply scmp_part_nil.
  - now apply scmp_part_nil.
  - apply scmp_nil.
Qed.

Lemma nonempty_print a : wf_part a -> nonempty (print_part a) = true.
Proof. intro W. apply nonempty_true_iff. now apply part_nonempty. Qed.

Lemma sec_ter_stage s1 t1 s2 t2 :
  wf_opt s1 -> wf_opt t1 -> wf_opt s2 -> wf_opt t2 ->
  sec_ter (scmp true false) (print_opt s1) (print_opt t1) (print_opt s2) (print_opt t2) =
  Ok (then_cmp (sec_compare (option_map part_key s1) (option_map part_key s2))
               (ter_compare (option_map part_key t1) (option_map part_key t2))).
Proof.
  intros Ws1 Wt1 Ws2 Wt2. pose proof (scmp_ter t1 t2 Wt1 Wt2) as T. unfold sec_ter.
  destruct s1 as [a|], s2 as [b|]; cbn [print_opt option_map sec_compare wf_opt nonempty] in *;
    rewrite ?nonempty_print by assumption; cbn [orb andb nonempty then_cmp]; try reflexivity.
  - rewrite scmp_part by assumption. destruct (pkey_compare (part_key a) (part_key b)); cbn [then_cmp]; auto.
  - destruct t1 as [c|], t2 as [d|]; cbn [print_opt nonempty wf_opt] in *;
      rewrite ?nonempty_print by assumption; cbn [orb]; auto.
Qed.

Lemma scmp_cname strict c1 c2 :
  wf_cname c1 -> wf_cname c2 ->
  (strict = false \/ fst (fst (fst (fst c1))) = fst (fst (fst (fst c2)))) ->
  scmp true strict (print_cname c1) (print_cname c2) = Ok (key_compare (cname_key c1) (cname_key c2)).
Proof.
  destruct c1 as [[p1 s1] t1], c2 as [[p2 s2] t2]. intros W1 W2 S. cbn [fst] in S.
  rewrite scmp_unfold, !cname_split by assumption.
  destruct W1 as (Wp1 & Ws1 & Wt1), W2 as (Wp2 & Ws2 & Wt2).
  rewrite sec_ter_stage by assumption.
  rewrite (prim_stage strict p1 p2 _ Wp1 Wp2 S).
  cbn [cname_key key_compare]. now destruct (pkey_compare (part_key p1) (part_key p2)).
Qed.

(* the refinement theorem in both modes *)
Lemma cmp_key_order a b :
  conv a = true -> conv b = true -> version_cmp a b = Ok (key_compare (key a) (key b)).
Proof.
  intros Ca Cb. destruct (conv_spec a Ca) as [c1 (W1 & P1 & K1)]. destruct (conv_spec b Cb) as [c2 (W2 & P2 & K2)].
  unfold version_cmp. rewrite std_compare_scmp, K1, K2, <- P1, <- P2. apply scmp_cname; auto.
Qed.

Lemma prefix_of_cname v c : key v = cname_key c -> prefix_of v = fst (fst (fst (fst c))).
Proof. unfold prefix_of. intros ->. now destruct c as [[[[l d] r] s] t]. Qed.

Lemma cmp_strict_key_order a b :
  conv a = true -> conv b = true -> prefix_of a = prefix_of b ->
  version_cmp_strict a b = Ok (key_compare (key a) (key b)).
Proof.
  intros Ca Cb Hp. destruct (conv_spec a Ca) as [c1 (W1 & P1 & K1)]. destruct (conv_spec b Cb) as [c2 (W2 & P2 & K2)].
  rewrite (prefix_of_cname a c1 K1), (prefix_of_cname b c2 K2) in Hp.
  unfold version_cmp_strict. rewrite std_compare_scmp, K1, K2, <- P1, <- P2. apply scmp_cname; auto.
Qed.

(* ---------------------------------------------------------------- shapes used by the corollaries *)

Lemma version_cmp_printed c1 c2 :
  wf_cname c1 -> wf_cname c2 ->
  version_cmp (print_cname c1) (print_cname c2) = Ok (key_compare (cname_key c1) (cname_key c2)).
Proof. intros W1 W2. unfold version_cmp. rewrite std_compare_scmp. apply scmp_cname; auto. Qed.

Lemma print_cname_part p : print_cname (p, None, None) = print_part p.
Proof. cbn [print_cname]. now rewrite !app_nil_r. Qed.

Lemma wf_cname_part p : wf_part p -> wf_cname (p, None, None).
Proof. intro W. cbn. auto. Qed.

Lemma lex_compare_snoc {A} (c : A -> A -> comparison) a x y :
  ord_ok c -> lex_compare c (a ++ [x]) (a ++ [y]) = c x y.
Proof.
  intro H. induction a as [|z a IH]; cbn [app lex_compare].
  - now destruct (c x y).
  - now rewrite (ok_refl c H).
Qed.

Lemma lex_compare_longer {A} (c : A -> A -> comparison) a y :
  ord_ok c -> lex_compare c a (a ++ [y]) = Lt.
Proof.
  intro H. induction a as [|z a IH]; cbn [app lex_compare]; [reflexivity|]. now rewrite (ok_refl c H).
Qed.

Definition part_snoc (p : part) (s : ascii) (d : str) : part :=
  let '(l, d0, rest) := p in (l, d0, rest ++ [(s, d)]).

Lemma wf_part_snoc p s d : wf_part p -> is_sep s = true -> all_digits d = true -> wf_part (part_snoc p s d).
Proof.
  destruct p as [[l d0] rest]. intros (L & M & D & W) S Dd. cbn. repeat split; auto.
  apply Forall_app. split; [assumption|]. constructor; [split; assumption|constructor].
Qed.

Lemma print_part_snoc p s d : print_part (part_snoc p s d) = print_part p ++ s :: d.
Proof.
  destruct p as [[l d0] rest]. cbn [part_snoc print_part]. rewrite flat_map_app. cbn [flat_map fst snd].
  now rewrite app_nil_r, <- !app_assoc.
Qed.

Lemma part_key_snoc p s d :
  part_key (part_snoc p s d) = (fst (part_key p), snd (part_key p) ++ [num_of_digits d]).
Proof.
  destruct p as [[l d0] rest]. cbn [part_snoc part_key fst snd]. now rewrite map_app.
Qed.

Lemma then_cmp_eq_r c : then_cmp c Eq = c.
Proof. now destruct c. Qed.

(* ---------------------------------------------------------------- the recogniser is complete *)

Lemma parse_body_complete rest : forall d cur,
  wf_rest rest -> forallb is_digit d = true -> forallb is_digit cur = true -> rev cur ++ d <> [] ->
  parse_body cur (d ++ flat rest) = Some (rev cur ++ d, rest).
Proof.
  induction rest as [|[s e] rest IH]; intros d cur W.
  - revert cur. induction d as [|c d IHd]; intros cur Hd Hc N.
    + cbn [app flat flat_map parse_body]. rewrite app_nil_r in *.
      destruct cur; [cbn in N; congruence|reflexivity].
    + cbn [forallb] in Hd. apply andb_true_iff in Hd as [Hcd Hd]. cbn [app parse_body]. rewrite Hcd.
      rewrite IHd; [cbn [rev]; now rewrite <- app_assoc|assumption|cbn [forallb]; now rewrite Hcd|].
      cbn [rev]. rewrite <- app_assoc. cbn [app]. destruct (rev cur); discriminate.
  - inversion W as [|? ? [S E] W']; subst. cbn [fst snd] in *.
    revert cur. induction d as [|c d IHd]; intros cur Hd Hc N.
    + change (flat ((s, e) :: rest)) with (s :: e ++ flat rest). cbn [app parse_body].
      rewrite (sep_not_digit s S), S. rewrite app_nil_r in *.
      destruct cur as [|c0 cur]; [cbn in N; congruence|]. cbn [nonempty andb].
      apply all_digits_forall in E as [E Ne].
      rewrite (IH e [] W' E eq_refl) by (cbn [rev app]; assumption). reflexivity.
    + cbn [forallb] in Hd. apply andb_true_iff in Hd as [Hcd Hd]. cbn [app parse_body]. rewrite Hcd.
      rewrite IHd; [cbn [rev]; now rewrite <- app_assoc|assumption|cbn [forallb]; now rewrite Hcd|].
      cbn [rev]. rewrite <- app_assoc. cbn [app]. destruct (rev cur); discriminate.
Qed.

Lemma span_alpha_part l d0 rest :
  wf_part (l, d0, rest) -> span is_alpha (print_part (l, d0, rest)) = (l, d0 ++ flat rest).
Proof.
  intros (L & _ & D & _). cbn [print_part]. fold (flat rest).
  destruct (all_digits_head d0 D) as [c [r [-> Hc]]]. cbn [app].
  apply span_stop; [assumption|now apply digit_not_alpha].
Qed.

Lemma parse_part_complete p : wf_part p -> parse_part (print_part p) = Some p.
Proof.
  destruct p as [[l d0] rest]. intro W. unfold parse_part. rewrite (span_alpha_part l d0 rest W).
  destruct W as (L & M & D & W). rewrite M. apply all_digits_forall in D as [D N].
  rewrite (parse_body_complete rest d0 [] W D eq_refl) by (cbn [rev app]; assumption). reflexivity.
Qed.

Lemma parse_conv_complete c : wf_cname c -> parse_conv (print_cname c) = Some c.
Proof.
  destruct c as [[p s] t]. intros (Wp & Ws & Wt). unfold parse_conv. cbn [print_cname].
  pose proof (part_notpm p Wp) as Hp.
  destruct s as [s|], t as [t|]; cbn [wf_opt] in *.
  - cbn [app]. rewrite span_stop by (auto; reflexivity). rewrite (parse_part_complete p Wp).
    rewrite ascii_eqb_refl. rewrite span_stop by (auto using part_notpm; reflexivity).
    rewrite (parse_part_complete s Ws). rewrite ascii_eqb_refl. now rewrite (parse_part_complete t Wt).
  - rewrite app_nil_r. cbn [app]. rewrite span_stop by (auto; reflexivity). rewrite (parse_part_complete p Wp).
    rewrite ascii_eqb_refl. rewrite span_all by (now apply part_notpm). now rewrite (parse_part_complete s Ws).
  - cbn [app]. rewrite span_stop by (auto; reflexivity). rewrite (parse_part_complete p Wp).
    change (ascii_eqb c_plus c_minus) with false. cbv iota. now rewrite (parse_part_complete t Wt).
  - cbn [app]. rewrite !app_nil_r. rewrite span_all by assumption. now rewrite (parse_part_complete p Wp).
Qed.

Lemma conv_complete c : wf_cname c -> conv (print_cname c) = true /\ key (print_cname c) = cname_key c.
Proof. intro W. unfold conv, key. now rewrite (parse_conv_complete c W). Qed.

(* ---------------------------------------------------------------- strict mode across letter prefixes *)

Lemma print_part_letters l1 d1 r1 l2 d2 r2 :
  wf_part (l1, d1, r1) -> wf_part (l2, d2, r2) ->
  print_part (l1, d1, r1) = print_part (l2, d2, r2) -> l1 = l2.
Proof.
  intros W1 W2 E. pose proof (span_alpha_part _ _ _ W1) as S1. pose proof (span_alpha_part _ _ _ W2) as S2.
  rewrite E, S2 in S1. now inversion S1.
Qed.

Lemma starts_with_letters l1 d l2 e :
  forallb is_alpha l1 = true -> forallb is_alpha l2 = true -> all_digits d = true -> all_digits e = true ->
  starts_with (l1 ++ d) (l2 ++ e) = true -> l1 = l2.
Proof.
  intros L1 L2 D E. revert l2 L2. induction l1 as [|c l1 IH]; intros [|c' l2] L2 H; try reflexivity.
  - exfalso. destruct (all_digits_head d D) as [x [r [-> Hx]]]. cbn [forallb] in L2. apply andb_true_iff in L2 as [Hc _].
    cbn [app starts_with] in H. destruct (ascii_eqb_spec x c') as [->|]; [|discriminate].
    rewrite (alpha_not_digit c' Hc) in Hx. discriminate.
  - exfalso. destruct (all_digits_head e E) as [x [r [-> Hx]]]. cbn [forallb] in L1. apply andb_true_iff in L1 as [Hc _].
    cbn [app starts_with] in H. destruct (ascii_eqb_spec c x) as [->|]; [|discriminate].
    rewrite (alpha_not_digit x Hc) in Hx. discriminate.
  - cbn [forallb] in L1, L2. apply andb_true_iff in L1 as [_ L1]. apply andb_true_iff in L2 as [_ L2].
    cbn [app starts_with] in H. destruct (ascii_eqb_spec c c') as [->|]; [|discriminate].
    f_equal. now apply IH.
Qed.

Lemma scmp_cname_unsortable c1 c2 :
  wf_cname c1 -> wf_cname c2 -> fst (fst (fst (fst c1))) <> fst (fst (fst (fst c2))) ->
  scmp true true (print_cname c1) (print_cname c2) = Err Unsortable.
Proof.
  destruct c1 as [[[[l1 d1] r1] s1] t1], c2 as [[[[l2 d2] r2] s2] t2]. cbn [fst]. intros W1 W2 N.
  rewrite scmp_unfold, !cname_split by assumption.
  destruct W1 as (Wp1 & _), W2 as (Wp2 & _).
  destruct (str_eqb_spec (print_part (l1, d1, r1)) (print_part (l2, d2, r2))) as [E|_].
  { apply print_part_letters in E; auto. contradiction. }
  unfold cmp_primaries. rewrite !part_components by assumption.
  destruct Wp1 as (L1 & _ & D1 & _), Wp2 as (L2 & _ & D2 & _).
  cbn [cmp_loop]. rewrite comp_first by assumption.
  destruct (str_eqb_spec l1 l2) as [|_]; [contradiction|].
  destruct (str_compare l1 l2) eqn:C.
  - apply (ok_eq _ ord_ok_str) in C. contradiction.
  - cbn [andb negb].
    destruct (starts_with (l1 ++ d1) (l2 ++ d2)) eqn:A; [apply starts_with_letters in A; auto; contradiction|].
    destruct (starts_with (l2 ++ d2) (l1 ++ d1)) eqn:B; [apply starts_with_letters in B; auto; congruence|].
    now destruct (is_nil (map snd r1) || is_nil (map snd r2)).
  - cbn [andb negb].
    destruct (starts_with (l1 ++ d1) (l2 ++ d2)) eqn:A; [apply starts_with_letters in A; auto; contradiction|].
    destruct (starts_with (l2 ++ d2) (l1 ++ d1)) eqn:B; [apply starts_with_letters in B; auto; congruence|].
    now destruct (is_nil (map snd r1) || is_nil (map snd r2)).
Qed.

Lemma cmp_strict_unsortable a b :
  conv a = true -> conv b = true -> prefix_of a <> prefix_of b -> version_cmp_strict a b = Err Unsortable.
Proof.
  intros Ca Cb Hp. destruct (conv_spec a Ca) as [c1 (W1 & P1 & K1)]. destruct (conv_spec b Cb) as [c2 (W2 & P2 & K2)].
  rewrite (prefix_of_cname a c1 K1), (prefix_of_cname b c2 K2) in Hp.
  unfold version_cmp_strict. rewrite std_compare_scmp, <- P1, <- P2. now apply scmp_cname_unsortable.
Qed.
