(* C10: conventional names -- what the recogniser accepts, how such names split, and the
   refinement of the comparison to the lexicographic order on keys. *)
From Coq Require Import Lia.
From Eupsv Require Import Base.Base Base.BaseLemmas Model.VersionCompare Model.VersionKey
  Proofs.VersionCompareLib Proofs.VersionCompare.

Definition flat (rest : list (ascii * str)) : str := flat_map (fun sd => fst sd :: snd sd) rest.

Definition wf_rest (rest : list (ascii * str)) : Prop :=
  Forall (fun sd => is_sep (fst sd) = true /\ all_digits (snd sd) = true) rest.

Definition wf_part (p : part) : Prop :=
  let '(l, d0, rest) := p in
  forallb is_alpha l = true /\ ends_mp l = false /\ all_digits d0 = true /\ wf_rest rest.

Definition wf_opt (o : option part) : Prop := match o with Some p => wf_part p | None => True end.

Definition wf_cname (c : cname) : Prop :=
  let '(pp, sp, tp) := c in wf_part pp /\ wf_opt sp /\ wf_opt tp.

Definition print_opt (o : option part) : str := match o with Some p => print_part p | None => [] end.

(* ---------------------------------------------------------------- the recogniser *)

Lemma all_digits_rev cur : nonempty cur = true -> forallb is_digit cur = true -> all_digits (rev cur) = true.
Proof.
  intros N D. unfold all_digits. rewrite forallb_rev, D, andb_true_r.
  destruct cur as [|c cur]; [discriminate|]. simpl. now destruct (rev cur).
Qed.

Lemma parse_body_spec x : forall cur d0 rest,
  forallb is_digit cur = true ->
  parse_body cur x = Some (d0, rest) ->
  rev cur ++ x = d0 ++ flat rest /\ all_digits d0 = true /\ wf_rest rest.
Proof.
  induction x as [|c r IH]; intros cur d0 rest Hc; cbn [parse_body].
  - destruct (nonempty cur) eqn:N; [|discriminate]. intro H. inversion H; subst.
    split; [reflexivity|]. split; [now apply all_digits_rev|constructor].
  - destruct (is_digit c) eqn:D.
    + intro H. apply IH in H; [|cbn [forallb]; now rewrite D].
      destruct H as (H & ? & ?). split; [|auto]. rewrite <- H. cbn [rev]. now rewrite <- app_assoc.
    + destruct (is_sep c && nonempty cur) eqn:S; [|discriminate].
      apply andb_true_iff in S as [S N].
      destruct (parse_body [] r) as [[d rest']|] eqn:E; [|discriminate].
      intro H. inversion H; subst. apply IH in E; [|reflexivity]. destruct E as (E & Dd & Wr).
      cbn [rev app] in E. split; [|split].
      * unfold flat. cbn [flat_map fst snd]. fold (flat rest'). rewrite E. now rewrite <- app_assoc.
      * now apply all_digits_rev.
      * constructor; [split; assumption|assumption].
Qed.

Lemma parse_part_spec x p : parse_part x = Some p -> wf_part p /\ print_part p = x.
Proof.
  unfold parse_part. destruct (span is_alpha x) as [l b] eqn:E.
  destruct (ends_mp l) eqn:M; [discriminate|].
  destruct (parse_body [] b) as [[d0 rest]|] eqn:B; [|discriminate].
  intro H. inversion H; subst. apply parse_body_spec in B; [|reflexivity]. destruct B as (B & D & W).
  cbn [rev app] in B. split.
  - cbn. repeat split; auto. eapply span_all_fst; eauto.
  - cbn. fold (flat rest). rewrite <- B. symmetry. now apply span_app in E.
Qed.

Lemma parse_conv_spec v c : parse_conv v = Some c -> wf_cname c /\ print_cname c = v.
Proof.
  unfold parse_conv. destruct (span notpm v) as [xp r1] eqn:E1.
  pose proof (span_app _ _ _ _ E1) as V.
  destruct (parse_part xp) as [pp|] eqn:Pp; [|discriminate]. apply parse_part_spec in Pp as [Wp Xp].
  destruct r1 as [|c1 r].
  - intro H. inversion H; subst. split; [cbn; auto|]. cbn [print_cname]. now rewrite !app_nil_r.
  - destruct (ascii_eqb_spec c1 c_minus) as [->|Nm].
    + destruct (span notpm r) as [xs r2] eqn:E2. pose proof (span_app _ _ _ _ E2) as R.
      destruct (parse_part xs) as [sp|] eqn:Ps; [|discriminate]. apply parse_part_spec in Ps as [Ws Xs].
      destruct r2 as [|c2 r3].
      * intro H. inversion H; subst. split; [cbn; auto|]. cbn [print_cname]. now rewrite !app_nil_r.
      * destruct (ascii_eqb_spec c2 c_plus) as [->|]; [|discriminate].
        destruct (parse_part r3) as [tp|] eqn:Pt; [|discriminate]. apply parse_part_spec in Pt as [Wt Xt].
        intro H. inversion H; subst. split; [cbn; auto|]. cbn [print_cname]. reflexivity.
    + destruct (parse_part r) as [tp|] eqn:Pt; [|discriminate]. apply parse_part_spec in Pt as [Wt Xt].
      intro H. inversion H; subst. split; [cbn; auto|]. cbn [print_cname app].
      pose proof (span_snd_head _ _ _ _ _ E1) as Hc. unfold notpm in Hc. apply negb_false_iff, orb_true_iff in Hc.
      destruct Hc as [Hc|Hc]; apply ascii_eqb_eq in Hc; [contradiction|]. now subst.
Qed.

Lemma conv_spec v : conv v = true -> exists c, wf_cname c /\ print_cname c = v /\ key v = cname_key c.
Proof.
  unfold conv, key. destruct (parse_conv v) as [c|] eqn:E; [|discriminate]. intros _.
  apply parse_conv_spec in E as [W P]. eauto.
Qed.
