(* Generic lemmas used by the C10 proofs: span, comparison combinators, character classes. *)
From Coq Require Import Lia.
From Eupsv Require Import Base.Base Base.BaseLemmas Model.VersionCompare.

(* ---------------------------------------------------------------- span *)

Lemma span_app p x a b : span p x = (a, b) -> x = a ++ b.
Proof.
  revert a b. induction x as [|c r IH]; simpl; intros a b H.
  - now inversion H.
  - destruct (p c).
    + destruct (span p r) as [a' b'] eqn:E. inversion H; subst. simpl. f_equal. now apply IH.
    + now inversion H.
Qed.

Lemma span_all_fst p x a b : span p x = (a, b) -> forallb p a = true.
Proof.
  revert a b. induction x as [|c r IH]; simpl; intros a b H.
  - now inversion H.
  - destruct (p c) eqn:Pc.
    + destruct (span p r) as [a' b'] eqn:E. inversion H; subst. simpl. rewrite Pc. simpl. eapply IH; eauto.
    + now inversion H.
Qed.

Lemma span_snd_head p x a c b : span p x = (a, c :: b) -> p c = false.
Proof.
  revert a. induction x as [|d r IH]; simpl; intros a H.
  - inversion H.
  - destruct (p d) eqn:Pd.
    + destruct (span p r) as [a' b'] eqn:E. inversion H; subst. eapply IH; eauto.
    + inversion H; subst. assumption.
Qed.

Lemma span_stop p a c x : forallb p a = true -> p c = false -> span p (a ++ c :: x) = (a, c :: x).
Proof.
  induction a as [|d a IH]; simpl; intros Ha Hc.
  - now rewrite Hc.
  - apply andb_true_iff in Ha as [Hd Ha]. rewrite Hd, IH; auto.
Qed.

Lemma span_all p a : forallb p a = true -> span p a = (a, []).
Proof.
  induction a as [|d a IH]; simpl; intros Ha; [reflexivity|].
  apply andb_true_iff in Ha as [Hd Ha]. now rewrite Hd, IH.
Qed.

Lemma span_nil_head p c x : p c = false -> span p (c :: x) = ([], c :: x).
Proof. intro H. simpl. now rewrite H. Qed.

Lemma forallb_app_iff {A} (p : A -> bool) a b : forallb p (a ++ b) = forallb p a && forallb p b.
Proof. induction a; simpl; [reflexivity|]. now rewrite IHa, andb_assoc. Qed.

Lemma forallb_rev {A} (p : A -> bool) a : forallb p (rev a) = forallb p a.
Proof.
  induction a; simpl; [reflexivity|]. rewrite forallb_app_iff, IHa. simpl.
  rewrite andb_true_r. apply andb_comm.
Qed.

Lemma forallb_impl {A} (p q : A -> bool) a :
  (forall x, p x = true -> q x = true) -> forallb p a = true -> forallb q a = true.
Proof.
  intro H. induction a; simpl; [reflexivity|]. intro E. apply andb_true_iff in E as [E1 E2].
  rewrite H, IHa; auto.
Qed.

Lemma nonempty_true_iff (x : str) : nonempty x = true <-> x <> [].
Proof. destruct x; simpl; split; congruence. Qed.

Lemma nonempty_false_iff (x : str) : nonempty x = false <-> x = [].
Proof. destruct x; simpl; split; congruence. Qed.

Lemma nonempty_app_l (x y : str) : nonempty x = true -> nonempty (x ++ y) = true.
Proof. destruct x; simpl; congruence. Qed.

(* ---------------------------------------------------------------- comparisons *)

Lemma CompOpp_eq_iff c d : CompOpp c = d <-> c = CompOpp d.
Proof. destruct c, d; simpl; split; congruence. Qed.

Record ord_ok {A} (c : A -> A -> comparison) : Prop := {
  ok_refl : forall a, c a a = Eq;
  ok_eq : forall a b, c a b = Eq -> a = b;
  ok_anti : forall a b, c b a = CompOpp (c a b);
  ok_trans : forall a b d, c a b = Lt -> c b d = Lt -> c a d = Lt }.

Lemma ord_ok_N : ord_ok N.compare.
Proof.
  split.
  - apply N.compare_refl.
  - apply N.compare_eq.
  - intros a b. apply N.compare_antisym.
  - intros a b d. rewrite !N.compare_lt_iff. apply N.lt_trans.
Qed.

Lemma ord_ok_ascii : ord_ok ascii_compare.
Proof.
  unfold ascii_compare. split.
  - intro a. apply N.compare_refl.
  - intros a b H. apply N.compare_eq in H.
    rewrite <- (ascii_N_embedding a), <- (ascii_N_embedding b). now rewrite H.
  - intros a b. apply N.compare_antisym.
  - intros a b d. rewrite !N.compare_lt_iff. apply N.lt_trans.
Qed.

Lemma ord_ok_lex {A} (c : A -> A -> comparison) : ord_ok c -> ord_ok (lex_compare c).
Proof.
  intros [R E An T]. split.
  - induction a as [|x a IH]; simpl; [reflexivity|]. now rewrite R.
  - induction a as [|x a IH]; intros [|y b]; simpl; try congruence.
    destruct (c x y) eqn:C; try congruence. intro H. apply E in C. subst. f_equal. now apply IH.
  - induction a as [|x a IH]; intros [|y b]; simpl; try reflexivity.
    rewrite (An x y). destruct (c x y); simpl; auto.
  - induction a as [|x a IH]; intros [|y b] [|z d]; simpl; try congruence.
    destruct (c x y) eqn:C1; try congruence.
    + apply E in C1. subst y. destruct (c x z) eqn:C2; try congruence. apply IH.
    + destruct (c y z) eqn:C2; try congruence.
      * apply E in C2. subst z. now rewrite C1.
      * now rewrite (T x y z C1 C2).
Qed.

Lemma ord_ok_str : ord_ok str_compare.
Proof. apply ord_ok_lex, ord_ok_ascii. Qed.

(* what an ord_ok comparison gives on the derived relations *)
Section OrdFacts.
  Context {A : Type} (c : A -> A -> comparison) (H : ord_ok c).

  Lemma ok_eq_iff a b : c a b = Eq <-> a = b.
  Proof using H. split; [apply (ok_eq c H)|]. intros ->. apply (ok_refl c H). Qed.

  Lemma ok_gt_lt a b : c a b = Gt <-> c b a = Lt.
  Proof using H. rewrite (ok_anti c H a b). destruct (c a b); simpl; split; congruence. Qed.

  Lemma ok_trans_gt a b d : c a b = Gt -> c b d = Gt -> c a d = Gt.
  Proof using H. rewrite !ok_gt_lt. intros. eapply (ok_trans c H); eauto. Qed.

  Lemma ok_le_trans a b d : c a b <> Gt -> c b d <> Gt -> c a d <> Gt.
  Proof using H.
    intros H1 H2 H3. destruct (c a b) eqn:C1; try congruence.
    - apply (ok_eq c H) in C1. subst. congruence.
    - destruct (c b d) eqn:C2; try congruence.
      + apply (ok_eq c H) in C2. subst. congruence.
      + rewrite (ok_trans c H a b d C1 C2) in H3. discriminate.
  Qed.

  Lemma ok_total a b : c a b <> Gt \/ c b a <> Gt.
  Proof using H. rewrite (ok_anti c H a b). destruct (c a b); simpl; [left|left|right]; congruence. Qed.
End OrdFacts.

(* ---------------------------------------------------------------- characters *)

Ltac ascii_sweep c := destruct c as [[] [] [] [] [] [] [] []]; vm_compute; try reflexivity; try discriminate; auto.

Lemma alpha_not_digit c : is_alpha c = true -> is_digit c = false.
Proof. ascii_sweep c. Qed.
Lemma alpha_notpm c : is_alpha c = true -> notpm c = true.
Proof. ascii_sweep c. Qed.
Lemma alpha_not_sep c : is_alpha c = true -> is_sep c = false.
Proof. ascii_sweep c. Qed.
Lemma alpha_not_meta c : is_alpha c = true -> regex_meta c = false.
Proof. ascii_sweep c. Qed.
Lemma alpha_not_space c : is_alpha c = true -> is_space c = false.
Proof. ascii_sweep c. Qed.
Lemma digit_notpm c : is_digit c = true -> notpm c = true.
Proof. ascii_sweep c. Qed.
Lemma digit_not_sep c : is_digit c = true -> is_sep c = false.
Proof. ascii_sweep c. Qed.
Lemma digit_not_alpha c : is_digit c = true -> is_alpha c = false.
Proof. ascii_sweep c. Qed.
Lemma sep_notpm c : is_sep c = true -> notpm c = true.
Proof. ascii_sweep c. Qed.
Lemma sep_not_digit c : is_sep c = true -> is_digit c = false.
Proof. ascii_sweep c. Qed.
Lemma sep_not_alpha c : is_sep c = true -> is_alpha c = false.
Proof. ascii_sweep c. Qed.
Lemma digit_not_minus c : is_digit c = true -> ascii_eqb c c_minus = false.
Proof. ascii_sweep c. Qed.
Lemma digit_not_plus c : is_digit c = true -> ascii_eqb c c_plus = false.
Proof. ascii_sweep c. Qed.
Lemma alpha_not_minus c : is_alpha c = true -> ascii_eqb c c_minus = false.
Proof. ascii_sweep c. Qed.
Lemma alpha_not_plus c : is_alpha c = true -> ascii_eqb c c_plus = false.
Proof. ascii_sweep c. Qed.
Lemma sep_not_mp c : is_sep c = true -> ascii_eqb c c_m || ascii_eqb c c_p = false.
Proof. ascii_sweep c. Qed.

(* a digit sorts before a letter *)
Lemma digit_lt_alpha d l : is_digit d = true -> is_alpha l = true -> ascii_compare d l = Lt.
Proof.
  intros Hd Hl. unfold ascii_compare. apply N.compare_lt_iff.
  assert (Hd' : (N_of_ascii d <= 57)%N).
  { clear Hl. destruct d as [[] [] [] [] [] [] [] []]; vm_compute in Hd; try discriminate; vm_compute; discriminate. }
  assert (Hl' : (65 <= N_of_ascii l)%N).
  { clear Hd Hd'. destruct l as [[] [] [] [] [] [] [] []]; vm_compute in Hl; try discriminate; vm_compute; discriminate. }
  lia.
Qed.
