(* C10: relational expressions (version_match) and the latest version, on conventional names. *)
From Coq Require Import Lia.
From Eupsv Require Import Base.Base Base.BaseLemmas Model.VersionCompare Model.VersionKey
  Proofs.VersionCompareLib Proofs.VersionCompare Proofs.VersionCompareKey.

(* ---------------------------------------------------------------- conventional names are plain words *)

Lemma cname_wf_name c : wf_cname c -> wf_name (print_cname c) = true.
Proof.
  destruct c as [[p s] t]. intros (Wp & Ws & Wt). unfold wf_name. cbn [print_cname].
  rewrite !forallb_app_iff. fold (wf_name (print_part p)). rewrite (part_wf_name p Wp).
  destruct s as [s|], t as [t|]; cbn [wf_opt forallb] in *; rewrite ?andb_true_r;
    repeat match goal with
    | |- context [forallb wf_char (print_part ?x)] =>
        fold (wf_name (print_part x)); rewrite (part_wf_name x) by assumption
    end; reflexivity.
Qed.

Lemma conv_wf_name w : conv w = true -> wf_name w = true /\ w <> [].
Proof.
  intro C. destruct (conv_spec w C) as [c (W & <- & _)]. split; [now apply cname_wf_name|].
  destruct c as [[p s] t]. destruct W as (Wp & _). cbn [print_cname].
  pose proof (part_nonempty p Wp). destruct (print_part p); [congruence|discriminate].
Qed.

(* characters that the tokeniser of version_match copies into the current word *)
Definition plain (c : ascii) : bool :=
  negb (is_space c || ascii_eqb c c_lt || ascii_eqb c c_gt || ascii_eqb c c_eq || ascii_eqb c c_bar).

Lemma wf_char_plain c : wf_char c = true -> plain c = true.
Proof. ascii_sweep c. Qed.

Lemma wf_char_verchar c : wf_char c = true -> is_word c || mem_ascii c [c_minus; c_plus; c_dot; ":"%char; "/"%char] = true.
Proof. ascii_sweep c. Qed.

Lemma conv_not_keyword w : conv w = true -> str_eqb w s_and = false /\ str_eqb w s_or = false.
Proof.
  intro C. split.
  - destruct (str_eqb_spec w s_and) as [->|]; [|reflexivity]. vm_compute in C. discriminate.
  - destruct (str_eqb_spec w s_or) as [->|]; [|reflexivity]. vm_compute in C. discriminate.
Qed.

(* ---------------------------------------------------------------- the tokeniser on printed expressions *)

Lemma tokenize_plain w : forall cur r,
  forallb plain w = true -> tokenize cur (w ++ r) = tokenize (rev w ++ cur) r.
Proof.
  induction w as [|c w IH]; intros cur r H; [reflexivity|].
  cbn [forallb] in H. apply andb_true_iff in H as [Hc H].
  unfold plain in Hc. apply negb_true_iff in Hc. do 4 (apply orb_false_iff in Hc as [Hc ?]).
  cbn [app tokenize]. rewrite Hc. repeat match goal with E : ascii_eqb c _ = false |- _ => rewrite E; clear E end.
  rewrite IH by assumption. cbn [rev]. now rewrite <- app_assoc.
Qed.

Definition sep_or : str := " "%char :: s_barbar ++ [" "%char].

Definition toks_alt (a : alt) : list tok :=
  match fst a with
  | Some op => [TRel op; TText (snd a)]
  | None => [TText (snd a)]
  end.

Lemma tokenize_relop op x : tokenize [] (relop_text op ++ " "%char :: x) = TRel op :: tokenize [] x.
Proof. destruct op; reflexivity. Qed.

Lemma tokenize_word_end w : forallb plain w = true -> w <> [] -> tokenize [] w = [TText w].
Proof.
  intros H N. rewrite <- (app_nil_r w) at 1. rewrite tokenize_plain by assumption. rewrite app_nil_r.
  cbn [tokenize]. unfold flush_text. destruct (rev w) eqn:E.
  - apply (f_equal (@rev _)) in E. rewrite rev_involutive in E. simpl in E. congruence.
  - now rewrite <- E, rev_involutive.
Qed.

Lemma tokenize_word_or w x :
  forallb plain w = true -> w <> [] -> tokenize [] (w ++ sep_or ++ x) = TText w :: TOrOr :: tokenize [] x.
Proof.
  intros H N. rewrite tokenize_plain by assumption. rewrite app_nil_r.
  unfold sep_or, s_barbar. cbn [app tokenize]. 
  change (is_space " "%char) with true. cbv iota.
  unfold flush_text at 1. destruct (rev w) eqn:E.
  - apply (f_equal (@rev _)) in E. rewrite rev_involutive in E. simpl in E. congruence.
  - rewrite <- E, rev_involutive. reflexivity.
Qed.

Definition tail_str (l : list alt) : str := flat_map (fun a => sep_or ++ print_alt a) l.
Definition tail_toks (l : list alt) : list tok := flat_map (fun a => TOrOr :: toks_alt a) l.

Lemma join_str_cons sep x l : join_str sep (x :: l) = x ++ flat_map (fun y => sep ++ y) l.
Proof.
  revert x. induction l as [|y l IH]; intro x; [cbn [join_str flat_map]; now rewrite app_nil_r|].
  change (join_str sep (x :: y :: l)) with (x ++ sep ++ join_str sep (y :: l)).
  rewrite IH. cbn [flat_map]. now rewrite <- app_assoc.
Qed.

Lemma print_expr_cons a l : print_expr (a :: l) = print_alt a ++ tail_str l.
Proof.
  unfold print_expr, tail_str. cbn [map]. rewrite join_str_cons. f_equal.
  induction l as [|b l IH]; [reflexivity|]. cbn [map flat_map]. now rewrite IH.
Qed.

Definition operand_ok (a : alt) : Prop := forallb plain (snd a) = true /\ snd a <> [].

Lemma tokenize_alt_tail a l :
  operand_ok a -> Forall operand_ok l ->
  tokenize [] (print_alt a ++ tail_str l) = toks_alt a ++ tail_toks l.
Proof.
  revert a. induction l as [|b l IH]; intros a [Ha Na] Hl.
  - cbn [tail_str tail_toks flat_map]. rewrite !app_nil_r. destruct a as [[op|] w]; cbn [print_alt toks_alt fst snd] in *.
    + rewrite tokenize_relop. now rewrite tokenize_word_end.
    + now apply tokenize_word_end.
  - inversion Hl as [|? ? Hb Hl']; subst.
    cbn [tail_str tail_toks flat_map]. fold (tail_str l). fold (tail_toks l).
    specialize (IH b Hb Hl').
    destruct a as [[op|] w]; cbn [print_alt toks_alt fst snd] in *.
    + rewrite <- app_assoc. cbn [app]. rewrite tokenize_relop.
      rewrite <- app_assoc. rewrite tokenize_word_or by assumption. now rewrite IH.
    + rewrite <- app_assoc. rewrite tokenize_word_or by assumption. now rewrite IH.
Qed.

(* ---------------------------------------------------------------- the loop on such token lists *)

Definition alt_op (a : alt) : relop := match fst a with Some op => op | None => REq end.
Definition tail_items (l : list alt) : list item := flat_map (fun a => [IOr; ITerm (alt_op a) (snd a)]) l.

Definition name_ok (a : alt) : Prop :=
  is_vername (snd a) = true /\ str_eqb (snd a) s_and = false /\ str_eqb (snd a) s_or = false.

Lemma items_alt a rest : name_ok a -> items (toks_alt a ++ rest) = ITerm (alt_op a) (snd a) :: items rest.
Proof.
  intros (V & A & O). destruct a as [[op|] w]; cbn [toks_alt alt_op fst snd app items tok_text] in *; [reflexivity|].
  now rewrite V, A, O.
Qed.

Lemma items_tail l : Forall name_ok l -> items (tail_toks l) = tail_items l.
Proof.
  induction 1 as [|a l Ha Hl IH]; [reflexivity|].
  cbn [tail_toks tail_items flat_map]. fold (tail_toks l). fold (tail_items l).
  cbn [items app]. rewrite items_alt by assumption. now rewrite IH.
Qed.

Section Loop.
  Variable prim : relop -> str -> res bool.
  Variable h : alt -> bool.

  Lemma run_tail l : forall lo b,
    lo <> LAnd ->
    Forall (fun a => prim (alt_op a) (snd a) = Ok (h a)) l ->
    run_items prim lo (Some b) (tail_items l) = Ok (b || existsb h l).
  Proof using.
    induction l as [|a l IH]; intros lo b Hlo Hl.
    - cbn. now rewrite orb_false_r; destruct b.
    - inversion Hl as [|? ? Ha Hl']; subst.
      cbn [tail_items flat_map app run_items]. fold (tail_items l). rewrite Ha.
      cbn [truthy existsb]. destruct b; cbn [orb]; [reflexivity|].
      destruct (h a); cbn [orb]; [reflexivity|]. rewrite IH by (auto; discriminate). reflexivity.
  Qed.

  Lemma run_expr a l :
    Forall (fun a => prim (alt_op a) (snd a) = Ok (h a)) (a :: l) ->
    run_items prim LNone None (ITerm (alt_op a) (snd a) :: tail_items l) = Ok (existsb h (a :: l)).
  Proof using.
    intro H. inversion H as [|? ? Ha Hl]; subst. cbn [run_items]. rewrite Ha.
    rewrite run_tail by (auto; discriminate). reflexivity.
  Qed.
End Loop.

(* ---------------------------------------------------------------- version_match on printed expressions *)

Definition alt_conv (v : str) (a : alt) : Prop := conv (snd a) = true /\ prefix_of (snd a) = prefix_of v.

Lemma prim_key v op w :
  conv v = true -> conv w = true -> prefix_of w = prefix_of v ->
  version_match_prim op v w = Ok (rel op (key_compare (key v) (key w))).
Proof.
  intros Cv Cw P. unfold version_match_prim. now rewrite cmp_strict_key_order by auto.
Qed.

Lemma conv_operand_ok a : conv (snd a) = true -> operand_ok a /\ name_ok a.
Proof.
  intros C. destruct (conv_wf_name _ C) as [W N]. destruct (conv_not_keyword _ C) as [A O].
  unfold wf_name in W. split; [split; [|assumption]|split; [|split; assumption]].
  - eapply forallb_impl; [apply wf_char_plain|exact W].
  - unfold is_vername. apply nonempty_true_iff in N. rewrite N. cbn [andb].
    eapply forallb_impl; [apply wf_char_verchar|exact W].
Qed.

Lemma match_expr v a l :
  conv v = true -> Forall (alt_conv v) (a :: l) ->
  version_match v (print_expr (a :: l)) = Ok (existsb (alt_holds v) (a :: l)).
Proof.
  intros Cv H. unfold version_match. rewrite print_expr_cons.
  assert (Hok : Forall (fun a => operand_ok a /\ name_ok a) (a :: l)).
  { eapply Forall_impl; [|exact H]. intros x [Cx _]. now apply conv_operand_ok. }
  inversion Hok as [|? ? [Oa Na] Hl]; subst.
  rewrite tokenize_alt_tail; [|assumption|eapply Forall_impl; [|exact Hl]; now intros x [? _]].
  rewrite items_alt by assumption.
  rewrite items_tail by (eapply Forall_impl; [|exact Hl]; now intros x [_ ?]).
  apply run_expr. eapply Forall_impl; [|exact H]. intros x [Cx Px].
  unfold alt_holds, alt_op. now apply prim_key.
Qed.

(* an operand with another letter prefix cannot be sorted against the version: no match *)
Lemma match_unsortable v a :
  conv v = true -> conv (snd a) = true -> prefix_of (snd a) <> prefix_of v ->
  version_match v (print_expr [a]) = Ok false.
Proof.
  intros Cv Ca P. unfold version_match. rewrite print_expr_cons.
  destruct (conv_operand_ok a Ca) as [Oa Na].
  rewrite tokenize_alt_tail by (auto; constructor). rewrite items_alt by assumption.
  cbn [tail_toks flat_map items run_items]. unfold version_match_prim.
  rewrite cmp_strict_unsortable by auto. reflexivity.
Qed.

(* ---------------------------------------------------------------- latest *)

Lemma latest_from_spec l : forall best,
  conv best = true -> Forall (fun x => conv x = true) l ->
  exists m, latest_from best l = Ok m /\ In m (best :: l) /\
            forall x, In x (best :: l) -> key_compare (key x) (key m) <> Gt.
Proof.
  induction l as [|x r IH]; intros best Cb Hl.
  - exists best. split; [reflexivity|]. split; [now left|]. intros y [<-|[]].
    rewrite (ok_refl _ ord_ok_key). discriminate.
  - inversion Hl as [|? ? Cx Hr]; subst. cbn [latest_from]. rewrite (cmp_key_order x best Cx Cb).
    destruct (key_compare (key x) (key best)) eqn:K.
    + destruct (IH x Cx Hr) as [m (E & I & M)]. exists m. split; [assumption|]. split.
      * destruct I as [<-|I]; [right; now left|right; now right].
      * intros y [<-|[<-|Hy]]; [|apply M; now left|apply M; now right].
        apply (ok_le_trans _ ord_ok_key (key best) (key x) (key m)); [|apply M; now left].
        rewrite (ok_anti _ ord_ok_key (key x) (key best)), K. discriminate.
    + destruct (IH best Cb Hr) as [m (E & I & M)]. exists m. split; [assumption|]. split.
      * destruct I as [<-|I]; [now left|right; now right].
      * intros y [<-|[<-|Hy]]; [apply M; now left| |apply M; now right].
        apply (ok_le_trans _ ord_ok_key (key x) (key best) (key m)); [rewrite K; discriminate|apply M; now left].
    + destruct (IH x Cx Hr) as [m (E & I & M)]. exists m. split; [assumption|]. split.
      * destruct I as [<-|I]; [right; now left|right; now right].
      * intros y [<-|[<-|Hy]]; [|apply M; now left|apply M; now right].
        apply (ok_le_trans _ ord_ok_key (key best) (key x) (key m)); [|apply M; now left].
        rewrite (ok_anti _ ord_ok_key (key x) (key best)), K. discriminate.
Qed.

Lemma latest_none_iff l : latest l = Ok None <-> l = [].
Proof.
  split; [|now intros ->]. destruct l as [|x r]; [reflexivity|]. cbn [latest].
  destruct (latest_from x r); discriminate.
Qed.

Lemma latest_spec l :
  Forall (fun x => conv x = true) l -> l <> [] ->
  exists m, latest l = Ok (Some m) /\ In m l /\ forall x, In x l -> key_le (key x) (key m).
Proof.
  intros H N. destruct l as [|x r]; [congruence|]. inversion H as [|? ? Cx Hr]; subst.
  destruct (latest_from_spec r x Cx Hr) as [m (E & I & M)]. exists m. cbn [latest]. now rewrite E.
Qed.

(* ---------------------------------------------------------------- conventional names are accepted names *)

Lemma conv_accepts v : conv v = true -> accepts v = true.
Proof.
  intro C. destruct (conv_spec v C) as [[[p s] t] (W & P & _)]. apply accepts_good. split.
  - rewrite <- P. now apply cname_wf_name.
  - exists (print_part p), (print_opt s), (print_opt t). split.
    + rewrite <- P. now apply cname_split.
    + apply notpm_no_plus, part_notpm. now destruct W.
Qed.
