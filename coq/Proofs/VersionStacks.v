(* C10: the latest version over several stacks (Model/VersionStacks.v) is a maximum of the union
   of the stacks' versions under the key order, on conventional names. *)
From Coq Require Import List Ascii Arith Lia.
Import ListNotations.
From Eupsv Require Import Base.Base Base.BaseLemmas Model.VersionCompare Model.VersionKey Model.VersionStacks
  Proofs.VersionCompareLib Proofs.VersionCompare Proofs.VersionCompareKey Proofs.VersionCompareMatch.

Definition conv_list (l : list str) : Prop := Forall (fun x => conv x = true) l.
Definition conv_stacks (s : list (list str)) : Prop := Forall conv_list s.
Definition conv_min (minver : option str) : Prop :=
  match minver with Some m => conv m = true | None => True end.
Definition key_lt (a b : vkey) : Prop := key_compare a b = Lt.

(* ---------------------------------------------------------------- the key order *)

Lemma kle_refl a : key_le a a.
Proof. unfold key_le. rewrite (ok_refl _ ord_ok_key). discriminate. Qed.

Lemma kle_trans a b c : key_le a b -> key_le b c -> key_le a c.
Proof. apply (ok_le_trans _ ord_ok_key). Qed.

Lemma klt_le a b : key_lt a b -> key_le a b.
Proof. unfold key_lt, key_le. intros ->. discriminate. Qed.

Lemma kle_lt_trans a b c : key_le a b -> key_lt b c -> key_lt a c.
Proof.
  unfold key_le, key_lt. intros H1 H2. destruct (key_compare a b) eqn:C; [| |congruence].
  - apply (ok_eq _ ord_ok_key) in C. now subst.
  - exact (ok_trans _ ord_ok_key a b c C H2).
Qed.

Lemma klt_le_trans a b c : key_lt a b -> key_le b c -> key_lt a c.
Proof.
  unfold key_le, key_lt. intros H1 H2. destruct (key_compare b c) eqn:C; [| |congruence].
  - apply (ok_eq _ ord_ok_key) in C. now subst.
  - exact (ok_trans _ ord_ok_key a b c H1 C).
Qed.

Lemma kgt_lt a b : key_compare a b = Gt -> key_lt b a.
Proof. intro H. now apply (ok_gt_lt _ ord_ok_key). Qed.

Lemma knotlt_le a b : key_compare a b <> Lt -> key_le b a.
Proof.
  unfold key_le. rewrite (ok_anti _ ord_ok_key a b). destruct (key_compare a b); simpl; congruence.
Qed.

Lemma conv_nil : conv [] = false.
Proof. reflexivity. Qed.

(* ---------------------------------------------------------------- one step of the model, on conventional names *)

Lemma below_minimum_conv minver v :
  conv_min minver -> conv v = true ->
  below_minimum minver v = Ok (match minver with
                              | Some m => match key_compare (key v) (key m) with Lt => true | _ => false end
                              | None => false
                              end).
Proof.
  intros Hm Cv. destruct minver as [m|]; [|reflexivity]. cbn [conv_min] in Hm.
  destruct m as [|c m]; [rewrite conv_nil in Hm; discriminate|].
  cbn [below_minimum]. rewrite (cmp_key_order v (c :: m) Cv Hm).
  now destruct (key_compare (key v) (key (c :: m))).
Qed.

Lemma replaces_conv i o v :
  conv o = true -> conv v = true ->
  replaces (Some (i, o)) v = Ok (match key_compare (key v) (key o) with Gt => true | _ => false end).
Proof.
  intros Co Cv. cbn [replaces]. rewrite (cmp_key_order v o Cv Co). now destruct (key_compare (key v) (key o)).
Qed.

(* ---------------------------------------------------------------- the invariant of the loop *)

(* what is known of the version kept so far after the stacks seen were visited *)
Definition kept_ok (minver : option str) (seen : list (list str)) (out : option (nat * str)) : Prop :=
  match out with
  | Some (i, m) =>
      conv m = true /\
      (exists vs, nth_error seen i = Some vs /\ In m vs) /\
      (forall x, In x (concat seen) -> key_le (key x) (key m)) /\
      (forall mv, minver = Some mv -> key_le (key mv) (key m))
  | None =>
      forall x, In x (concat seen) ->
        match minver with Some mv => key_lt (key x) (key mv) | None => False end
  end.

Lemma concat_snoc {A} (l : list (list A)) (x : list A) : concat (l ++ [x]) = concat l ++ x.
Proof. rewrite concat_app. cbn [concat]. now rewrite app_nil_r. Qed.

Lemma nth_error_snoc_old {A} (l : list A) (x : A) i v : nth_error l i = Some v -> nth_error (l ++ [x]) i = Some v.
Proof.
  intro H. rewrite nth_error_app1; [assumption|]. apply nth_error_Some. congruence.
Qed.

Lemma nth_error_snoc_new {A} (l : list A) (x : A) : nth_error (l ++ [x]) (length l) = Some x.
Proof. rewrite nth_error_app2 by lia. now rewrite Nat.sub_diag. Qed.

(* a stack that does not change what is kept: every version of it is bounded as the invariant asks *)
Lemma kept_ok_pass minver seen out vs :
  kept_ok minver seen out ->
  (forall x, In x vs ->
     match out with
     | Some (_, m) => key_le (key x) (key m)
     | None => match minver with Some mv => key_lt (key x) (key mv) | None => False end
     end) ->
  kept_ok minver (seen ++ [vs]) out.
Proof.
  intros K B. destruct out as [[i m]|]; cbn [kept_ok] in *.
  - destruct K as (Cm & (ws & N & I) & M & Mn). split; [assumption|]. split.
    + exists ws. split; [now apply nth_error_snoc_old|assumption].
    + split; [|assumption]. intros x Hx. rewrite concat_snoc in Hx. apply in_app_iff in Hx as [Hx|Hx]; [now apply M|].
      exact (B x Hx).
  - intros x Hx. rewrite concat_snoc in Hx. apply in_app_iff in Hx as [Hx|Hx]; [now apply K|exact (B x Hx)].
Qed.

Lemma latest_stacks_from_spec minver : conv_min minver -> forall stacks seen out,
  conv_stacks stacks -> kept_ok minver seen out ->
  exists r, latest_stacks_from minver out (length seen) stacks = Ok r /\ kept_ok minver (seen ++ stacks) r.
Proof.
  intro Hm. induction stacks as [|vs rest IH]; intros seen out Hs K.
  - exists out. rewrite app_nil_r. now split.
  - inversion Hs as [|? ? Cvs Crest]; subst.
    assert (STEP : forall out', kept_ok minver (seen ++ [vs]) out' ->
              exists r, latest_stacks_from minver out' (S (length seen)) rest = Ok r /\
                        kept_ok minver (seen ++ vs :: rest) r).
    { intros out' K'. destruct (IH (seen ++ [vs]) out' Crest K') as [r [E R]].
      exists r. rewrite app_length in E. cbn [length] in E. rewrite Nat.add_1_r in E.
      rewrite <- app_assoc in R. cbn [app] in R. now split. }
    cbn [latest_stacks_from].
    destruct vs as [|v0 vr].
    + (* the product is not declared in this stack *)
      cbn [latest]. apply STEP. apply kept_ok_pass; [assumption|]. intros x [].
    + destruct (latest_spec (v0 :: vr) Cvs ltac:(discriminate)) as [l (El & Il & Ml)].
      rewrite El.
      assert (Cl : conv l = true) by (unfold conv_list in Cvs; rewrite Forall_forall in Cvs; now apply Cvs).
      rewrite (below_minimum_conv minver l Hm Cl).
      destruct minver as [mv|].
      * cbn [conv_min] in Hm.
        destruct (key_compare (key l) (key mv)) eqn:Cmin.
        -- (* equal to the minimum: considered *)
           assert (Lmin : key_le (key mv) (key l)) by (apply knotlt_le; congruence).
           destruct out as [[i m]|].
           ++ destruct K as (Cm & (ws & N & I) & M & Mn).
              rewrite (replaces_conv i m l Cm Cl). destruct (key_compare (key l) (key m)) eqn:Cout.
              ** apply STEP. apply kept_ok_pass; [cbn [kept_ok]; eauto 8|].
                 intros x Hx. apply (kle_trans _ (key l)); [now apply Ml|]. unfold key_le. congruence.
              ** apply STEP. apply kept_ok_pass; [cbn [kept_ok]; eauto 8|].
                 intros x Hx. apply (kle_trans _ (key l)); [now apply Ml|]. unfold key_le. congruence.
              ** apply STEP. cbn [kept_ok]. split; [assumption|]. split.
                 { exists (v0 :: vr). split; [apply nth_error_snoc_new|assumption]. }
                 split.
                 { intros x Hx. rewrite concat_snoc in Hx. apply in_app_iff in Hx as [Hx|Hx]; [|now apply Ml].
                   apply klt_le. apply (kle_lt_trans _ (key m)); [now apply M|now apply kgt_lt]. }
                 { intros mv' E. inversion E; subst. assumption. }
           ++ cbn [replaces]. apply STEP. cbn [kept_ok] in *. split; [assumption|]. split.
              { exists (v0 :: vr). split; [apply (nth_error_snoc_new seen)|assumption]. }
              split.
              { intros x Hx. rewrite concat_snoc in Hx. apply in_app_iff in Hx as [Hx|Hx]; [|now apply Ml].
                apply klt_le. apply (klt_le_trans _ (key mv)); [now apply K|assumption]. }
              { intros mv' E. inversion E; subst. assumption. }
        -- (* below the minimum: the stack is passed over *)
           apply STEP. apply kept_ok_pass; [assumption|]. intros x Hx.
           assert (Xl : key_lt (key x) (key mv)) by (apply (kle_lt_trans _ (key l)); [now apply Ml|exact Cmin]).
           destruct out as [[i m]|]; [|assumption].
           destruct K as (_ & _ & _ & Mn). apply klt_le. apply (klt_le_trans _ (key mv)); [assumption|now apply Mn].
        -- (* above the minimum: considered *)
           assert (Lmin : key_le (key mv) (key l)) by (apply knotlt_le; congruence).
           destruct out as [[i m]|].
           ++ destruct K as (Cm & (ws & N & I) & M & Mn).
              rewrite (replaces_conv i m l Cm Cl). destruct (key_compare (key l) (key m)) eqn:Cout.
              ** apply STEP. apply kept_ok_pass; [cbn [kept_ok]; eauto 8|].
                 intros x Hx. apply (kle_trans _ (key l)); [now apply Ml|]. unfold key_le. congruence.
              ** apply STEP. apply kept_ok_pass; [cbn [kept_ok]; eauto 8|].
                 intros x Hx. apply (kle_trans _ (key l)); [now apply Ml|]. unfold key_le. congruence.
              ** apply STEP. cbn [kept_ok]. split; [assumption|]. split.
                 { exists (v0 :: vr). split; [apply nth_error_snoc_new|assumption]. }
                 split.
                 { intros x Hx. rewrite concat_snoc in Hx. apply in_app_iff in Hx as [Hx|Hx]; [|now apply Ml].
                   apply klt_le. apply (kle_lt_trans _ (key m)); [now apply M|now apply kgt_lt]. }
                 { intros mv' E. inversion E; subst. assumption. }
           ++ cbn [replaces]. apply STEP. cbn [kept_ok] in *. split; [assumption|]. split.
              { exists (v0 :: vr). split; [apply (nth_error_snoc_new seen)|assumption]. }
              split.
              { intros x Hx. rewrite concat_snoc in Hx. apply in_app_iff in Hx as [Hx|Hx]; [|now apply Ml].
                apply klt_le. apply (klt_le_trans _ (key mv)); [now apply K|assumption]. }
              { intros mv' E. inversion E; subst. assumption. }
      * (* no minimum *)
        destruct out as [[i m]|].
        -- destruct K as (Cm & (ws & N & I) & M & Mn).
           rewrite (replaces_conv i m l Cm Cl). destruct (key_compare (key l) (key m)) eqn:Cout.
           ++ apply STEP. apply kept_ok_pass; [cbn [kept_ok]; eauto 8|].
              intros x Hx. apply (kle_trans _ (key l)); [now apply Ml|]. unfold key_le. congruence.
           ++ apply STEP. apply kept_ok_pass; [cbn [kept_ok]; eauto 8|].
              intros x Hx. apply (kle_trans _ (key l)); [now apply Ml|]. unfold key_le. congruence.
           ++ apply STEP. cbn [kept_ok]. split; [assumption|]. split.
              { exists (v0 :: vr). split; [apply nth_error_snoc_new|assumption]. }
              split.
              { intros x Hx. rewrite concat_snoc in Hx. apply in_app_iff in Hx as [Hx|Hx]; [|now apply Ml].
                apply klt_le. apply (kle_lt_trans _ (key m)); [now apply M|now apply kgt_lt]. }
              { intros mv' E. discriminate. }
        -- cbn [replaces]. apply STEP. cbn [kept_ok] in *. split; [assumption|]. split.
           { exists (v0 :: vr). split; [apply (nth_error_snoc_new seen)|assumption]. }
           split.
           { intros x Hx. rewrite concat_snoc in Hx. apply in_app_iff in Hx as [Hx|Hx]; [|now apply Ml].
             destruct (K x Hx). }
           { intros mv' E. discriminate. }
Qed.

(* ---------------------------------------------------------------- the statements used by Props/C10.v *)

Lemma latest_over_stacks_spec minver stacks :
  conv_min minver -> conv_stacks stacks ->
  exists r, latest_over_stacks minver stacks = Ok r /\ kept_ok minver stacks r.
Proof.
  intros Hm Hs. unfold latest_over_stacks.
  destruct (latest_stacks_from_spec minver Hm stacks [] None Hs) as [r [E K]].
  - cbn [kept_ok concat]. intros x [].
  - exists r. now split.
Qed.

(* without a minimum: nothing is found exactly when no stack declares a version *)
Lemma latest_over_stacks_none_iff stacks :
  conv_stacks stacks ->
  (latest_over_stacks None stacks = Ok None <-> concat stacks = []).
Proof.
  intro Hs. destruct (latest_over_stacks_spec None stacks I Hs) as [r [E K]]. rewrite E. split.
  - intro H. inversion H; subst. cbn [kept_ok] in K. destruct (concat stacks) as [|x l]; [reflexivity|].
    destruct (K x (or_introl eq_refl)).
  - intro H. destruct r as [[i m]|]; [|reflexivity]. destruct K as (_ & (vs & N & Im) & _).
    exfalso. apply nth_error_In in N. assert (X : In m (concat stacks)) by (apply in_concat; eauto).
    rewrite H in X. destruct X.
Qed.

(* with a minimum: nothing is found exactly when every declared version is below it *)
Lemma latest_over_stacks_min_none_iff mv stacks :
  conv mv = true -> conv_stacks stacks ->
  (latest_over_stacks (Some mv) stacks = Ok None <-> forall x, In x (concat stacks) -> key_lt (key x) (key mv)).
Proof.
  intros Hm Hs. destruct (latest_over_stacks_spec (Some mv) stacks Hm Hs) as [r [E K]]. rewrite E. split.
  - intro H. inversion H; subst. exact K.
  - intro H. destruct r as [[i m]|]; [|reflexivity]. destruct K as (_ & (vs & N & Im) & _ & Mn).
    exfalso. apply nth_error_In in N. assert (X : In m (concat stacks)) by (apply in_concat; eauto).
    specialize (H m X). specialize (Mn mv eq_refl). unfold key_lt in H. unfold key_le in Mn.
    rewrite (ok_anti _ ord_ok_key (key m) (key mv)), H in Mn. now apply Mn.
Qed.

(* the listing: one entry per stack, each the maximum of its stack *)
Lemma latest_per_stack_spec stacks :
  conv_stacks stacks ->
  exists r, latest_per_stack stacks = Ok r /\ length r = length stacks /\
    forall i vs, nth_error stacks i = Some vs ->
      match vs with
      | [] => nth_error r i = Some None
      | _ => exists m, nth_error r i = Some (Some m) /\ In m vs /\ forall x, In x vs -> key_le (key x) (key m)
      end.
Proof.
  induction stacks as [|vs rest IH]; intro Hs.
  - exists []. split; [reflexivity|]. split; [reflexivity|]. intros [|i] vs H; discriminate.
  - inversion Hs as [|? ? Cvs Crest]; subst. destruct (IH Crest) as [r (E & L & S)].
    cbn [latest_per_stack]. rewrite E. destruct vs as [|v0 vr].
    + cbn [latest]. exists (None :: r). split; [reflexivity|]. split; [cbn [length]; now rewrite L|].
      intros [|i] ws H; cbn [nth_error] in *; [inversion H; subst; reflexivity|now apply S].
    + destruct (latest_spec (v0 :: vr) Cvs ltac:(discriminate)) as [l (El & Il & Ml)]. rewrite El.
      exists (Some l :: r). split; [reflexivity|]. split; [cbn [length]; now rewrite L|].
      intros [|i] ws H; cbn [nth_error] in *; [inversion H; subst; eauto|now apply S].
Qed.

(* ---------------------------------------------------------------- the listing after uniq *)

Lemma listing_from_sound l : forall i seen j v,
  In (j, v) (listing_from i seen l) -> i <= j /\ nth_error l (j - i) = Some (Some v).
Proof.
  induction l as [|[w|] r IH]; intros i seen j v H; cbn [listing_from] in H.
  - destruct H.
  - destruct (mem_str w seen).
    + destruct (IH _ _ _ _ H) as [L N]. split; [lia|]. replace (j - i) with (S (j - S i)) by lia. exact N.
    + destruct H as [H|H].
      * inversion H; subst. split; [lia|]. now rewrite Nat.sub_diag.
      * destruct (IH _ _ _ _ H) as [L N]. split; [lia|]. replace (j - i) with (S (j - S i)) by lia. exact N.
  - destruct (IH _ _ _ _ H) as [L N]. split; [lia|]. replace (j - i) with (S (j - S i)) by lia. exact N.
Qed.

Lemma listing_from_complete l : forall i seen k v,
  nth_error l k = Some (Some v) ->
  mem_str v seen = true \/ In v (map snd (listing_from i seen l)).
Proof.
  induction l as [|[w|] r IH]; intros i seen k v H.
  - destruct k; discriminate.
  - cbn [listing_from]. destruct k as [|k]; cbn [nth_error] in H.
    + inversion H; subst. destruct (mem_str v seen); [now left|right; now left].
    + destruct (mem_str w seen) eqn:Mw.
      * exact (IH (S i) seen k v H).
      * destruct (IH (S i) (w :: seen) k v H) as [M|M].
        -- cbn [mem_str] in M. destruct (str_eqb v w) eqn:E; [|now left].
           apply str_eqb_eq in E. subst. right. now left.
        -- right. now right.
  - cbn [listing_from]. destruct k as [|k]; cbn [nth_error] in H; [discriminate|]. exact (IH (S i) seen k v H).
Qed.

Lemma latest_listing_spec stacks :
  conv_stacks stacks ->
  exists lst, latest_listing stacks = Ok lst /\
    (forall i v, In (i, v) lst ->
       exists vs, nth_error stacks i = Some vs /\ In v vs /\ forall x, In x vs -> key_le (key x) (key v)) /\
    (forall i vs, nth_error stacks i = Some vs -> vs <> [] ->
       exists v, In v (map snd lst) /\ In v vs /\ forall x, In x vs -> key_le (key x) (key v)).
Proof.
  intro Hs. destruct (latest_per_stack_spec stacks Hs) as [r (E & L & S)].
  unfold latest_listing. rewrite E. eexists. split; [reflexivity|]. split.
  - intros i v H. apply listing_from_sound in H as [_ N]. rewrite Nat.sub_0_r in N.
    assert (Hi : i < length stacks) by (rewrite <- L; apply nth_error_Some; congruence).
    destruct (nth_error stacks i) as [vs|] eqn:Ns; [|apply nth_error_None in Ns; lia].
    exists vs. split; [reflexivity|]. specialize (S i vs Ns). destruct vs as [|v0 vr].
    + rewrite N in S. discriminate.
    + destruct S as [m (Nm & Im & Mm)]. rewrite N in Nm. inversion Nm; subst. now split.
  - intros i vs Ns Ne. specialize (S i vs Ns). destruct vs as [|v0 vr]; [congruence|].
    destruct S as [m (Nm & Im & Mm)]. exists m.
    destruct (listing_from_complete r 0 [] i m Nm) as [M|M]; [discriminate|]. now split.
Qed.
