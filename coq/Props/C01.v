(* C01 - Setup yields a consistent environment with no residue of superseded versions.
   Model/Setup.v with an abstract resolver (every statement holds for every resolver).

   [clause name e], for every product name: if the environment records a declared version p of name
   (SETUP_<NAME>), then <NAME>_DIR is p's declared directory, every path element and envSet value that
   p's table contributes is present, and NO path element or envSet value contributed by any OTHER declared
   version of name is present; if it records nothing, no contribution of any version of name is present.
   [Inv e] is the clause for all names.  WF2 (Proofs/SetupInv.v): well-formed table values, one delimiter
   per path variable, contributions of different names and of different versions of one name are apart
   (tables speak about their own PRODUCT_DIR), the dependency graph over names is acyclic (rank), names and
   versions are single words. *)
From Eupsv Require Import Base.Base Base.BaseLemmas Model.PathAlg Proofs.PathAlg Model.Setup Proofs.SetupFrame Proofs.SetupInv.
From Coq Require Import Lia.

(* every call of setup (top level or nested, setup or unsetup, whatever the decisions, keep/just/max-depth)
   that returns maps consistent environments to consistent environments: in particular after a traversal
   that switched products between versions (diamonds included) nothing of the replaced versions is left *)
Theorem setup_preserves_inv w cfg dl rank fuel st ds name fwd depth just ok st' ds' :
  WF2 w dl rank -> nodollar_paths w (s_env st) -> depth_ok cfg depth -> Inv w (s_env st) ->
  setup w cfg fuel st ds name fwd depth just = RDone ok st' ds' ->
  Inv w (s_env st') /\ nodollar_paths w (s_env st').
Proof. intro H. exact (setup_preserves_Inv w cfg dl rank H fuel st ds name fwd depth just ok st' ds'). Qed.
Print Assumptions setup_preserves_inv.

(* the same for a whole command *)
Theorem request_preserves_inv w cfg dl rank fuel st ds name fwd just st' :
  WF2 w dl rank -> nodollar_paths w (s_env st) -> Inv w (s_env st) ->
  request w cfg fuel st ds name fwd just = Ok (Some st') -> Inv w (s_env st').
Proof.
  intros H Hnd HI Hr. unfold request in Hr.
  destruct (setup w cfg fuel st ds name fwd 0 just) as [ok st1 ds1|st1 ds1| |] eqn:E; try discriminate.
  destruct ok; [|discriminate]. injection Hr as <-.
  assert (Hd : depth_ok cfg 0) by (unfold depth_ok; destruct (c_max_depth cfg); lia).
  exact (proj1 (setup_preserves_inv w cfg dl rank fuel st ds name fwd 0 just true st1 ds1 H Hnd Hd HI E)).
Qed.
Print Assumptions request_preserves_inv.

(* what the invariant says about a product that is set up: directory variable, contributions present,
   no residue of any other version *)
Theorem recorded_product_is_consistent w name e p :
  Inv w e -> find_setup_product w e name = Some p ->
  alookup (dir_var name) e = Some (p_dir p) /\ present p e /\
  forall q, In q w -> p_name q = name -> q <> p -> absent q e.
Proof.
  intros HI Hf. pose proof (HI name) as C. unfold clause in C. rewrite Hf in C.
  destruct C as [D [P A]]. split; [assumption|split; [assumption|]].
  intros q Hq Hn Hne. apply A; [split; assumption|assumption].
Qed.
Print Assumptions recorded_product_is_consistent.

Theorem unrecorded_product_leaves_no_residue w name e q :
  Inv w e -> find_setup_product w e name = None -> In q w -> p_name q = name -> absent q e.
Proof.
  intros HI Hf Hq Hn. pose proof (HI name) as C. unfold clause in C. rewrite Hf in C. apply C. split; assumption.
Qed.
Print Assumptions unrecorded_product_leaves_no_residue.

(* the version decided for the requested product at the top level is the version set up (with
   explicit_toplevel_version_honoured of C03 - the resolver's decision for an explicitly named version is that
   version - this is "if a version was named explicitly, that is the version set up") *)
Theorem decided_version_is_set_up w cfg dl rank fuel st v ds name just st' ds' :
  WF2 w dl rank -> nodollar_paths w (s_env st) -> Inv w (s_env st) ->
  setup w cfg fuel st (Some v :: ds) name true 0 just = RDone true st' ds' ->
  exists p, find_pv w name v = Some p /\ p_version p = v /\ find_setup_product w (s_env st') name = Some p.
Proof.
  intros H Hnd HI Hrun.
  assert (Hd : depth_ok cfg 0) by (unfold depth_ok; destruct (c_max_depth cfg); lia).
  pose proof (setup_inv w cfg dl rank H fuel st (Some v :: ds) name true 0 just Hnd Hd (fun n _ => HI n)) as I0.
  rewrite Hrun in I0. destruct I0 as [_ [_ T]].
  destruct (T eq_refl eq_refl eq_refl v ds eq_refl) as [p [Hf Hs]].
  exists p. split; [assumption|split; [|assumption]]. now destruct (find_pv_spec w name v p Hf).
Qed.
Print Assumptions decided_version_is_set_up.

(* Closure clause of the property ("when no product is requested in two versions, the set of products set up
   is exactly the dependency closure, each at the designated version").  Proved here is the half that does
   not depend on the resolver: the setup record of a product that no reachable product name owns is unchanged
   (frame theorem of C04), so nothing outside the closure is set up or unset.  The other half - every member
   of the closure IS set up at the version C03's designation gives - needs the resolver model composed with
   this one along the recursion; it is decided by the correspondence check (model run with the real
   resolver's decisions, compared with the real environment) together with C03's theorems. *)
Theorem closure_exact_partial w cfg dl fuel st ds name fwd just ok st' ds' q :
  WF w dl -> nodollar_paths w (s_env st) ->
  setup w cfg fuel st ds name fwd 0 just = RDone ok st' ds' ->
  (forall n, touches w (levels cfg 0 just) name n -> ~ own_var w n (setup_var q)) ->
  alookup (setup_var q) (s_env st') = alookup (setup_var q) (s_env st).
Proof.
  intros Hwf Hnd Hrun Hno.
  assert (Hd : depth_ok cfg 0) by (unfold depth_ok; destruct (c_max_depth cfg); lia).
  pose proof (setup_frame w cfg dl Hwf fuel st ds name fwd 0 just Hnd Hd) as G. rewrite Hrun in G.
  destruct G as [[V _] _]. apply V; [|exact Hno].
  apply (reserved_not_path w dl Hwf). exists q. tauto.
Qed.
Print Assumptions closure_exact_partial.

(* ---- the hypotheses are satisfiable, jointly, on a run that exercises the interesting path ----
   The world of Proofs/SetupExample.v: four declared names (base in two versions), an undeclared optional
   dependency, path actions on PATH (colon) and TEXINPUTS (semicolon), envSet actions, aliases, and a diamond
   app -> liba -> base, app -> libb -> base whose decisions put base at 1.0 first and then at 2.0.  WF2 holds
   for it (decided by the checker of Model/SetupWf.v, sound by Proofs/SetupWf.v), the empty environment
   is consistent, the run returns the explicit state ex_final in which base 1.0 has been replaced by base 2.0,
   and setup_preserves_inv then says that ex_final is consistent.
   (WF2 as first stated asked apartness of the reserved variables of ALL strings and was uninhabited - the
   strings a and A both own SETUP_A; it now asks it of the names the world knows, see Proofs/SetupInv.v.) *)
From Eupsv Require Import Model.SetupWf Proofs.SetupWf Proofs.SetupExample.

Example c01_hypotheses_inhabited :
  WF2 ex_world (dl_of ex_world) (rank_of ex_order) /\
  Inv ex_world (s_env ex_st0) /\ nodollar_paths ex_world (s_env ex_st0) /\ depth_ok ex_cfg 0 /\
  setup ex_world ex_cfg 20 ex_st0 ex_ds (lit "app") true 0 false = RDone true ex_final [] /\
  find_setup_product ex_world (s_env ex_final) (lit "base") = find_pv ex_world (lit "base") (lit "2.0") /\
  Inv ex_world (s_env ex_final).
Proof.
  assert (H : WF2 ex_world (dl_of ex_world) (rank_of ex_order)) by (apply wf2_check_sound; vm_compute; reflexivity).
  assert (R : setup ex_world ex_cfg 20 ex_st0 ex_ds (lit "app") true 0 false = RDone true ex_final [])
    by (vm_compute; reflexivity).
  split; [exact H|]. split; [apply Inv_nil|]. split; [apply nodollar_nil|]. split; [exact I|].
  split; [exact R|]. split; [vm_compute; reflexivity|].
  exact (proj1 (setup_preserves_inv ex_world ex_cfg (dl_of ex_world) (rank_of ex_order) 20 ex_st0 ex_ds (lit "app")
                  true 0 false true ex_final [] H (nodollar_nil ex_world) I (Inv_nil ex_world) R)).
Qed.
Print Assumptions c01_hypotheses_inhabited.

(* ================================================================================================
   The composed model (Model/SetupFull.v): Model/Setup.v with the version resolver of C03
   (Model/Resolve.v) in place of the stream of decisions.  [setup_full] carries Eups.alreadySetupProducts
   and the VRO, and calls resolve_request for every forward call on the database view [db_of cfg fw]
   (one stack; the declared (name, version) pairs of the world; the chain files fw_tags); [fw_lines] holds
   what Action.processArgs makes of every dependency line.  The correspondence check runs this model
   WITHOUT the real resolver's decisions and compares environments, aliases and decisions.
   ================================================================================================ *)
From Eupsv Require Import Model.Resolve Model.ResolveSpec Model.SetupFull Proofs.SetupFull Proofs.SetupFullExample
     Generated.Config.

(* every run of the composed model IS a run of Model/Setup.v: on the decisions it took (trace_of), followed by
   anything.  Hence every theorem about Model/Setup.v for every resolver above and in Props/C02.v, C04.v holds
   of the composed model; the corollaries below state the ones of this file. *)
Theorem setup_full_is_setup vcmp vmatch fw cfg rc flavors fuel st al vro name li fwd depth just rest :
  setup (fw_products fw) cfg fuel st
        (trace_of (setup_full vcmp vmatch fw cfg rc flavors fuel st al vro name li fwd depth just) ++ rest)
        name fwd depth just =
  erase rest (setup_full vcmp vmatch fw cfg rc flavors fuel st al vro name li fwd depth just).
Proof. apply setup_full_agrees. Qed.
Print Assumptions setup_full_is_setup.

Corollary setup_full_preserves_inv vcmp vmatch fw cfg rc flavors dl rank fuel st al vro name li fwd depth just ok st' al' tr :
  WF2 (fw_products fw) dl rank -> nodollar_paths (fw_products fw) (s_env st) -> depth_ok cfg depth ->
  Inv (fw_products fw) (s_env st) ->
  setup_full vcmp vmatch fw cfg rc flavors fuel st al vro name li fwd depth just = FDone ok st' al' tr ->
  Inv (fw_products fw) (s_env st') /\ nodollar_paths (fw_products fw) (s_env st').
Proof. apply setup_full_inv_lemma. Qed.
Print Assumptions setup_full_preserves_inv.

(* the same for a whole command (selectVRO, then Eups.setup from a fresh Eups) *)
Corollary request_full_preserves_inv vcmp vmatch fw cfg rc flavors dl rank fuel st name version fwd just st' tr :
  WF2 (fw_products fw) dl rank -> nodollar_paths (fw_products fw) (s_env st) -> Inv (fw_products fw) (s_env st) ->
  request_full vcmp vmatch fw cfg rc flavors fuel st name version fwd just = Ok (Some st', tr) ->
  Inv (fw_products fw) (s_env st').
Proof.
  intros H Hnd HI E. unfold request_full in E. destruct (select_vro rc (request_opts cfg version)) as [vro|]; [|discriminate].
  destruct (setup_full vcmp vmatch fw cfg rc flavors fuel st [] vro name _ fwd 0 just) as [[|] st1 al1 tr1|st1 al1 tr1|tr1|tr1] eqn:R;
    try discriminate.
  injection E as <- _.
  assert (Hd : depth_ok cfg 0) by (unfold depth_ok; destruct (c_max_depth cfg); lia).
  exact (proj1 (setup_full_inv_lemma vcmp vmatch fw cfg rc flavors dl rank fuel st [] vro name _ fwd 0 just true st1 al1 tr1
                  H Hnd Hd HI R)).
Qed.
Print Assumptions request_full_preserves_inv.

(* If a version was named explicitly, that is the version set up: a top-level request that names the
   version v (not a relational expression) and succeeds ends with v recorded for the product - whatever the VRO,
   the tags and the dictionary.  C03's explicit_toplevel_version_honoured composed with decided_version_is_set_up. *)
Theorem explicit_version_is_set_up vcmp vmatch fw cfg rc flavors dl rank fuel st al vro name v x just st' al' tr :
  WF2 (fw_products fw) dl rank -> nodollar_paths (fw_products fw) (s_env st) -> Inv (fw_products fw) (s_env st) ->
  v <> [] -> is_expr v = false ->
  setup_full vcmp vmatch fw cfg rc flavors fuel st al vro name {| li_version := Some v; li_expr := x |} true 0 just
    = FDone true st' al' tr ->
  exists p, find_pv (fw_products fw) name v = Some p /\ p_version p = v /\
            find_setup_product (fw_products fw) (s_env st') name = Some p.
Proof. apply explicit_version_lemma. Qed.
Print Assumptions explicit_version_is_set_up.

Corollary explicit_version_is_set_up_request vcmp vmatch fw cfg rc flavors dl rank fuel st name v just st' tr :
  WF2 (fw_products fw) dl rank -> nodollar_paths (fw_products fw) (s_env st) -> Inv (fw_products fw) (s_env st) ->
  v <> [] -> is_expr v = false ->
  request_full vcmp vmatch fw cfg rc flavors fuel st name (Some v) true just = Ok (Some st', tr) ->
  exists p, find_pv (fw_products fw) name v = Some p /\ p_version p = v /\
            find_setup_product (fw_products fw) (s_env st') name = Some p.
Proof.
  intros H Hnd HI Hne Hx E. unfold request_full in E.
  destruct (select_vro rc (request_opts cfg (Some v))) as [vro|]; [|discriminate].
  destruct (setup_full vcmp vmatch fw cfg rc flavors fuel st [] vro name _ true 0 just) as [[|] st1 al1 tr1|st1 al1 tr1|tr1|tr1] eqn:R;
    try discriminate.
  injection E as <- _.
  exact (explicit_version_lemma vcmp vmatch fw cfg rc flavors dl rank fuel st [] vro name v None just st1 al1 tr1 H Hnd HI Hne Hx R).
Qed.
Print Assumptions explicit_version_is_set_up_request.

(* ---- the composed model on the example world: the hypotheses are inhabited ----
   ex_fw (Proofs/SetupFullExample.v) is ex_world with the request information of its table lines and its chain
   files.  With the shipped configuration (Generated/Config.v), the dotted-numeric comparator and the flavors
   Linux64, generic:  setup app  from the empty environment computes by itself the decisions ex_ds (base 1.0 below
   liba, replaced by base 2.0 below libb, ghost not found) and ends in ex_final;  setup base 1.0  records base 1.0
   although base 2.0 is current. *)
Example c01_composed_inhabited :
  WF2 (fw_products ex_fw) (dl_of ex_world) (rank_of ex_order) /\
  request_full_simple ex_fw ex_cfg default_config ex_flavors 20 ex_st0 (lit "app") None true false
    = Ok (Some ex_final, ex_ds) /\
  (exists st' tr,
     request_full_simple ex_fw ex_cfg default_config ex_flavors 20 ex_st0 (lit "base") (Some (lit "1.0")) true false
       = Ok (Some st', tr) /\
     find_setup_product ex_world (s_env st') (lit "base") = find_pv ex_world (lit "base") (lit "1.0")).
Proof.
  split; [apply wf2_check_sound; vm_compute; reflexivity|]. split; [vm_compute; reflexivity|].
  eexists. eexists. split; vm_compute; reflexivity.
Qed.
Print Assumptions c01_composed_inhabited.

(* ---- the closure clause, in full ----
   When no product is requested in two different versions along the traversal, nothing of the closure is set
   up beforehand, and the request succeeds, the set of products set up is exactly the dependency closure
   (required dependencies, plus optional ones that resolve), each at the version the VRO designates.

   [conflict_free ... top li D] (Proofs/SetupFullClosure.v): ONE assignment D of a version (or of nothing) to
   every product name explains every request of the traversal - the top-level request designates D top, and in
   the table of every reachable product at its assigned version every dependency line (none with -j) designates,
   for the product it names, what D assigns to it.  [designates] is C03's designation rule.
   [sets_up fw D n]: n is assigned a declared version in whose table every REQUIRED line names a product that sets
   up.  [reach_ok fw D top k]: k is reached from top through lines, required or optional, that name products
   which set up, always in the table of the assigned version - the dependency closure.
   [reachN fw top n]: n is reachable through the lines of any declared version (the frame of C04).

   Conclusion, for a request from a fresh Eups (dictionary empty) that succeeds:
     (1) every member of the closure is recorded, at its assigned (= designated) version;
     (2) every recorded product among the reachable names is a member of the closure (at its assigned version);
     (3) the record of every other product the world knows is what it was.
   Hypotheses besides WF2 and conflict-freedom: nothing reachable is recorded beforehand; no --max-depth, no
   --just, no keep in the VRO; the database view is well formed and the comparator is a total order on the
   declared version names (both as in C03's walk_is_designation).
   (closure_exact_partial above is conjunct (3) for an arbitrary resolver; what it lacked - every member of the
   closure IS set up at the designated version, and nothing else among the reachable names is - are (1) and (2).) *)
From Eupsv Require Import Proofs.SetupFullClosure.
From Eupsv Require Proofs.Resolve.

Theorem closure_exact vcmp vmatch fw cfg rc flavors dl rank vro top li D fuel st st' al' tr :
  WF2 (fw_products fw) dl rank -> c_max_depth cfg = None ->
  wf_db (db_of cfg fw) = true -> (forall n, total_order_on vcmp (names_of (db_of cfg fw) n)) ->
  mem_entry EKeep vro = false ->
  conflict_free vcmp vmatch fw cfg rc flavors vro top li D ->
  nodollar_paths (fw_products fw) (s_env st) ->
  (forall n, reachN fw top n -> find_setup_product (fw_products fw) (s_env st) n = None) ->
  setup_full vcmp vmatch fw cfg rc flavors fuel st [] vro top li true 0 false = FDone true st' al' tr ->
  (forall k, reach_ok fw D top k ->
     exists v q, D k = Some v /\ find_pv (fw_products fw) k v = Some q /\
                 find_setup_product (fw_products fw) (s_env st') k = Some q) /\
  (forall k q, reachN fw top k -> find_setup_product (fw_products fw) (s_env st') k = Some q ->
     reach_ok fw D top k /\ D k = Some (p_version q)) /\
  (forall k, known (fw_products fw) k -> ~ reachN fw top k ->
     find_setup_product (fw_products fw) (s_env st') k = find_setup_product (fw_products fw) (s_env st) k).
Proof.
  intros H Hd Hw Ht Hk [C0 CL] Hnd Hfresh E.
  destruct (closure_lemma vcmp vmatch fw cfg rc flavors dl rank vro top D (fun _ => False) H Hd Hw Ht Hk CL fuel st li st' al' tr
              Hnd Hfresh C0 (fun k v (Zk : False) => match Zk with end) E) as [A [B [C _]]].
  split; [exact A|split; [exact B|exact C]].
Qed.
Print Assumptions closure_exact.

(* the assigned version IS the designated one: for the requested product by conflict_free itself, for every
   other member of the closure through the line that reached it *)
Theorem closure_versions_are_designated vcmp vmatch fw cfg rc flavors vro top li D :
  conflict_free vcmp vmatch fw cfg rc flavors vro top li D ->
  option_map fd_version (designates vcmp vmatch rc (db_of cfg fw) flavors 0 vro
                                    (mkRequest top (li_version li) (li_expr li))) = D top /\
  forall n v p i o x j, reachN fw top n -> D n = Some v -> find_pv (fw_products fw) n v = Some p ->
    nth_error (p_actions p) i = Some (ASetup o x j) ->
    j = false /\
    option_map fd_version (designates vcmp vmatch rc (db_of cfg fw) flavors 1 vro
       (mkRequest x (li_version (nth i (lines_of fw p) no_info)) (li_expr (nth i (lines_of fw p) no_info)))) = D x.
Proof.
  intros [C0 CL]. split; [exact C0|]. intros n v p i o x j Rn Dn F.
  pose proof (CL n v p Rn Dn F) as L. revert L. generalize (lines_of fw p). generalize (p_actions p).
  induction i as [|i IH]; intros acts infos L Hn; destruct acts as [|a acts]; try discriminate.
  - cbn [nth_error] in Hn. injection Hn as ->. destruct L as [[-> L0] _]. split; [reflexivity|].
    destruct infos; exact L0.
  - cbn [nth_error] in Hn. destruct L as [_ L']. destruct (IH acts (tl infos) L' Hn) as [A B]. split; [assumption|].
    destruct infos as [|i0 infos]; [|exact B]. destruct i; exact B.
Qed.
Print Assumptions closure_versions_are_designated.

(* for a whole command *)
Corollary closure_exact_request vcmp vmatch fw cfg rc flavors dl rank vro top version D fuel st st' tr :
  WF2 (fw_products fw) dl rank -> c_max_depth cfg = None ->
  wf_db (db_of cfg fw) = true -> (forall n, total_order_on vcmp (names_of (db_of cfg fw) n)) ->
  select_vro rc (request_opts cfg version) = Ok vro -> mem_entry EKeep vro = false ->
  conflict_free vcmp vmatch fw cfg rc flavors vro top {| li_version := version; li_expr := None |} D ->
  nodollar_paths (fw_products fw) (s_env st) ->
  (forall n, reachN fw top n -> find_setup_product (fw_products fw) (s_env st) n = None) ->
  request_full vcmp vmatch fw cfg rc flavors fuel st top version true false = Ok (Some st', tr) ->
  (forall k, reach_ok fw D top k ->
     exists v q, D k = Some v /\ find_pv (fw_products fw) k v = Some q /\
                 find_setup_product (fw_products fw) (s_env st') k = Some q) /\
  (forall k q, reachN fw top k -> find_setup_product (fw_products fw) (s_env st') k = Some q ->
     reach_ok fw D top k /\ D k = Some (p_version q)).
Proof.
  intros H Hd Hw Ht V Hk CF Hnd Hfresh E. unfold request_full in E. rewrite V in E.
  destruct (setup_full vcmp vmatch fw cfg rc flavors fuel st [] vro top _ true 0 false)
    as [[|] st1 al1 tr1|st1 al1 tr1|tr1|tr1] eqn:X; try discriminate.
  injection E as <- _.
  destruct (closure_exact vcmp vmatch fw cfg rc flavors dl rank vro top _ D fuel st st1 al1 tr1 H Hd Hw Ht Hk CF Hnd Hfresh X)
    as [A [B _]].
  split; assumption.
Qed.
Print Assumptions closure_exact_request.

(* ---- inhabited: setup libb on ex_fw from the empty environment; the assignment is libb 1.0, base 2.0; the closure
   is {libb, base} and both are recorded at these versions ---- *)
Example closure_exact_inhabited :
  WF2 (fw_products ex_fw) (dl_of ex_world) (rank_of ex_order) /\ c_max_depth ex_cfg = None /\
  wf_db (db_of ex_cfg ex_fw) = true /\ (forall n, total_order_on vcmp_simple (names_of (db_of ex_cfg ex_fw) n)) /\
  mem_entry EKeep ex_vro = false /\
  conflict_free vcmp_simple vmatch_simple ex_fw ex_cfg default_config ex_flavors ex_vro (lit "libb") no_info ex_D /\
  reach_ok ex_fw ex_D (lit "libb") (lit "base") /\
  exists st' al' tr,
    setup_full_simple ex_fw ex_cfg default_config ex_flavors 20 ex_st0 [] ex_vro (lit "libb") no_info true 0 false
      = FDone true st' al' tr /\
    find_setup_product ex_world (s_env st') (lit "base") = find_pv ex_world (lit "base") (lit "2.0").
Proof.
  split; [apply wf2_check_sound; vm_compute; reflexivity|]. split; [reflexivity|]. split; [vm_compute; reflexivity|].
  split; [apply total_order_all; apply Proofs.Resolve.total_orderb_sound; vm_compute; reflexivity|]. split; [reflexivity|].
  assert (CF : conflict_free vcmp_simple vmatch_simple ex_fw ex_cfg default_config ex_flavors ex_vro (lit "libb") no_info ex_D).
  { split; [vm_compute; reflexivity|]. intros n v p _ Dn F. unfold ex_D in Dn.
    destruct (str_eqb_spec n (lit "libb")) as [->|N1].
    - injection Dn as <-. vm_compute in F. injection F as <-.
      split; [split; [reflexivity|vm_compute; reflexivity]|]. cbn. tauto.
    - destruct (str_eqb_spec n (lit "base")) as [->|N2]; [|discriminate].
      injection Dn as <-. vm_compute in F. injection F as <-. cbn. tauto. }
  split; [exact CF|]. split.
  - apply (ro_dep ex_fw ex_D (lit "libb") (lit "1.0")
             {| p_name := lit "libb"; p_version := lit "1.0"; p_dir := lit "/s/libb/1.0";
                p_actions := [ASetup false (lit "base") false;
                              APath true (lit "TEXINPUTS") (lit "/s/libb/1.0/tex") c_semi; ANone] |}
             false (lit "base") false (lit "base")); try reflexivity; [now left| |constructor].
    apply (su_intro ex_fw ex_D (lit "base") (lit "2.0") (ex_base "2.0")); try reflexivity.
    intros x j Hin. cbn in Hin. intuition discriminate.
  - eexists. eexists. eexists. split; vm_compute; reflexivity.
Qed.
Print Assumptions closure_exact_inhabited.

(* ---- why the clause is conditional: with a version conflict a REQUIRED product can end up not set up ----
   cx_fw (Proofs/SetupFullExample.v): t requires c, a, d; a requires b 1.0, whose table requires c; d requires b 2.0.
   setup t  succeeds; b 1.0 is replaced by b 2.0, the unsetup of b 1.0 unsets its dependency c, and c - a required
   dependency of t itself - is not set up at the end.  (The real Eups.setup does the same; the world satisfies WF2.) *)
Example closure_refuted_with_conflict :
  WF2 (fw_products cx_fw) (dl_of cx_world) (rank_of cx_order) /\
  exists st' tr,
    request_full_simple cx_fw ex_cfg default_config ex_flavors 20 ex_st0 (lit "t") None true false = Ok (Some st', tr) /\
    find_setup_product cx_world (s_env st') (lit "t") = find_pv cx_world (lit "t") (lit "1.0") /\
    find_setup_product cx_world (s_env st') (lit "b") = find_pv cx_world (lit "b") (lit "2.0") /\
    find_setup_product cx_world (s_env st') (lit "c") = None.
Proof.
  split; [apply wf2_check_sound; vm_compute; reflexivity|].
  eexists. eexists. split; [vm_compute; reflexivity|]. split; [vm_compute; reflexivity|].
  split; vm_compute; reflexivity.
Qed.
Print Assumptions closure_refuted_with_conflict.

(* ================================================================================================
   The setup model run from table TEXTS (Model/SetupText.v): the table-file parser model of C11
   (table_actions: Table._read after _rewrite, then Table.actions) followed by what lies between the parser
   and Eups.setup - the implicit product line that Product.getTable appends, Table.expandEupsVariables on
   every argument (PRODUCTS, one spelling of PRODUCT_DIR / PRODUCT_DIR_EXTRA, the spelled-out NAME_DIR,
   PRODUCT_FLAVOR, PRODUCT_NAME, PRODUCT_VERSION, UPS_DIR), the command kinds of Action.execute and the option
   words of Action.processArgs.  [world_of_text cfg tc tw] is the world of Model/Setup.v that the stack with the
   table files tw denotes (Err when a table does not parse or uses a construct Model/Setup.v has not);
   request_text / setup_text run Model/Setup.v on it.  The correspondence check feeds the generated table texts
   to this model and compares environments and aliases with the real run (text-model-comparisons), so the
   theorems of this file, of Props/C02.v and of Props/C04.v speak about stacks given by their table files.
   ================================================================================================ *)
From Eupsv Require Import Model.Rx Model.Cond Model.Args Model.Blocks Model.TableSpec Model.SetupText
     Proofs.SetupText Proofs.SetupTextExample.

(* (a) For a table printed from a well-formed syntax tree of the documented grammar (Model/TableSpec.v: every
   layout, letter case, quoting style, comment), the actions setup executes are the meaning of the tree: for each
   command that applies (unconditional ones in place, the first true branch of each chain - by C11's blocks_sound)
   the action its KIND means (kind_action: no command names, no flags) on its arguments after
   expandEupsVariables, followed by the implicit product line. *)
Theorem text_table_denotes tc pi flavor is :
  wf_flavor flavor = true -> wf_items is = true ->
  table_setup_actions tc pi flavor (print_table is) = items_setup_actions tc pi flavor is.
Proof. apply table_setup_actions_print. Qed.
Print Assumptions text_table_denotes.

(* ... hence the world the setup theorems quantify over is the one the texts denote *)
Theorem text_world_denotes cfg tc aw :
  wf_ast_world cfg aw = true -> world_of_text cfg tc (print_world aw) = world_of_ast cfg tc aw.
Proof. apply world_of_text_print. Qed.
Print Assumptions text_world_denotes.

(* the translated world declares exactly the products of the text world, with their directories *)
Theorem text_world_declares cfg tc tw w :
  world_of_text cfg tc tw = Ok w ->
  map p_name w = map t_name tw /\ map p_version w = map t_version tw /\ map p_dir w = map t_dir tw.
Proof. apply world_of_text_names. Qed.
Print Assumptions text_world_declares.

(* the synonyms: pathPrepend / pathAppend / setenv / pathSet mean what envPrepend / envAppend / envSet mean,
   append and prepend, required and optional are told apart *)
Theorem text_command_kinds args v x n j :
  kind_action KPathPrepend args = kind_action KEnvPrepend args /\
  kind_action KPathAppend args = kind_action KEnvAppend args /\
  kind_action KSetenv args = kind_action KEnvSet args /\ kind_action KPathSet args = kind_action KEnvSet args /\
  kind_action KEnvPrepend [v; x] = Ok (APath false v x ":"%char) /\
  kind_action KEnvAppend [v; x] = Ok (APath true v x ":"%char) /\
  kind_action KEnvSet [v; x] = Ok (ASet v x) /\
  (dep_args [n] = Ok (mkDep [n] false false false false) ->
     kind_action KSetupRequired [n] = Ok (ASetup false n false) \/ is1 n "eups" = true) /\
  (dep_args [n; j] = Ok (mkDep [n] true false false false) ->
     kind_action KSetupOptional [n; j] = Ok (ASetup true n true) \/ is1 n "eups" = true).
Proof.
  repeat split; try reflexivity.
  - intro E. cbn [kind_action]. unfold dep_action. rewrite E. cbn [bind d_dir d_words d_noaction d_external d_just orb].
    destruct (is1 n "eups"); [now right|now left].
  - intro E. cbn [kind_action]. unfold dep_action. rewrite E. cbn [bind d_dir d_words d_noaction d_external d_just orb].
    destruct (is1 n "eups"); [now right|now left].
Qed.
Print Assumptions text_command_kinds.

(* (b) the setup theorems on worlds given as texts.  C01: every command on a stack whose table files parse maps
   consistent environments to consistent environments *)
Theorem request_text_preserves_inv cfg tc tw w dl rank fuel st ds name fwd just st' :
  world_of_text cfg tc tw = Ok w ->
  WF2 w dl rank -> nodollar_paths w (s_env st) -> Inv w (s_env st) ->
  request_text cfg tc tw fuel st ds name fwd just = Ok (Some st') -> Inv w (s_env st').
Proof.
  intros Hw H Hnd HI E. rewrite (request_text_is_request cfg tc tw w fuel st ds name fwd just Hw) in E.
  exact (request_preserves_inv w cfg dl rank fuel st ds name fwd just st' H Hnd HI E).
Qed.
Print Assumptions request_text_preserves_inv.

(* C02: a request that does not succeed yields no new state *)
Theorem failed_setup_text_changes_nothing cfg tc tw w fuel st ds name fwd just :
  world_of_text cfg tc tw = Ok w ->
  (forall st' ds', setup_text cfg tc tw fuel st ds name fwd 0 just <> Ok (RDone true st' ds')) ->
  request_text cfg tc tw fuel st ds name fwd just = Ok None \/
  exists e, request_text cfg tc tw fuel st ds name fwd just = Err e.
Proof.
  intros Hw H. rewrite (request_text_is_request cfg tc tw w fuel st ds name fwd just Hw).
  unfold Setup.request. destruct (setup w cfg fuel st ds name fwd 0 just) as [[|] st' ds'|st' ds'| |] eqn:E.
  - exfalso. apply (H st' ds'). rewrite (setup_text_is_setup cfg tc tw w fuel st ds name fwd 0 just Hw). now rewrite E.
  - now left.
  - now left.
  - right. now exists OutOfFuel.
  - right. now exists Crash.
Qed.
Print Assumptions failed_setup_text_changes_nothing.

(* C04, the frame theorem: a call of setup on such a stack changes no variable that is neither a path variable nor
   owned by a product it reaches, nothing about the path elements of products it does not reach, no alias that no
   reached product defines *)
Theorem setup_text_changes_only_what_it_reaches cfg tc tw w dl fuel st ds name fwd depth just :
  world_of_text cfg tc tw = Ok w -> WF w dl -> nodollar_paths w (s_env st) -> depth_ok cfg depth ->
  exists r, setup_text cfg tc tw fuel st ds name fwd depth just = Ok r /\
            good w dl (touches w (levels cfg depth just) name) st r.
Proof.
  intros Hw H Hnd Hd. exists (setup w cfg fuel st ds name fwd depth just).
  split; [exact (setup_text_is_setup cfg tc tw w fuel st ds name fwd depth just Hw)|].
  exact (setup_frame w cfg dl H fuel st ds name fwd depth just Hnd Hd).
Qed.
Print Assumptions setup_text_changes_only_what_it_reaches.

(* ---- the hypotheses are inhabited ----
   ext_tw (Proofs/SetupTextExample.v): lib 1.0, lib 2.0 and app 1.0 given by the texts of their table files (a
   dependency line, a block conditional on the setup type, envPrepend / pathAppend, envSet with a quoted value, an
   alias, the product directory spelled PRODUCT_DIR and LIB_DIR).  The texts are what the syntax trees ex_aw print
   to; they denote ext_world; WF2 holds for it; from the environment ext_st0 that  setup lib 2.0  reaches from the
   empty one,  setup app  replaces lib 2.0 by lib 1.0 and ends in ext_final, which is consistent by
   request_text_preserves_inv; a request for an unknown product yields nothing. *)
Example c01_text_hypotheses_inhabited :
  wf_ast_world ext_cfg ext_aw = true /\ print_world ext_aw = ext_tw /\
  world_of_text ext_cfg ext_tc ext_tw = Ok ext_world /\ world_of_ast ext_cfg ext_tc ext_aw = Ok ext_world /\
  WF2 ext_world (dl_of ext_world) (rank_of ext_order) /\
  request_text ext_cfg ext_tc ext_tw 20 {| s_env := []; s_aliases := [] |} [Some (lit "2.0"); None] (lit "lib") true false
    = Ok (Some ext_st0) /\
  Inv ext_world (s_env ext_st0) /\ nodollar_paths ext_world (s_env ext_st0) /\
  request_text ext_cfg ext_tc ext_tw 20 ext_st0 ext_ds (lit "app") true false = Ok (Some ext_final) /\
  find_setup_product ext_world (s_env ext_final) (lit "lib") = find_pv ext_world (lit "lib") (lit "1.0") /\
  Inv ext_world (s_env ext_final) /\
  request_text ext_cfg ext_tc ext_tw 20 ext_st0 [None] (lit "ghost") true false = Ok None.
Proof.
  assert (W : world_of_text ext_cfg ext_tc ext_tw = Ok ext_world) by (vm_compute; reflexivity).
  assert (H : WF2 ext_world (dl_of ext_world) (rank_of ext_order)) by (apply wf2_check_sound; vm_compute; reflexivity).
  assert (R0 : setup ext_world ext_cfg 20 {| s_env := []; s_aliases := [] |} [Some (lit "2.0"); None] (lit "lib") true 0 false
               = RDone true ext_st0 []) by (vm_compute; reflexivity).
  destruct (setup_preserves_inv ext_world ext_cfg (dl_of ext_world) (rank_of ext_order) 20 {| s_env := []; s_aliases := [] |}
              [Some (lit "2.0"); None] (lit "lib") true 0 false true ext_st0 []
              H (nodollar_nil ext_world) I (Inv_nil ext_world) R0) as [I0 N0].
  assert (R1 : request_text ext_cfg ext_tc ext_tw 20 ext_st0 ext_ds (lit "app") true false = Ok (Some ext_final))
    by (vm_compute; reflexivity).
  split; [vm_compute; reflexivity|]. split; [vm_compute; reflexivity|]. split; [exact W|].
  split; [rewrite <- (text_world_denotes ext_cfg ext_tc ext_aw); [exact W|vm_compute; reflexivity]|].
  split; [exact H|]. split; [vm_compute; reflexivity|]. split; [exact I0|]. split; [exact N0|]. split; [exact R1|].
  split; [vm_compute; reflexivity|].
  split; [exact (request_text_preserves_inv ext_cfg ext_tc ext_tw ext_world _ _ 20 ext_st0 ext_ds (lit "app") true false
                   ext_final W H N0 I0 R1)|].
  vm_compute. reflexivity.
Qed.
Print Assumptions c01_text_hypotheses_inhabited.

(* ---- the flavor a table is read for ----
   Eups.setup reads the table of a product found under the fall-back flavor for THAT flavor (setupFlavor =
   product.flavor).  Before the repair proposed_fixes/C01-unsetup-reads-table-for-recorded-flavor the unsetup half
   read it for the RUNNING flavor: for a table with a condition on the flavor the commands undone were not the
   commands executed.  exf_tw: tool 1.0, declared under generic, adds its bin directory to PATH when the flavor is
   generic.  setup tool  on Linux64 adds it (exf_st1); undoing with the tables as the code before the repair read them
   leaves the element in PATH with tool no longer recorded - the environment is not consistent, and not the one
   before the setup; with the repaired reading (the model) unsetup restores the environment. *)
Theorem unsetup_flavor_refuted_pinned :
  exists w wp residue,
    world_of_text exf_cfg ext_tc exf_tw = Ok w /\ world_of_text_pinned_unsetup exf_cfg ext_tc exf_tw = Ok wp /\
    request_text exf_cfg ext_tc exf_tw 20 exf_st0 [Some (lit "1.0"); None] (lit "tool") true false = Ok (Some exf_st1) /\
    Setup.request wp exf_cfg 20 exf_st1 [] (lit "tool") false false = Ok (Some residue) /\
    alookup (lit "PATH") (s_env residue) = Some (lit "/s/generic/tool/1.0/bin:/usr/bin") /\
    find_setup_product w (s_env residue) (lit "tool") = None /\
    request_text exf_cfg ext_tc exf_tw 20 exf_st1 [] (lit "tool") false false = Ok (Some exf_st0).
Proof. do 3 eexists. repeat split; vm_compute; reflexivity. Qed.
Print Assumptions unsetup_flavor_refuted_pinned.

(* ================================================================================================
   The composed model with the comparator and the matcher of C10 (Model/ResolveReal.v: request_full_real =
   request_full vcmp_real vmatch_real).  The hypothesis of closure_exact that the comparator is a total order on the
   declared version names is discharged from the theorems of Props/C10.v for worlds whose version names are
   conventional and, per product, spell pairwise different keys (fw_real_ok, decidable; Props/C03.v
   real_comparator_total_order shows that this is exactly what the hypothesis means for the real comparator).
   With two spellings of one key (1.0 and 1_0) the resolver takes the later listed one (Props/C03.v tie_rules_real),
   which is not the one the designation rule names: outside fw_real_ok the model is tied to the code by the
   correspondence check only (real-comparator-comparisons).
   ================================================================================================ *)
From Eupsv Require Import Model.ResolveReal Proofs.ResolveReal Proofs.SetupFullRealExample.

Theorem closure_exact_real fw cfg rc flavors dl rank vro top li D fuel st st' al' tr :
  WF2 (fw_products fw) dl rank -> c_max_depth cfg = None ->
  wf_db (db_of cfg fw) = true -> fw_real_ok cfg fw = true ->
  mem_entry EKeep vro = false ->
  conflict_free vcmp_real vmatch_real fw cfg rc flavors vro top li D ->
  nodollar_paths (fw_products fw) (s_env st) ->
  (forall n, reachN fw top n -> find_setup_product (fw_products fw) (s_env st) n = None) ->
  setup_full_real fw cfg rc flavors fuel st [] vro top li true 0 false = FDone true st' al' tr ->
  (forall k, reach_ok fw D top k ->
     exists v q, D k = Some v /\ find_pv (fw_products fw) k v = Some q /\
                 find_setup_product (fw_products fw) (s_env st') k = Some q) /\
  (forall k q, reachN fw top k -> find_setup_product (fw_products fw) (s_env st') k = Some q ->
     reach_ok fw D top k /\ D k = Some (p_version q)) /\
  (forall k, known (fw_products fw) k -> ~ reachN fw top k ->
     find_setup_product (fw_products fw) (s_env st') k = find_setup_product (fw_products fw) (s_env st) k).
Proof.
  intros H Hd Hw Hok. apply (closure_exact vcmp_real vmatch_real fw cfg rc flavors dl rank); auto.
  now apply fw_real_ok_total.
Qed.
Print Assumptions closure_exact_real.

Corollary closure_exact_request_real fw cfg rc flavors dl rank vro top version D fuel st st' tr :
  WF2 (fw_products fw) dl rank -> c_max_depth cfg = None ->
  wf_db (db_of cfg fw) = true -> fw_real_ok cfg fw = true ->
  select_vro rc (request_opts cfg version) = Ok vro -> mem_entry EKeep vro = false ->
  conflict_free vcmp_real vmatch_real fw cfg rc flavors vro top {| li_version := version; li_expr := None |} D ->
  nodollar_paths (fw_products fw) (s_env st) ->
  (forall n, reachN fw top n -> find_setup_product (fw_products fw) (s_env st) n = None) ->
  request_full_real fw cfg rc flavors fuel st top version true false = Ok (Some st', tr) ->
  (forall k, reach_ok fw D top k ->
     exists v q, D k = Some v /\ find_pv (fw_products fw) k v = Some q /\
                 find_setup_product (fw_products fw) (s_env st') k = Some q) /\
  (forall k q, reachN fw top k -> find_setup_product (fw_products fw) (s_env st') k = Some q ->
     reach_ok fw D top k /\ D k = Some (p_version q)).
Proof.
  intros H Hd Hw Hok. apply (closure_exact_request vcmp_real vmatch_real fw cfg rc flavors dl rank); auto.
  now apply fw_real_ok_total.
Qed.
Print Assumptions closure_exact_request_real.

(* the invariant and the explicit-version clause hold for every resolver, so for this one *)
Corollary request_full_real_preserves_inv fw cfg rc flavors dl rank fuel st name version fwd just st' tr :
  WF2 (fw_products fw) dl rank -> nodollar_paths (fw_products fw) (s_env st) -> Inv (fw_products fw) (s_env st) ->
  request_full_real fw cfg rc flavors fuel st name version fwd just = Ok (Some st', tr) ->
  Inv (fw_products fw) (s_env st').
Proof. apply request_full_preserves_inv. Qed.
Print Assumptions request_full_real_preserves_inv.

(* ---- inhabited: rvx_fw (Proofs/SetupFullRealExample.v): base 1.9 1.10-rc1 1.10 1.10+1, libb 1.0.1 with
   setupRequired(base < 1.10).  setup libb: the assignment is libb 1.0.1, base 1.10-rc1; the closure is {libb, base};
   the dotted-numeric comparator would have set base 1.9 up ---- *)
Example closure_exact_real_inhabited :
  WF2 (fw_products rvx_fw) (dl_of rvx_world) (rank_of rvx_order) /\ c_max_depth ex_cfg = None /\
  wf_db (db_of ex_cfg rvx_fw) = true /\ fw_real_ok ex_cfg rvx_fw = true /\
  mem_entry EKeep ex_vro = false /\
  conflict_free vcmp_real vmatch_real rvx_fw ex_cfg default_config ex_flavors ex_vro (lit "libb") no_info rvx_D /\
  reach_ok rvx_fw rvx_D (lit "libb") (lit "base") /\
  (exists al' tr,
    setup_full_real rvx_fw ex_cfg default_config ex_flavors 20 ex_st0 [] ex_vro (lit "libb") no_info true 0 false
      = FDone true rvx_libb_state al' tr /\
    find_setup_product rvx_world (s_env rvx_libb_state) (lit "base") = find_pv rvx_world (lit "base") (lit "1.10-rc1")) /\
  (exists st' tr,
    request_full_simple rvx_fw ex_cfg default_config ex_flavors 20 ex_st0 (lit "libb") None true false = Ok (Some st', tr) /\
    find_setup_product rvx_world (s_env st') (lit "base") = find_pv rvx_world (lit "base") (lit "1.9")).
Proof.
  split; [apply wf2_check_sound; vm_compute; reflexivity|]. split; [reflexivity|]. split; [vm_compute; reflexivity|].
  split; [vm_compute; reflexivity|]. split; [reflexivity|].
  assert (CF : conflict_free vcmp_real vmatch_real rvx_fw ex_cfg default_config ex_flavors ex_vro (lit "libb") no_info rvx_D).
  { split; [vm_compute; reflexivity|]. intros n v p _ Dn F. unfold rvx_D in Dn.
    destruct (str_eqb_spec n (lit "libb")) as [->|N1].
    - injection Dn as <-. vm_compute in F. injection F as <-.
      split; [split; [reflexivity|vm_compute; reflexivity]|]. cbn. tauto.
    - destruct (str_eqb_spec n (lit "base")) as [->|N2]; [|discriminate].
      injection Dn as <-. vm_compute in F. injection F as <-. cbn. tauto. }
  split; [exact CF|]. split.
  - apply (ro_dep rvx_fw rvx_D (lit "libb") (lit "1.0.1") rvx_libb false (lit "base") false (lit "base"));
      try reflexivity; [now left| |constructor].
    apply (su_intro rvx_fw rvx_D (lit "base") (lit "1.10-rc1") (ex_base "1.10-rc1")); try reflexivity.
    intros x j Hin. cbn in Hin. intuition discriminate.
  - split.
    + eexists. eexists. split; vm_compute; reflexivity.
    + eexists. eexists. split; vm_compute; reflexivity.
Qed.
Print Assumptions closure_exact_real_inhabited.

(* ---- names that spell one key.  The database view of the composed model is ONE stack; when its listings are sorted as
   strings (db_sorted: what Database.findProducts returns, and the order in which the correspondence check hands the
   declarations to the model) the resolver with the real comparator is the resolver with vcmp_sorted - the order of C10
   refined by the order of the strings among spellings of one key, a total order on conventional names
   (Props/C03.v sorted_order_is_total, walk_is_designation_one_sorted_stack).  So the closure clause holds for EVERY world
   with conventional version names (fw_conv), 1.0 next to 1_0 included, the version the resolution order designates
   being read in that order. ---- *)
From Eupsv Require Import Proofs.ResolveRealSorted.

Theorem closure_exact_real_sorted fw cfg rc flavors dl rank vro top li D fuel st st' al' tr :
  WF2 (fw_products fw) dl rank -> c_max_depth cfg = None ->
  wf_db (db_of cfg fw) = true -> fw_conv fw = true -> db_sorted (db_of cfg fw) = true ->
  mem_entry EKeep vro = false ->
  conflict_free vcmp_sorted vmatch_real fw cfg rc flavors vro top li D ->
  nodollar_paths (fw_products fw) (s_env st) ->
  (forall n, reachN fw top n -> find_setup_product (fw_products fw) (s_env st) n = None) ->
  setup_full_real fw cfg rc flavors fuel st [] vro top li true 0 false = FDone true st' al' tr ->
  (forall k, reach_ok fw D top k ->
     exists v q, D k = Some v /\ find_pv (fw_products fw) k v = Some q /\
                 find_setup_product (fw_products fw) (s_env st') k = Some q) /\
  (forall k q, reachN fw top k -> find_setup_product (fw_products fw) (s_env st') k = Some q ->
     reach_ok fw D top k /\ D k = Some (p_version q)) /\
  (forall k, known (fw_products fw) k -> ~ reachN fw top k ->
     find_setup_product (fw_products fw) (s_env st') k = find_setup_product (fw_products fw) (s_env st) k).
Proof.
  intros H Hd Hw C S Hk CF Hnd Hfresh E. rewrite (setup_full_real_is_sorted cfg fw rc flavors) in E by assumption.
  apply (closure_exact vcmp_sorted vmatch_real fw cfg rc flavors dl rank vro top li D fuel st st' al' tr); auto.
  now apply fw_conv_total_sorted.
Qed.
Print Assumptions closure_exact_real_sorted.

Example closure_exact_real_sorted_inhabited :
  WF2 (fw_products rvt_fw) (dl_of rvt_world) (rank_of rvx_order) /\
  wf_db (db_of ex_cfg rvt_fw) = true /\ fw_conv rvt_fw = true /\ db_sorted (db_of ex_cfg rvt_fw) = true /\
  fw_real_ok ex_cfg rvt_fw = false /\
  conflict_free vcmp_sorted vmatch_real rvt_fw ex_cfg default_config ex_flavors ex_vro (lit "libb") no_info rvt_D /\
  exists st' al' tr,
    setup_full_real rvt_fw ex_cfg default_config ex_flavors 20 ex_st0 [] ex_vro (lit "libb") no_info true 0 false
      = FDone true st' al' tr /\
    find_setup_product rvt_world (s_env st') (lit "base") = find_pv rvt_world (lit "base") (lit "1_0").
Proof.
  split; [apply wf2_check_sound; vm_compute; reflexivity|]. split; [vm_compute; reflexivity|].
  split; [vm_compute; reflexivity|]. split; [vm_compute; reflexivity|]. split; [vm_compute; reflexivity|].
  split.
  - split; [vm_compute; reflexivity|]. intros n v p _ Dn F. unfold rvt_D in Dn.
    destruct (str_eqb_spec n (lit "libb")) as [->|N1].
    + injection Dn as <-. vm_compute in F. injection F as <-.
      split; [split; [reflexivity|vm_compute; reflexivity]|]. cbn. tauto.
    + destruct (str_eqb_spec n (lit "base")) as [->|N2]; [|discriminate].
      injection Dn as <-. vm_compute in F. injection F as <-. cbn. tauto.
  - eexists. eexists. eexists. split; vm_compute; reflexivity.
Qed.
Print Assumptions closure_exact_real_sorted_inhabited.

(* ================================================================================================
   Table values that refer to OTHER variables than the product's own directory (Proofs/SetupRefsExample.v):
   the directory variable of a dependency that an earlier line of the same table set up.
   ================================================================================================ *)
From Eupsv Require Import Proofs.SetupRefsExample.

(* an envSet line is taken back whatever its value is - the reverse of envSet does not look at the value, so it
   does not matter that a variable the value refers to (the directory variable of a dependency, which the unsetup
   has already removed when it comes to the line) is no longer defined *)
Theorem envset_is_taken_back_whatever_its_value k v st :
  exec_simple false (ASet k v) st = Ok (unset_env st k).
Proof. reflexivity. Qed.
Print Assumptions envset_is_taken_back_whatever_its_value.

(* tool 1.0: setupRequired(kit), envSet(TOOL_PLUGINS, KIT_DIR/plugins), envPrepend(PATH, KIT_DIR/tools).
   setup tool 1.0, then setup tool 2.0 (kit 1.0 is replaced by kit 2.0):
   - the envSet variable, which pointed into the directory of kit 1.0, is gone: no residue;
   - finding D61 (open): the element the envPrepend line added is still in PATH and refers to the directory of
     the replaced kit 1.0.  The old table is unset up in table order, kit 1.0 first: KIT_DIR is gone when the
     envPrepend line is reversed, the value cannot be expanded and the literal text is removed, which removes
     nothing.  WF (every path and envSet value of the world free of references), and with it WF2 of
     setup_preserves_inv, excludes such a table (see dep_variable_after_dependency_refuted in Props/C02.v). *)
Example dep_variable_residue_refuted :
  exists st1 st2,
    setup rx_world rx_cfg 10 rx_st0 rx_ds1 (lit "tool") true 0 false = RDone true st1 [] /\
    setup rx_world rx_cfg 10 st1 rx_ds2 (lit "tool") true 0 false = RDone true st2 [] /\
    alookup (lit "TOOL_PLUGINS") (s_env st1) = Some (lit "/s/kit/1.0/plugins") /\
    alookup (lit "TOOL_PLUGINS") (s_env st2) = None /\
    alookup (lit "KIT_DIR") (s_env st2) = Some (lit "/s/kit/2.0") /\
    alookup (lit "PATH") (s_env st2) = Some (lit "/s/tool/2.0/bin:/s/kit/2.0/bin:/s/kit/1.0/tools:/usr/bin").
Proof.
  eexists. eexists. split; [vm_compute; reflexivity|]. split; [vm_compute; reflexivity|].
  repeat split; vm_compute; reflexivity.
Qed.
Print Assumptions dep_variable_residue_refuted.

(* ================================================================================================
   SEVERAL STACKS ON EUPS_PATH  (Model/SetupMS.v, Model/SetupMSFull.v, Model/SetupMSText.v)

   Everything above speaks about one stack.  Below, every declaration carries the stack it lives in and the flavor
   it is declared under; the same name and version may be declared in two stacks with different directories and
   tables; SETUP_NAME records the stack the product was found in, findSetupProduct decodes it and looks THERE;
   a decision of the resolver is a version and a stack.  The per-name consistency clause of the invariant now
   says: the directory variable and the table contributions are those of the recorded version OF THE RECORDED
   STACK, and nothing of any other declaration of the name - another version, or the same version in another
   stack - is left.  Hypotheses WF2 of Proofs/SetupMSInv.v: those of the one-stack WF2, with (name, version, stack)
   as the key of a declaration, a one-word flavor, and a stack root that utils.decodePath gives back from
   utils.encodePath (root_ok; refuted for a root with the characters minus plus in front of a blank, see
   decode_encode_refuted below).  The proofs are the scripts of Proofs/SetupFrame.v, SetupInv.v, SetupFull.v on
   the new definitions (Proofs/SetupMSFrame.v, SetupMSInv.v, SetupMSFull.v); Proofs/SetupMSStack.v has what is new.
   ================================================================================================ *)
From Eupsv Require Import Model.SetupMS Proofs.SetupMSFrame Proofs.SetupMSInv Proofs.SetupMSStack
     Model.SetupMSWf Proofs.SetupMSWf Model.SetupMSFull Proofs.SetupMSFull.

Theorem ms_setup_preserves_inv w cfg dl rank fuel st ds name fwd depth just ok st' ds' :
  SetupMSInv.WF2 w dl rank -> SetupMSFrame.nodollar_paths w (s_env st) -> SetupMSFrame.depth_ok cfg depth ->
  SetupMSInv.Inv w cfg (s_env st) ->
  msetup w cfg fuel st ds name fwd depth just = MDone ok st' ds' ->
  SetupMSInv.Inv w cfg (s_env st') /\ SetupMSFrame.nodollar_paths w (s_env st').
Proof. intro H. exact (SetupMSInv.setup_preserves_Inv w cfg dl rank H fuel st ds name fwd depth just ok st' ds'). Qed.
Print Assumptions ms_setup_preserves_inv.

Theorem ms_request_preserves_inv w cfg dl rank fuel st ds name fwd just st' :
  SetupMSInv.WF2 w dl rank -> SetupMSFrame.nodollar_paths w (s_env st) -> SetupMSInv.Inv w cfg (s_env st) ->
  mrequest w cfg fuel st ds name fwd just = Ok (Some st') -> SetupMSInv.Inv w cfg (s_env st').
Proof.
  intros H Hnd HI Hr. unfold mrequest in Hr.
  destruct (msetup w cfg fuel st ds name fwd 0 just) as [ok st1 ds1|st1 ds1| |] eqn:E; try discriminate.
  destruct ok; [|discriminate]. injection Hr as <-.
  assert (Hd : SetupMSFrame.depth_ok cfg 0) by (unfold SetupMSFrame.depth_ok; destruct (c_max_depth cfg); lia).
  exact (proj1 (ms_setup_preserves_inv w cfg dl rank fuel st ds name fwd 0 just true st1 ds1 H Hnd Hd HI E)).
Qed.
Print Assumptions ms_request_preserves_inv.

(* what the invariant says about a product whose SETUP_NAME holds the value Eups.setup writes for the declaration
   p: p is the declaration found (in the recorded stack, not in the first stack of the path that declares the
   version), NAME_DIR is ITS directory, ITS contributions are present and nothing of any other declaration of
   the name is - in particular nothing of the same version declared in another stack *)
Theorem recorded_stack_is_consistent w cfg dl rank e p :
  SetupMSInv.WF2 w dl rank -> SetupMSInv.Inv w cfg e -> In p w ->
  alookup (setup_var (mp_name p)) e = Some (ms_setup_string p) ->
  mfind_setup_product w (c_flavor cfg) e (mp_name p) = Some p /\
  alookup (dir_var (mp_name p)) e = Some (mp_dir p) /\ SetupMSInv.present p e /\
  forall q, In q w -> mp_name q = mp_name p -> q <> p -> SetupMSInv.absent q e.
Proof.
  intros H HI Hin E. pose proof (recorded_product_found w dl rank (c_flavor cfg) e p H Hin E) as Hf.
  split; [assumption|]. pose proof (HI (mp_name p)) as C. unfold SetupMSInv.clause in C. rewrite Hf in C.
  destruct C as [D [P A]]. split; [assumption|split; [assumption|]].
  intros q Hq Hn Hne. apply A; [split; assumption|assumption].
Qed.
Print Assumptions recorded_stack_is_consistent.

Theorem ms_unrecorded_product_leaves_no_residue w cfg name e q :
  SetupMSInv.Inv w cfg e -> mfind_setup_product w (c_flavor cfg) e name = None -> In q w -> mp_name q = name ->
  SetupMSInv.absent q e.
Proof.
  intros HI Hf Hq Hn. pose proof (HI name) as C. unfold SetupMSInv.clause in C. rewrite Hf in C. apply C. split; assumption.
Qed.
Print Assumptions ms_unrecorded_product_leaves_no_residue.

(* the decision taken for the requested product at the top level - a version AND a stack - is what is recorded *)
Theorem ms_decided_version_is_set_up w cfg dl rank fuel st k ds name just st' ds' :
  SetupMSInv.WF2 w dl rank -> SetupMSFrame.nodollar_paths w (s_env st) -> SetupMSInv.Inv w cfg (s_env st) ->
  msetup w cfg fuel st (Some k :: ds) name true 0 just = MDone true st' ds' ->
  exists p, find_pvr w name k = Some p /\ mp_version p = vr_version k /\ mp_root p = vr_root k /\
            mfind_setup_product w (c_flavor cfg) (s_env st') name = Some p /\
            alookup (setup_var name) (s_env st') = Some (ms_setup_string p).
Proof.
  intros H Hnd HI Hrun.
  assert (Hd : SetupMSFrame.depth_ok cfg 0) by (unfold SetupMSFrame.depth_ok; destruct (c_max_depth cfg); lia).
  pose proof (SetupMSInv.setup_inv w cfg dl rank H fuel st (Some k :: ds) name true 0 just Hnd Hd (fun n _ => HI n)) as I0.
  rewrite Hrun in I0. destruct I0 as [_ [_ T]].
  destruct (T eq_refl eq_refl k ds eq_refl) as [p [Hf [[Hs Hr]|[Hz _]]]]; [|now elim Hz].
  exists p. destruct (SetupMSFrame.find_pvr_spec w name k p Hf) as [_ [Hv Hroot]]. repeat split; assumption.
Qed.
Print Assumptions ms_decided_version_is_set_up.

(* below the top level: the product decided on is recorded with its stack, OR it was found already set up - the
   same version or the same directory, whatever the stack SETUP_NAME records - and nothing was changed (the test
   of Eups.setup compares versions and directories, not stacks) *)
Theorem ms_nested_decision_recorded_or_already_set_up w cfg dl rank fuel st k ds name depth just st' ds' :
  SetupMSInv.WF2 w dl rank -> SetupMSFrame.nodollar_paths w (s_env st) -> SetupMSFrame.depth_ok cfg depth ->
  SetupMSInv.Inv w cfg (s_env st) ->
  msetup w cfg fuel st (Some k :: ds) name true depth just = MDone true st' ds' ->
  exists p, find_pvr w name k = Some p /\
    ((mfind_setup_product w (c_flavor cfg) (s_env st') name = Some p /\
      alookup (setup_var name) (s_env st') = Some (ms_setup_string p)) \/
     (depth <> 0 /\ st' = st /\ msame_product p (mfind_setup_product w (c_flavor cfg) (s_env st) name) = true)).
Proof.
  intros H Hnd Hd HI Hrun.
  pose proof (SetupMSInv.setup_inv w cfg dl rank H fuel st (Some k :: ds) name true depth just Hnd Hd (fun n _ => HI n)) as I0.
  rewrite Hrun in I0. destruct I0 as [_ [_ T]]. exact (T eq_refl eq_refl k ds eq_refl).
Qed.
Print Assumptions ms_nested_decision_recorded_or_already_set_up.

(* ---- the composed model with several stacks ---- *)

Theorem ms_setup_full_is_setup vcmp vmatch fw cfg rc flavors fuel st al vro name li fwd depth just rest :
  msetup (mfw_products fw) cfg fuel st
         (mtrace_of (msetup_full vcmp vmatch fw cfg rc flavors fuel st al vro name li fwd depth just) ++ rest)
         name fwd depth just =
  merase rest (msetup_full vcmp vmatch fw cfg rc flavors fuel st al vro name li fwd depth just).
Proof. apply SetupMSFull.setup_full_agrees. Qed.
Print Assumptions ms_setup_full_is_setup.

Corollary ms_setup_full_preserves_inv vcmp vmatch fw cfg rc flavors dl rank fuel st al vro name li fwd depth just ok st' al' tr :
  SetupMSInv.WF2 (mfw_products fw) dl rank -> SetupMSFrame.nodollar_paths (mfw_products fw) (s_env st) ->
  SetupMSFrame.depth_ok cfg depth -> SetupMSInv.Inv (mfw_products fw) cfg (s_env st) ->
  msetup_full vcmp vmatch fw cfg rc flavors fuel st al vro name li fwd depth just = MFDone ok st' al' tr ->
  SetupMSInv.Inv (mfw_products fw) cfg (s_env st') /\ SetupMSFrame.nodollar_paths (mfw_products fw) (s_env st').
Proof. apply SetupMSFull.setup_full_inv_lemma. Qed.
Print Assumptions ms_setup_full_preserves_inv.

Corollary ms_request_full_preserves_inv vcmp vmatch fw cfg rc flavors dl rank fuel st name version fwd just st' tr :
  SetupMSInv.WF2 (mfw_products fw) dl rank -> SetupMSFrame.nodollar_paths (mfw_products fw) (s_env st) ->
  SetupMSInv.Inv (mfw_products fw) cfg (s_env st) ->
  mrequest_full vcmp vmatch fw cfg rc flavors fuel st name version fwd just = Ok (Some st', tr) ->
  SetupMSInv.Inv (mfw_products fw) cfg (s_env st').
Proof.
  intros H Hnd HI E. unfold mrequest_full in E. destruct (select_vro rc (request_opts cfg version)) as [vro|]; [|discriminate].
  destruct (msetup_full vcmp vmatch fw cfg rc flavors fuel st [] vro name _ fwd 0 just) as [[|] st1 al1 tr1|st1 al1 tr1|tr1|tr1] eqn:R;
    try discriminate.
  injection E as <- _.
  assert (Hd : SetupMSFrame.depth_ok cfg 0) by (unfold SetupMSFrame.depth_ok; destruct (c_max_depth cfg); lia).
  exact (proj1 (SetupMSFull.setup_full_inv_lemma vcmp vmatch fw cfg rc flavors dl rank fuel st [] vro name _ fwd 0 just true st1 al1 tr1
                  H Hnd Hd HI R)).
Qed.
Print Assumptions ms_request_full_preserves_inv.

(* The stack recorded in SETUP_NAME is the one the resolver's decision came from: a top-level forward call of the
   composed model that succeeds resolved its request - on the database view of the SELECTED stacks, in path order,
   by the resolver of C03 - to a product fd, and afterwards SETUP_NAME holds the value written for the declaration
   of version fd_version fd IN THE STACK fd_stack fd, which is the declaration findSetupProduct finds *)
Theorem setup_records_the_stack_found vcmp vmatch fw cfg rc flavors dl rank fuel st al vro name li just st' al' tr :
  SetupMSInv.WF2 (mfw_products fw) dl rank -> SetupMSFrame.nodollar_paths (mfw_products fw) (s_env st) ->
  SetupMSInv.Inv (mfw_products fw) cfg (s_env st) ->
  msetup_full vcmp vmatch fw cfg rc flavors fuel st al vro name li true 0 just = MFDone true st' al' tr ->
  exists fd why p,
    resolve_request vcmp vmatch rc (mdb_of fw) (c_keep cfg) (alookup name al) flavors 0 vro
                    (mkRequest name (li_version li) (li_expr li)) = Ok (Some (fd, why)) /\
    find_pvr (mfw_products fw) name (vref_of fd) = Some p /\
    mp_version p = fd_version fd /\ mp_root p = fd_stack fd /\
    mfind_setup_product (mfw_products fw) (c_flavor cfg) (s_env st') name = Some p /\
    alookup (setup_var name) (s_env st') = Some (ms_setup_string p).
Proof. apply SetupMSFull.top_level_records_decision. Qed.
Print Assumptions setup_records_the_stack_found.

Theorem ms_explicit_version_is_set_up vcmp vmatch fw cfg rc flavors dl rank fuel st al vro name v x just st' al' tr :
  SetupMSInv.WF2 (mfw_products fw) dl rank -> SetupMSFrame.nodollar_paths (mfw_products fw) (s_env st) ->
  SetupMSInv.Inv (mfw_products fw) cfg (s_env st) ->
  v <> [] -> is_expr v = false ->
  msetup_full vcmp vmatch fw cfg rc flavors fuel st al vro name {| li_version := Some v; li_expr := x |} true 0 just
    = MFDone true st' al' tr ->
  exists p, mp_version p = v /\ mfind_setup_product (mfw_products fw) (c_flavor cfg) (s_env st') name = Some p.
Proof. apply SetupMSFull.explicit_version_lemma. Qed.
Print Assumptions ms_explicit_version_is_set_up.

(* the hypothesis root_ok is needed: utils.decodePath does not give back every root from utils.encodePath *)
Example decode_encode_refuted : decode_path (encode_path (lit "/a-+ b")) = lit "/a +-b".
Proof. vm_compute. reflexivity. Qed.

(* ---- the hypotheses are inhabited on a world with the same name and version in two stacks ----
   ms_world (Proofs/SetupMSStack.v): lib 1.0 in the stack /sA (flavor Linux64) and in the stack /s B (flavor generic,
   a blank in the root), different directories and tables; lib 2.0 only in the second; app 1.0 in the first,
   requiring lib.  WF2 holds (checker of Model/SetupMSWf.v, sound by Proofs/SetupMSWf.v).  setup lib with the
   decision (1.0, second stack) records -f generic -Z /s-+-B and the second stack's table; setup app after that,
   with the decisions app (first stack) and lib 1.0 OF THE FIRST STACK, finds lib already set up and leaves the
   record on the second stack; a top-level setup of lib 1.0 of the first stack from there replaces the second
   stack's contributions by the first's. *)
Example ms_c01_hypotheses_inhabited :
  SetupMSInv.WF2 ms_world (mdl_of ms_world) (mrank_of ms_order) /\
  SetupMSInv.Inv ms_world ms_cfg (s_env ms_st0) /\
  msetup ms_world ms_cfg 3 ms_st0 [Some (key_of ms_libB)] (lit "lib") true 0 false = MDone true ms_stB [] /\
  msetup ms_world ms_cfg 3 ms_stB [Some (key_of ms_app); Some (key_of ms_libA)] (lit "app") true 0 false
    = MDone true ms_stApp [] /\
  mfind_setup_product ms_world (lit "Linux64") (s_env ms_stApp) (lit "lib") = Some ms_libB /\
  msetup ms_world ms_cfg 3 ms_stB [Some (key_of ms_libA)] (lit "lib") true 0 false = MDone true ms_stA [] /\
  SetupMSInv.Inv ms_world ms_cfg (s_env ms_stA).
Proof.
  assert (H : SetupMSInv.WF2 ms_world (mdl_of ms_world) (mrank_of ms_order))
    by (apply SetupMSWf.wf2_check_sound; vm_compute; reflexivity).
  assert (I0 : SetupMSInv.Inv ms_world ms_cfg (s_env ms_st0)) by apply SetupMSWf.Inv_nil.
  assert (N0 : SetupMSFrame.nodollar_paths ms_world (s_env ms_st0)) by apply SetupMSWf.nodollar_nil.
  assert (R1 : msetup ms_world ms_cfg 3 ms_st0 [Some (key_of ms_libB)] (lit "lib") true 0 false = MDone true ms_stB [])
    by (vm_compute; reflexivity).
  assert (R3 : msetup ms_world ms_cfg 3 ms_stB [Some (key_of ms_libA)] (lit "lib") true 0 false = MDone true ms_stA [])
    by (vm_compute; reflexivity).
  assert (Hd : SetupMSFrame.depth_ok ms_cfg 0) by exact I.
  destruct (ms_setup_preserves_inv _ _ _ _ _ _ _ _ _ _ _ _ _ _ H N0 Hd I0 R1) as [I1 N1].
  destruct (ms_setup_preserves_inv _ _ _ _ _ _ _ _ _ _ _ _ _ _ H N1 Hd I1 R3) as [I3 _].
  split; [exact H|split; [exact I0|split; [exact R1|split; [vm_compute; reflexivity|split; [vm_compute; reflexivity|
  split; [exact R3|exact I3]]]]]].
Qed.
Print Assumptions ms_c01_hypotheses_inhabited.

(* ---- several stacks, worlds given as table TEXTS (Model/SetupMSText.v) ---- *)
From Eupsv Require Import Model.SetupMSText.

(* the translated world declares exactly the products of the text world, each in ITS stack, under ITS flavor; and its
   table is the text read with the root of that stack for PRODUCTS / UPS_DB and that flavor for the conditions *)
Theorem ms_text_world_declares tc tw w :
  mworld_of_text tc tw = Ok w ->
  map mp_name w = map mt_name tw /\ map mp_version w = map mt_version tw /\ map mp_root w = map mt_root tw /\
  map mp_flavor w = map mt_flavor tw /\ map mp_dir w = map mt_dir tw /\
  Forall2 (fun p tp => table_setup_actions tc (mpinfo_for tp) (mt_flavor tp) (mt_text tp) = Ok (mp_actions p)) w tw.
Proof.
  unfold mworld_of_text. revert w. induction tw as [|tp tw IH]; intros w E.
  - injection E as <-. repeat split; constructor.
  - cbn [map_res] in E. destruct (mproduct_of_text tc tp) as [p|e] eqn:Ep; [|discriminate]. cbn [bind] in E.
    destruct (map_res (mproduct_of_text tc) tw) as [w'|e] eqn:Ew; [|discriminate]. cbn [bind] in E. injection E as <-.
    destruct (IH w' eq_refl) as [H1 [H2 [H3 [H4 [H5 H6]]]]].
    unfold mproduct_of_text in Ep. destruct (negb (pinfo_ok (mpinfo_for tp))); [discriminate|].
    destruct (table_setup_actions tc (mpinfo_for tp) (mt_flavor tp) (mt_text tp)) as [acts|e] eqn:Ea; [|discriminate].
    cbn [bind] in Ep. injection Ep as <-. cbn [map mp_name mp_version mp_root mp_flavor mp_dir mp_actions].
    rewrite H1, H2, H3, H4, H5. repeat split. constructor; [exact Ea|assumption].
Qed.
Print Assumptions ms_text_world_declares.

Theorem ms_request_text_preserves_inv cfg tc tw w dl rank fuel st ds name fwd just st' :
  mworld_of_text tc tw = Ok w ->
  SetupMSInv.WF2 w dl rank -> SetupMSFrame.nodollar_paths w (s_env st) -> SetupMSInv.Inv w cfg (s_env st) ->
  mrequest_text cfg tc tw fuel st ds name fwd just = Ok (Some st') -> SetupMSInv.Inv w cfg (s_env st').
Proof.
  intros Hw H Hnd HI E. unfold mrequest_text in E. rewrite Hw in E. cbn [bind] in E.
  exact (ms_request_preserves_inv w cfg dl rank fuel st ds name fwd just st' H Hnd HI E).
Qed.
Print Assumptions ms_request_text_preserves_inv.

(* ---- the one-stack world is the special case ----
   embed cfg w: every declaration of w in the stack c_root cfg under the flavor flavor_of cfg.  The value written in
   SETUP_NAME is the same in both models, a decision finds the same declaration, and findSetupProduct agrees on every
   value the one-stack Eups.setup writes; the two models run the example world of Proofs/SetupExample.v alike
   (and every one-stack scenario of the correspondence check: one-stack-request-through-the-multi-stack-model).
   The equality of ALL runs is not proved: Model/Setup.v does not read the stack that a SETUP_ value records. *)
From Eupsv Require Import Proofs.SetupMSEmbed.

Theorem one_stack_is_a_special_case cfg w e p name v :
  ms_setup_string (embed_product cfg p) = setup_string cfg (p_name p) (p_version p) /\
  find_pvr (embed cfg w) name (mkVref v (c_root cfg)) = option_map (embed_product cfg) (find_pv w name v) /\
  (SetupMSInv.word (p_name p) -> SetupMSInv.word (p_version p) -> p_version p <> lit "-f" ->
   SetupMSInv.word (flavor_of cfg (p_name p) (p_version p)) -> SetupMSInv.root_ok (c_root cfg) ->
   alookup (setup_var (p_name p)) e = Some (setup_string cfg (p_name p) (p_version p)) ->
   find_pv w (p_name p) (p_version p) = Some p ->
   mfind_setup_product (embed cfg w) (c_flavor cfg) e (p_name p) =
   option_map (embed_product cfg) (find_setup_product w e (p_name p))).
Proof.
  split; [reflexivity|]. split; [apply embed_find|]. apply embed_find_setup_product.
Qed.
Print Assumptions one_stack_is_a_special_case.

(* ================================================================================================
   SEVERAL STACKS: look-ups by relational expression (Proofs/SetupMSExpr.v).
   The product chosen for  name expr  is the highest declaration, over ALL the stacks the command selected, that
   satisfies the expression: a stack does not shadow the stacks behind it (it does for explicit versions and tags:
   C03 first_stack_wins).  vcmp: a total order on the version names declared for the product.
   ================================================================================================ *)
From Eupsv Require Import Model.ResolveSpec Proofs.SetupMSExpr.

Theorem ms_expression_designates_newest_over_selected_stacks vcmp vmatch fw n x f p :
  total_order_on vcmp (names_of (mdb_of fw) n) ->
  select_latest vcmp (find_by_expr vmatch (mdb_of fw) n x f) = Some p ->
  vmatch (fd_version p) x = true /\
  forall q, In q (mfw_products fw) -> In (mp_root q) (mfw_path fw) -> mp_name q = n -> mp_flavor q = f ->
            vmatch (mp_version q) x = true -> vcmp (mp_version q) (fd_version p) <> Gt.
Proof. exact (ms_expression_newest_lemma vcmp vmatch fw n x f p). Qed.
Print Assumptions ms_expression_designates_newest_over_selected_stacks.

(* on a world: lib 1.0 in the first stack (tagged current there), lib 2.0 only in the second; app 1.0 says
   setupRequired(lib >= 1.0).  setup app on the whole path decides app 1.0 of /a and lib 2.0 of /b, and SETUP_LIB
   records the second stack; with the first stack alone selected (-Z /a) lib 1.0 is what the expression designates *)
Definition xx_colon : ascii := ":"%char.
Definition xx_prod (n v root : string) (acts : list Setup.action) : mproduct :=
  {| mp_name := lit n; mp_version := lit v; mp_root := lit root; mp_flavor := lit "Linux64";
     mp_dir := lit root ++ lit "/" ++ lit n ++ lit "/" ++ lit v;
     mp_actions := Setup.APath false (lit "PATH") (lit root ++ lit "/" ++ lit n ++ lit "/" ++ lit v ++ lit "/bin") xx_colon :: acts |}.
Arguments xx_prod (n v root)%string acts.
Definition xx_fw (path : list str) : mfworld :=
  {| mfw_products := [xx_prod "lib" "1.0" "/a" []; xx_prod "lib" "2.0" "/b" [];
                      xx_prod "app" "1.0" "/a" [Setup.ASetup false (lit "lib") false]];
     mfw_lines := [(lit "app", mkVref (lit "1.0") (lit "/a"),
                    [no_info; {| li_version := Some (lit ">= 1.0"); li_expr := None |}])];
     mfw_tags := [(lit "/a", (lit "lib", lit "Linux64", lit "current", lit "1.0"));
                  (lit "/a", (lit "app", lit "Linux64", lit "current", lit "1.0"))];
     mfw_path := path |}.
Definition xx_cfg : Setup.config :=
  {| c_flavor := lit "Linux64"; c_root := lit "/a"; c_max_depth := None; c_keep := false; c_flavors := [] |}.
Definition xx_st0 : state := {| s_env := [(lit "PATH", lit "/usr/bin")]; s_aliases := [] |}.

Example ms_expression_newest_in_later_stack :
  (exists st, mrequest_full_simple (xx_fw [lit "/a"; lit "/b"]) xx_cfg default_config [lit "Linux64"; lit "generic"] 10
                                   xx_st0 (lit "app") None true false
              = Ok (Some st, [Some (mkVref (lit "1.0") (lit "/a")); Some (mkVref (lit "2.0") (lit "/b"))]) /\
              alookup (lit "SETUP_LIB") (s_env st) = Some (lit "lib 2.0 -f Linux64 -Z /b")) /\
  (exists st, mrequest_full_simple (xx_fw [lit "/a"]) xx_cfg default_config [lit "Linux64"; lit "generic"] 10
                                   xx_st0 (lit "app") None true false
              = Ok (Some st, [Some (mkVref (lit "1.0") (lit "/a")); Some (mkVref (lit "1.0") (lit "/a"))])).
Proof.
  split.
  - eexists. split; vm_compute; reflexivity.
  - eexists. vm_compute. reflexivity.
Qed.
Print Assumptions ms_expression_newest_in_later_stack.

(* ---- round 6: ONE Eups object serving several requests (Model/SetupSession.v).  The code after the repair of D63
   empties alreadySetupProducts at the start of every top-level forward request; then nothing the object did
   before can influence a request: *)
From Eupsv Require Import Model.SetupSession Proofs.SetupSession Proofs.SetupSessionExample.

(* the unsetup - at any depth, with any table - never reads alreadySetupProducts *)
Theorem unsetup_never_reads_the_table :
  forall vcmp vmatch fw cfg rc flavors fuel st al1 al2 vro name li depth just,
    same_but_table (setup_full vcmp vmatch fw cfg rc flavors fuel st al1 vro name li false depth just)
                   (setup_full vcmp vmatch fw cfg rc flavors fuel st al2 vro name li false depth just).
Proof. intros. apply setup_full_unsetup_blind. Qed.
Print Assumptions unsetup_never_reads_the_table.

(* a request (setup or unsetup) on a long-lived object, whatever table the earlier requests left, answers like
   the same request on a fresh object: success, environment, aliases and every version decided *)
Theorem request_on_a_long_lived_instance_is_a_fresh_request :
  forall vcmp vmatch fw cfg rc flavors fuel al st name version fwd just,
    fst (instance_request vcmp vmatch fw cfg rc flavors true fuel al st name version fwd just)
    = request_full vcmp vmatch fw cfg rc flavors fuel st name version fwd just.
Proof. intros. apply instance_request_like_fresh. Qed.
Print Assumptions request_on_a_long_lived_instance_is_a_fresh_request.

(* so a whole session on one object is the sequence of requests the command line tool would run, each in a fresh
   process from the environment the previous one left: every theorem above about request_full speaks about
   every request of a session *)
Theorem session_on_one_instance_is_memoryless :
  forall vcmp vmatch fw cfg rc flavors fuel rqs al st,
    session_run vcmp vmatch fw cfg rc flavors true fuel al st rqs = fresh_run vcmp vmatch fw cfg rc flavors fuel st rqs.
Proof. intros. apply session_like_fresh. Qed.
Print Assumptions session_on_one_instance_is_memoryless.

(* D63, the code before the repair (reset = false): setup b 1.0; unsetup b; setup b on one object sets b 1.0 up
   again although b 2.0 is current - the designation clause fails - and the repaired code sets up b 2.0 *)
Example stale_table_top_level_refuted_pinned :
  sx_decisions false = [Some [Some (lit "1.0")]; Some []; Some [Some (lit "1.0")]]
  /\ session_run vcmp_simple vmatch_simple sx_fw ex_cfg default_config ex_flavors false 20 [] sx_st0 sx_requests
     <> fresh_run vcmp_simple vmatch_simple sx_fw ex_cfg default_config ex_flavors 20 sx_st0 sx_requests.
Proof. split; [vm_compute; reflexivity | vm_compute; discriminate]. Qed.

Example stale_table_top_level_repaired :
  sx_decisions true = [Some [Some (lit "1.0")]; Some []; Some [Some (lit "2.0")]].
Proof. vm_compute. reflexivity. Qed.
