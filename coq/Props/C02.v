(* C02 - unsetup is the inverse of setup; a failing request changes nothing.
   Model/Setup.v with an abstract resolver.  See Props/C01.v for Inv / WF2 and Props/C04.v for touches. *)
From Eupsv Require Import Base.Base Base.BaseLemmas Model.PathAlg Proofs.PathAlg Model.Setup Proofs.SetupFrame Proofs.SetupInv.
From Coq Require Import Lia.

(* ---- a failing request ---- *)

(* a request whose top-level call does not succeed yields no new state at all: the command emits only
   `false` (C05 failed_changes_nothing: sourcing it leaves the environment exactly as it was) *)
Theorem failed_setup_changes_nothing w cfg fuel st ds name fwd just :
  (forall st' ds', setup w cfg fuel st ds name fwd 0 just <> RDone true st' ds') ->
  request w cfg fuel st ds name fwd just = Ok None \/
  exists e, request w cfg fuel st ds name fwd just = Err e.
Proof.
  intro H. unfold request. destruct (setup w cfg fuel st ds name fwd 0 just) as [[|] st' ds'|st' ds'| |] eqn:E.
  - exfalso. now apply (H st' ds').
  - now left.
  - now left.
  - right. now exists OutOfFuel.
  - right. now exists Crash.
Qed.
Print Assumptions failed_setup_changes_nothing.

(* nested form: when a dependency fails (not found, or an exception below it) and the table goes on
   (optional dependency, or unsetup mode), the rest of the table is executed from the state - environment AND
   aliases - as it was before the dependency was attempted (popStack of the saved environment; the aliases are
   restored since the fix proposed_fixes/C02-failed-dependency-restores-aliases, see
   alias_residue_refuted_pinned at the end of this file for the behaviour before it) *)
Theorem dependency_failure_restores cfg rec fwd depth just o m j acts st ds st' ds' :
  cut_off cfg just (S depth) = false -> fwd && negb o = false ->
  (rec st ds m fwd (S depth) j = RDone false st' ds' \/ rec st ds m fwd (S depth) j = RRaise st' ds') ->
  run_actions cfg rec fwd depth just (ASetup o m j :: acts) st ds =
  run_actions cfg rec fwd depth just acts st ds'.
Proof.
  intros Hc Ho [E|E]; cbn [run_actions]; rewrite Hc, E, Ho; reflexivity.
Qed.
Print Assumptions dependency_failure_restores.

(* a required dependency that fails in setup mode makes the whole enclosing call fail *)
Theorem required_failure_propagates cfg rec depth just m j acts st ds st' ds' :
  cut_off cfg just (S depth) = false ->
  (rec st ds m true (S depth) j = RDone false st' ds' \/ rec st ds m true (S depth) j = RRaise st' ds') ->
  run_actions cfg rec true depth just (ASetup false m j :: acts) st ds = RRaise st ds'.
Proof.
  intros Hc [E|E]; cbn [run_actions]; rewrite Hc, E; reflexivity.
Qed.
Print Assumptions required_failure_propagates.

(* ---- unsetup after setup ---- *)

(* an unsetup that succeeds leaves no record and no table contribution of any version of the product *)
Theorem unsetup_removes_the_product w cfg dl rank fuel st ds name depth just st' ds' :
  WF2 w dl rank -> nodollar_paths w (s_env st) -> depth_ok cfg depth -> Inv w (s_env st) ->
  setup w cfg fuel st ds name false depth just = RDone true st' ds' ->
  find_setup_product w (s_env st') name = None /\
  forall q, In q w -> p_name q = name -> absent q (s_env st').
Proof.
  intros H Hnd Hd HI Hrun.
  pose proof (setup_inv w cfg dl rank H fuel st ds name false depth just Hnd Hd (fun n _ => HI n)) as I0.
  rewrite Hrun in I0. destruct I0 as [L [U _]].
  assert (Hs : find_setup_product w (s_env st) name <> None).
  { destruct fuel; [discriminate|]. cbn [setup] in Hrun. unfold setup_step in Hrun.
    destruct (find_setup_product w (s_env st) name); [discriminate|discriminate]. }
  pose proof (U eq_refl Hs) as E. split; [now apply find_none_when_unset|].
  intros q Hq Hn. apply (all_absent_of_clause w name (s_env st')); [apply L; lia|assumption|split; assumption].
Qed.
Print Assumptions unsetup_removes_the_product.

(* Full statement of the property (kept visible):
     from an environment in which nothing of the closure of X is set up, setup X followed by unsetup X restores
     every variable and alias (path-like variables as duplicate-free lists of non-empty elements, unset = empty).
   Proved below, for every resolver: IF after the unsetup no product reachable from X is recorded any more
   (hypothesis Hafter), then every path variable holds the same duplicate-free element list as before, every
   variable that no reachable product owns is unchanged, and no envSet value of a reachable product remains.
   What is missing for the full statement is the traversal argument that the unsetup visits every product the
   setup recorded (so that Hafter always holds when no product is requested in two versions), and the values of
   the reachable products' own envSet variables (finding D11: a value such a variable had before setup is not
   restored).  Both are decided on the real code by the oracle of harness/c02.py. *)
Theorem unsetup_inverts_setup_partial w cfg dl rank fuel st ds1 ds2 name just ok1 st1 r1 ok2 st2 r2 :
  WF2 w dl rank -> nodollar_paths w (s_env st) -> Inv w (s_env st) ->
  (forall n, touches w (levels cfg 0 just) name n -> find_setup_product w (s_env st) n = None) ->
  setup w cfg fuel st ds1 name true 0 just = RDone ok1 st1 r1 ->
  setup w cfg fuel st1 ds2 name false 0 just = RDone ok2 st2 r2 ->
  (forall n, touches w (levels cfg 0 just) name n -> find_setup_product w (s_env st2) n = None) ->
  (* path variables: same elements, same order, once each *)
  (forall var (own : str -> bool), path_var w var ->
     (forall v, own v = true <-> exists n, touches w (levels cfg 0 just) name n /\ own_elem w n var v) ->
     uniq (elems (dl var) (oldv var (s_env st2))) = uniq (elems (dl var) (oldv var (s_env st)))) /\
  (* everything no reachable product owns *)
  (forall k, ~ path_var w k -> (forall n, touches w (levels cfg 0 just) name n -> ~ own_var w n k) ->
     alookup k (s_env st2) = alookup k (s_env st)) /\
  (* no contribution of a reachable product is left *)
  (forall n q, touches w (levels cfg 0 just) name n -> In q w -> p_name q = n -> absent q (s_env st2)).
Proof.
  intros H Hnd HI Hbefore Hrun1 Hrun2 Hafter.
  assert (Hd : depth_ok cfg 0) by (unfold depth_ok; destruct (c_max_depth cfg); lia).
  destruct (setup_preserves_Inv w cfg dl rank H fuel st ds1 name true 0 just ok1 st1 r1 Hnd Hd HI Hrun1) as [I1 D1].
  destruct (setup_preserves_Inv w cfg dl rank H fuel st1 ds2 name false 0 just ok2 st2 r2 D1 Hd I1 Hrun2) as [I2 D2].
  pose proof (setup_frame w cfg dl (wf_base w dl rank H) fuel st ds1 name true 0 just Hnd Hd) as G1.
  pose proof (setup_frame w cfg dl (wf_base w dl rank H) fuel st1 ds2 name false 0 just D1 Hd) as G2.
  rewrite Hrun1 in G1. rewrite Hrun2 in G2. destruct G1 as [F1 _]. destruct G2 as [F2 _].
  pose proof (env_frame_trans w dl _ _ _ _ F1 F2) as F. destruct F as [V P].
  assert (Habs : forall e, Inv w e -> (forall n, touches w (levels cfg 0 just) name n -> find_setup_product w e n = None) ->
                 forall n q, touches w (levels cfg 0 just) name n -> In q w -> p_name q = n -> absent q e).
  { intros e HIe Hnone n q Hn Hq Hqn. pose proof (HIe n) as C. unfold clause in C. rewrite (Hnone n Hn) in C.
    apply C. split; assumption. }
  split; [|split].
  - intros var own Hv Hown.
    assert (Hfil : forall e, Inv w e ->
                   (forall n, touches w (levels cfg 0 just) name n -> find_setup_product w e n = None) ->
                   filter (fun x => negb (own x)) (elems (dl var) (oldv var e)) = elems (dl var) (oldv var e)).
    { intros e HIe Hnone. apply forallb_filter_id. apply forallb_forall. intros x Hx.
      destruct (own x) eqn:Ex; [|reflexivity]. exfalso.
      apply Hown in Ex. destruct Ex as [n [Hn [q [ap [d [Hq Ha]]]]]].
      destruct (Habs e HIe Hnone n q Hn (proj1 Hq) (proj2 Hq)) as [A _].
      apply (A ap var x d Ha).
      destruct (wf_path (wf_base w dl rank H) q ap var x d (proj1 Hq) Ha) as [_ [_ ->]]. exact Hx. }
    rewrite <- (Hfil (s_env st2) I2 Hafter), <- (Hfil (s_env st) HI Hbefore).
    apply P; [assumption|]. intros n v Hn Ho. apply negb_false_iff. apply Hown. exists n. split; assumption.
  - intros k Hk Hno. now apply V.
  - intros n q Hn Hq Hqn. now apply (Habs (s_env st2) I2 Hafter n q).
Qed.
Print Assumptions unsetup_inverts_setup_partial.

(* ---- the premises of unsetup_inverts_setup_partial are jointly satisfiable ----
   The world of Proofs/SetupExample.v (see the Example at the end of Props/C01.v): from the empty environment,
   setup app (base resolved to 1.0 below liba and to 2.0 below libb) followed by unsetup app returns the explicit
   state ex_after, in which no product is recorded; every premise of the theorem holds, and (by the invariant
   theorem applied to both runs) no contribution of any declared product is left in ex_after. *)
From Eupsv Require Import Model.SetupWf Proofs.SetupWf Proofs.SetupExample.

Example c02_hypotheses_inhabited :
  WF2 ex_world (dl_of ex_world) (rank_of ex_order) /\
  nodollar_paths ex_world (s_env ex_st0) /\ Inv ex_world (s_env ex_st0) /\
  (forall n, touches ex_world (levels ex_cfg 0 false) (lit "app") n -> find_setup_product ex_world (s_env ex_st0) n = None) /\
  setup ex_world ex_cfg 20 ex_st0 ex_ds (lit "app") true 0 false = RDone true ex_final [] /\
  setup ex_world ex_cfg 20 ex_final [] (lit "app") false 0 false = RDone true ex_after [] /\
  (forall n, touches ex_world (levels ex_cfg 0 false) (lit "app") n -> find_setup_product ex_world (s_env ex_after) n = None) /\
  (forall q, In q ex_world -> absent q (s_env ex_after)).
Proof.
  assert (H : WF2 ex_world (dl_of ex_world) (rank_of ex_order)) by (apply wf2_check_sound; vm_compute; reflexivity).
  assert (R1 : setup ex_world ex_cfg 20 ex_st0 ex_ds (lit "app") true 0 false = RDone true ex_final [])
    by (vm_compute; reflexivity).
  assert (R2 : setup ex_world ex_cfg 20 ex_final [] (lit "app") false 0 false = RDone true ex_after [])
    by (vm_compute; reflexivity).
  assert (B : forall n, touches ex_world (levels ex_cfg 0 false) (lit "app") n ->
                        find_setup_product ex_world (s_env ex_st0) n = None) by (intros n _; reflexivity).
  assert (A : forall n, touches ex_world (levels ex_cfg 0 false) (lit "app") n ->
                        find_setup_product ex_world (s_env ex_after) n = None) by (intros n _; reflexivity).
  split; [exact H|]. split; [apply nodollar_nil|]. split; [apply Inv_nil|]. split; [exact B|].
  split; [exact R1|]. split; [exact R2|]. split; [exact A|].
  (* by the theorem: the state after the unsetup is consistent and records nothing, so nothing is left *)
  assert (D : depth_ok ex_cfg 0) by exact I.
  destruct (setup_preserves_Inv ex_world ex_cfg (dl_of ex_world) (rank_of ex_order) H 20 ex_st0 ex_ds (lit "app")
              true 0 false true ex_final [] (nodollar_nil ex_world) D (Inv_nil ex_world) R1) as [I1 D1].
  destruct (setup_preserves_Inv ex_world ex_cfg (dl_of ex_world) (rank_of ex_order) H 20 ex_final [] (lit "app")
              false 0 false true ex_after [] D1 D I1 R2) as [I2 _].
  intros q Hq. pose proof (I2 (p_name q)) as C. unfold clause in C.
  replace (find_setup_product ex_world (s_env ex_after) (p_name q)) with (@None product) in C by reflexivity.
  apply C. split; [assumption|reflexivity].
Qed.
Print Assumptions c02_hypotheses_inhabited.

(* ================================================================================================
   The inverse clause in full, on the composed model (Model/SetupFull.v: Model/Setup.v + the resolver of C03, so
   that the versions - of the setup AND of what the unsetup then finds recorded - are determined).

     Starting from an environment in which none of a product's dependency closure is set up, setting the
     product up and then unsetting it up restores every environment variable and alias to its prior state
     (path-like variables compared as duplicate-free lists of non-empty elements, an unset variable equal to an
     empty one).

   Hypotheses: those of closure_exact (Props/C01.v): WF2, conflict_free D (no product requested in two versions),
   no --max-depth / --just / -j line / keep in the VRO, a well-formed database view and a total order on the
   version names; the start state is consistent (Inv) and
     fresh_for fw top st   no variable that a product reachable from top owns (SETUP_N, N_DIR, N_DIR_EXTRA, the
                           variables its tables set with envSet) is set, and no alias its tables define exists.
   This is how "none of the closure is set up" has to be read for the statement to be true of the code: an envSet
   variable that had a value before the setup is unset by the unsetup (finding D11, envset_preexisting_refuted
   below), and the same holds for an alias.
   Conclusion, for  setup top  that succeeds (state st1) followed by  unsetup top  (any VRO, any dictionary):
     (a) no product reachable from top is recorded any more (the unsetup traversal reaches every product the setup
         recorded: closure_exact says what is recorded in st1 and that each recorded product other than top is
         named by a line of the table of a recorded one, Proofs/SetupUnwind.v does the traversal);
     (b) every path variable holds the same duplicate-free list of elements as before (oldv reads an unset
         variable as the empty one; elems drops empty elements);
     (c) every other variable has the binding it had - the variables the reachable products own are all unset again
         (Proofs/SetupOwn.v: such a variable only ever holds what a table or the bookkeeping of a recorded product
         put there);
     (d) every alias has the binding it had (this needs the fix of D36: popStack env restores the aliases too). *)
From Eupsv Require Import Model.Resolve Model.ResolveSpec Model.SetupFull Proofs.SetupFull Proofs.SetupFullClosure
     Proofs.SetupInverse Proofs.SetupFullExample Model.SetupPinned Generated.Config.
From Eupsv Require Proofs.Resolve.

Theorem unsetup_inverts_setup vcmp vmatch fw cfg rc flavors dl rank vro top li D
        fuel fuel2 st st1 al1 tr1 al vro2 li2 ok2 st2 al2 tr2 :
  WF2 (fw_products fw) dl rank -> c_max_depth cfg = None ->
  wf_db (db_of cfg fw) = true -> (forall n, total_order_on vcmp (names_of (db_of cfg fw) n)) ->
  mem_entry EKeep vro = false ->
  conflict_free vcmp vmatch fw cfg rc flavors vro top li D ->
  nodollar_paths (fw_products fw) (s_env st) -> Inv (fw_products fw) (s_env st) -> fresh_for fw top st ->
  setup_full vcmp vmatch fw cfg rc flavors fuel st [] vro top li true 0 false = FDone true st1 al1 tr1 ->
  setup_full vcmp vmatch fw cfg rc flavors fuel2 st1 al vro2 top li2 false 0 false = FDone ok2 st2 al2 tr2 ->
  (forall n, reachN fw top n -> find_setup_product (fw_products fw) (s_env st2) n = None) /\
  (forall var, path_var (fw_products fw) var ->
     uniq (elems (dl var) (oldv var (s_env st2))) = uniq (elems (dl var) (oldv var (s_env st)))) /\
  (forall k, ~ path_var (fw_products fw) k -> alookup k (s_env st2) = alookup k (s_env st)) /\
  (forall k, alookup k (s_aliases st2) = alookup k (s_aliases st)).
Proof.
  intros H Hd Hw Ht Hk CF Hnd HI HF E1 E2.
  exact (inverse_lemma vcmp vmatch fw cfg rc flavors dl rank vro top D H Hd Hw Ht Hk fuel fuel2 st li st1 al1 tr1 al vro2 li2
           ok2 st2 al2 tr2 CF Hnd HI HF E1 E2).
Qed.
Print Assumptions unsetup_inverts_setup.

(* for two whole commands, each in a fresh Eups: setup top [version], then unsetup top *)
Corollary unsetup_inverts_setup_request vcmp vmatch fw cfg rc flavors dl rank vro top version D fuel fuel2 st st1 tr1 st2 tr2 :
  WF2 (fw_products fw) dl rank -> c_max_depth cfg = None ->
  wf_db (db_of cfg fw) = true -> (forall n, total_order_on vcmp (names_of (db_of cfg fw) n)) ->
  select_vro rc (request_opts cfg version) = Ok vro -> mem_entry EKeep vro = false ->
  conflict_free vcmp vmatch fw cfg rc flavors vro top {| li_version := version; li_expr := None |} D ->
  nodollar_paths (fw_products fw) (s_env st) -> Inv (fw_products fw) (s_env st) -> fresh_for fw top st ->
  request_full vcmp vmatch fw cfg rc flavors fuel st top version true false = Ok (Some st1, tr1) ->
  request_full vcmp vmatch fw cfg rc flavors fuel2 st1 top None false false = Ok (Some st2, tr2) ->
  (forall n, reachN fw top n -> find_setup_product (fw_products fw) (s_env st2) n = None) /\
  (forall var, path_var (fw_products fw) var ->
     uniq (elems (dl var) (oldv var (s_env st2))) = uniq (elems (dl var) (oldv var (s_env st)))) /\
  (forall k, ~ path_var (fw_products fw) k -> alookup k (s_env st2) = alookup k (s_env st)) /\
  (forall k, alookup k (s_aliases st2) = alookup k (s_aliases st)).
Proof.
  intros H Hd Hw Ht V Hk CF Hnd HI HF E1 E2. unfold request_full in E1, E2. rewrite V in E1.
  destruct (setup_full vcmp vmatch fw cfg rc flavors fuel st [] vro top _ true 0 false)
    as [[|] s1 a1 t1|s1 a1 t1|t1|t1] eqn:X1; try discriminate.
  injection E1 as <- _.
  destruct (select_vro rc (request_opts cfg None)) as [vro2|]; [|discriminate].
  destruct (setup_full vcmp vmatch fw cfg rc flavors fuel2 s1 [] vro2 top _ false 0 false)
    as [[|] s2 a2 t2|s2 a2 t2|t2|t2] eqn:X2; try discriminate.
  injection E2 as <- _.
  exact (unsetup_inverts_setup vcmp vmatch fw cfg rc flavors dl rank vro top _ D fuel fuel2 st s1 a1 t1 [] vro2 _ true s2 a2 t2
           H Hd Hw Ht Hk CF Hnd HI HF X1 X2).
Qed.
Print Assumptions unsetup_inverts_setup_request.

(* ---- inhabited: ex_fw (Proofs/SetupFullExample.v), setup libb then unsetup libb from the empty state; the
   assignment is libb 1.0, base 2.0 (closure_exact_inhabited of Props/C01.v); every hypothesis holds, both
   commands succeed, and the final state has no binding left but the two path variables, empty ---- *)
Example unsetup_inverts_setup_inhabited :
  WF2 (fw_products ex_fw) (dl_of ex_world) (rank_of ex_order) /\ c_max_depth ex_cfg = None /\
  wf_db (db_of ex_cfg ex_fw) = true /\ (forall n, total_order_on vcmp_simple (names_of (db_of ex_cfg ex_fw) n)) /\
  select_vro default_config (request_opts ex_cfg None) = Ok ex_vro /\ mem_entry EKeep ex_vro = false /\
  conflict_free vcmp_simple vmatch_simple ex_fw ex_cfg default_config ex_flavors ex_vro (lit "libb") no_info ex_D /\
  nodollar_paths ex_world (s_env ex_st0) /\ Inv ex_world (s_env ex_st0) /\ fresh_for ex_fw (lit "libb") ex_st0 /\
  exists st1 tr1 tr2,
    request_full_simple ex_fw ex_cfg default_config ex_flavors 20 ex_st0 (lit "libb") None true false = Ok (Some st1, tr1) /\
    find_setup_product ex_world (s_env st1) (lit "base") = find_pv ex_world (lit "base") (lit "2.0") /\
    request_full_simple ex_fw ex_cfg default_config ex_flavors 20 st1 (lit "libb") None false false = Ok (Some ex_after, tr2).
Proof.
  split; [apply wf2_check_sound; vm_compute; reflexivity|]. split; [reflexivity|]. split; [vm_compute; reflexivity|].
  split; [apply total_order_all; apply Proofs.Resolve.total_orderb_sound; vm_compute; reflexivity|].
  split; [reflexivity|]. split; [reflexivity|].
  split.
  { split; [vm_compute; reflexivity|]. intros n v p _ Dn F. unfold ex_D in Dn.
    destruct (str_eqb_spec n (lit "libb")) as [->|N1].
    - injection Dn as <-. vm_compute in F. injection F as <-.
      split; [split; [reflexivity|vm_compute; reflexivity]|]. cbn. tauto.
    - destruct (str_eqb_spec n (lit "base")) as [->|N2]; [|discriminate].
      injection Dn as <-. vm_compute in F. injection F as <-. cbn. tauto. }
  split; [apply nodollar_nil|]. split; [apply Inv_nil|]. split; [split; intros; reflexivity|].
  eexists. eexists. eexists. split; [vm_compute; reflexivity|]. split; vm_compute; reflexivity.
Qed.
Print Assumptions unsetup_inverts_setup_inhabited.

(* ---- finding D11 (open): outside fresh_for the statement is false ----
   BASE_HOME holds a value before the setup; base 1.0 sets it with envSet; the unsetup unsets it (execute_envSet
   in unsetup mode): after setup base + unsetup base the variable is gone, not restored.  Everything else is as
   the theorem says (the path variables are back to the empty list, nothing is recorded). *)
Definition d11_st0 : state := {| s_env := [(lit "BASE_HOME", lit "preexisting")]; s_aliases := [] |}.

Example envset_preexisting_refuted :
  exists st1 tr1 st2 tr2,
    request_full_simple ex_fw ex_cfg default_config ex_flavors 20 d11_st0 (lit "base") (Some (lit "1.0")) true false
      = Ok (Some st1, tr1) /\
    request_full_simple ex_fw ex_cfg default_config ex_flavors 20 st1 (lit "base") None false false = Ok (Some st2, tr2) /\
    alookup (lit "BASE_HOME") (s_env d11_st0) = Some (lit "preexisting") /\
    alookup (lit "BASE_HOME") (s_env st1) = Some (lit "/s/base/1.0") /\
    alookup (lit "BASE_HOME") (s_env st2) = None /\
    ~ fresh_for ex_fw (lit "base") d11_st0.
Proof.
  eexists. eexists. eexists. eexists.
  split; [vm_compute; reflexivity|]. split; [vm_compute; reflexivity|]. split; [reflexivity|].
  split; [vm_compute; reflexivity|]. split; [vm_compute; reflexivity|].
  intros [FV _].
  assert (O : own_var (fw_products ex_fw) (lit "base") (lit "BASE_HOME")).
  { right. right. right. exists (ex_base "1.0"), (lit "/s/base/1.0"). split; [split; [now left|reflexivity]|].
    cbn. tauto. }
  pose proof (FV (lit "base") (lit "BASE_HOME") (t_self _ None (lit "base")) O) as E. discriminate E.
Qed.
Print Assumptions envset_preexisting_refuted.

(* ---- finding D36 (fixed): what clause (d) and dependency_failure_restores were before the fix ----
   ax_world (Proofs/SetupFullExample.v): t has setupOptional(x); the table of x defines the alias run_x and then
   requires a product that does not exist.  setup t succeeds, x is not set up.  Model/SetupPinned.v (popStack env
   restores the environment only) leaves run_x defined in the state the command ends with - and no unsetup of t
   removes it; Model/Setup.v (the repaired code) ends without it. *)
Example alias_residue_refuted_pinned :
  WF2 ax_world (dl_of ax_world) (rank_of ax_order) /\
  (exists st' , setup_pinned ax_world ex_cfg 10 ex_st0 ax_ds (lit "t") true 0 false = RDone true st' [] /\
                find_setup_product ax_world (s_env st') (lit "x") = None /\
                alookup (lit "run_x") (s_aliases st') = Some (lit "echo x") /\
                exists st'', setup_pinned ax_world ex_cfg 10 st' [] (lit "t") false 0 false = RDone true st'' [] /\
                             alookup (lit "run_x") (s_aliases st'') = Some (lit "echo x")) /\
  (exists st', setup ax_world ex_cfg 10 ex_st0 ax_ds (lit "t") true 0 false = RDone true st' [] /\
               find_setup_product ax_world (s_env st') (lit "x") = None /\
               alookup (lit "run_x") (s_aliases st') = None).
Proof.
  split; [apply wf2_check_sound; vm_compute; reflexivity|]. split.
  - eexists. split; [vm_compute; reflexivity|]. split; [vm_compute; reflexivity|]. split; [vm_compute; reflexivity|].
    eexists. split; vm_compute; reflexivity.
  - eexists. split; [vm_compute; reflexivity|]. split; vm_compute; reflexivity.
Qed.
Print Assumptions alias_residue_refuted_pinned.

(* ================================================================================================
   unsetup_inverts_setup for the composed model with the comparator and the matcher of C10 (Model/ResolveReal.v).
   The total-order hypothesis is discharged from the theorems of Props/C10.v for worlds whose version names are
   conventional and, per product, spell pairwise different keys (fw_real_ok; see Props/C01.v closure_exact_real).
   ================================================================================================ *)
From Eupsv Require Import Model.ResolveReal Proofs.ResolveReal Proofs.SetupFullRealExample.

Theorem unsetup_inverts_setup_real fw cfg rc flavors dl rank vro top li D
        fuel fuel2 st st1 al1 tr1 al vro2 li2 ok2 st2 al2 tr2 :
  WF2 (fw_products fw) dl rank -> c_max_depth cfg = None ->
  wf_db (db_of cfg fw) = true -> fw_real_ok cfg fw = true ->
  mem_entry EKeep vro = false ->
  conflict_free vcmp_real vmatch_real fw cfg rc flavors vro top li D ->
  nodollar_paths (fw_products fw) (s_env st) -> Inv (fw_products fw) (s_env st) -> fresh_for fw top st ->
  setup_full_real fw cfg rc flavors fuel st [] vro top li true 0 false = FDone true st1 al1 tr1 ->
  setup_full_real fw cfg rc flavors fuel2 st1 al vro2 top li2 false 0 false = FDone ok2 st2 al2 tr2 ->
  (forall n, reachN fw top n -> find_setup_product (fw_products fw) (s_env st2) n = None) /\
  (forall var, path_var (fw_products fw) var ->
     uniq (elems (dl var) (oldv var (s_env st2))) = uniq (elems (dl var) (oldv var (s_env st)))) /\
  (forall k, ~ path_var (fw_products fw) k -> alookup k (s_env st2) = alookup k (s_env st)) /\
  (forall k, alookup k (s_aliases st2) = alookup k (s_aliases st)).
Proof.
  intros H Hd Hw Hok. apply (unsetup_inverts_setup vcmp_real vmatch_real fw cfg rc flavors dl rank); auto.
  now apply fw_real_ok_total.
Qed.
Print Assumptions unsetup_inverts_setup_real.

Corollary unsetup_inverts_setup_request_real fw cfg rc flavors dl rank vro top version D fuel fuel2 st st1 tr1 st2 tr2 :
  WF2 (fw_products fw) dl rank -> c_max_depth cfg = None ->
  wf_db (db_of cfg fw) = true -> fw_real_ok cfg fw = true ->
  select_vro rc (request_opts cfg version) = Ok vro -> mem_entry EKeep vro = false ->
  conflict_free vcmp_real vmatch_real fw cfg rc flavors vro top {| li_version := version; li_expr := None |} D ->
  nodollar_paths (fw_products fw) (s_env st) -> Inv (fw_products fw) (s_env st) -> fresh_for fw top st ->
  request_full_real fw cfg rc flavors fuel st top version true false = Ok (Some st1, tr1) ->
  request_full_real fw cfg rc flavors fuel2 st1 top None false false = Ok (Some st2, tr2) ->
  (forall n, reachN fw top n -> find_setup_product (fw_products fw) (s_env st2) n = None) /\
  (forall var, path_var (fw_products fw) var ->
     uniq (elems (dl var) (oldv var (s_env st2))) = uniq (elems (dl var) (oldv var (s_env st)))) /\
  (forall k, ~ path_var (fw_products fw) k -> alookup k (s_env st2) = alookup k (s_env st)) /\
  (forall k, alookup k (s_aliases st2) = alookup k (s_aliases st)).
Proof.
  intros H Hd Hw Hok. apply (unsetup_inverts_setup_request vcmp_real vmatch_real fw cfg rc flavors dl rank); auto.
  now apply fw_real_ok_total.
Qed.
Print Assumptions unsetup_inverts_setup_request_real.

(* ---- inhabited: rvx_fw (Proofs/SetupFullRealExample.v), setup libb (base resolves to 1.10-rc1 through the
   expression < 1.10) then unsetup libb from the empty state: the two path variables are left empty ---- *)
Example unsetup_inverts_setup_real_inhabited :
  WF2 (fw_products rvx_fw) (dl_of rvx_world) (rank_of rvx_order) /\ fw_real_ok ex_cfg rvx_fw = true /\
  wf_db (db_of ex_cfg rvx_fw) = true /\
  nodollar_paths rvx_world (s_env ex_st0) /\ Inv rvx_world (s_env ex_st0) /\
  exists tr1 tr2,
    request_full_real rvx_fw ex_cfg default_config ex_flavors 20 ex_st0 (lit "libb") None true false
      = Ok (Some rvx_libb_state, tr1) /\
    request_full_real rvx_fw ex_cfg default_config ex_flavors 20 rvx_libb_state (lit "libb") None false false
      = Ok (Some ex_after, tr2).
Proof.
  split; [apply wf2_check_sound; vm_compute; reflexivity|]. split; [vm_compute; reflexivity|].
  split; [vm_compute; reflexivity|]. split; [apply nodollar_nil|]. split; [apply Inv_nil|].
  eexists. eexists. split; vm_compute; reflexivity.
Qed.
Print Assumptions unsetup_inverts_setup_real_inhabited.

(* ---- and for every world with conventional version names whose (single) stack lists them sorted as strings, names
   that spell one key included: the designation rule read in the order vcmp_sorted (Props/C01.v
   closure_exact_real_sorted, Props/C03.v walk_is_designation_one_sorted_stack) ---- *)
From Eupsv Require Import Proofs.ResolveRealSorted.

Theorem unsetup_inverts_setup_real_sorted fw cfg rc flavors dl rank vro top li D
        fuel fuel2 st st1 al1 tr1 al vro2 li2 ok2 st2 al2 tr2 :
  WF2 (fw_products fw) dl rank -> c_max_depth cfg = None ->
  wf_db (db_of cfg fw) = true -> fw_conv fw = true -> db_sorted (db_of cfg fw) = true ->
  mem_entry EKeep vro = false ->
  conflict_free vcmp_sorted vmatch_real fw cfg rc flavors vro top li D ->
  nodollar_paths (fw_products fw) (s_env st) -> Inv (fw_products fw) (s_env st) -> fresh_for fw top st ->
  setup_full_real fw cfg rc flavors fuel st [] vro top li true 0 false = FDone true st1 al1 tr1 ->
  setup_full_real fw cfg rc flavors fuel2 st1 al vro2 top li2 false 0 false = FDone ok2 st2 al2 tr2 ->
  (forall n, reachN fw top n -> find_setup_product (fw_products fw) (s_env st2) n = None) /\
  (forall var, path_var (fw_products fw) var ->
     uniq (elems (dl var) (oldv var (s_env st2))) = uniq (elems (dl var) (oldv var (s_env st)))) /\
  (forall k, ~ path_var (fw_products fw) k -> alookup k (s_env st2) = alookup k (s_env st)) /\
  (forall k, alookup k (s_aliases st2) = alookup k (s_aliases st)).
Proof.
  intros H Hd Hw C S Hk CF Hnd HI HF E1 E2.
  rewrite (setup_full_real_is_sorted cfg fw rc flavors) in E1, E2 by assumption.
  apply (unsetup_inverts_setup vcmp_sorted vmatch_real fw cfg rc flavors dl rank vro top li D
           fuel fuel2 st st1 al1 tr1 al vro2 li2 ok2 st2 al2 tr2); auto.
  now apply fw_conv_total_sorted.
Qed.
Print Assumptions unsetup_inverts_setup_real_sorted.

(* ================================================================================================
   The COMMAND LIST (observe_at: command list returned by eups.app.setup).  Model/SetupCmds.v: the two eups
   processes compute the states st1 (setup X) and st2 (unsetup X, started from the environment of st1);
   app.setup turns each into commands against the environment its process started with (the emitter of
   Model/Shell.v: an emptied variable is exported empty, a variable that is gone is unset), and ONE shell that
   started with the environment before sources both texts.
   The shell then holds, variable for variable, the environment the unsetup process computed - so every clause
   of unsetup_inverts_setup_partial holds of the SHELL: the path variables are back to the same duplicate-free
   lists, every variable no reachable product owns has the value (or the absence) it had.
   cmds_in_claim: the hypotheses of C05 at both calls, and neither call removes EUPS_DIR / EUPS_PATH /
   EUPS_PKGROOT / EUPS_SHELL (which app.setup refuses to unset).
   ================================================================================================ *)
From Eupsv Require Import Model.SetupCmds Proofs.SetupCmds.

Theorem unsetup_commands_restore_the_shell w cfg dl rank fuel st ds1 ds2 name just ok1 st1 r1 ok2 st2 r2 :
  WF2 w dl rank -> nodollar_paths w (s_env st) -> Inv w (s_env st) ->
  (forall n, touches w (levels cfg 0 just) name n -> find_setup_product w (s_env st) n = None) ->
  setup w cfg fuel st ds1 name true 0 just = RDone ok1 st1 r1 ->
  setup w cfg fuel st1 ds2 name false 0 just = RDone ok2 st2 r2 ->
  (forall n, touches w (levels cfg 0 just) name n -> find_setup_product w (s_env st2) n = None) ->
  cmds_in_claim (s_env st) st1 st2 = true ->
  exists sh, shell_after (s_env st) st1 st2 = Ok sh /\
    (forall k, alookup k sh = alookup k (s_env st2)) /\
    (forall var (own : str -> bool), path_var w var ->
       (forall v, own v = true <-> exists n, touches w (levels cfg 0 just) name n /\ own_elem w n var v) ->
       uniq (elems (dl var) (oldv var sh)) = uniq (elems (dl var) (oldv var (s_env st)))) /\
    (forall k, ~ path_var w k -> (forall n, touches w (levels cfg 0 just) name n -> ~ own_var w n k) ->
       alookup k sh = alookup k (s_env st)).
Proof.
  intros H Hnd HI Hb R1 R2 Ha Hc.
  destruct (shell_follows_commands (s_env st) st1 st2 Hc) as [sh [Hs He]].
  destruct (unsetup_inverts_setup_partial w cfg dl rank fuel st ds1 ds2 name just ok1 st1 r1 ok2 st2 r2
              H Hnd HI Hb R1 R2 Ha) as [P [V _]].
  exists sh. split; [exact Hs|]. split; [exact He|]. split.
  - intros var own Hv Ho. rewrite (oldv_equiv var sh (s_env st2) He). now apply (P var own).
  - intros k Hk Hn. rewrite He. now apply V.
Qed.
Print Assumptions unsetup_commands_restore_the_shell.

(* the hypotheses are inhabited, and the clause a command list that forgets the emptied variables would break
   is visible: the world of Proofs/SetupExample.v, the user's environment holding PATH only.  After setup app and
   unsetup app the unsetup process has TEXINPUTS (which did not exist before) with the EMPTY value; the text of
   the unsetup exports it empty, and the shell ends with exactly the bindings of the unsetup process. *)
Definition cx_st0 : state := {| s_env := [(lit "PATH", lit "/usr/bin")]; s_aliases := [] |}.

Example unsetup_commands_restore_the_shell_inhabited :
  exists st1 st2 sh,
    setup ex_world ex_cfg 10 cx_st0 ex_ds (lit "app") true 0 false = RDone true st1 [] /\
    setup ex_world ex_cfg 10 st1 [] (lit "app") false 0 false = RDone true st2 [] /\
    cmds_in_claim (s_env cx_st0) st1 st2 = true /\
    shell_after (s_env cx_st0) st1 st2 = Ok sh /\
    alookup (lit "TEXINPUTS") (s_env st1) = Some (lit "/s/base/2.0/tex;/s/libb/1.0/tex") /\
    alookup (lit "TEXINPUTS") (s_env st2) = Some [] /\
    alookup (lit "TEXINPUTS") sh = Some [] /\
    alookup (lit "PATH") sh = Some (lit "/usr/bin") /\
    alookup (lit "SETUP_APP") sh = None.
Proof.
  eexists. eexists. eexists.
  split; [vm_compute; reflexivity|]. split; [vm_compute; reflexivity|]. split; [vm_compute; reflexivity|].
  split; [vm_compute; reflexivity|]. repeat split; vm_compute; reflexivity.
Qed.
Print Assumptions unsetup_commands_restore_the_shell_inhabited.

(* ================================================================================================
   Table values that refer to OTHER variables (Proofs/SetupRefsExample.v).
   ================================================================================================ *)
From Eupsv Require Import Proofs.SetupRefsExample.

(* ---- finding D60 (open): outside nodollar_paths the statement is false ----
   tool 1.0: setupRequired(kit), envSet(TOOL_PLUGINS, KIT_DIR/plugins), envPrepend(PATH, KIT_DIR/tools).  The
   unsetup runs the table in table order: kit is unset up first, KIT_DIR is gone when the envPrepend line is
   reversed, its value can no longer be expanded and the literal text is removed - which removes nothing:
   /s/kit/1.0/tools stays in PATH.  (The envSet line is taken back: its reverse does not look at the value.)
   The theorems above carry WF2, whose base WF (Proofs/SetupFrame.v: wf_path, wf_set) says that every path and
   envSet value of the world is free of references: it excludes such a table (last clause). *)
Example dep_variable_after_dependency_refuted :
  exists st1 st2,
    setup rx_world rx_cfg 10 rx_st0 rx_ds1 (lit "tool") true 0 false = RDone true st1 [] /\
    setup rx_world rx_cfg 10 st1 [] (lit "tool") false 0 false = RDone true st2 [] /\
    alookup (lit "PATH") (s_env rx_st0) = Some (lit "/usr/bin") /\
    alookup (lit "PATH") (s_env st1) = Some (lit "/s/kit/1.0/tools:/s/kit/1.0/bin:/usr/bin") /\
    alookup (lit "TOOL_PLUGINS") (s_env st1) = Some (lit "/s/kit/1.0/plugins") /\
    alookup (lit "PATH") (s_env st2) = Some (lit "/s/kit/1.0/tools:/usr/bin") /\
    alookup (lit "TOOL_PLUGINS") (s_env st2) = None /\
    find_setup_product rx_world (s_env st2) (lit "kit") = None /\
    forall dl, ~ WF rx_world dl.
Proof.
  eexists. eexists.
  split; [vm_compute; reflexivity|]. split; [vm_compute; reflexivity|].
  repeat (split; [vm_compute; reflexivity|]).
  intros dl N.
  assert (Hin : In (nth 2 rx_world (rx_kit "1.0")) rx_world) by (vm_compute; tauto).
  destruct (wf_path N _ false (lit "PATH") (lit "${KIT_DIR}/tools") rx_colon Hin) as [_ [E _]].
  - vm_compute. tauto.
  - vm_compute in E. discriminate E.
Qed.
Print Assumptions dep_variable_after_dependency_refuted.

(* a reference to a variable of the user's environment that holds a LIST in the delimiter of the command:
   envAppend(PLUGIN_PATH, SITE_DIRS, semicolon) with SITE_DIRS = /site/a;/site/b.  setup expands the value and adds
   the two elements; unsetup expands the value again (SITE_DIRS is still defined) and removes the two elements *)
Example list_valued_reference_round_trip :
  exists st1 st2,
    setup rx_world rx_cfg 10 rx_st0 [Some (lit "1.0")] (lit "site") true 0 false = RDone true st1 [] /\
    setup rx_world rx_cfg 10 st1 [] (lit "site") false 0 false = RDone true st2 [] /\
    alookup (lit "PLUGIN_PATH") (s_env st1) = Some (lit "/pre;/site/a;/site/b") /\
    s_env st2 = s_env rx_st0.
Proof.
  eexists. eexists. split; [vm_compute; reflexivity|]. split; [vm_compute; reflexivity|].
  split; vm_compute; reflexivity.
Qed.
Print Assumptions list_valued_reference_round_trip.

(* the general statements behind the example.  The value v of an envPrepend / envAppend line is a reference to a
   variable the product does not define (so it expands to the same text x at setup and at unsetup), and x is a LIST
   in the delimiter of the command (clean_list: no reference left in it, no empty part).  Then
   - setup leaves every element of the list in the variable (and every element that was there),
   - unsetup leaves NO element of the list in the variable and keeps every other element:
   the whole expansion is split, in both modes - not the value before it is expanded. *)
From Eupsv Require Import Proofs.SetupRefs.

Theorem setup_adds_every_element_of_a_list_valued_reference ap (var v x : str) d e :
  wf_delim d = true -> mem_ascii d v = false -> expand_var e v = Ok (Some x) -> clean_list d x ->
  no_dollar (oldv var e) = true ->
  exists e', env_prepend ap true var v d e = Ok (Some e') /\
    (forall y, In y (elems d (oldv var e')) <-> In y (elems d (oldv var e)) \/ In y (elems d x)) /\
    (forall k, k <> var -> alookup k e' = alookup k e).
Proof.
  intros Hd Hv Hx Hc Ho. destruct (env_prepend_list ap true var v x d e Hd Hv Hx Hc Ho) as [e' [H1 [H2 [_ H4]]]].
  exists e'. split; [exact H1|]. split; [|exact H4]. intros y. rewrite H2. apply many_list_forward_In.
Qed.
Print Assumptions setup_adds_every_element_of_a_list_valued_reference.

Theorem unsetup_removes_every_element_of_a_list_valued_reference ap (var v x : str) d e :
  wf_delim d = true -> mem_ascii d v = false -> expand_var e v = Ok (Some x) -> clean_list d x ->
  no_dollar (oldv var e) = true ->
  exists e', env_prepend ap false var v d e = Ok (Some e') /\
    (forall y, In y (elems d (oldv var e')) <-> In y (elems d (oldv var e)) /\ ~ In y (elems d x)) /\
    (forall k, k <> var -> alookup k e' = alookup k e).
Proof.
  intros Hd Hv Hx Hc Ho. destruct (env_prepend_list ap false var v x d e Hd Hv Hx Hc Ho) as [e' [H1 [H2 [_ H4]]]].
  exists e'. split; [exact H1|]. split; [|exact H4]. intros y. rewrite H2. apply many_list_reverse_In.
Qed.
Print Assumptions unsetup_removes_every_element_of_a_list_valued_reference.

(* setup then unsetup of such a line, the referenced variable being another one than the path variable (so that the
   line itself does not change it): the elements that were there before and are not in the list are exactly the
   elements afterwards *)
Theorem list_valued_reference_is_taken_back ap (var v x : str) d e e1 :
  wf_delim d = true -> mem_ascii d v = false -> expand_var e v = Ok (Some x) -> clean_list d x ->
  no_dollar (oldv var e) = true ->
  env_prepend ap true var v d e = Ok (Some e1) -> expand_var e1 v = Ok (Some x) ->
  exists e2, env_prepend ap false var v d e1 = Ok (Some e2) /\
    (forall y, In y (elems d (oldv var e2)) <-> In y (elems d (oldv var e)) /\ ~ In y (elems d x)) /\
    (forall k, k <> var -> alookup k e2 = alookup k e).
Proof.
  intros Hd Hv Hx Hc Ho H1 Hx1.
  destruct (env_prepend_list ap true var v x d e Hd Hv Hx Hc Ho) as [e1' [G1 [G2 [G3 G4]]]].
  rewrite H1 in G1. injection G1 as <-.
  destruct (env_prepend_list ap false var v x d e1 Hd Hv Hx1 Hc G3) as [e2 [K1 [K2 [_ K4]]]].
  exists e2. split; [exact K1|]. split.
  - intros y. rewrite K2, many_list_reverse_In, G2, many_list_forward_In. tauto.
  - intros k Hk. rewrite (K4 k Hk). now apply G4.
Qed.
Print Assumptions list_valued_reference_is_taken_back.

(* ================================================================================================
   SEVERAL STACKS ON EUPS_PATH  (Model/SetupMS.v; see the section of the same title in Props/C01.v)
   ================================================================================================ *)
From Eupsv Require Import Model.SetupMS Proofs.SetupMSFrame Proofs.SetupMSInv Proofs.SetupMSStack
     Model.SetupMSWf Proofs.SetupMSWf.

Theorem ms_failed_setup_changes_nothing w cfg fuel st ds name fwd just :
  (forall st' ds', msetup w cfg fuel st ds name fwd 0 just <> MDone true st' ds') ->
  mrequest w cfg fuel st ds name fwd just = Ok None \/
  exists e, mrequest w cfg fuel st ds name fwd just = Err e.
Proof.
  intro H. unfold mrequest. destruct (msetup w cfg fuel st ds name fwd 0 just) as [[|] st' ds'|st' ds'| |] eqn:E.
  - exfalso. now apply (H st' ds').
  - now left.
  - now left.
  - right. now exists OutOfFuel.
  - right. now exists Crash.
Qed.
Print Assumptions ms_failed_setup_changes_nothing.

Theorem ms_dependency_failure_restores cfg rec fwd depth just o m j acts st ds st' ds' :
  cut_off cfg just (S depth) = false -> fwd && negb o = false ->
  (rec st ds m fwd (S depth) j = MDone false st' ds' \/ rec st ds m fwd (S depth) j = MRaise st' ds') ->
  mrun_actions cfg rec fwd depth just (ASetup o m j :: acts) st ds =
  mrun_actions cfg rec fwd depth just acts st ds'.
Proof.
  intros Hc Ho [E|E]; cbn [mrun_actions]; rewrite Hc, E, Ho; reflexivity.
Qed.
Print Assumptions ms_dependency_failure_restores.

Theorem ms_required_failure_propagates cfg rec depth just m j acts st ds st' ds' :
  cut_off cfg just (S depth) = false ->
  (rec st ds m true (S depth) j = MDone false st' ds' \/ rec st ds m true (S depth) j = MRaise st' ds') ->
  mrun_actions cfg rec true depth just (ASetup false m j :: acts) st ds = MRaise st ds'.
Proof.
  intros Hc [E|E]; cbn [mrun_actions]; rewrite Hc, E; reflexivity.
Qed.
Print Assumptions ms_required_failure_propagates.

(* an unsetup that succeeds leaves no record and no table contribution of ANY declaration of the product, in
   whatever stack *)
Theorem ms_unsetup_removes_the_product w cfg dl rank fuel st ds name depth just st' ds' :
  SetupMSInv.WF2 w dl rank -> SetupMSFrame.nodollar_paths w (s_env st) -> SetupMSFrame.depth_ok cfg depth ->
  SetupMSInv.Inv w cfg (s_env st) ->
  msetup w cfg fuel st ds name false depth just = MDone true st' ds' ->
  mfind_setup_product w (c_flavor cfg) (s_env st') name = None /\
  forall q, In q w -> mp_name q = name -> SetupMSInv.absent q (s_env st').
Proof.
  intros H Hnd Hd HI Hrun.
  pose proof (SetupMSInv.setup_inv w cfg dl rank H fuel st ds name false depth just Hnd Hd (fun n _ => HI n)) as I0.
  rewrite Hrun in I0. destruct I0 as [L [U _]].
  assert (Hs : mfind_setup_product w (c_flavor cfg) (s_env st) name <> None).
  { destruct fuel; [discriminate|]. cbn [msetup] in Hrun. unfold msetup_step in Hrun.
    destruct (mfind_setup_product w (c_flavor cfg) (s_env st) name); [discriminate|discriminate]. }
  pose proof (U eq_refl Hs) as E. split; [now apply SetupMSInv.find_none_when_unset|].
  intros q Hq Hn. apply (SetupMSInv.all_absent_of_clause w cfg name (s_env st')); [apply L; lia|assumption|split; assumption].
Qed.
Print Assumptions ms_unsetup_removes_the_product.

(* unsetup of a product declared at the same version in two stacks with different tables undoes the table of the
   stack RECORDED, not of the first stack on the path: whatever else the world declares (a declaration q of the same
   name and version in another stack, earlier in the world), when SETUP_NAME holds the value written for the
   declaration p, unsetup executes the actions of p in reverse - and, the invariant holding before, afterwards
   nothing of p and nothing of q is left *)
Theorem unsetup_looks_in_recorded_stack w cfg dl rank fuel st ds depth just p :
  SetupMSInv.WF2 w dl rank -> In p w ->
  alookup (setup_var (mp_name p)) (s_env st) = Some (ms_setup_string p) ->
  mfind_setup_product w (c_flavor cfg) (s_env st) (mp_name p) = Some p /\
  msetup w cfg (S fuel) st ds (mp_name p) false depth just =
  mrun_actions cfg (msetup w cfg fuel) false depth just (mp_actions p) (unset_product_vars st (mp_name p)) ds /\
  (forall q, In q w -> mp_name q = mp_name p -> mp_version q = mp_version p -> mp_root q <> mp_root p ->
     mfind_setup_product w (c_flavor cfg) (s_env st) (mp_name p) <> Some q) /\
  (SetupMSFrame.nodollar_paths w (s_env st) -> SetupMSFrame.depth_ok cfg depth -> SetupMSInv.Inv w cfg (s_env st) ->
   forall st' ds', msetup w cfg (S fuel) st ds (mp_name p) false depth just = MDone true st' ds' ->
   forall q, In q w -> mp_name q = mp_name p -> SetupMSInv.absent q (s_env st')).
Proof.
  intros H Hin E.
  pose proof (recorded_product_found w dl rank (c_flavor cfg) (s_env st) p H Hin E) as Hf.
  split; [exact Hf|]. split; [cbn [msetup]; now apply (unsetup_step_recorded w cfg dl rank)|]. split.
  - intros q Hq Hn Hv Hr Hfq. rewrite Hf in Hfq. injection Hfq as ->. now apply Hr.
  - intros Hnd Hd HI st' ds' Hrun q Hq Hn.
    exact (proj2 (ms_unsetup_removes_the_product w cfg dl rank (S fuel) st ds (mp_name p) depth just st' ds' H Hnd Hd HI Hrun) q Hq Hn).
Qed.
Print Assumptions unsetup_looks_in_recorded_stack.

(* setup then unsetup, for every resolver, as unsetup_inverts_setup_partial above *)
Theorem ms_unsetup_inverts_setup_partial w cfg dl rank fuel st ds1 ds2 name just ok1 st1 r1 ok2 st2 r2 :
  SetupMSInv.WF2 w dl rank -> SetupMSFrame.nodollar_paths w (s_env st) -> SetupMSInv.Inv w cfg (s_env st) ->
  (forall n, SetupMSFrame.touches w (SetupMSFrame.levels cfg 0 just) name n -> mfind_setup_product w (c_flavor cfg) (s_env st) n = None) ->
  msetup w cfg fuel st ds1 name true 0 just = MDone ok1 st1 r1 ->
  msetup w cfg fuel st1 ds2 name false 0 just = MDone ok2 st2 r2 ->
  (forall n, SetupMSFrame.touches w (SetupMSFrame.levels cfg 0 just) name n -> mfind_setup_product w (c_flavor cfg) (s_env st2) n = None) ->
  (forall var (own : str -> bool), SetupMSFrame.path_var w var ->
     (forall v, own v = true <-> exists n, SetupMSFrame.touches w (SetupMSFrame.levels cfg 0 just) name n /\ SetupMSFrame.own_elem w n var v) ->
     uniq (elems (dl var) (oldv var (s_env st2))) = uniq (elems (dl var) (oldv var (s_env st)))) /\
  (forall k, ~ SetupMSFrame.path_var w k -> (forall n, SetupMSFrame.touches w (SetupMSFrame.levels cfg 0 just) name n -> ~ SetupMSFrame.own_var w n k) ->
     alookup k (s_env st2) = alookup k (s_env st)) /\
  (forall n q, SetupMSFrame.touches w (SetupMSFrame.levels cfg 0 just) name n -> In q w -> mp_name q = n -> SetupMSInv.absent q (s_env st2)).
Proof.
  intros H Hnd HI Hbefore Hrun1 Hrun2 Hafter.
  assert (Hd : SetupMSFrame.depth_ok cfg 0) by (unfold SetupMSFrame.depth_ok; destruct (c_max_depth cfg); lia).
  destruct (SetupMSInv.setup_preserves_Inv w cfg dl rank H fuel st ds1 name true 0 just ok1 st1 r1 Hnd Hd HI Hrun1) as [I1 D1].
  destruct (SetupMSInv.setup_preserves_Inv w cfg dl rank H fuel st1 ds2 name false 0 just ok2 st2 r2 D1 Hd I1 Hrun2) as [I2 D2].
  pose proof (SetupMSFrame.setup_frame w cfg dl (SetupMSInv.wf_base w dl rank H) fuel st ds1 name true 0 just Hnd Hd) as G1.
  pose proof (SetupMSFrame.setup_frame w cfg dl (SetupMSInv.wf_base w dl rank H) fuel st1 ds2 name false 0 just D1 Hd) as G2.
  rewrite Hrun1 in G1. rewrite Hrun2 in G2. destruct G1 as [F1 _]. destruct G2 as [F2 _].
  pose proof (SetupMSFrame.env_frame_trans w dl _ _ _ _ F1 F2) as F. destruct F as [V P].
  assert (Habs : forall e, SetupMSInv.Inv w cfg e ->
                 (forall n, SetupMSFrame.touches w (SetupMSFrame.levels cfg 0 just) name n -> mfind_setup_product w (c_flavor cfg) e n = None) ->
                 forall n q, SetupMSFrame.touches w (SetupMSFrame.levels cfg 0 just) name n -> In q w -> mp_name q = n -> SetupMSInv.absent q e).
  { intros e HIe Hnone n q Hn Hq Hqn. pose proof (HIe n) as C. unfold SetupMSInv.clause in C. rewrite (Hnone n Hn) in C.
    apply C. split; assumption. }
  split; [|split].
  - intros var own Hv Hown.
    assert (Hfil : forall e, SetupMSInv.Inv w cfg e ->
                   (forall n, SetupMSFrame.touches w (SetupMSFrame.levels cfg 0 just) name n -> mfind_setup_product w (c_flavor cfg) e n = None) ->
                   filter (fun x => negb (own x)) (elems (dl var) (oldv var e)) = elems (dl var) (oldv var e)).
    { intros e HIe Hnone. apply SetupMSInv.forallb_filter_id. apply forallb_forall. intros x Hx.
      destruct (own x) eqn:Ex; [|reflexivity]. exfalso.
      apply Hown in Ex. destruct Ex as [n [Hn [q [ap [d [Hq Ha]]]]]].
      destruct (Habs e HIe Hnone n q Hn (proj1 Hq) (proj2 Hq)) as [A _].
      apply (A ap var x d Ha).
      destruct (SetupMSFrame.wf_path (SetupMSInv.wf_base w dl rank H) q ap var x d (proj1 Hq) Ha) as [_ [_ ->]]. exact Hx. }
    rewrite <- (Hfil (s_env st2) I2 Hafter), <- (Hfil (s_env st) HI Hbefore).
    apply P; [assumption|]. intros n v Hn Ho. apply negb_false_iff. apply Hown. exists n. split; assumption.
  - intros k Hk Hno. now apply V.
  - intros n q Hn Hq Hqn. now apply (Habs (s_env st2) I2 Hafter n q).
Qed.
Print Assumptions ms_unsetup_inverts_setup_partial.

(* ---- inhabited: ms_world (Proofs/SetupMSStack.v), lib 1.0 declared in both stacks, the first stack's declaration
   first in the world.  From ms_stB (lib 1.0 set up from the SECOND stack) unsetup lib removes the second stack's
   path element, variable and record and ends in ms_stNone; had it looked in the first stack on the path it would
   have tried to remove /sA/Linux64/lib/1.0/bin and left /s B/generic/lib/1.0/bin2 in PATH. *)
Example ms_c02_inhabited :
  SetupMSInv.WF2 ms_world (mdl_of ms_world) (mrank_of ms_order) /\
  In ms_libA ms_world /\ In ms_libB ms_world /\ mp_version ms_libA = mp_version ms_libB /\ mp_root ms_libA <> mp_root ms_libB /\
  alookup (setup_var (lit "lib")) (s_env ms_stB) = Some (ms_setup_string ms_libB) /\
  msetup ms_world ms_cfg 3 ms_st0 [Some (key_of ms_libB)] (lit "lib") true 0 false = MDone true ms_stB [] /\
  msetup ms_world ms_cfg 3 ms_stB [] (lit "lib") false 0 false = MDone true ms_stNone [].
Proof.
  split; [apply SetupMSWf.wf2_check_sound; vm_compute; reflexivity|].
  split; [cbn; tauto|]. split; [cbn; tauto|]. split; [reflexivity|]. split; [discriminate|].
  split; [vm_compute; reflexivity|]. split; vm_compute; reflexivity.
Qed.
Print Assumptions ms_c02_inhabited.

(* ---- the hypothesis root_ok of WF2 (wf_words) is needed, in the model as in the code ----
   a stack whose root has the characters minus plus in front of a blank: Eups.setup writes the blank as the marker
   minus plus minus, findSetupVersion reads the marker one character too early and gets another path; the product
   is set up, and unsetup does not find it (in the code: OSError for the decoded path, observed on the real run of
   proposed_fixes/C02-stack-root-marker-ambiguity.witness.json) - so setup followed by unsetup does not restore
   the environment.  No change of utils.decodePath alone can repair this: the roots a-+ b and a +-b are written
   the same. *)
Definition rm_lib : mproduct :=
  {| mp_name := lit "lib"; mp_version := lit "1.0"; mp_root := lit "/a-+ b"; mp_flavor := lit "Linux64";
     mp_dir := lit "/a-+ b/Linux64/lib/1.0";
     mp_actions := [ASet (lit "LIB_HOME") (lit "/a-+ b/Linux64/lib/1.0/home")] |}.

Example unsetup_root_marker_refuted :
  encode_path (lit "/a-+ b") = encode_path (lit "/a +-b") /\
  exists st1,
    msetup [rm_lib] ms_cfg 3 ms_st0 [Some (key_of rm_lib)] (lit "lib") true 0 false = MDone true st1 [] /\
    alookup (lit "SETUP_LIB") (s_env st1) = Some (lit "lib 1.0 -f Linux64 -Z /a-+-+-b") /\
    msetup [rm_lib] ms_cfg 3 st1 [] (lit "lib") false 0 false = MDone false st1 [].
Proof. split; [vm_compute; reflexivity|]. eexists. split; [vm_compute; reflexivity|]. split; vm_compute; reflexivity. Qed.
Print Assumptions unsetup_root_marker_refuted.

