(* C02 - unsetup is the inverse of setup; a failing request changes nothing.
   Model/Setup.v with an abstract resolver.  See Props/C01.v for Inv / WF2 and Props/C04.v for touches. *)
From Eupsv Require Import Base.Base Base.BaseLemmas Model.PathAlg Proofs.PathAlg Model.Setup Proofs.SetupFrame Proofs.SetupInv.
From Coq Require Import Lia.

(* ---- a failing request ---- *)

(* a request whose top-level call does not succeed yields no new state at all: the command emits only
   `false` (C05 failed_changes_nothing: sourcing it leaves the environment exactly as it was) *)
Theorem failed_setup_changes_nothing w cfg fuel st ds name fwd just :
  (forall st' ds', setup w cfg fuel st ds name fwd 0 just <> RDone true st' ds') ->
  request w cfg fuel st ds name fwd just = Ok None \/
  exists e, request w cfg fuel st ds name fwd just = Err e.
Proof.
  intro H. unfold request. destruct (setup w cfg fuel st ds name fwd 0 just) as [[|] st' ds'|st' ds'| |] eqn:E.
  - exfalso. now apply (H st' ds').
  - now left.
  - now left.
  - right. now exists OutOfFuel.
  - right. now exists Crash.
Qed.
Print Assumptions failed_setup_changes_nothing.

(* nested form: when a dependency fails (not found, or an exception below it) and the table goes on
   (optional dependency, or unsetup mode), the rest of the table is executed from the environment as it was
   before the dependency was attempted (popStack of the saved environment) *)
Theorem dependency_failure_restores cfg rec fwd depth just o m j acts st ds st' ds' :
  cut_off cfg just (S depth) = false -> fwd && negb o = false ->
  (rec st ds m fwd (S depth) j = RDone false st' ds' \/ rec st ds m fwd (S depth) j = RRaise st' ds') ->
  run_actions cfg rec fwd depth just (ASetup o m j :: acts) st ds =
  run_actions cfg rec fwd depth just acts (with_env st' (s_env st)) ds'.
Proof.
  intros Hc Ho [E|E]; cbn [run_actions]; rewrite Hc, E, Ho; reflexivity.
Qed.
Print Assumptions dependency_failure_restores.

(* a required dependency that fails in setup mode makes the whole enclosing call fail *)
Theorem required_failure_propagates cfg rec depth just m j acts st ds st' ds' :
  cut_off cfg just (S depth) = false ->
  (rec st ds m true (S depth) j = RDone false st' ds' \/ rec st ds m true (S depth) j = RRaise st' ds') ->
  run_actions cfg rec true depth just (ASetup false m j :: acts) st ds = RRaise (with_env st' (s_env st)) ds'.
Proof.
  intros Hc [E|E]; cbn [run_actions]; rewrite Hc, E; reflexivity.
Qed.
Print Assumptions required_failure_propagates.

(* ---- unsetup after setup ---- *)

(* an unsetup that succeeds leaves no record and no table contribution of any version of the product *)
Theorem unsetup_removes_the_product w cfg dl rank fuel st ds name depth just st' ds' :
  WF2 w dl rank -> nodollar_paths w (s_env st) -> depth_ok cfg depth -> Inv w (s_env st) ->
  setup w cfg fuel st ds name false depth just = RDone true st' ds' ->
  find_setup_product w (s_env st') name = None /\
  forall q, In q w -> p_name q = name -> absent q (s_env st').
Proof.
  intros H Hnd Hd HI Hrun.
  pose proof (setup_inv w cfg dl rank H fuel st ds name false depth just Hnd Hd (fun n _ => HI n)) as I0.
  rewrite Hrun in I0. destruct I0 as [L [U _]].
  assert (Hs : find_setup_product w (s_env st) name <> None).
  { destruct fuel; [discriminate|]. cbn [setup] in Hrun. unfold setup_step in Hrun.
    destruct (find_setup_product w (s_env st) name); [discriminate|discriminate]. }
  pose proof (U eq_refl Hs) as E. split; [now apply find_none_when_unset|].
  intros q Hq Hn. apply (all_absent_of_clause w name (s_env st')); [apply L; lia|assumption|split; assumption].
Qed.
Print Assumptions unsetup_removes_the_product.

(* Full statement of the property (kept visible):
     from an environment in which nothing of the closure of X is set up, setup X followed by unsetup X restores
     every variable and alias (path-like variables as duplicate-free lists of non-empty elements, unset = empty).
   Proved below, for every resolver: IF after the unsetup no product reachable from X is recorded any more
   (hypothesis Hafter), then every path variable holds the same duplicate-free element list as before, every
   variable that no reachable product owns is unchanged, and no envSet value of a reachable product remains.
   What is missing for the full statement is the traversal argument that the unsetup visits every product the
   setup recorded (so that Hafter always holds when no product is requested in two versions), and the values of
   the reachable products' own envSet variables (finding D11: a value such a variable had before setup is not
   restored).  Both are decided on the real code by the oracle of harness/c02.py. *)
Theorem unsetup_inverts_setup_partial w cfg dl rank fuel st ds1 ds2 name just ok1 st1 r1 ok2 st2 r2 :
  WF2 w dl rank -> nodollar_paths w (s_env st) -> Inv w (s_env st) ->
  (forall n, touches w (levels cfg 0 just) name n -> find_setup_product w (s_env st) n = None) ->
  setup w cfg fuel st ds1 name true 0 just = RDone ok1 st1 r1 ->
  setup w cfg fuel st1 ds2 name false 0 just = RDone ok2 st2 r2 ->
  (forall n, touches w (levels cfg 0 just) name n -> find_setup_product w (s_env st2) n = None) ->
  (* path variables: same elements, same order, once each *)
  (forall var (own : str -> bool), path_var w var ->
     (forall v, own v = true <-> exists n, touches w (levels cfg 0 just) name n /\ own_elem w n var v) ->
     uniq (elems (dl var) (oldv var (s_env st2))) = uniq (elems (dl var) (oldv var (s_env st)))) /\
  (* everything no reachable product owns *)
  (forall k, ~ path_var w k -> (forall n, touches w (levels cfg 0 just) name n -> ~ own_var w n k) ->
     alookup k (s_env st2) = alookup k (s_env st)) /\
  (* no contribution of a reachable product is left *)
  (forall n q, touches w (levels cfg 0 just) name n -> In q w -> p_name q = n -> absent q (s_env st2)).
Proof.
  intros H Hnd HI Hbefore Hrun1 Hrun2 Hafter.
  assert (Hd : depth_ok cfg 0) by (unfold depth_ok; destruct (c_max_depth cfg); lia).
  destruct (setup_preserves_Inv w cfg dl rank H fuel st ds1 name true 0 just ok1 st1 r1 Hnd Hd HI Hrun1) as [I1 D1].
  destruct (setup_preserves_Inv w cfg dl rank H fuel st1 ds2 name false 0 just ok2 st2 r2 D1 Hd I1 Hrun2) as [I2 D2].
  pose proof (setup_frame w cfg dl (wf_base w dl rank H) fuel st ds1 name true 0 just Hnd Hd) as G1.
  pose proof (setup_frame w cfg dl (wf_base w dl rank H) fuel st1 ds2 name false 0 just D1 Hd) as G2.
  rewrite Hrun1 in G1. rewrite Hrun2 in G2. destruct G1 as [F1 _]. destruct G2 as [F2 _].
  pose proof (env_frame_trans w dl _ _ _ _ F1 F2) as F. destruct F as [V P].
  assert (Habs : forall e, Inv w e -> (forall n, touches w (levels cfg 0 just) name n -> find_setup_product w e n = None) ->
                 forall n q, touches w (levels cfg 0 just) name n -> In q w -> p_name q = n -> absent q e).
  { intros e HIe Hnone n q Hn Hq Hqn. pose proof (HIe n) as C. unfold clause in C. rewrite (Hnone n Hn) in C.
    apply C. split; assumption. }
  split; [|split].
  - intros var own Hv Hown.
    assert (Hfil : forall e, Inv w e ->
                   (forall n, touches w (levels cfg 0 just) name n -> find_setup_product w e n = None) ->
                   filter (fun x => negb (own x)) (elems (dl var) (oldv var e)) = elems (dl var) (oldv var e)).
    { intros e HIe Hnone. apply forallb_filter_id. apply forallb_forall. intros x Hx.
      destruct (own x) eqn:Ex; [|reflexivity]. exfalso.
      apply Hown in Ex. destruct Ex as [n [Hn [q [ap [d [Hq Ha]]]]]].
      destruct (Habs e HIe Hnone n q Hn (proj1 Hq) (proj2 Hq)) as [A _].
      apply (A ap var x d Ha).
      destruct (wf_path (wf_base w dl rank H) q ap var x d (proj1 Hq) Ha) as [_ [_ ->]]. exact Hx. }
    rewrite <- (Hfil (s_env st2) I2 Hafter), <- (Hfil (s_env st) HI Hbefore).
    apply P; [assumption|]. intros n v Hn Ho. apply negb_false_iff. apply Hown. exists n. split; assumption.
  - intros k Hk Hno. now apply V.
  - intros n q Hn Hq Hqn. now apply (Habs (s_env st2) I2 Hafter n q).
Qed.
Print Assumptions unsetup_inverts_setup_partial.

(* ---- the premises of unsetup_inverts_setup_partial are jointly satisfiable ----
   The world of Proofs/SetupExample.v (see the Example at the end of Props/C01.v): from the empty environment,
   setup app (base resolved to 1.0 below liba and to 2.0 below libb) followed by unsetup app returns the explicit
   state ex_after, in which no product is recorded; every premise of the theorem holds, and (by the invariant
   theorem applied to both runs) no contribution of any declared product is left in ex_after. *)
From Eupsv Require Import Model.SetupWf Proofs.SetupWf Proofs.SetupExample.

Example c02_hypotheses_inhabited :
  WF2 ex_world (dl_of ex_world) (rank_of ex_order) /\
  nodollar_paths ex_world (s_env ex_st0) /\ Inv ex_world (s_env ex_st0) /\
  (forall n, touches ex_world (levels ex_cfg 0 false) (lit "app") n -> find_setup_product ex_world (s_env ex_st0) n = None) /\
  setup ex_world ex_cfg 20 ex_st0 ex_ds (lit "app") true 0 false = RDone true ex_final [] /\
  setup ex_world ex_cfg 20 ex_final [] (lit "app") false 0 false = RDone true ex_after [] /\
  (forall n, touches ex_world (levels ex_cfg 0 false) (lit "app") n -> find_setup_product ex_world (s_env ex_after) n = None) /\
  (forall q, In q ex_world -> absent q (s_env ex_after)).
Proof.
  assert (H : WF2 ex_world (dl_of ex_world) (rank_of ex_order)) by (apply wf2_check_sound; vm_compute; reflexivity).
  assert (R1 : setup ex_world ex_cfg 20 ex_st0 ex_ds (lit "app") true 0 false = RDone true ex_final [])
    by (vm_compute; reflexivity).
  assert (R2 : setup ex_world ex_cfg 20 ex_final [] (lit "app") false 0 false = RDone true ex_after [])
    by (vm_compute; reflexivity).
  assert (B : forall n, touches ex_world (levels ex_cfg 0 false) (lit "app") n ->
                        find_setup_product ex_world (s_env ex_st0) n = None) by (intros n _; reflexivity).
  assert (A : forall n, touches ex_world (levels ex_cfg 0 false) (lit "app") n ->
                        find_setup_product ex_world (s_env ex_after) n = None) by (intros n _; reflexivity).
  split; [exact H|]. split; [apply nodollar_nil|]. split; [apply Inv_nil|]. split; [exact B|].
  split; [exact R1|]. split; [exact R2|]. split; [exact A|].
  (* by the theorem: the state after the unsetup is consistent and records nothing, so nothing is left *)
  assert (D : depth_ok ex_cfg 0) by exact I.
  destruct (setup_preserves_Inv ex_world ex_cfg (dl_of ex_world) (rank_of ex_order) H 20 ex_st0 ex_ds (lit "app")
              true 0 false true ex_final [] (nodollar_nil ex_world) D (Inv_nil ex_world) R1) as [I1 D1].
  destruct (setup_preserves_Inv ex_world ex_cfg (dl_of ex_world) (rank_of ex_order) H 20 ex_final [] (lit "app")
              false 0 false true ex_after [] D1 D I1 R2) as [I2 _].
  intros q Hq. pose proof (I2 (p_name q)) as C. unfold clause in C.
  replace (find_setup_product ex_world (s_env ex_after) (p_name q)) with (@None product) in C by reflexivity.
  apply C. split; [assumption|reflexivity].
Qed.
Print Assumptions c02_hypotheses_inhabited.
