(* C03 - The version chosen is the one the Version Resolution Order designates.
   Property theorems only; every proof is a short appeal to Proofs/Resolve.v.

   Notation.  A database view [db] is the list of stacks in EUPS_PATH order, each with its version
   records (name, version, flavor) and chain entries (name, flavor, tag, version).  [vro] is a list of
   entries (keep, commandLine, version, version!, versionExpr, path, type:s, warn:n, tag t).
   [find_from_vro vcmp vmatch c db prev f depth vro rq] is Eups.findProductFromVRO for flavor f, with
   prev = alreadySetupProducts.get(name); [resolve_request] adds the acceptance loop and the flavor
   loop of Eups.setup; [select_vro] is Eups.selectVRO.  [designates_in] / [designates] are the
   designation rule of Model/ResolveSpec.v.  vcmp / vmatch stand for hooks.version_cmp and
   Eups.version_match (modelled by C10) and are arbitrary here. *)
From Eupsv Require Import Base.Base Base.BaseLemmas Model.Resolve Model.ResolveSpec Generated.Config
     Proofs.ResolveLib Proofs.Resolve.

(* ------------------------------------------------------------------ the walk is the designation *)

(* For a product that has not been chosen before in the running command, the product returned by the
   walk is the one the designation rule names.  Hypotheses: the database is well formed (no version
   name is itself a relational expression; no chain file is called keep) and the comparator is a total
   order on the version names declared for this product. *)
Theorem walk_is_designation vcmp vmatch c db f depth vro rq :
  wf_db db = true -> total_order_on vcmp (names_of db (rq_name rq)) ->
  option_map fst (find_from_vro vcmp vmatch c db None f depth vro rq) =
  designates_in vcmp vmatch c db (rq_name rq) (classify rq) f vro.
Proof. intros WF HT. now apply walk_designates. Qed.
Print Assumptions walk_is_designation.

(* the same for the whole resolution of Eups.setup: top-level acceptance loop and flavor fallback; in
   particular the resolution never raises for a product not chosen before *)
Theorem resolve_is_designation vcmp vmatch c db keep flavors depth vro rq :
  wf_db db = true -> total_order_on vcmp (names_of db (rq_name rq)) ->
  exists r, resolve_request vcmp vmatch c db keep None flavors depth vro rq = Ok r /\
            option_map fst r = designates vcmp vmatch c db flavors depth vro rq.
Proof. apply resolve_designates. Qed.
Print Assumptions resolve_is_designation.

(* ------------------------------------------------------------------ a named version never falls through *)

(* When the request names a version or an expression, the entries after the last version-like entry
   of the VRO are never consulted: the walk over the whole VRO is the walk over the VRO cut there. *)
Theorem named_version_never_falls_through vcmp vmatch c db f depth pre e post rq :
  truthy (rq_version rq) <> None -> is_version_like e = true -> existsb is_version_like post = false ->
  find_from_vro vcmp vmatch c db None f depth (pre ++ e :: post) rq =
  find_from_vro vcmp vmatch c db None f depth (pre ++ [e]) rq.
Proof. apply walk_cut. Qed.
Print Assumptions named_version_never_falls_through.

(* the shape of the default VRO (see default_vro_closed_form): inert entries, version, versionExpr, tags.
   An explicit version that no stack declares for any flavor tried makes the request fail, whatever
   tags follow and whatever they are assigned to. *)
Theorem undeclared_version_fails vcmp vmatch c db keep flavors depth pre post rq v :
  wf_db db = true -> forallb is_inert pre = true ->
  truthy (rq_version rq) = Some v -> is_expr v = false -> truthy (rq_expr rq) = None ->
  (forall f s, In f flavors -> In s db -> declared s (rq_name rq) v f = false) ->
  existsb is_version_like post = false ->
  resolve_request vcmp vmatch c db keep None flavors depth (pre ++ EVersion :: EVersionExpr :: post) rq = Ok None.
Proof. apply undeclared_fails_resolve. Qed.
Print Assumptions undeclared_version_fails.

(* ------------------------------------------------------------------ -t tags override versions *)

(* a tag placed before the version entries (only inert entries before it) that designates a product
   decides the walk, whatever version or expression the request (a table line) names *)
Theorem pretag_overrides vcmp vmatch c db f depth pre t rest rq p :
  wf_db db = true -> forallb is_inert pre = true ->
  recognized c t = true -> str_eqb t (lit "latest") = false -> str_eqb t (lit "setup") = false ->
  tag_designates db (rq_name rq) t f = Some p ->
  find_from_vro vcmp vmatch c db None f depth (pre ++ ETag t :: rest) rq = Some (p, (ETag t, None)).
Proof. apply pretag_walk. Qed.
Print Assumptions pretag_overrides.

(* and for a dependency (depth > 0) that is what gets set up *)
Theorem pretag_overrides_dependency vcmp vmatch c db keep f fs d pre t rest rq p :
  wf_db db = true -> forallb is_inert pre = true ->
  recognized c t = true -> str_eqb t (lit "latest") = false -> str_eqb t (lit "setup") = false ->
  tag_designates db (rq_name rq) t f = Some p ->
  resolve_request vcmp vmatch c db keep None (f :: fs) (S d) (pre ++ ETag t :: rest) rq =
  Ok (Some (p, Some (ETag t, None))).
Proof. apply pretag_resolve. Qed.
Print Assumptions pretag_overrides_dependency.

(* ------------------------------------------------------------------ -T tags only without a version *)

(* a tag placed after the version entries is reached exactly when the request names nothing: then
   (only inert and version entries before it) it decides; when the request names a version or an
   expression it is never consulted (named_version_never_falls_through) *)
Theorem posttag_only_without_version vcmp vmatch c db f depth pre t rest rq :
  wf_db db = true -> forallb skipped_when_bare pre = true ->
  (truthy (rq_version rq) = None ->
   forall p, recognized c t = true -> str_eqb t (lit "latest") = false -> str_eqb t (lit "setup") = false ->
   tag_designates db (rq_name rq) t f = Some p ->
   find_from_vro vcmp vmatch c db None f depth (pre ++ ETag t :: rest) rq = Some (p, (ETag t, None))) /\
  (truthy (rq_version rq) <> None ->
   forall pre' e, pre = pre' ++ [e] -> is_version_like e = true ->
   existsb is_version_like (ETag t :: rest) = false ->
   find_from_vro vcmp vmatch c db None f depth (pre ++ ETag t :: rest) rq =
   find_from_vro vcmp vmatch c db None f depth pre rq).
Proof.
  intros WF SK. split.
  - intros TV p R L S T. now apply posttag_walk.
  - intros TV pre' e -> He NV. rewrite <- app_assoc. cbn [app]. now apply walk_cut.
Qed.
Print Assumptions posttag_only_without_version.

(* ------------------------------------------------------------------ the first stack wins *)

(* a tag: the first stack whose chain has the flavor and whose version record exists *)
Theorem first_stack_wins vcmp db1 s db2 n t v f :
  str_eqb t (lit "latest") = false -> str_eqb t (lit "setup") = false ->
  (forall s' v', In s' db1 -> chain_version s' n f t = Some v' -> declared s' n v' f = false) ->
  chain_version s n f t = Some v -> declared s n v f = true ->
  find_tagged vcmp (db1 ++ s :: db2) n t f = Some (found_in s n v f).
Proof. apply find_tagged_first. Qed.
Print Assumptions first_stack_wins.

(* an explicit version: the first stack declaring it *)
Theorem first_stack_wins_version db1 s db2 n v f :
  (forall s', In s' db1 -> declared s' n v f = false) -> declared s n v f = true ->
  find_version (db1 ++ s :: db2) n v f = Some (found_in s n v f).
Proof. apply find_version_first. Qed.
Print Assumptions first_stack_wins_version.

(* ------------------------------------------------------------------ expressions pick the highest *)

(* explicit hypothesis: vcmp is a total order on the version names declared for the product.  The
   product chosen for an expression is declared, satisfies the expression, no satisfying declaration is
   higher, and of the declarations carrying that version name it is the first in path order. *)
Theorem expr_highest vcmp vmatch db n x f p :
  total_order_on vcmp (names_of db n) ->
  select_latest vcmp (find_by_expr vmatch db n x f) = Some p ->
  In p (candidates db n f) /\ vmatch (fd_version p) x = true /\
  (forall q, In q (candidates db n f) -> vmatch (fd_version q) x = true ->
             vcmp (fd_version q) (fd_version p) <> Gt) /\
  find (fun q => str_eqb (fd_version q) (fd_version p))
       (filter (fun q => vmatch (fd_version q) x) (candidates db n f)) = Some p.
Proof. apply expr_highest_lemma. Qed.
Print Assumptions expr_highest.

(* the tag latest: the highest declaration over all stacks, the earlier stack winning a tie *)
Theorem latest_highest vcmp db n f p :
  total_order_on vcmp (names_of db n) ->
  find_latest vcmp db n f = Some p ->
  In p (candidates db n f) /\
  (forall q, In q (candidates db n f) -> vcmp (fd_version q) (fd_version p) <> Gt) /\
  find (fun q => str_eqb (fd_version q) (fd_version p)) (candidates db n f) = Some p.
Proof. apply latest_highest_lemma. Qed.
Print Assumptions latest_highest.

(* ------------------------------------------------------------------ native flavor first *)

(* if the walk for the native flavor designates a product, that product - of the native flavor - is
   chosen whatever the fallback flavors hold; the fallbacks matter only when it designates nothing *)
Theorem native_flavor_preferred vcmp vmatch c db keep f fs depth vro rq :
  wf_db db = true -> total_order_on vcmp (names_of db (rq_name rq)) ->
  (forall p, designates_top vcmp vmatch c db (rq_name rq) (classify rq) f depth vro = Some p ->
     fd_flavor p = f /\
     exists r, resolve_request vcmp vmatch c db keep None (f :: fs) depth vro rq = Ok (Some (p, r))) /\
  (designates_top vcmp vmatch c db (rq_name rq) (classify rq) f depth vro = None ->
     designates vcmp vmatch c db (f :: fs) depth vro rq = designates vcmp vmatch c db fs depth vro rq).
Proof.
  intros WF HT. split.
  - intros p H. split; [eapply designates_top_flavor; eauto|].
    destruct (resolve_designates vcmp vmatch c db keep (f :: fs) depth vro rq WF HT) as [r [E1 E2]].
    unfold designates in E2. cbn [first_some] in E2. rewrite H in E2.
    destruct r as [[p' r']|]; [|discriminate]. simpl in E2. injection E2 as ->. eauto.
  - intro H. unfold designates. cbn [first_some]. now rewrite H.
Qed.
Print Assumptions native_flavor_preferred.

(* ------------------------------------------------------------------ explicit top-level version *)

(* whatever the VRO, the tags and the earlier choices: a top-level request (depth 0) that names an
   explicit version either sets up exactly that version or fails (used by C01) *)
Theorem explicit_toplevel_version_honoured vcmp vmatch c db keep prev flavors vro rq v p r :
  truthy (rq_version rq) = Some v -> is_expr v = false ->
  resolve_request vcmp vmatch c db keep prev flavors 0 vro rq = Ok (Some (p, r)) -> fd_version p = v.
Proof. apply resolve_version. Qed.
Print Assumptions explicit_toplevel_version_honoured.

(* ------------------------------------------------------------------ repeated requests *)

(* the product was chosen before in this command through the entry otag: if the new walk stops at an
   entry e0 that comes later in the VRO than otag, the earlier choice stands; otherwise the new one
   replaces it *)
Theorem earlier_rank_wins vcmp vmatch c db op otag ox f depth vro rq p r e0 :
  vro_loop vcmp vmatch c db (Some (op, Some (otag, ox))) rq f depth vro = Some (p, r, e0) ->
  find_from_vro vcmp vmatch c db (Some (op, Some (otag, ox))) f depth vro rq =
  match index_of otag vro, index_of e0 vro with
  | Some i, Some j => if i <? j then Some (op, (otag, ox)) else Some (p, r)
  | _, _ => Some (p, r)
  end.
Proof. apply rank_rule. Qed.
Print Assumptions earlier_rank_wins.

(* ------------------------------------------------------------------ the default VRO in closed form *)

(* every ordered choice of at most three tags out of three *)
Definition picks (l : list str) : list (list str) :=
  [[]] ++ map (fun x => [x]) l ++
  flat_map (fun x => map (fun y => [x; y]) (remove_str x l)) l ++
  flat_map (fun x => flat_map (fun y => map (fun z => [x; y; z]) (remove_str y (remove_str x l)))
                              (remove_str x l)) l.

Definition tags3 : list str := [lit "stable"; lit "beta"; lit "latest"].
Definition bools : list bool := [false; true].
Definition all_opts3 : list opts :=
  flat_map (fun k => flat_map (fun x => flat_map (fun ix => flat_map (fun vn =>
  flat_map (fun ts => map (fun ps => mkOpts k x ix ts ps false vn) (picks tags3)) (picks tags3))
  bools) bools) bools) bools.

(* the shipped configuration with beta registered as a global tag *)
Definition cfg3 : config := site_config [lit "beta"] [lit "root"].

(* keep?, type:exact (unless --inexact), commandLine, the -t tags in order, version, versionExpr, then
   the -T tags and current, without those already given with -t *)
Definition expected_vro (o : opts) : list entry :=
  (if o_keep o then [EKeep] else []) ++
  (if o_inexact o then [] else [EType (lit "exact")]) ++
  [ECommandLine] ++ map ETag (o_tags o) ++ [EVersion; EVersionExpr] ++
  map ETag (filter (fun t => negb (mem_str t (o_tags o))) (uniq (o_posttags o ++ [lit "current"]))).

Definition entries_eqb (a b : list entry) : bool :=
  (length a =? length b) && forallb (fun xy => entry_eqb (fst xy) (snd xy)) (combine a b).

Lemma entries_eqb_eq a : forall b, entries_eqb a b = true -> a = b.
Proof.
  unfold entries_eqb. induction a as [|x a IH]; intros [|y b] H; try reflexivity; try discriminate.
  simpl in H. apply andb_true_iff in H. destruct H as [HL H]. apply andb_true_iff in H. destruct H as [Hx H].
  apply entry_eqb_eq in Hx. subst. f_equal. apply IH. now rewrite HL, H.
Qed.

Definition closed_form_ok (o : opts) : bool :=
  match select_vro cfg3 o with Ok v => entries_eqb v (expected_vro o) | Err _ => false end.

(* finite sweep: 2048 option sets (keep, exact, inexact, version named or not, 16 x 16 ordered tag
   choices over stable, beta, latest) *)
Theorem default_vro_closed_form o :
  In o all_opts3 -> select_vro cfg3 o = Ok (expected_vro o).
Proof.
  assert (H : forallb closed_form_ok all_opts3 = true) by (vm_compute; reflexivity).
  rewrite forallb_forall in H. intro Ho. specialize (H o Ho). unfold closed_form_ok in H.
  destruct (select_vro cfg3 o) as [v|]; [|discriminate]. apply entries_eqb_eq in H. now subst.
Qed.
Print Assumptions default_vro_closed_form.

(* ------------------------------------------------------------------ examples: the hypotheses are inhabited *)

Definition ex_s1 : stackv :=
  mkStack (lit "s1")
    [(lit "foo", lit "1.0", lit "Linux64"); (lit "foo", lit "2.0", lit "Linux64");
     (lit "foo", lit "1.1", lit "generic")]
    [(lit "foo", lit "Linux64", lit "current", lit "2.0");
     (lit "foo", lit "Linux64", lit "beta", lit "3.0");          (* dangling: 3.0 has no record *)
     (lit "foo", lit "generic", lit "current", lit "1.1")].
Definition ex_s2 : stackv :=
  mkStack (lit "s2")
    [(lit "foo", lit "1.0", lit "Linux64"); (lit "foo", lit "10.0", lit "Linux64");
     (lit "foo", lit "1.1", lit "Linux64")]
    [(lit "foo", lit "Linux64", lit "current", lit "1.0");
     (lit "foo", lit "Linux64", lit "beta", lit "1.1");
     (lit "foo", lit "Linux64", lit "t", lit "1.0")].
Definition ex_db : dbv := [ex_s1; ex_s2].
Definition ex_cfg : config := site_config [lit "beta"; lit "t"] [lit "root"].
Definition ex_rq (v x : option str) : request := mkRequest (lit "foo") v x.
Definition ex_vro (ts ps : list str) : list entry :=
  match select_vro ex_cfg (mkOpts false false false ts ps false false) with Ok v => v | Err _ => [] end.
Definition ex_flavors : list str := [lit "Linux64"; lit "generic"].

Example ex_hypotheses :
  wf_db ex_db = true /\ total_order_on vcmp_simple (names_of ex_db (lit "foo")).
Proof. split; [reflexivity|]. apply total_orderb_sound. vm_compute. reflexivity. Qed.

(* bare request: current of the first stack *)
Example ex_bare :
  find_from_vro vcmp_simple vmatch_simple ex_cfg ex_db None (lit "Linux64") 1 (ex_vro [] []) (ex_rq None None)
  = Some (mkFound (lit "s1") (lit "foo") (lit "2.0") (lit "Linux64"), (ETag (lit "current"), None)).
Proof. vm_compute. reflexivity. Qed.

(* -t beta: the chain of s1 is dangling, so the tag is found in s2; it overrides the table version 1.0 *)
Example ex_pretag :
  find_from_vro vcmp_simple vmatch_simple ex_cfg ex_db None (lit "Linux64") 1 (ex_vro [lit "beta"] [])
                (ex_rq (Some (lit "1.0")) None)
  = Some (mkFound (lit "s2") (lit "foo") (lit "1.1") (lit "Linux64"), (ETag (lit "beta"), None)).
Proof. vm_compute. reflexivity. Qed.

(* the same request at the top level: the tagged 1.1 is refused, the walk resumes and finds 1.0 in s1 *)
Example ex_toplevel :
  resolve_request vcmp_simple vmatch_simple ex_cfg ex_db false None ex_flavors 0 (ex_vro [lit "beta"] [])
                  (ex_rq (Some (lit "1.0")) None)
  = Ok (Some (mkFound (lit "s1") (lit "foo") (lit "1.0") (lit "Linux64"), Some (ECommandLine, Some (lit "1.0")))).
Proof. vm_compute. reflexivity. Qed.

(* an expression: the highest satisfying version over both stacks *)
Example ex_expr :
  find_from_vro vcmp_simple vmatch_simple ex_cfg ex_db None (lit "Linux64") 1 (ex_vro [] [])
                (ex_rq (Some (lit ">= 1.1")) None)
  = Some (mkFound (lit "s2") (lit "foo") (lit "10.0") (lit "Linux64"), (EVersionExpr, Some (lit ">= 1.1"))).
Proof. vm_compute. reflexivity. Qed.

(* a version that is not declared fails although current would match; -T t does not help either *)
Example ex_no_fall_through :
  resolve_request vcmp_simple vmatch_simple ex_cfg ex_db false None ex_flavors 1 (ex_vro [] [lit "t"])
                  (ex_rq (Some (lit "5.0")) None) = Ok None.
Proof. vm_compute. reflexivity. Qed.

(* -T t applies when nothing is named *)
Example ex_posttag :
  find_from_vro vcmp_simple vmatch_simple ex_cfg ex_db None (lit "Linux64") 1 (ex_vro [] [lit "t"]) (ex_rq None None)
  = Some (mkFound (lit "s2") (lit "foo") (lit "1.0") (lit "Linux64"), (ETag (lit "t"), None)).
Proof. vm_compute. reflexivity. Qed.

(* version 1.1 exists for Linux64 only in s2 and for generic in s1: the native flavor is preferred *)
Example ex_native :
  resolve_request vcmp_simple vmatch_simple ex_cfg ex_db false None ex_flavors 1 (ex_vro [] [])
                  (ex_rq (Some (lit "1.1")) None)
  = Ok (Some (mkFound (lit "s2") (lit "foo") (lit "1.1") (lit "Linux64"), Some (EVersion, Some (lit "1.1")))).
Proof. vm_compute. reflexivity. Qed.

(* an earlier choice through commandLine gives way to a hit through t, which ranks higher in this VRO;
   an earlier choice through beta stands against a hit through current (flavor generic has no beta), which
   ranks lower *)
Example ex_rank :
  find_from_vro vcmp_simple vmatch_simple ex_cfg ex_db
    (Some (mkFound (lit "s1") (lit "foo") (lit "2.0") (lit "Linux64"), Some (ECommandLine, Some (lit "2.0"))))
    (lit "Linux64") 1 [EType (lit "exact"); ETag (lit "t"); ECommandLine; EVersion] (ex_rq None None)
  = Some (mkFound (lit "s2") (lit "foo") (lit "1.0") (lit "Linux64"), (ETag (lit "t"), None)) /\
  find_from_vro vcmp_simple vmatch_simple ex_cfg ex_db
    (Some (mkFound (lit "s1") (lit "foo") (lit "2.0") (lit "Linux64"), Some (ETag (lit "beta"), None)))
    (lit "generic") 1 (ex_vro [lit "beta"] []) (ex_rq None None)
  = Some (mkFound (lit "s1") (lit "foo") (lit "2.0") (lit "Linux64"), (ETag (lit "beta"), None)).
Proof. split; vm_compute; reflexivity. Qed.

(* ------------------------------------------------------------------ the two repaired defects, as they were *)

(* pinned tree: the entry t (and p, a, h, pa, at, th, pat, ath) was skipped like path, because the code
   tested membership in a parenthesised string; -t t had no effect and current decided.  The repaired
   walk (proposed_fixes/C03-path-substring.diff) honours the tag. *)
Example path_substring_refuted_pinned :
  let vro := ex_vro [lit "t"] [] in
  find_from_vro vcmp_simple vmatch_simple ex_cfg ex_db None (lit "Linux64") 1 (map pinned_path_quirk vro)
                (ex_rq None None)
  = Some (mkFound (lit "s1") (lit "foo") (lit "2.0") (lit "Linux64"), (ETag (lit "current"), None)) /\
  find_from_vro vcmp_simple vmatch_simple ex_cfg ex_db None (lit "Linux64") 1 vro (ex_rq None None)
  = Some (mkFound (lit "s2") (lit "foo") (lit "1.0") (lit "Linux64"), (ETag (lit "t"), None)) /\
  tag_designates ex_db (lit "foo") (lit "t") (lit "Linux64")
  = Some (mkFound (lit "s2") (lit "foo") (lit "1.0") (lit "Linux64")).
Proof. repeat split; vm_compute; reflexivity. Qed.

(* ================================================================== the comparator of C10 in the resolver *)

(* From here on vcmp / vmatch are no longer parameters: vcmp_real is hooks.version_cmp in sorting mode and
   vmatch_real is Eups.version_match, both as modelled and proved about in C10 (Model/VersionCompare.v,
   Props/C10.v).  resolve_real / walk_real (Model/ResolveReal.v) are resolve_request / find_from_vro with
   them, guarded by real_domain (no comparison the request can cause raises).
   conv_names l: every name of l is conventional (C10: conv).  real_names_ok l: moreover no two names of l
   spell the same key (1.0 / 1_0 / 1.00 / 01.0 are one key).  *)
From Eupsv Require Import Model.VersionCompare Model.VersionKey Model.ResolveReal Proofs.ResolveReal.

(* ------------------------------------------------------------------ the hypothesis total_order_on, discharged *)

(* on conventional names the real comparator is reflexive, flips with its arguments, its not-greater is
   transitive, and it answers Eq exactly for names with the same key: a total PREorder *)
Theorem real_comparator_total_preorder l :
  conv_names l = true ->
  total_preorder_on vcmp_real l /\
  forall x y, In x l -> In y l ->
    vcmp_real x y = key_compare (key x) (key y) /\ (vcmp_real x y = Eq <-> key x = key y).
Proof.
  intro C. split; [now apply real_preorder|]. intros x y Hx Hy. rewrite conv_names_forall in C.
  split; [apply vcmp_real_key|apply vcmp_real_eq_key]; auto.
Qed.
Print Assumptions real_comparator_total_preorder.

(* it is the total order that walk_is_designation and its corollaries ask for exactly when no two of the
   names spell the same key *)
Theorem real_comparator_total_order l :
  conv_names l = true -> (total_order_on vcmp_real l <-> real_names_ok l = true).
Proof. intro C. split; [now apply real_total_order_inv|apply real_total_order]. Qed.
Print Assumptions real_comparator_total_order.

(* the matcher: one relational term is the relation on keys (and no match across letter prefixes); a list of
   alternatives is the disjunction *)
Theorem real_matcher_relop v op w :
  conv v = true -> conv w = true ->
  vmatch_real v (relop_text op ++ " "%char :: w) =
  str_eqb (prefix_of w) (prefix_of v) && rel op (key_compare (key v) (key w)).
Proof. apply vmatch_real_relop. Qed.
Print Assumptions real_matcher_relop.

Theorem real_matcher_alternatives v a l :
  conv v = true -> Forall (Proofs.VersionCompareMatch.alt_conv v) (a :: l) ->
  vmatch_real v (print_expr (a :: l)) = existsb (alt_holds v) (a :: l).
Proof. apply vmatch_real_alternatives. Qed.
Print Assumptions real_matcher_alternatives.

(* ------------------------------------------------------------------ the C03 theorems for the real comparator *)

Theorem walk_is_designation_real c db f depth vro rq :
  wf_db db = true -> real_names_ok (names_of db (rq_name rq)) = true ->
  option_map fst (find_from_vro vcmp_real vmatch_real c db None f depth vro rq) =
  designates_in vcmp_real vmatch_real c db (rq_name rq) (classify rq) f vro.
Proof. intros WF OK. apply walk_is_designation; [exact WF|now apply real_total_order]. Qed.
Print Assumptions walk_is_designation_real.

(* the whole resolution, with the guard: inside the domain it never raises and returns the designated product *)
Theorem resolve_is_designation_real c db keep flavors depth vro rq :
  wf_db db = true -> real_names_ok (names_of db (rq_name rq)) = true -> real_domain db rq = true ->
  exists r, resolve_real c db keep None flavors depth vro rq = Ok r /\
            option_map fst r = designates_real c db flavors depth vro rq.
Proof.
  intros WF OK DOM. rewrite (resolve_real_in_domain _ _ _ _ _ _ _ _ DOM).
  apply resolve_is_designation; [exact WF|now apply real_total_order].
Qed.
Print Assumptions resolve_is_designation_real.

Theorem native_flavor_preferred_real c db keep f fs depth vro rq :
  wf_db db = true -> real_names_ok (names_of db (rq_name rq)) = true ->
  (forall p, designates_top vcmp_real vmatch_real c db (rq_name rq) (classify rq) f depth vro = Some p ->
     fd_flavor p = f /\
     exists r, resolve_request vcmp_real vmatch_real c db keep None (f :: fs) depth vro rq = Ok (Some (p, r))) /\
  (designates_top vcmp_real vmatch_real c db (rq_name rq) (classify rq) f depth vro = None ->
     designates_real c db (f :: fs) depth vro rq = designates_real c db fs depth vro rq).
Proof. intros WF OK. apply native_flavor_preferred; [exact WF|now apply real_total_order]. Qed.
Print Assumptions native_flavor_preferred_real.

(* the expression entry, read in the key order of C10: the product chosen for  op w  is declared, its version
   has the letter prefix of w and stands in relation op to w, and no declared version that does so is higher.
   Needs conventional names only - names that spell the same key are allowed (which of them: see below). *)
Theorem expr_highest_real db n op w f p :
  conv_names (names_of db n) = true -> conv w = true ->
  select_latest vcmp_real (find_by_expr vmatch_real db n (relop_text op ++ " "%char :: w) f) = Some p ->
  In p (candidates db n f) /\
  prefix_of (fd_version p) = prefix_of w /\ rel op (key_compare (key (fd_version p)) (key w)) = true /\
  (forall q, In q (candidates db n f) -> prefix_of (fd_version q) = prefix_of w ->
             rel op (key_compare (key (fd_version q)) (key w)) = true ->
             key_compare (key (fd_version q)) (key (fd_version p)) <> Gt).
Proof. apply expr_highest_real_lemma. Qed.
Print Assumptions expr_highest_real.

(* the tag latest: a declaration whose key no declaration exceeds, the first one carrying that name *)
Theorem latest_highest_real db n f p :
  conv_names (names_of db n) = true ->
  find_latest vcmp_real db n f = Some p ->
  In p (candidates db n f) /\
  (forall q, In q (candidates db n f) -> key_compare (key (fd_version q)) (key (fd_version p)) <> Gt) /\
  find (fun q => str_eqb (fd_version q) (fd_version p)) (candidates db n f) = Some p.
Proof. apply latest_highest_real_lemma. Qed.
Print Assumptions latest_highest_real.

(* ------------------------------------------------------------------ names that compare equal *)

(* What the look-ups do when distinct names compare equal, for ANY comparator that is a total preorder on the
   declared names (so for the real one on conventional names).  Antisymmetry is not used.
     latest      the first stack of the path holding a greatest name answers, with the LAST greatest name of
                 its listing (latest_tie);
     expression  the matching names along the path, each at its first appearance; the LAST greatest of that
                 list, at its first declaration (expr_tie) - a later stack wins a tie between spellings.
   Observed on the real code in both look-up modes (harness/c03.py, family versions). *)
Theorem latest_tie_rule vcmp db n f :
  total_preorder_on vcmp (names_of db n) -> find_latest vcmp db n f = latest_tie vcmp db n f.
Proof. apply latest_tie_spec. Qed.
Print Assumptions latest_tie_rule.

Theorem expr_tie_rule vcmp vmatch db n x f :
  total_preorder_on vcmp (names_of db n) ->
  select_latest vcmp (find_by_expr vmatch db n x f) = expr_tie vcmp vmatch db n x f.
Proof. apply expr_tie_spec. Qed.
Print Assumptions expr_tie_rule.

Theorem tie_rules_real db n x f :
  conv_names (names_of db n) = true ->
  find_latest vcmp_real db n f = latest_tie vcmp_real db n f /\
  select_latest vcmp_real (find_by_expr vmatch_real db n x f) = expr_tie vcmp_real vmatch_real db n x f.
Proof. intro C. split; [apply latest_tie_spec|apply expr_tie_spec]; now apply real_preorder. Qed.
Print Assumptions tie_rules_real.

(* the statements of expr_highest and latest_highest above survive without antisymmetry *)
Theorem expr_highest_preorder vcmp vmatch db n x f p :
  total_preorder_on vcmp (names_of db n) ->
  select_latest vcmp (find_by_expr vmatch db n x f) = Some p ->
  In p (candidates db n f) /\ vmatch (fd_version p) x = true /\
  (forall q, In q (candidates db n f) -> vmatch (fd_version q) x = true ->
             vcmp (fd_version q) (fd_version p) <> Gt) /\
  find (fun q => str_eqb (fd_version q) (fd_version p))
       (filter (fun q => vmatch (fd_version q) x) (candidates db n f)) = Some p.
Proof. apply expr_highest_pre. Qed.
Print Assumptions expr_highest_preorder.

Theorem latest_highest_preorder vcmp db n f p :
  total_preorder_on vcmp (names_of db n) ->
  find_latest vcmp db n f = Some p ->
  In p (candidates db n f) /\
  (forall q, In q (candidates db n f) -> vcmp (fd_version q) (fd_version p) <> Gt) /\
  find (fun q => str_eqb (fd_version q) (fd_version p)) (candidates db n f) = Some p.
Proof. apply latest_highest_pre. Qed.
Print Assumptions latest_highest_preorder.

(* ------------------------------------------------------------------ examples with the real comparator *)

(* two stacks; foo in versions 1.0 1.0.1 1.0+1 1.0-rc1 1.9 (s1) and 1.10 1.10-rc1 1.9 v2.0 (s2) *)
Definition rv_s1 : stackv :=
  mkStack (lit "s1")
    [(lit "foo", lit "1.0", lit "Linux64"); (lit "foo", lit "1.0+1", lit "Linux64");
     (lit "foo", lit "1.0-rc1", lit "Linux64"); (lit "foo", lit "1.0.1", lit "Linux64");
     (lit "foo", lit "1.9", lit "Linux64")]
    [(lit "foo", lit "Linux64", lit "current", lit "1.0+1")].
Definition rv_s2 : stackv :=
  mkStack (lit "s2")
    [(lit "foo", lit "1.10", lit "Linux64"); (lit "foo", lit "1.10-rc1", lit "Linux64");
     (lit "foo", lit "1.9", lit "Linux64"); (lit "foo", lit "v2.0", lit "Linux64")]
    [].
Definition rv_db : dbv := [rv_s1; rv_s2].
Definition rv_walk (x : string) : option (found * reason) :=
  find_from_vro vcmp_real vmatch_real ex_cfg rv_db None (lit "Linux64") 1 (ex_vro [] []) (ex_rq (Some (lit x)) None).
Definition rv_found (s v : string) (x : string) : option (found * reason) :=
  Some (mkFound (lit s) (lit "foo") (lit v) (lit "Linux64"), (EVersionExpr, Some (lit x))).
Arguments rv_walk x%string.
Arguments rv_found (s v x)%string.

Example rv_hypotheses :
  wf_db rv_db = true /\ real_names_ok (names_of rv_db (lit "foo")) = true /\
  real_domain rv_db (ex_rq (Some (lit ">= 1.0.1 || == 1.0-rc1")) None) = true /\
  total_order_on vcmp_real (names_of rv_db (lit "foo")).
Proof. split; [reflexivity|]. split; [vm_compute; reflexivity|]. split; [vm_compute; reflexivity|].
       apply real_total_order. vm_compute. reflexivity. Qed.

(* 1.10 is above 1.9 (components are numbers), 1.0.1 above 1.0+1 above 1.0 above 1.0-rc1; v2.0 has another
   letter prefix and never satisfies an expression over plain numbers; the dotted-numeric comparator of
   Model/Resolve.v reads 1.0+1 as 1.01 and answers 1.0 to the third request (last line) *)
Example rv_expressions :
  rv_walk ">= 1.0.1" = rv_found "s2" "1.10" ">= 1.0.1" /\
  rv_walk "< 1.10" = rv_found "s2" "1.10-rc1" "< 1.10" /\
  rv_walk "< 1.0.1" = rv_found "s1" "1.0+1" "< 1.0.1" /\
  rv_walk "<= 1.0" = rv_found "s1" "1.0" "<= 1.0" /\
  rv_walk "< 1.0" = rv_found "s1" "1.0-rc1" "< 1.0" /\
  rv_walk "== 1.9" = rv_found "s1" "1.9" "== 1.9" /\
  rv_walk "> 1.10" = None /\
  rv_walk ">= v1.0" = rv_found "s2" "v2.0" ">= v1.0" /\
  rv_walk "< 1.0-rc1 || == 1.0+1" = rv_found "s1" "1.0+1" "< 1.0-rc1 || == 1.0+1" /\
  option_map fst (find_from_vro vcmp_simple vmatch_simple ex_cfg rv_db None (lit "Linux64") 1 (ex_vro [] [])
                                (ex_rq (Some (lit "< 1.0.1")) None))
  = Some (mkFound (lit "s1") (lit "foo") (lit "1.0") (lit "Linux64")).
Proof. vm_compute. repeat split. Qed.

(* the tag latest over both stacks (in sorting mode the letter prefix v puts v2.0 above every plain number:
   components that are not both numbers compare as strings), and the designation rule on the same requests;
   a declared explicit version is taken by the entry version before versionExpr looks at the bracketed
   expression; an expression that ends in an operator is outside the domain *)
Example rv_latest_and_spec :
  find_latest vcmp_real rv_db (lit "foo") (lit "Linux64")
  = Some (mkFound (lit "s2") (lit "foo") (lit "v2.0") (lit "Linux64")) /\
  designates_in vcmp_real vmatch_real ex_cfg rv_db (lit "foo") (classify (ex_rq (Some (lit "< 1.10")) None))
                (lit "Linux64") (ex_vro [] [])
  = Some (mkFound (lit "s2") (lit "foo") (lit "1.10-rc1") (lit "Linux64")) /\
  resolve_real ex_cfg rv_db false None ex_flavors 1 (ex_vro [] []) (ex_rq (Some (lit "1.0")) (Some (lit ">= 1.0+1")))
  = Ok (Some (mkFound (lit "s1") (lit "foo") (lit "1.0") (lit "Linux64"), Some (EVersion, Some (lit "1.0")))) /\
  resolve_real ex_cfg rv_db false None ex_flavors 1 (ex_vro [] []) (ex_rq (Some (lit "3.0")) (Some (lit ">= 1.0+1")))
  = Ok (Some (mkFound (lit "s2") (lit "foo") (lit "1.10") (lit "Linux64"), Some (EVersionExpr, Some (lit ">= 1.0+1")))) /\
  resolve_real ex_cfg rv_db false None ex_flavors 1 (ex_vro [] []) (ex_rq (Some (lit ">=")) None) = Err Undefined.
Proof. vm_compute. repeat split. Qed.

(* spellings of one key.  s1 lists 1.0 before 1_0, s2 declares 1.00.  The tag latest: the earlier stack wins,
   inside it the later listed 1_0.  An expression: the later stack's 1.00 wins - even for == 1.0, which s1
   declares under that very name.  The designation rule of ResolveSpec (of equally high ones the earliest) names
   1.0 in both cases: walk_is_designation is false of the real comparator without real_names_ok. *)
Definition tie_db : dbv :=
  [mkStack (lit "s1") [(lit "foo", lit "0.9", lit "Linux64"); (lit "foo", lit "1.0", lit "Linux64");
                       (lit "foo", lit "1_0", lit "Linux64")] [];
   mkStack (lit "s2") [(lit "foo", lit "0.5", lit "Linux64"); (lit "foo", lit "1.00", lit "Linux64")] []].

Example walk_is_designation_refuted_ties :
  let rq := ex_rq (Some (lit "== 1.0")) None in
  wf_db tie_db = true /\ conv_names (names_of tie_db (lit "foo")) = true /\
  real_names_ok (names_of tie_db (lit "foo")) = false /\
  option_map fst (find_from_vro vcmp_real vmatch_real ex_cfg tie_db None (lit "Linux64") 1 (ex_vro [] []) rq)
  = Some (mkFound (lit "s2") (lit "foo") (lit "1.00") (lit "Linux64")) /\
  designates_in vcmp_real vmatch_real ex_cfg tie_db (lit "foo") (classify rq) (lit "Linux64") (ex_vro [] [])
  = Some (mkFound (lit "s1") (lit "foo") (lit "1.0") (lit "Linux64")) /\
  find_latest vcmp_real tie_db (lit "foo") (lit "Linux64")
  = Some (mkFound (lit "s1") (lit "foo") (lit "1_0") (lit "Linux64")) /\
  highest vcmp_real (candidates tie_db (lit "foo") (lit "Linux64"))
  = Some (mkFound (lit "s1") (lit "foo") (lit "1.0") (lit "Linux64")) /\
  latest_tie vcmp_real tie_db (lit "foo") (lit "Linux64")
  = Some (mkFound (lit "s1") (lit "foo") (lit "1_0") (lit "Linux64")) /\
  expr_tie vcmp_real vmatch_real tie_db (lit "foo") (lit "== 1.0") (lit "Linux64")
  = Some (mkFound (lit "s2") (lit "foo") (lit "1.00") (lit "Linux64")).
Proof. vm_compute. repeat split. Qed.

(* outside the conventional names the sorting comparison is not transitive (C10: nonconventional_cycle) and the
   model's reading of python's sort - last of the greatest - has no meaning: 2 < 10 < 1a < 2 *)
Example real_comparator_cycle_outside_conv :
  conv_names [lit "2"; lit "10"; lit "1a"] = false /\ forallb accepts [lit "2"; lit "10"; lit "1a"] = true /\
  vcmp_real (lit "2") (lit "10") = Lt /\ vcmp_real (lit "10") (lit "1a") = Lt /\ vcmp_real (lit "1a") (lit "2") = Lt.
Proof. vm_compute. repeat split. Qed.

(* ------------------------------------------------------------------ one stack with sorted listings *)

(* Database.findProducts lists the version files of a product sorted as strings (db_sorted says that of the view).
   vcmp_sorted is the order of C10 refined, among names with one key, by the order of the strings; it is a total order
   on conventional names, whatever they spell.  Over ONE stack with sorted listings the look-ups with the real comparator
   are the look-ups with vcmp_sorted, so the walk is the designation rule read in that order: of 1.0 and 1_0 the
   latter is the higher.  (This is the database view of the composed setup model; Props/C01.v and C02.v use it.) *)
From Eupsv Require Import Proofs.ResolveRealSorted.

Theorem sorted_order_is_total l : conv_names l = true -> total_order_on vcmp_sorted l.
Proof. apply sorted_total_order. Qed.
Print Assumptions sorted_order_is_total.

Theorem walk_is_designation_one_sorted_stack c s f depth vro rq :
  wf_db [s] = true -> db_sorted [s] = true -> (forall n, conv_names (names_of [s] n) = true) ->
  option_map fst (find_from_vro vcmp_real vmatch_real c [s] None f depth vro rq) =
  designates_in vcmp_sorted vmatch_real c [s] (rq_name rq) (classify rq) f vro.
Proof.
  intros WF S C.
  rewrite (find_from_vro_congr vcmp_real vcmp_sorted vmatch_real vmatch_real [s]).
  - apply walk_is_designation; [exact WF|]. apply sorted_total_order, C.
  - intros n f0. apply find_latest_one_stack; [exact S|apply C].
  - intros n x f0. apply expr_one_stack; [exact S|apply C].
Qed.
Print Assumptions walk_is_designation_one_sorted_stack.

Theorem resolve_is_designation_one_sorted_stack c s keep flavors depth vro rq :
  wf_db [s] = true -> db_sorted [s] = true -> (forall n, conv_names (names_of [s] n) = true) ->
  exists r, resolve_request vcmp_real vmatch_real c [s] keep None flavors depth vro rq = Ok r /\
            option_map fst r = designates vcmp_sorted vmatch_real c [s] flavors depth vro rq.
Proof.
  intros WF S C.
  rewrite (resolve_request_congr vcmp_real vcmp_sorted vmatch_real vmatch_real [s]).
  - apply resolve_is_designation; [exact WF|]. apply sorted_total_order, C.
  - intros n f0. apply find_latest_one_stack; [exact S|apply C].
  - intros n x f0. apply expr_one_stack; [exact S|apply C].
Qed.
Print Assumptions resolve_is_designation_one_sorted_stack.

(* inhabited, and why ONE stack: over the two stacks of tie_db the listings are sorted too, the tag latest still agrees
   with the refined order (1_0 of s1), but the expression == 1.0 is answered with 1.00 of s2 where the refined order
   names 1_0 *)
Example sorted_stack_example :
  let s := mkStack (lit "s1") [(lit "foo", lit "0.9", lit "Linux64"); (lit "foo", lit "1.0", lit "Linux64");
                               (lit "foo", lit "1_0", lit "Linux64")] [] in
  wf_db [s] = true /\ db_sorted [s] = true /\ conv_names (names_of [s] (lit "foo")) = true /\
  real_names_ok (names_of [s] (lit "foo")) = false /\
  option_map fst (find_from_vro vcmp_real vmatch_real ex_cfg [s] None (lit "Linux64") 1 (ex_vro [] [])
                                (ex_rq (Some (lit "== 1.0")) None))
  = Some (mkFound (lit "s1") (lit "foo") (lit "1_0") (lit "Linux64")) /\
  designates_in vcmp_sorted vmatch_real ex_cfg [s] (lit "foo") (classify (ex_rq (Some (lit "== 1.0")) None))
                (lit "Linux64") (ex_vro [] [])
  = Some (mkFound (lit "s1") (lit "foo") (lit "1_0") (lit "Linux64")) /\
  db_sorted tie_db = true /\
  highest vcmp_sorted (filter (fun p => vmatch_real (fd_version p) (lit "== 1.0")) (candidates tie_db (lit "foo") (lit "Linux64")))
  = Some (mkFound (lit "s1") (lit "foo") (lit "1_0") (lit "Linux64")) /\
  select_latest vcmp_real (find_by_expr vmatch_real tie_db (lit "foo") (lit "== 1.0") (lit "Linux64"))
  = Some (mkFound (lit "s2") (lit "foo") (lit "1.00") (lit "Linux64")).
Proof. vm_compute. repeat split. Qed.

(* ================================================================== extension: user tags, --vro, LOCAL:, tag files *)

(* Model/ResolveExt.v.  A stack [sx] is a stack of Model/Resolve.v (sx_base) together with the chain entries of the
   user's tag directory for it (sx_user: EUPS_USERDATA/_caches_/stack/product/tag.chain).  A [world] is the stacks, the
   directories that exist and the files that VRO words may name, with their lines.  [find_from_vro_x] /
   [resolve_request_x] are findProductFromVRO / the loops of Eups.setup in such a world - they can raise (a tag file that
   names a version no stack declares, a malformed line); [select_vro_x] is Eups.selectVRO with the words of --vro and
   with file words; [designates_in_x] is the designation rule with the three new clauses.  [flatten c d] are the same
   stacks as Model/Resolve.v sees them when the reachable entries of the user's directories are appended to the chains. *)
From Eupsv Require Import Model.ResolveExt Proofs.ResolveExt.

(* ------------------------------------------------------------------ user tags *)

(* where the assignments of a user tag live: in the user's directory for the stack, unless the stack itself holds a
   chain file of that name for the product; a tag that is not a user tag never reads the user's directory *)
Theorem user_tag_lives_in_user_directory c sx n f t :
  (is_user_tag c t = true -> has_chain_file (st_chain (sx_base sx)) n t = false ->
   chain_version_x c sx n f t = chain_lookup (sx_user sx) n f t) /\
  (is_user_tag c t = false -> chain_version_x c sx n f t = chain_version (sx_base sx) n f t).
Proof. split; [apply chain_version_x_user|apply chain_version_x_global]. Qed.
Print Assumptions user_tag_lives_in_user_directory.

(* a tag entry, user tag or not: the first stack on the path in which the tag names a version whose record exists *)
Theorem user_tag_designation vcmp c d n t f :
  str_eqb t (lit "latest") = false -> str_eqb t (lit "setup") = false ->
  find_tagged_x vcmp c d n t f = tag_designates_x c d n t f.
Proof. intros L S. unfold find_tagged_x. rewrite L, S. apply find_chain_tagged_x_spec. Qed.
Print Assumptions user_tag_designation.

Theorem user_tag_first_stack_wins c d1 sx d2 n t v f :
  (forall s' v', In s' d1 -> chain_version_x c s' n f t = Some v' -> declared (sx_base s') n v' f = false) ->
  chain_version_x c sx n f t = Some v -> declared (sx_base sx) n v f = true ->
  find_chain_tagged_x c (d1 ++ sx :: d2) n t f = Some (found_in (sx_base sx) n v f).
Proof. apply find_chain_tagged_x_first. Qed.
Print Assumptions user_tag_first_stack_wins.

(* user tags are chain entries: in a world of stacks only (no tag file, no directory) the extended walk and the extended
   resolution are those of Model/Resolve.v over the flattened stacks - for every earlier choice, depth and VRO; and the
   tag rule of Model/ResolveSpec.v over the flattened stacks is the rule with the user's directories *)
Theorem user_tags_are_chain_entries vcmp vmatch c d keep prev f flavors depth vro rq :
  find_from_vro_x vcmp vmatch c (plain_world d) prev f depth vro rq =
    Ok (find_from_vro vcmp vmatch c (flatten c d) prev f depth vro rq) /\
  resolve_request_x vcmp vmatch c (plain_world d) keep prev flavors depth vro rq =
    resolve_request vcmp vmatch c (flatten c d) keep prev flavors depth vro rq /\
  (forall n t, tag_designates (flatten c d) n t f = tag_designates_x c d n t f) /\
  (wf_dbx d = true -> wf_db (flatten c d) = true) /\
  names_of (flatten c d) (rq_name rq) = names_of (base_db d) (rq_name rq).
Proof.
  split; [apply find_from_vro_plain|]. split; [apply resolve_plain|]. split; [intros; apply tag_designates_flat|].
  split; [apply wf_flatten|apply names_of_flat].
Qed.
Print Assumptions user_tags_are_chain_entries.

(* so every theorem above holds with user tags; the two most used, restated: the resolution of Eups.setup returns what
   the designation rule names, and a user tag given with -t decides whatever version a table names *)
Theorem resolve_is_designation_user_tags vcmp vmatch c d keep flavors depth vro rq :
  wf_dbx d = true -> total_order_on vcmp (names_of (base_db d) (rq_name rq)) ->
  exists r, resolve_request_x vcmp vmatch c (plain_world d) keep None flavors depth vro rq = Ok r /\
            option_map fst r = designates vcmp vmatch c (flatten c d) flavors depth vro rq.
Proof.
  intros WF HT. rewrite resolve_plain. apply resolve_is_designation; [now apply wf_flatten|now rewrite names_of_flat].
Qed.
Print Assumptions resolve_is_designation_user_tags.

Theorem user_pretag_overrides vcmp vmatch c d f depth pre t rest rq p :
  wf_dbx d = true -> forallb is_inert pre = true ->
  recognized c t = true -> str_eqb t (lit "latest") = false -> str_eqb t (lit "setup") = false ->
  tag_designates_x c d (rq_name rq) t f = Some p ->
  find_from_vro_x vcmp vmatch c (plain_world d) None f depth (pre ++ ETag t :: rest) rq = Ok (Some (p, (ETag t, None))).
Proof.
  intros WF HI R L S T. rewrite find_from_vro_plain. f_equal.
  apply pretag_overrides; auto; [now apply wf_flatten|now rewrite tag_designates_flat].
Qed.
Print Assumptions user_pretag_overrides.

(* ------------------------------------------------------------------ the extended walk is the extended designation *)

(* every world: user tags, tag files, LOCAL: versions.  Hypotheses: well-formed stacks (as before, and no chain file
   named keep in the user's directories), the comparator a total order on the declared names of the product, no file is
   called keep, and a relational request does not begin with LOCAL:.  Errors are part of the statement: the walk raises
   exactly when the rule says the VRO cannot be read (a tag file that lists the product with a version no stack declares,
   or a malformed line in front of the product's line). *)
Theorem walk_x_is_designation vcmp vmatch c w f depth vro rq :
  wf_dbx (w_db w) = true -> total_order_on vcmp (names_of (base_db (w_db w)) (rq_name rq)) ->
  is_file (w_files w) (lit "keep") = false ->
  (forall v, Resolve.truthy (rq_version rq) = Some v -> Resolve.is_expr v = true -> is_local v = false) ->
  res_map (option_map fst) (find_from_vro_x vcmp vmatch c w None f depth vro rq) =
  designates_in_x vcmp vmatch c w (rq_name rq) (classify rq) f vro.
Proof. intros WF HT NK NL. now apply walk_x_designates. Qed.
Print Assumptions walk_x_is_designation.

(* ------------------------------------------------------------------ tag files *)

(* a tag file in front of the version entries (only commandLine, path, warn entries before it) that lists the product
   with a declared version decides, whatever version or expression the request names: -t file overrides table versions *)
Theorem tagfile_overrides_versions vcmp vmatch c w rq f depth pre t lines v rest p :
  forallb is_inert_x pre = true ->
  alookup t (w_files w) = Some lines -> tf_lookup lines (rq_name rq) = Ok (Some v) -> Resolve.is_expr v = false ->
  version_designates (base_db (w_db w)) (rq_name rq) v f = Some p ->
  find_from_vro_x vcmp vmatch c w None f depth (pre ++ ETag t :: rest) rq = Ok (Some (p, (ETag t, None))).
Proof. apply tagfile_hit. Qed.
Print Assumptions tagfile_overrides_versions.

(* a tag file that lists the product with a version that no stack declares (for the flavor tried) never falls through
   to the entries after it: the walk raises.  A file that does not list the product is passed over. *)
Theorem tagfile_never_falls_through vcmp vmatch c w rq f depth pre t lines rest :
  forallb is_inert_x pre = true -> alookup t (w_files w) = Some lines ->
  (forall v, tf_lookup lines (rq_name rq) = Ok (Some v) -> Resolve.is_expr v = false -> is_local v = false ->
     version_designates (base_db (w_db w)) (rq_name rq) v f = None ->
     find_from_vro_x vcmp vmatch c w None f depth (pre ++ ETag t :: rest) rq = Err Crash) /\
  (tf_lookup lines (rq_name rq) = Ok None ->
     vro_loop_x vcmp vmatch c w None rq f depth (ETag t :: rest) = vro_loop_x vcmp vmatch c w None rq f depth rest).
Proof.
  intros HI HF. split.
  - intros v HL HE HLo HV. eapply tagfile_miss_raises; eauto.
  - intro HL. eapply tagfile_silent_passes; eauto.
Qed.
Print Assumptions tagfile_never_falls_through.

(* ------------------------------------------------------------------ LOCAL: versions *)

(* a dependency that names LOCAL:dir, declared in no stack: answered from the directory when it exists, with the reason
   path from version; when it does not exist the request fails like any other named version (nothing after the last
   version-like entry is consulted) *)
Theorem local_version_designated vcmp vmatch c w rq f d pre v post :
  forallb is_inert_x pre = true ->
  Resolve.truthy (rq_version rq) = Some v -> Resolve.is_expr v = false -> is_local v = true ->
  version_designates (base_db (w_db w)) (rq_name rq) v f = None ->
  (mem_str (local_dir v) (w_dirs w) = true ->
   find_from_vro_x vcmp vmatch c w None f (S d) (pre ++ EVersion :: post) rq =
   Ok (Some (local_found (rq_name rq) v, (ETag (lit "path from version"), Some v)))) /\
  (mem_str (local_dir v) (w_dirs w) = false -> existsb is_version_like post = false ->
   find_from_vro_x vcmp vmatch c w None f (S d) (pre ++ EVersion :: post) rq = Ok None).
Proof.
  intros HI TV HE HL HV. split.
  - intro HD. now apply local_version_walk.
  - intros HD HP. now apply (local_missing_fails vcmp vmatch c w rq f (S d) pre v post).
Qed.
Print Assumptions local_version_designated.

(* ------------------------------------------------------------------ an explicit VRO *)

(* --vro and -t exclude each other; -T needs a version-like entry in the words of --vro to be placed after (the code
   raises UnboundLocalError otherwise) *)
Theorem explicit_vro_refuses_tags c files o w0 ws t ts :
  o_tags o = t :: ts -> select_vro_x c files o (Some (w0 :: ws)) = Err Crash.
Proof. apply select_vro_x_refuses_tags. Qed.
Print Assumptions explicit_vro_refuses_tags.

Theorem explicit_vro_posttags_need_version_entry c files o w0 ws :
  o_tags o = [] -> o_posttags o <> [] ->
  existsb is_version_like (map parse_entry (w0 :: ws)) = false ->
  select_vro_x c files o (Some (w0 :: ws)) = Err Crash.
Proof. apply select_vro_x_posttag_crash. Qed.
Print Assumptions explicit_vro_posttags_need_version_entry.

(* ------------------------------------------------------------------ --exact and what was named with -t *)

(* makeVroExact as repaired (proposed_fixes/C03-exact-keeps-tagfile.diff): the entries that stay are the VRO without
   the movable ones, in their order, and nothing that was named with -t - registered tag or tag file, written plain or as
   file:name - is among the moved ones *)
Definition stays (c : config) (cmd : list str) (v : entry) : bool :=
  (mem_str (entry_base v) cmd || mem_str (entry_str v) cmd) ||
  negb (negb (recognized c (entry_base v)) || global_or_user c (entry_base v)).

Theorem exact_keeps_commandline_words c cmd l kept moved b :
  exact_split_x c cmd l [] [] false = (kept, moved, b) ->
  kept = filter (stays c cmd) l /\
  (forall v, In v moved -> mem_str (entry_str v) cmd = false /\ mem_str (entry_base v) cmd = false).
Proof.
  intro E. destruct (exact_split_x_keeps c cmd l [] [] false kept moved b E) as [K1 K2]; [intros ? []|].
  split; [exact K2|exact K1].
Qed.
Print Assumptions exact_keeps_commandline_words.

(* ------------------------------------------------------------------ examples for the extension *)

Definition xs1 : stackx :=
  mkStackx (mkStack (lit "s1") [(lit "foo", lit "1.0", lit "Linux64"); (lit "foo", lit "2.0", lit "Linux64")]
                    [(lit "foo", lit "Linux64", lit "current", lit "2.0")])
           [(lit "foo", lit "Linux64", lit "ut2", lit "1.0"); (lit "foo", lit "Linux64", lit "mine", lit "3.0")].
Definition xs2 : stackx :=
  mkStackx (mkStack (lit "s2") [(lit "foo", lit "1.0", lit "Linux64"); (lit "foo", lit "1.1", lit "Linux64")]
                    [(lit "foo", lit "Linux64", lit "current", lit "1.0")])
           [(lit "foo", lit "Linux64", lit "mine", lit "1.1"); (lit "foo", lit "Linux64", lit "ut2", lit "1.1")].
Definition x_cfg : config := site_config [lit "beta"] [lit "root"; lit "mine"; lit "ut2"].
Definition x_files : list (str * list str) :=
  [(lit "/t/tf1", [lit "# release"; lit "| bar 1.0"; lit "  foo   1.1  and more"]);
   (lit "/t/tf2", [lit "foo 7.7"]); (lit "/t/tf3", [lit "bar 1.0"; lit "lonely"; lit "foo 1.0"])].
Definition x_world : world := mkWorld [xs1; xs2] [lit "/t/ld1"] x_files.
Definition x_opts (exact : bool) (ts ps : list str) : opts := mkOpts false exact false ts ps false false.
Definition x_vro (exact : bool) (ts ps : list str) (u : option (list str)) : list entry :=
  match select_vro_x x_cfg x_files (x_opts exact ts ps) u with Ok v => v | Err _ => [] end.
Definition x_walk (vro : list entry) (v : option str) :=
  find_from_vro_x vcmp_simple vmatch_simple x_cfg x_world None (lit "Linux64") 1 vro (ex_rq v None).
Definition x_found (s v : string) (e : entry) : res (option (found * reason)) :=
  Ok (Some (mkFound (lit s) (lit "foo") (lit v) (lit "Linux64"), (e, None))).
Arguments x_found (s v)%string e.

Example x_hypotheses :
  wf_dbx (w_db x_world) = true /\ total_order_on vcmp_simple (names_of (base_db (w_db x_world)) (lit "foo")) /\
  is_file (w_files x_world) (lit "keep") = false.
Proof. split; [reflexivity|]. split; [|reflexivity]. apply total_orderb_sound. vm_compute. reflexivity. Qed.

(* -t mine: the chain of the user's directory for s1 is dangling (3.0), so s2 answers; it overrides the table version
   1.0; -t ut2: s1 answers; -T mine applies only without a version; an undeclared version fails although mine matches *)
Example x_user_tags :
  x_walk (x_vro false [lit "mine"] [] None) None = x_found "s2" "1.1" (ETag (lit "mine")) /\
  x_walk (x_vro false [lit "mine"] [] None) (Some (lit "1.0")) = x_found "s2" "1.1" (ETag (lit "mine")) /\
  x_walk (x_vro false [lit "ut2"] [] None) None = x_found "s1" "1.0" (ETag (lit "ut2")) /\
  x_walk (x_vro false [] [lit "mine"] None) None = x_found "s2" "1.1" (ETag (lit "mine")) /\
  x_walk (x_vro false [] [lit "mine"] None) (Some (lit "5.0")) = Ok None /\
  x_vro false [lit "mine"] [] None =
    [EType (lit "exact"); ECommandLine; ETag (lit "mine"); EVersion; EVersionExpr; ETag (lit "current")].
Proof. vm_compute. repeat split. Qed.

(* an explicit VRO: read as written (keep, duplicates, warnings and unknown words aside); -t refused; -T after the last
   version-like entry, or an error when there is none *)
Example x_explicit_vro :
  x_vro false [] [] (Some [lit "mine"; lit "version"; lit "versionExpr"; lit "current"]) =
    [ETag (lit "mine"); EVersion; EVersionExpr; ETag (lit "current")] /\
  x_vro false [] [lit "beta"] (Some [lit "version!"; lit "mine"; lit "current"; lit "warn"; lit "version"; lit "warn:3"]) =
    [EVersionBang; ETag (lit "mine"); ETag (lit "current"); EWarn 1; EVersion; ETag (lit "beta"); EWarn 3] /\
  select_vro_x x_cfg x_files (x_opts false [lit "beta"] []) (Some [lit "mine"; lit "current"]) = Err Crash /\
  select_vro_x x_cfg x_files (x_opts false [] [lit "beta"]) (Some [lit "mine"; lit "current"]) = Err Crash /\
  x_vro false [] [] (Some [lit "bogus"; lit "current"; lit "type:exact"; lit "warn:2"]) = [ETag (lit "current")] /\
  x_walk (x_vro false [] [] (Some [lit "version!"; lit "mine"; lit "current"])) (Some (lit "5.0")) = Ok None.
Proof. vm_compute. repeat split. Qed.

(* tag files: -t file and -t file:name put the file name in front of the version entries; the file decides against a
   table version; a file that lists an undeclared version raises, also as a -T word; a malformed line in front of the
   product's line raises; selectVRO itself raises on such a file (its closing walk for the empty name reads it) *)
Example x_tag_files :
  x_vro false [lit "file:/t/tf1"] [] None =
    [EType (lit "exact"); ECommandLine; ETag (lit "/t/tf1"); EVersion; EVersionExpr; ETag (lit "current")] /\
  x_walk (x_vro false [lit "/t/tf1"] [] None) (Some (lit "1.0")) = x_found "s2" "1.1" (ETag (lit "/t/tf1")) /\
  x_walk (x_vro false [lit "/t/tf2"] [] None) None = Err Crash /\
  x_walk (x_vro false [] [lit "/t/tf2"] None) None = Err Crash /\
  x_walk (x_vro false [] [lit "/t/tf2"] None) (Some (lit "1.0")) =
    Ok (Some (mkFound (lit "s1") (lit "foo") (lit "1.0") (lit "Linux64"), (EVersion, Some (lit "1.0")))) /\
  x_walk (x_vro false [lit "/t/tf3"] [] None) None = Err Crash /\
  select_vro_w vcmp_simple vmatch_simple x_cfg x_world (x_opts false [lit "/t/tf3"] []) None (lit "Linux64") = Err Crash /\
  tf_lookup [lit "# release"; lit "| bar 1.0"; lit "  foo   1.1  and more"] (lit "foo") = Ok (Some (lit "1.1")).
Proof. vm_compute. repeat split. Qed.

(* LOCAL: versions *)
Example x_local :
  x_walk (x_vro false [] [] None) (Some (lit "LOCAL:/t/ld1")) =
    Ok (Some (local_found (lit "foo") (lit "LOCAL:/t/ld1"), (ETag (lit "path from version"), Some (lit "LOCAL:/t/ld1")))) /\
  x_walk (x_vro false [] [] None) (Some (lit "LOCAL:/t/nodir")) = Ok None /\
  designates_in_x vcmp_simple vmatch_simple x_cfg x_world (lit "foo") (classify (ex_rq (Some (lit "LOCAL:/t/ld1")) None))
                  (lit "Linux64") (x_vro false [] [] None) = Ok (Some (local_found (lit "foo") (lit "LOCAL:/t/ld1"))).
Proof. vm_compute. repeat split. Qed.

(* the defect repaired by proposed_fixes/C03-exact-keeps-tagfile.diff, as it was: with --exact the pinned makeVroExact
   (make_exact of Model/Resolve.v) moved a tag file given with -t behind the version entries, so the version 1.0 of a
   table won over the file; a registered tag given with -t stayed in front.  The repaired one keeps both. *)
Example exact_tagfile_refuted_pinned :
  let v4 := [EType (lit "exact"); ECommandLine; ETag (lit "/t/tf1"); EVersion; EVersionExpr; ETag (lit "current")] in
  make_exact x_cfg [lit "/t/tf1"] v4 =
    [EType (lit "exact"); ECommandLine; EVersion; EVersionExpr; EWarn 1; ETag (lit "/t/tf1"); ETag (lit "current")] /\
  x_walk (make_exact x_cfg [lit "/t/tf1"] v4) (Some (lit "1.0")) =
    Ok (Some (mkFound (lit "s1") (lit "foo") (lit "1.0") (lit "Linux64"), (EVersion, Some (lit "1.0")))) /\
  make_exact_x x_cfg [lit "/t/tf1"] v4 =
    [EType (lit "exact"); ECommandLine; ETag (lit "/t/tf1"); EVersion; EVersionExpr; ETag (lit "current")] /\
  x_vro true [lit "/t/tf1"] [] None =
    [EType (lit "exact"); ECommandLine; ETag (lit "/t/tf1"); EVersion; EVersionExpr; ETag (lit "current")] /\
  x_walk (x_vro true [lit "/t/tf1"] [] None) (Some (lit "1.0")) = x_found "s2" "1.1" (ETag (lit "/t/tf1")) /\
  make_exact x_cfg [lit "mine"] [EType (lit "exact"); ECommandLine; ETag (lit "mine"); EVersion; ETag (lit "current")] =
    [EType (lit "exact"); ECommandLine; ETag (lit "mine"); EVersion; ETag (lit "current")].
Proof. vm_compute. repeat split. Qed.

(* ================================================================== histories: one long-lived instance *)
(* The database changes between two resolutions put to ONE Eups instance, and it changes through that instance:
   Eups.assignTag / unassignTag / declare / undeclare (Model/ResolveSeq.v gives their effect on the database view, for
   the flavor of the instance).  The property speaks of the database as it is when the question is asked: whatever an
   instance remembers from earlier calls (the product cache, memos) must be invisible.  In the model this is a triviality
   - the resolver has no other argument than the view - and that is the point: the correspondence check puts histories
   resolve / change / resolve to one real instance (cache on and off) and compares every answer with the model run on
   the view current at that step, so any memo of the code that survives a change shows as a difference. *)

From Eupsv Require Import Model.ResolveSeq Proofs.ResolveSeq.

(* resolution depends on nothing but the current database view and the request: two histories (from any two initial
   databases) that lead to the same view get the same answer to every question - findProductFromVRO, findTaggedProduct,
   findProduct of a version, the resolution of setup *)
Theorem resolution_is_a_function_of_the_view vcmp vmatch c flavors vro db1 ms1 db2 ms2 q :
  view_after flavors db1 ms1 = view_after flavors db2 ms2 ->
  answer_on vcmp vmatch c flavors vro (view_after flavors db1 ms1) q =
  answer_on vcmp vmatch c flavors vro (view_after flavors db2 ms2) q.
Proof. intros E. now rewrite E. Qed.
Print Assumptions resolution_is_a_function_of_the_view.

(* the answer an instance gives after a history of questions and changes is the resolver's answer on the view the
   changes lead to; the questions asked before leave no trace *)
Theorem history_answer_is_on_the_current_view vcmp vmatch c flavors vro db h q :
  run_history vcmp vmatch c flavors vro db (h ++ [Ask q]) =
  run_history vcmp vmatch c flavors vro db h ++
  [answer_on vcmp vmatch c flavors vro (view_after flavors db (changes_of h)) q].
Proof. apply history_last_answer. Qed.
Print Assumptions history_answer_is_on_the_current_view.

(* the changes keep the hypothesis of the designation theorems: no declared version name is an expression, no chain file
   is called keep (declare refuses neither by itself: wf_mut asks it of the arguments) *)
Theorem changes_keep_wellformed flavors db ms :
  forallb wf_mut ms = true -> wf_db db = true -> wf_db (view_after flavors db ms) = true.
Proof. apply wf_view_after. Qed.
Print Assumptions changes_keep_wellformed.

(* so after any history the product returned by the walk is the one the designation rule names FOR THE DATABASE AS IT IS
   NOW *)
Theorem history_walk_is_designation vcmp vmatch c flavors vro db h f depth rq :
  let now := view_after flavors db (changes_of h) in
  wf_db db = true -> forallb wf_mut (changes_of h) = true ->
  total_order_on vcmp (names_of now (rq_name rq)) ->
  exists r, last (run_history vcmp vmatch c flavors vro db (h ++ [Ask (QWalk f depth rq)])) (AFound None) = AWalk r /\
            option_map fst r = designates_in vcmp vmatch c now (rq_name rq) (classify rq) f vro.
Proof.
  intros now W M T. rewrite history_last_answer, last_last. cbn [answer_on]. eexists. split; [reflexivity|].
  apply walk_designates; [|exact T]. now apply wf_view_after.
Qed.
Print Assumptions history_walk_is_designation.

(* assignTag(tag, product, version) without naming a stack writes the tag in the first stack declaring the version; when
   no earlier stack carries the tag, that stack is from now on the first that has it, whatever the later stacks carry -
   in particular when the tag was present only in a later stack before *)
Theorem assign_makes_first_stack_win vcmp flavors db1 s db2 t n v :
  let f := hd_flavor flavors in
  str_eqb t (lit "latest") = false -> str_eqb t (lit "setup") = false ->
  (forall s', In s' db1 -> declared s' n v f = false) -> declared s n v f = true ->
  (forall s', In s' db1 -> carries s' n f t = false) ->
  find_tagged vcmp (apply_mut flavors (db1 ++ s :: db2) (MAssign t n v None)) n t f = Some (found_in s n v f).
Proof.
  intros f L S H1 Hs HC. unfold find_tagged. rewrite L, S.
  now apply (assign_first_stack flavors db1 s db2 t n v).
Qed.
Print Assumptions assign_makes_first_stack_win.

(* unassignTag(tag, product): the first stack that carries the tag loses it, and the tag entry then yields what the
   stacks after it designate *)
Theorem unassign_uncovers_later_stacks vcmp flavors db1 s db2 t n :
  let f := hd_flavor flavors in
  str_eqb t (lit "latest") = false -> str_eqb t (lit "setup") = false ->
  (forall s', In s' db1 -> carries s' n f t = false) -> carries s n f t = true ->
  find_tagged vcmp (apply_mut flavors (db1 ++ s :: db2) (MUnassign t n None None)) n t f = find_tagged vcmp db2 n t f.
Proof.
  intros f L S HC Hs. unfold find_tagged. rewrite L, S.
  now apply (unassign_first_carrier flavors db1 s db2 t n).
Qed.
Print Assumptions unassign_uncovers_later_stacks.

(* undeclare(product, version): the first stack declaring the version loses it; a version entry then yields the next
   declaration on the path *)
Theorem undeclare_uncovers_later_stacks flavors db1 s db2 n v :
  let f := hd_flavor flavors in
  (forall s', In s' db1 -> declared s' n v f = false) -> declared s n v f = true ->
  find_version (apply_mut flavors (db1 ++ s :: db2) (MUndeclare n v None)) n v f = find_version db2 n v f.
Proof. apply undeclare_first_stack. Qed.
Print Assumptions undeclare_uncovers_later_stacks.

(* declare(product, version, stack, tag=t): the tag leaves every other stack in which it named an existing version, so
   the version just declared is the one the tag designates *)
Theorem declare_with_tag_moves_the_tag vcmp flavors db i n v t :
  let f := hd_flavor flavors in
  str_eqb t (lit "latest") = false -> str_eqb t (lit "setup") = false ->
  (exists s, In s db /\ st_id s = i) ->
  (forall s1 s2, In s1 db -> In s2 db -> st_id s1 = i -> st_id s2 = i -> s1 = s2) ->
  exists s, In s db /\ st_id s = i /\
  find_tagged vcmp (apply_mut flavors db (MDeclare n v i (Some t))) n t f = Some (found_in s n v f).
Proof.
  intros f L S E U. unfold find_tagged. rewrite L, S. now apply declare_moves_tag.
Qed.
Print Assumptions declare_with_tag_moves_the_tag.

(* the circumstance as a history: beta is assigned in the second stack only; the instance is asked (-t beta), tags foo
   2.0 beta without naming a stack, and is asked again: first s2's 1.1, then s1's 2.0; after unassigning it s2's again;
   after undeclaring s2's 1.1 beta is gone with it and the walk reaches current *)
Definition h_s1 : stackv :=
  mkStack (lit "s1") [(lit "foo", lit "1.0", lit "Linux64"); (lit "foo", lit "2.0", lit "Linux64")]
          [(lit "foo", lit "Linux64", lit "current", lit "1.0")].
Definition h_s2 : stackv :=
  mkStack (lit "s2") [(lit "foo", lit "1.1", lit "Linux64")] [(lit "foo", lit "Linux64", lit "beta", lit "1.1")].
Definition h_ask : event := Ask (QWalk (lit "Linux64") 1 (ex_rq None None)).
Definition h_found (s v t : string) : answer :=
  AWalk (Some (mkFound (lit s) (lit "foo") (lit v) (lit "Linux64"), (ETag (lit t), None))).
Arguments h_found (s v t)%string.

Example history_example :
  run_history vcmp_simple vmatch_simple ex_cfg ex_flavors (ex_vro [lit "beta"] []) [h_s1; h_s2]
    [h_ask; Change (MAssign (lit "beta") (lit "foo") (lit "2.0") None); h_ask;
     Change (MUnassign (lit "beta") (lit "foo") None None); h_ask;
     Change (MUndeclare (lit "foo") (lit "1.1") None); h_ask;
     Change (MDeclare (lit "foo") (lit "3.0") (lit "s2") (Some (lit "current"))); h_ask] =
  [h_found "s2" "1.1" "beta"; h_found "s1" "2.0" "beta"; h_found "s2" "1.1" "beta"; h_found "s1" "1.0" "current";
   h_found "s2" "3.0" "current"] /\
  wf_db [h_s1; h_s2] = true.
Proof. vm_compute. split; reflexivity. Qed.

(* ================================================================== sessions: several live instances *)
(* One process holds several Eups objects of DIFFERENT flavors (a look at what is declared for another platform next to
   the native one).  The flavors an instance may look at - its own, then the configured fallbacks - belong to that
   instance (Model/ResolveSeq.v, Section Sessions): in the code they come from utils.Flavor.getFallbackFlavors, whose
   table is shared by every instance of the process.  For the model the statements are immediate; the correspondence
   check (harness/c03multi.py) builds the instances in every order, asks each before and after the others exist, through
   the cache and through the files, and compares every answer with the model run on the view and the asked instance's own
   flavor list. *)

(* the answers an instance gives in a session are those it gives when it is the only instance of the process: which
   other instances exist, of which flavors, when they were built and what they were asked does not matter *)
Theorem instances_do_not_interfere vcmp vmatch c insts db h k i :
  nth_error insts k = Some i ->
  answers_to k (run_session vcmp vmatch c insts db h) =
  run_history vcmp vmatch c (i_flavors i) (i_vro i) db (map Ask (asks_of k h)).
Proof. intros H. now apply session_is_own_history. Qed.
Print Assumptions instances_do_not_interfere.

(* the answer after any session is a function of the view, the question and the asked instance's own flavors and VRO *)
Theorem session_answer_is_own vcmp vmatch c insts db h k i q :
  nth_error insts k = Some i ->
  run_session vcmp vmatch c insts db (h ++ [SAsk k q]) =
  run_session vcmp vmatch c insts db h ++ [(k, answer_on vcmp vmatch c (i_flavors i) (i_vro i) db q)].
Proof. intros H. rewrite run_session_app. cbn [run_session]. now rewrite H. Qed.
Print Assumptions session_answer_is_own.

(* a declaration for a foreign flavor is never chosen: the product a resolution returns is declared for one of the
   flavors of the list it was given - the native flavor or one of its fallbacks *)
Theorem foreign_flavor_never_chosen vcmp vmatch c db keep flavors depth vro rq p r :
  wf_db db = true -> total_order_on vcmp (names_of db (rq_name rq)) ->
  resolve_request vcmp vmatch c db keep None flavors depth vro rq = Ok (Some (p, r)) ->
  In (fd_flavor p) flavors.
Proof.
  intros WF HT H. destruct (resolve_designates vcmp vmatch c db keep flavors depth vro rq WF HT) as [x [E D]].
  rewrite H in E. injection E as <-. cbn [option_map fst] in D. symmetry in D. unfold designates in D.
  apply first_some_in in D as [f [I G]]. apply designates_top_flavor in G as [G _]. now rewrite G.
Qed.
Print Assumptions foreign_flavor_never_chosen.

(* in a session: whatever instances of other flavors are alive, a setup through instance k chooses a product of k's own
   flavor list *)
Corollary session_setup_stays_in_own_flavors vcmp vmatch c insts db h k i keep depth rq p r :
  nth_error insts k = Some i ->
  wf_db db = true -> total_order_on vcmp (names_of db (rq_name rq)) ->
  last (run_session vcmp vmatch c insts db (h ++ [SAsk k (QSetup keep depth rq)])) (k, AFound None) =
    (k, ASetup (Ok (Some (p, r)))) ->
  In (fd_flavor p) (i_flavors i).
Proof.
  intros H WF HT. rewrite (session_answer_is_own vcmp vmatch c insts db h k i _ H), last_last. cbn [answer_on].
  intro E. injection E as E. eapply foreign_flavor_never_chosen; eauto.
Qed.
Print Assumptions session_setup_stays_in_own_flavors.

(* the circumstance: foo 2.0 is declared for DarwinX86 in s1, foo 1.0 for generic in s2, both current.  An instance for
   Linux64 and one for DarwinX86 live side by side: the first is given s2's generic 1.0 - before and after the second is
   built and asked - the second s1's 2.0 *)
Definition ss_got (s v f : string) : answer :=
  ASetup (Ok (Some (mkFound (lit s) (lit "foo") (lit v) (lit f), Some (ETag (lit "current"), None)))).
Arguments ss_got (s v f)%string.

Example session_example :
  let s1 := mkStack (lit "s1") [(lit "foo", lit "2.0", lit "DarwinX86")] [(lit "foo", lit "DarwinX86", lit "current", lit "2.0")] in
  let s2 := mkStack (lit "s2") [(lit "foo", lit "1.0", lit "generic")] [(lit "foo", lit "generic", lit "current", lit "1.0")] in
  let a := mkInst [lit "Linux64"; lit "generic"] (ex_vro [] []) in
  let b := mkInst [lit "DarwinX86"; lit "generic"] (ex_vro [] []) in
  let ask := QSetup false 1 (ex_rq None None) in
  run_session vcmp_simple vmatch_simple ex_cfg [a; b] [s1; s2]
    [SBuild 0; SAsk 0 ask; SBuild 1; SAsk 1 ask; SAsk 0 ask] =
  [(0, ss_got "s2" "1.0" "generic"); (1, ss_got "s1" "2.0" "DarwinX86"); (0, ss_got "s2" "1.0" "generic")].
Proof. vm_compute. reflexivity. Qed.
