(* C04 - Setup changes only what it was asked to (keep, just, max-depth, bystanders).
   Model/Setup.v; the version resolver is abstract (a stream of decisions), so every statement holds for
   every resolver.  [touches b name k]: product name k is reachable from name through at most b levels of
   setupRequired/setupOptional lines of ANY declared version (this covers the tables of versions that the
   request replaces); b = levels depth just is what --just / --max-depth leave at that depth. *)
From Eupsv Require Import Base.Base Base.BaseLemmas Model.PathAlg Proofs.PathAlg Model.Setup Proofs.SetupFrame.
From Eupsv Require Import Model.Resolve.
From Coq Require Import Lia.

(* the frame theorem: a call of setup (forward or unsetup, at any depth, with any decisions) changes
   - no variable that is neither a path variable nor owned by a product name it touches,
   - in every path variable, nothing about the elements that no touched product contributes: the
     duplicate-free list of the elements selected by any mask that rejects the touched products'
     elements is the same before and after (presence and relative order of bystanders' elements),
   - no alias that no touched product defines (also when the call fails),
   and leaves the path variables free of dollar references. *)
Theorem setup_changes_only_what_it_reaches w cfg dl fuel :
  WF w dl -> fn_ok w cfg dl (setup w cfg fuel).
Proof. intro H. exact (setup_frame w cfg dl H fuel). Qed.
Print Assumptions setup_changes_only_what_it_reaches.

(* --just (and --max-depth 0): only the requested product itself is touched *)
Theorem just_touches_only_the_product w n k : touches w (Some 0) n k -> k = n.
Proof.
  intro H. inversion H as [|b n' m k' Hp He Ht]; subst; [reflexivity|]. simpl in Hp. lia.
Qed.
Print Assumptions just_touches_only_the_product.

(* --max-depth N: a touched product lies within N dependency edges of the requested one *)
Inductive within (w : world) : nat -> str -> str -> Prop :=
| within_self j n : within w j n n
| within_step j n m k : dep_edge w n m -> within w j m k -> within w (S j) n k.

Theorem max_depth_bounds_reach w N n k : touches w (Some N) n k -> within w N n k.
Proof.
  revert n k. induction N as [|N IH]; intros n k H.
  - apply just_touches_only_the_product in H. subst. constructor.
  - inversion H as [|b n' m k' Hp He Ht]; subst; [constructor|].
    apply (within_step w N n m k He). apply IH. exact Ht.
Qed.
Print Assumptions max_depth_bounds_reach.

(* the budget at the top level *)
Theorem top_level_budget cfg just :
  levels cfg 0 just = if just then Some 0 else
                      match c_max_depth cfg with None => None | Some m => Some m end.
Proof. unfold levels. destruct just; [reflexivity|]. destruct (c_max_depth cfg); [now rewrite Nat.sub_0_r|reflexivity]. Qed.
Print Assumptions top_level_budget.

(* bystanders: the setup record, directory variable and every other variable of a product that is not
   touched are exactly as before, whatever the request did *)
Theorem bystanders_untouched w cfg dl fuel st ds name fwd just ok st' ds' k :
  WF w dl -> nodollar_paths w (s_env st) ->
  setup w cfg fuel st ds name fwd 0 just = RDone ok st' ds' ->
  ~ path_var w k -> (forall n, touches w (levels cfg 0 just) name n -> ~ own_var w n k) ->
  alookup k (s_env st') = alookup k (s_env st).
Proof.
  intros Hwf Hnd Hrun Hk Hown.
  pose proof (setup_frame w cfg dl Hwf fuel st ds name fwd 0 just Hnd) as G.
  assert (Hd : depth_ok cfg 0) by (unfold depth_ok; destruct (c_max_depth cfg); lia).
  specialize (G Hd). rewrite Hrun in G. destruct G as [[V _] _]. now apply V.
Qed.
Print Assumptions bystanders_untouched.

Theorem bystanders_path_elements_untouched w cfg dl fuel st ds name fwd just ok st' ds' var keep :
  WF w dl -> nodollar_paths w (s_env st) ->
  setup w cfg fuel st ds name fwd 0 just = RDone ok st' ds' ->
  path_var w var ->
  (forall n v, touches w (levels cfg 0 just) name n -> own_elem w n var v -> keep v = false) ->
  uniq (filter keep (elems (dl var) (oldv var (s_env st')))) =
  uniq (filter keep (elems (dl var) (oldv var (s_env st)))).
Proof.
  intros Hwf Hnd Hrun Hv Hkeep.
  pose proof (setup_frame w cfg dl Hwf fuel st ds name fwd 0 just Hnd) as G.
  assert (Hd : depth_ok cfg 0) by (unfold depth_ok; destruct (c_max_depth cfg); lia).
  specialize (G Hd). rewrite Hrun in G. destruct G as [[_ P] _]. now apply P.
Qed.
Print Assumptions bystanders_path_elements_untouched.

(* --keep, the two halves that make a dependency retain its version:
   (1) resolver side (model of findProductFromVRO, C03): with keep at the head of the VRO, at depth > 0 a
       product that is already set up is the one chosen, whatever version the table asks for;
   (2) setup side: when the decision for a dependency is the version the environment records, the call
       returns without touching anything (its table is not even processed).
   Full statement (not proved end to end because the decision stream is abstract in Model/Setup.v):
     keep -> every product other than the requested one that is recorded before the request is recorded
     with the same version after it.
   The harness evaluates that statement on the real code; finding D13 (the requested product itself being
   replaced unsets the old version's dependencies) is its known exception. *)
Theorem keep_retains_partial_resolver vcmp vmatch c db op ox f d rest rq :
  find_from_vro vcmp vmatch c db (Some (op, ox)) f (S d) (EKeep :: rest) rq = Some (op, (EKeep, None)).
Proof.
  unfold find_from_vro. cbn [vro_loop vro_step Nat.ltb Nat.leb].
  destruct ox as [[otag ox]|]; [|reflexivity].
  assert (G : forall x, gt_index (Some 0) x = false) by (intros [j|]; reflexivity).
  assert (I : index_of EKeep (EKeep :: rest) = Some 0) by reflexivity.
  rewrite I, G. now rewrite andb_false_r.
Qed.
Print Assumptions keep_retains_partial_resolver.

Theorem keep_retains_partial_setup w cfg rec st ds name depth just sp :
  find_setup_product w (s_env st) name = Some sp -> nonempty (p_version sp) = true ->
  find_pv w name (p_version sp) = Some sp ->
  setup_step w cfg rec st (Some (p_version sp) :: ds) name true (S depth) just = RDone true st ds.
Proof.
  intros Hs Hne Hf. unfold setup_step. rewrite Hf, Hs. unfold same_product.
  rewrite Hne, str_eqb_refl. reflexivity.
Qed.
Print Assumptions keep_retains_partial_setup.

(* ---- the hypotheses are satisfiable on a non-trivial world ----
   The world of Proofs/SetupExample.v (see the Example at the end of Props/C01.v): WF holds for it (decided by the
   checker of Model/SetupWf.v, sound by Proofs/SetupWf.v); libb is set up from the empty environment (base at
   1.0), then liba with --just: the run returns the explicit state ex_liba_just, only liba is touched, and
   bystanders_untouched applies to the setup record of base. *)
From Eupsv Require Import Model.SetupWf Proofs.SetupWf Proofs.SetupExample.

Example c04_hypotheses_inhabited :
  WF ex_world (dl_of ex_world) /\ nodollar_paths ex_world (s_env ex_st0) /\
  setup ex_world ex_cfg 20 ex_st0 [Some (lit "1.0"); Some (lit "1.0")] (lit "libb") true 0 false = RDone true ex_libb [] /\
  nodollar_paths ex_world (s_env ex_libb) /\
  setup ex_world ex_cfg 20 ex_libb [Some (lit "1.0")] (lit "liba") true 0 true = RDone true ex_liba_just [] /\
  ~ path_var ex_world (setup_var (lit "base")) /\
  (forall n, touches ex_world (levels ex_cfg 0 true) (lit "liba") n -> ~ own_var ex_world n (setup_var (lit "base"))) /\
  alookup (setup_var (lit "base")) (s_env ex_liba_just) = alookup (setup_var (lit "base")) (s_env ex_libb).
Proof.
  assert (H : WF ex_world (dl_of ex_world)) by (apply (wf_check_sound ex_world ex_order); vm_compute; reflexivity).
  assert (R1 : setup ex_world ex_cfg 20 ex_st0 [Some (lit "1.0"); Some (lit "1.0")] (lit "libb") true 0 false
               = RDone true ex_libb []) by (vm_compute; reflexivity).
  assert (R2 : setup ex_world ex_cfg 20 ex_libb [Some (lit "1.0")] (lit "liba") true 0 true
               = RDone true ex_liba_just []) by (vm_compute; reflexivity).
  assert (D1 : nodollar_paths ex_world (s_env ex_libb)).
  { pose proof (setup_changes_only_what_it_reaches ex_world ex_cfg (dl_of ex_world) 20 H ex_st0
                  [Some (lit "1.0"); Some (lit "1.0")] (lit "libb") true 0 false (nodollar_nil ex_world) I) as G.
    rewrite R1 in G. exact (proj1 (proj2 G)). }
  assert (P : ~ path_var ex_world (setup_var (lit "base"))).
  { apply (reserved_not_path ex_world (dl_of ex_world) H). exists (lit "base"). now left. }
  assert (O : forall n, touches ex_world (levels ex_cfg 0 true) (lit "liba") n ->
                        ~ own_var ex_world n (setup_var (lit "base"))).
  { intros n Ht. apply (just_touches_only_the_product ex_world (lit "liba") n) in Ht. subst n.
    intros [E|[E|[E|[p [v [[Hin Hn] Ha]]]]]]; try (vm_compute in E; discriminate E).
    cbn [ex_world In] in Hin.
    destruct Hin as [<-|[<-|[<-|[<-|[<-|[]]]]]]; try (vm_compute in Hn; discriminate Hn);
      cbn in Ha; intuition discriminate. }
  split; [exact H|]. split; [apply nodollar_nil|]. split; [exact R1|]. split; [exact D1|].
  split; [exact R2|]. split; [exact P|]. split; [exact O|].
  exact (bystanders_untouched ex_world ex_cfg (dl_of ex_world) 20 ex_libb [Some (lit "1.0")] (lit "liba") true true
           true ex_liba_just [] (setup_var (lit "base")) H D1 R2 P O).
Qed.
Print Assumptions c04_hypotheses_inhabited.

(* ================================================================================================
   The composed model (Model/SetupFull.v: Model/Setup.v + the resolver of C03, see Props/C01.v).
   ================================================================================================ *)
From Eupsv Require Import Proofs.SetupInv Model.SetupFull Proofs.SetupFull Proofs.SetupFullKeep Proofs.SetupFullExample
     Generated.Config.

(* the frame theorem holds of the composed model (it is Model/Setup.v on the decisions it takes) *)
Corollary setup_full_changes_only_what_it_reaches vcmp vmatch fw cfg rc flavors dl fuel st al vro name li fwd depth just :
  WF (fw_products fw) dl -> nodollar_paths (fw_products fw) (s_env st) -> depth_ok cfg depth ->
  good (fw_products fw) dl (touches (fw_products fw) (levels cfg depth just) name) st
       (erase [] (setup_full vcmp vmatch fw cfg rc flavors fuel st al vro name li fwd depth just)).
Proof. apply setup_full_frame_lemma. Qed.
Print Assumptions setup_full_changes_only_what_it_reaches.

(* --keep, the full statement (the code after the fix 6851e7d, with --keep the replaced requested product is
   unset without its dependencies): with Eups.keep set and keep at the head of the VRO - which is what the
   option --keep does, see keep_vro_shape below - every product OTHER THAN THE REQUESTED ONE that the environment
   records before the request is recorded, with the same version, after it.  For every world satisfying WF2,
   every database, every request form, --just / --max-depth included, and whether or not the requested product
   itself is switched to another version.  The resolver half is keep_retains_partial_resolver; the setup half
   (a product decided at its recorded version is not touched) is the content of keep_retains_partial_setup,
   redone on the composed model in Proofs/SetupFullKeep.v together with the induction over the traversal
   (the dictionary stays in sync with the environment, also across the restoration after a failed dependency). *)
Theorem keep_retains vcmp vmatch fw cfg rc flavors dl rank fuel st al0 rest name li just ok st' al' tr n q :
  WF2 (fw_products fw) dl rank -> c_keep cfg = true -> flavors <> [] ->
  nodollar_paths (fw_products fw) (s_env st) ->
  setup_full vcmp vmatch fw cfg rc flavors fuel st al0 (EKeep :: rest) name li true 0 just = FDone ok st' al' tr ->
  n <> name ->
  find_setup_product (fw_products fw) (s_env st) n = Some q ->
  find_setup_product (fw_products fw) (s_env st') n = Some q.
Proof.
  intros H Hk Hf Hnd E Hne R.
  apply (keep_retains_lemma vcmp vmatch fw cfg rc flavors dl rank H Hk Hf
           (fun op ox f d rest0 rq => keep_retains_partial_resolver vcmp vmatch rc (db_of cfg fw) op ox f d rest0 rq)
           fuel st al0 rest name li just ok st' al' tr Hnd E n q Hne R).
Qed.
Print Assumptions keep_retains.

(* the same for a whole command whose VRO selectVRO starts with keep *)
Corollary keep_retains_request vcmp vmatch fw cfg rc flavors dl rank fuel st rest name version just st' tr n q :
  WF2 (fw_products fw) dl rank -> c_keep cfg = true -> flavors <> [] ->
  nodollar_paths (fw_products fw) (s_env st) ->
  select_vro rc (request_opts cfg version) = Ok (EKeep :: rest) ->
  request_full vcmp vmatch fw cfg rc flavors fuel st name version true just = Ok (Some st', tr) ->
  n <> name ->
  find_setup_product (fw_products fw) (s_env st) n = Some q ->
  find_setup_product (fw_products fw) (s_env st') n = Some q.
Proof.
  intros H Hk Hf Hnd V E Hne R. unfold request_full in E. rewrite V in E.
  destruct (setup_full vcmp vmatch fw cfg rc flavors fuel st [] (EKeep :: rest) name _ true 0 just)
    as [[|] st1 al1 tr1|st1 al1 tr1|tr1|tr1] eqn:X; try discriminate.
  injection E as <- _.
  exact (keep_retains vcmp vmatch fw cfg rc flavors dl rank fuel st [] rest name _ just true st1 al1 tr1 n q H Hk Hf Hnd X Hne R).
Qed.
Print Assumptions keep_retains_request.

(* with the shipped configuration, --keep puts keep at the head of the VRO (version named or not) *)
Example keep_vro_shape version :
  exists rest, select_vro default_config (request_opts ex_cfg_keep version) = Ok (EKeep :: rest).
Proof. exists ex_vro. apply ex_vro_keep. Qed.

(* ---- inhabited ----  ex_fw (Proofs/SetupFullExample.v): from the state ex_libb (libb 1.0 and base 1.0 set up),
   setup --keep base 2.0  switches the requested product and leaves libb as it is;  setup --keep app  sets up app and
   liba and keeps libb and base;  setup --keep libb  processes libb's table again and keeps base at 1.0 although that
   table asks for base 2.0 (without --keep the same request replaces base 1.0 by base 2.0). *)
Example c04_keep_inhabited :
  WF2 (fw_products ex_fw) (SetupWf.dl_of ex_world) (rank_of ex_order) /\ c_keep ex_cfg_keep = true /\ ex_flavors <> [] /\
  (exists st' tr,
     request_full_simple ex_fw ex_cfg_keep default_config ex_flavors 20 ex_libb (lit "base") (Some (lit "2.0")) true false
       = Ok (Some st', tr) /\
     find_setup_product ex_world (s_env st') (lit "base") = find_pv ex_world (lit "base") (lit "2.0") /\
     find_setup_product ex_world (s_env st') (lit "libb") = find_setup_product ex_world (s_env ex_libb) (lit "libb")) /\
  (exists st' tr,
     request_full_simple ex_fw ex_cfg_keep default_config ex_flavors 20 ex_libb (lit "app") None true false
       = Ok (Some st', tr) /\
     find_setup_product ex_world (s_env st') (lit "base") = find_pv ex_world (lit "base") (lit "1.0") /\
     find_setup_product ex_world (s_env st') (lit "liba") = find_pv ex_world (lit "liba") (lit "1.0")) /\
  (exists st' tr,
     request_full_simple ex_fw ex_cfg_keep default_config ex_flavors 20 ex_libb (lit "libb") None true false
       = Ok (Some st', tr) /\
     find_setup_product ex_world (s_env st') (lit "base") = find_pv ex_world (lit "base") (lit "1.0")) /\
  (exists st' tr,
     request_full_simple ex_fw ex_cfg default_config ex_flavors 20 ex_libb (lit "libb") None true false
       = Ok (Some st', tr) /\
     find_setup_product ex_world (s_env st') (lit "base") = find_pv ex_world (lit "base") (lit "2.0")).
Proof.
  split; [apply wf2_check_sound; vm_compute; reflexivity|]. split; [reflexivity|]. split; [discriminate|].
  split; [|split; [|split]]; eexists; eexists.
  - split; [vm_compute; reflexivity|]. split; vm_compute; reflexivity.
  - split; [vm_compute; reflexivity|]. split; vm_compute; reflexivity.
  - split; vm_compute; reflexivity.
  - split; vm_compute; reflexivity.
Qed.
Print Assumptions c04_keep_inhabited.

(* ================================================================================================
   keep_retains makes no assumption on the comparator: it holds verbatim for the composed model with the comparator
   and the matcher of C10 (Model/ResolveReal.v), for every spelling of every version name.
   ================================================================================================ *)
From Eupsv Require Import Model.ResolveReal Proofs.SetupFullRealExample.

Theorem keep_retains_real fw cfg rc flavors dl rank fuel st al0 rest name li just ok st' al' tr n q :
  WF2 (fw_products fw) dl rank -> c_keep cfg = true -> flavors <> [] ->
  nodollar_paths (fw_products fw) (s_env st) ->
  setup_full_real fw cfg rc flavors fuel st al0 (EKeep :: rest) name li true 0 just = FDone ok st' al' tr ->
  n <> name ->
  find_setup_product (fw_products fw) (s_env st) n = Some q ->
  find_setup_product (fw_products fw) (s_env st') n = Some q.
Proof. apply keep_retains. Qed.
Print Assumptions keep_retains_real.

Corollary keep_retains_request_real fw cfg rc flavors dl rank fuel st rest name version just st' tr n q :
  WF2 (fw_products fw) dl rank -> c_keep cfg = true -> flavors <> [] ->
  nodollar_paths (fw_products fw) (s_env st) ->
  select_vro rc (request_opts cfg version) = Ok (EKeep :: rest) ->
  request_full_real fw cfg rc flavors fuel st name version true just = Ok (Some st', tr) ->
  n <> name ->
  find_setup_product (fw_products fw) (s_env st) n = Some q ->
  find_setup_product (fw_products fw) (s_env st') n = Some q.
Proof. apply keep_retains_request. Qed.
Print Assumptions keep_retains_request_real.

(* ---- inhabited: rvx_fw (Proofs/SetupFullRealExample.v); from the state in which libb 1.0.1 and base 1.10-rc1 are set
   up,  setup --keep base 1.10+1  switches the requested product and leaves libb;  setup --keep libb  keeps base
   1.10-rc1 ---- *)
Example c04_keep_real_inhabited :
  WF2 (fw_products rvx_fw) (SetupWf.dl_of rvx_world) (rank_of rvx_order) /\
  (exists st' tr,
     request_full_real rvx_fw ex_cfg_keep default_config ex_flavors 20 rvx_libb_state (lit "base") (Some (lit "1.10+1")) true false
       = Ok (Some st', tr) /\
     find_setup_product rvx_world (s_env st') (lit "base") = find_pv rvx_world (lit "base") (lit "1.10+1") /\
     find_setup_product rvx_world (s_env st') (lit "libb") = find_setup_product rvx_world (s_env rvx_libb_state) (lit "libb")) /\
  (exists st' tr,
     request_full_real rvx_fw ex_cfg_keep default_config ex_flavors 20 rvx_libb_state (lit "libb") None true false
       = Ok (Some st', tr) /\
     find_setup_product rvx_world (s_env st') (lit "base") = find_pv rvx_world (lit "base") (lit "1.10-rc1")).
Proof.
  split; [apply wf2_check_sound; vm_compute; reflexivity|].
  split; eexists; eexists.
  - split; [vm_compute; reflexivity|]. split; vm_compute; reflexivity.
  - split; vm_compute; reflexivity.
Qed.
Print Assumptions c04_keep_real_inhabited.

(* ================================================================================================
   -j ON A TABLE LINE  (Proofs/SetupFrameJ.v).  A line  setupRequired(foo -j)  reaches foo and nothing below foo:
   [touches_j b name k] follows a -j line with the budget 0.  The frame theorem holds with this finer relation -
   for a setup, and equally for an unsetup or the replacement of a version (the -j of the line limits the unsetup
   of the owner's dependencies too): the dependencies of foo that the owner does not list itself keep their records,
   directory variables, table variables and path elements, whatever the request does to the owner.
   ================================================================================================ *)
From Eupsv Require Import Proofs.SetupFrameJ.

Theorem setup_changes_only_what_it_reaches_j w cfg dl fuel :
  WF w dl -> fn_ok_j w cfg dl (setup w cfg fuel).
Proof. intro H. exact (setup_frame_j w cfg dl H fuel). Qed.
Print Assumptions setup_changes_only_what_it_reaches_j.

(* below a -j line: the product itself and nothing else *)
Theorem just_line_reaches_the_product_only w n k : touches_j w (Some 0) n k -> k = n.
Proof. exact (touches_j_zero w n k). Qed.
Print Assumptions just_line_reaches_the_product_only.

(* the finer reach is within the coarser one (so every statement about what is NOT touched got stronger) *)
Theorem reach_with_just_lines_is_within_reach w b n k : touches_j w b n k -> touches w b n k.
Proof. exact (touches_j_touches w b n k). Qed.
Print Assumptions reach_with_just_lines_is_within_reach.

Theorem bystanders_untouched_j w cfg dl fuel st ds name fwd just ok st' ds' k :
  WF w dl -> nodollar_paths w (s_env st) ->
  setup w cfg fuel st ds name fwd 0 just = RDone ok st' ds' ->
  ~ path_var w k -> (forall n, touches_j w (levels cfg 0 just) name n -> ~ own_var w n k) ->
  alookup k (s_env st') = alookup k (s_env st).
Proof.
  intros Hwf Hnd Hrun Hk Hown.
  pose proof (setup_frame_j w cfg dl Hwf fuel st ds name fwd 0 just Hnd) as G.
  assert (Hd : depth_ok cfg 0) by (unfold depth_ok; destruct (c_max_depth cfg); lia).
  specialize (G Hd). rewrite Hrun in G. destruct G as [[V _] _]. now apply V.
Qed.
Print Assumptions bystanders_untouched_j.

Theorem bystanders_path_elements_untouched_j w cfg dl fuel st ds name fwd just ok st' ds' var keep :
  WF w dl -> nodollar_paths w (s_env st) ->
  setup w cfg fuel st ds name fwd 0 just = RDone ok st' ds' ->
  path_var w var ->
  (forall n v, touches_j w (levels cfg 0 just) name n -> own_elem w n var v -> keep v = false) ->
  uniq (filter keep (elems (dl var) (oldv var (s_env st')))) =
  uniq (filter keep (elems (dl var) (oldv var (s_env st)))).
Proof.
  intros Hwf Hnd Hrun Hv Hkeep.
  pose proof (setup_frame_j w cfg dl Hwf fuel st ds name fwd 0 just Hnd) as G.
  assert (Hd : depth_ok cfg 0) by (unfold depth_ok; destruct (c_max_depth cfg); lia).
  specialize (G Hd). rewrite Hrun in G. destruct G as [[_ P] _]. now apply P.
Qed.
Print Assumptions bystanders_path_elements_untouched_j.

(* names in a prefix relation (afw / afwdata): what the unsetup of a product forgets are exactly the three variables
   AFW_DIR, SETUP_AFW, AFW_DIR_EXTRA - every other variable, SETUP_AFWDATA and AFW_DIRS included, is as it was *)
Theorem unsetup_forgets_exactly_three_variables st name k :
  k <> dir_var name -> k <> setup_var name -> k <> extra_var name ->
  alookup k (s_env (unset_product_vars st name)) = alookup k (s_env st).
Proof.
  intros H1 H2 H3. unfold unset_product_vars, unset_env. cbn [s_env].
  now rewrite !alookup_aremove_other.
Qed.
Print Assumptions unsetup_forgets_exactly_three_variables.

Example prefix_names_have_different_records :
  setup_var (lit "afwdata") <> setup_var (lit "afw") /\ setup_var (lit "afwdata") <> dir_var (lit "afw") /\
  setup_var (lit "afwdata") <> extra_var (lit "afw") /\ lit "AFW_DIRS" <> extra_var (lit "afw") /\
  lit "AFW_DIRS" <> dir_var (lit "afw").
Proof. repeat split; intro E; vm_compute in E; discriminate E. Qed.

(* inhabited, on the shape that matters: top 1.0 says setupRequired(foo -j); foo 1.0 requires dd; dd was set up on
   its own.  setup top sets foo up alone; unsetup top takes top and foo away and leaves dd exactly as it was - dd
   is not within the reach of top (touches_j), although it is within the coarser reach (touches).  Names in a
   prefix relation ride along: foodata is a bystander whose name begins with the name of foo; its record
   SETUP_FOODATA is not one of the three variables the unsetup of foo removes. *)
Definition jx_colon : ascii := ":"%char.
Definition jx_prod (n v : string) (acts : list action) : product :=
  {| p_name := lit n; p_version := lit v; p_dir := lit "/s/" ++ lit n ++ lit "/" ++ lit v;
     p_actions := APath false (lit "PATH") (lit "/s/" ++ lit n ++ lit "/" ++ lit v ++ lit "/bin") jx_colon :: acts |}.
Arguments jx_prod (n v)%string acts.
Definition jx_world : world :=
  [ jx_prod "dd" "1.0" []; jx_prod "foodata" "1.0" [];
    jx_prod "foo" "1.0" [ASetup false (lit "dd") false];
    jx_prod "top" "1.0" [ASetup false (lit "foo") true] ].
Definition jx_cfg : Setup.config :=
  {| c_flavor := lit "Linux64"; c_root := lit "/s"; c_max_depth := None; c_keep := false; c_flavors := [] |}.
Definition jx_st0 : state := {| s_env := [(lit "PATH", lit "/usr/bin")]; s_aliases := [] |}.

Example just_line_inhabited :
  exists st1 st2 st3 st4,
    setup jx_world jx_cfg 10 jx_st0 [Some (lit "1.0")] (lit "dd") true 0 false = RDone true st1 [] /\
    setup jx_world jx_cfg 10 st1 [Some (lit "1.0")] (lit "foodata") true 0 false = RDone true st2 [] /\
    setup jx_world jx_cfg 10 st2 [Some (lit "1.0"); Some (lit "1.0")] (lit "top") true 0 false = RDone true st3 [] /\
    setup jx_world jx_cfg 10 st3 [] (lit "top") false 0 false = RDone true st4 [] /\
    alookup (lit "SETUP_FOO") (s_env st3) = Some (lit "foo 1.0 -f Linux64 -Z /s") /\
    s_env st4 = s_env st2 /\
    alookup (lit "SETUP_DD") (s_env st4) = Some (lit "dd 1.0 -f Linux64 -Z /s") /\
    alookup (lit "SETUP_FOODATA") (s_env st4) = Some (lit "foodata 1.0 -f Linux64 -Z /s") /\
    touches jx_world None (lit "top") (lit "dd") /\
    ~ touches_j jx_world None (lit "top") (lit "dd").
Proof.
  eexists. eexists. eexists. eexists.
  split; [vm_compute; reflexivity|]. split; [vm_compute; reflexivity|]. split; [vm_compute; reflexivity|].
  split; [vm_compute; reflexivity|]. split; [vm_compute; reflexivity|]. split; [vm_compute; reflexivity|].
  split; [vm_compute; reflexivity|]. split; [vm_compute; reflexivity|]. split.
  - apply (t_dep jx_world None (lit "top") (lit "foo") (lit "dd") I).
    + exists (jx_prod "top" "1.0" [ASetup false (lit "foo") true]), false, true. split; [split; [cbn; tauto|reflexivity]|cbn; tauto].
    + apply (t_dep jx_world None (lit "foo") (lit "dd") (lit "dd") I); [|constructor].
      exists (jx_prod "foo" "1.0" [ASetup false (lit "dd") false]), false, false. split; [split; [cbn; tauto|reflexivity]|cbn; tauto].
  - intros T. inversion T as [|b n m j k Hp [p [o [[Hin Hn] Ha]]] Ht]; subst.
    cbn in Hin. destruct Hin as [<-|[<-|[<-|[<-|[]]]]]; try discriminate Hn.
    cbn in Ha. destruct Ha as [Ha|[Ha|[]]]; [discriminate Ha|]. injection Ha as _ <- <-.
    apply touches_j_zero in Ht. discriminate Ht.
Qed.
Print Assumptions just_line_inhabited.

(* ================================================================================================
   SEVERAL STACKS ON EUPS_PATH  (Model/SetupMS.v; see the section of the same title in Props/C01.v)
   The frame is stated over product NAMES: a name owns what any of its declarations, in any stack, contributes.
   ================================================================================================ *)
From Eupsv Require Import Model.SetupMS Proofs.SetupMSFrame Proofs.SetupMSInv Proofs.SetupMSStack
     Model.SetupMSWf Proofs.SetupMSWf.

Theorem ms_setup_changes_only_what_it_reaches w cfg dl fuel :
  SetupMSFrame.WF w dl -> SetupMSFrame.fn_ok w cfg dl (msetup w cfg fuel).
Proof. intro H. exact (SetupMSFrame.setup_frame w cfg dl H fuel). Qed.
Print Assumptions ms_setup_changes_only_what_it_reaches.

Theorem ms_just_touches_only_the_product w n k : SetupMSFrame.touches w (Some 0) n k -> k = n.
Proof.
  intro H. inversion H as [|b n' m k' Hp He Ht]; subst; [reflexivity|]. simpl in Hp. lia.
Qed.
Print Assumptions ms_just_touches_only_the_product.

Inductive ms_within (w : mworld) : nat -> str -> str -> Prop :=
| ms_within_self j n : ms_within w j n n
| ms_within_step j n m k : SetupMSFrame.dep_edge w n m -> ms_within w j m k -> ms_within w (S j) n k.

Theorem ms_max_depth_bounds_reach w N n k : SetupMSFrame.touches w (Some N) n k -> ms_within w N n k.
Proof.
  revert n k. induction N as [|N IH]; intros n k H.
  - apply ms_just_touches_only_the_product in H. subst. constructor.
  - inversion H as [|b n' m k' Hp He Ht]; subst; [constructor|].
    apply (ms_within_step w N n m k He). apply IH. exact Ht.
Qed.
Print Assumptions ms_max_depth_bounds_reach.

(* bystanders: the record (version AND stack), the directory variable and every other variable of a product that is
   not touched are exactly as before *)
Theorem ms_bystanders_untouched w cfg dl fuel st ds name fwd just ok st' ds' k :
  SetupMSFrame.WF w dl -> SetupMSFrame.nodollar_paths w (s_env st) ->
  msetup w cfg fuel st ds name fwd 0 just = MDone ok st' ds' ->
  ~ SetupMSFrame.path_var w k ->
  (forall n, SetupMSFrame.touches w (SetupMSFrame.levels cfg 0 just) name n -> ~ SetupMSFrame.own_var w n k) ->
  alookup k (s_env st') = alookup k (s_env st).
Proof.
  intros Hwf Hnd Hrun Hk Hown.
  pose proof (SetupMSFrame.setup_frame w cfg dl Hwf fuel st ds name fwd 0 just Hnd) as G.
  assert (Hd : SetupMSFrame.depth_ok cfg 0) by (unfold SetupMSFrame.depth_ok; destruct (c_max_depth cfg); lia).
  specialize (G Hd). rewrite Hrun in G. destruct G as [[V _] _]. now apply V.
Qed.
Print Assumptions ms_bystanders_untouched.

Theorem ms_bystanders_path_elements_untouched w cfg dl fuel st ds name fwd just ok st' ds' var keep :
  SetupMSFrame.WF w dl -> SetupMSFrame.nodollar_paths w (s_env st) ->
  msetup w cfg fuel st ds name fwd 0 just = MDone ok st' ds' ->
  SetupMSFrame.path_var w var ->
  (forall n v, SetupMSFrame.touches w (SetupMSFrame.levels cfg 0 just) name n -> SetupMSFrame.own_elem w n var v -> keep v = false) ->
  uniq (filter keep (elems (dl var) (oldv var (s_env st')))) =
  uniq (filter keep (elems (dl var) (oldv var (s_env st)))).
Proof.
  intros Hwf Hnd Hrun Hv Hkeep.
  pose proof (SetupMSFrame.setup_frame w cfg dl Hwf fuel st ds name fwd 0 just Hnd) as G.
  assert (Hd : SetupMSFrame.depth_ok cfg 0) by (unfold SetupMSFrame.depth_ok; destruct (c_max_depth cfg); lia).
  specialize (G Hd). rewrite Hrun in G. destruct G as [[_ P] _]. now apply P.
Qed.
Print Assumptions ms_bystanders_path_elements_untouched.

(* --keep, the setup side, with stacks: when the decision for a dependency names the version the environment records -
   in the recorded stack OR IN ANOTHER ONE - the call returns without touching anything: the product keeps its
   version and the stack it was set up from *)
Theorem ms_keep_retains_partial_setup w cfg rec st ds name depth just sp p k :
  mfind_setup_product w (c_flavor cfg) (s_env st) name = Some sp -> nonempty (mp_version sp) = true ->
  find_pvr w name k = Some p -> mp_version p = mp_version sp ->
  msetup_step w cfg rec st (Some k :: ds) name true (S depth) just = MDone true st ds.
Proof.
  intros Hs Hne Hf Hv. unfold msetup_step. rewrite Hf, Hs. unfold msame_product.
  rewrite Hv, Hne, str_eqb_refl. reflexivity.
Qed.
Print Assumptions ms_keep_retains_partial_setup.

(* ---- inhabited: ms_world (Proofs/SetupMSStack.v).  lib 1.0 is set up from the second stack (ms_stB); setup app with
   the decisions app 1.0 (first stack) and lib 1.0 of the FIRST stack ends in ms_stApp: SETUP_LIB, LIB_DIR and LIB_STACK
   are what they were (the second stack's), and ms_keep_retains_partial_setup is the step that returns at once. *)
Example ms_c04_inhabited :
  SetupMSFrame.WF ms_world (mdl_of ms_world) /\
  msetup ms_world ms_cfg 3 ms_stB [Some (key_of ms_app); Some (key_of ms_libA)] (lit "app") true 0 false
    = MDone true ms_stApp [] /\
  alookup (setup_var (lit "lib")) (s_env ms_stApp) = alookup (setup_var (lit "lib")) (s_env ms_stB) /\
  alookup (lit "LIB_STACK") (s_env ms_stApp) = Some (lit "/s B/ups_db/x") /\
  msetup_step ms_world ms_cfg (msetup ms_world ms_cfg 2) ms_stB [Some (key_of ms_libA)] (lit "lib") true 1 false
    = MDone true ms_stB [].
Proof.
  split; [apply (SetupMSWf.wf_check_sound ms_world ms_order); vm_compute; reflexivity|].
  split; [vm_compute; reflexivity|]. split; [vm_compute; reflexivity|]. split; [vm_compute; reflexivity|].
  apply (ms_keep_retains_partial_setup ms_world ms_cfg _ ms_stB [] (lit "lib") 0 false ms_libB ms_libA); vm_compute; reflexivity.
Qed.
Print Assumptions ms_c04_inhabited.
