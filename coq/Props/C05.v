(* C05 - Emitted shell commands reproduce the computed environment when sourced.
   Property theorems only; every proof is a short appeal to Proofs/Shell.v.

   Reading guide (definitions in Model/Shell.v):
     emit Sh is_eups fwd old new al oldal   the command list eups.app.setup builds after a
                                            successful Eups.setup: old = Eups.oldEnviron,
                                            new = os.environ, is_eups = the product is eups,
                                            fwd = setup (false: unsetup)
     render cmds                            the text setupcmd.py prints
     sh_source text e                       the specification of the shell fragment: lex the
                                            text, run export / unset / false from e
     new_after is_eups fwd new              os.environ at the end of eups.app.setup (unsetup
                                            of eups drops EUPS_PATH, EUPS_PKGROOT, EUPS_SHELL)
     protect is_eups old new'               new' plus the variables of old that vanished but
                                            that the code refuses to unset (EUPS_DIR, EUPS_PATH,
                                            EUPS_PKGROOT, EUPS_SHELL unless the product is eups)
     claim_env old new                      every changed or new value is made of path-like
                                            characters, blank, tab, newline and < > | & ; ( )
     sourced is_eups fwd old new env'       env' is the result of sourcing the emitted text
     in_claim                               the five hypotheses of emit_sound, bundled
     forget forced caller                   Eups.oldEnviron under --force
   (definitions in Model/ShellSession.v):
     front_end nv quiet cmds                (standard output, listing added to standard error) of
                                            setupcmd.EupsSetup.execute run with nv flags -v
     cli_stdout nv quiet cmds               its first component: what the shell wrapper sources
     api_session cur calls                  eups.setup / eups.unsetup called one after the other by
                                            one process without an Eups of the caller's: for each call
                                            the environment at the call and the text of its commands
     steps_sound cur steps calls            (Proofs/ShellSession.v) every step starts from the
                                            environment the previous call left, and its text sourced
                                            from there gives what the call computed
     sh_chain texts e                       one shell sourcing the texts in turn *)
From Eupsv Require Import Base.Base Base.BaseLemmas Model.Shell Model.ShellSession Proofs.ShellLib Proofs.Shell
  Proofs.ShellSession.

(* the core lemma: the emitter's quoting of a value is read back by the shell as exactly
   that value, one word *)
Theorem quote_lex v :
  claim_value v = true -> v <> [] -> sh_lex (quote_val v) = Ok [[v]].
Proof. exact (sh_lex_quote_val v). Qed.
Print Assumptions quote_lex.

(* the headline: sourcing the emitted text from the old environment gives exactly the
   computed environment (as a finite map) *)
Theorem emit_sound is_eups fwd old new :
  valid_names old = true -> valid_names new = true -> nodup_keys (akeys new) = true ->
  claim_env old new = true -> gone_ok is_eups fwd old new = true ->
  exists cmds env',
    emit Sh is_eups fwd old new [] [] = Ok cmds /\
    sh_source (render cmds) old = Ok env' /\
    env_equiv env' (protect is_eups old (new_after is_eups fwd new)).
Proof. exact (emit_sound_lemma is_eups fwd old new). Qed.
Print Assumptions emit_sound.

(* the same under --force: the baseline of the delta is the caller's environment minus the
   names the table actions made eups forget (forget forced caller), the shell starts from the
   caller's environment; sound provided every forgotten name is present in the computed
   environment (forced_ok: what the repaired envSet guarantees); forced = [] is emit_sound *)
Theorem emit_sound_forced is_eups fwd caller forced new :
  in_claim is_eups fwd (forget forced caller) new = true ->
  forced_ok forced (new_after is_eups fwd new) = true ->
  exists cmds env',
    emit Sh is_eups fwd (forget forced caller) new [] [] = Ok cmds /\
    sh_source (render cmds) caller = Ok env' /\
    env_equiv env' (protect is_eups caller (new_after is_eups fwd new)).
Proof. exact (emit_sound_forced_lemma is_eups fwd caller forced new). Qed.
Print Assumptions emit_sound_forced.

(* every changed or new variable is exported with its exact value *)
Corollary changed_or_new_exported is_eups fwd old new env' k v :
  in_claim is_eups fwd old new = true -> sourced is_eups fwd old new env' ->
  alookup k (new_after is_eups fwd new) = Some v -> alookup k env' = Some v.
Proof. exact (sourced_new_wins is_eups fwd old new env' k v). Qed.
Print Assumptions changed_or_new_exported.

(* an emptied variable is exported empty, not unset *)
Corollary emptied_exported_empty is_eups fwd old new env' k :
  in_claim is_eups fwd old new = true -> sourced is_eups fwd old new env' ->
  alookup k (new_after is_eups fwd new) = Some [] -> alookup k env' = Some [].
Proof. exact (sourced_new_wins is_eups fwd old new env' k []). Qed.
Print Assumptions emptied_exported_empty.

(* every removed variable is unset (the four protected names excepted, unless the product is eups) *)
Corollary removed_unset is_eups fwd old new env' k :
  in_claim is_eups fwd old new = true -> sourced is_eups fwd old new env' ->
  alookup k (new_after is_eups fwd new) = None -> negb is_eups && is_protected k = false ->
  alookup k env' = None.
Proof. exact (sourced_removed is_eups fwd old new env' k). Qed.
Print Assumptions removed_unset.

(* what the code does for the protected names: they keep their old value in the shell *)
Corollary protected_kept is_eups fwd old new env' k :
  in_claim is_eups fwd old new = true -> sourced is_eups fwd old new env' ->
  alookup k (new_after is_eups fwd new) = None -> negb is_eups && is_protected k = true ->
  alookup k env' = alookup k old.
Proof. exact (sourced_protected is_eups fwd old new env' k). Qed.
Print Assumptions protected_kept.

(* nothing else changes: a variable that eups left alone (same binding, or absent on both
   sides) is the same in the shell afterwards *)
Corollary untouched_untouched is_eups fwd old new env' k :
  in_claim is_eups fwd old new = true -> sourced is_eups fwd old new env' ->
  alookup k (new_after is_eups fwd new) = alookup k old -> alookup k env' = alookup k old.
Proof.
  intros Hc Hs Hk. rewrite (sourced_lookup _ _ _ _ _ Hc Hs k). rewrite alookup_protect. rewrite Hk.
  destruct (alookup k old); [reflexivity|]. destruct (negb is_eups && is_protected k); reflexivity.
Qed.
Print Assumptions untouched_untouched.

(* a failed setup prints the single command false; sourcing it changes nothing *)
Theorem failed_changes_nothing e : sh_source (render emit_failed) e = Ok e.
Proof. exact (Proofs.Shell.failed_changes_nothing e). Qed.
Print Assumptions failed_changes_nothing.

(* alias commands come after the environment commands and do not alter them (function
   definitions are outside the shell fragment: compared with the code textually only) *)
Theorem aliases_follow_environment is_eups fwd old new al oldal :
  exists envcmds a,
    emit Sh is_eups fwd old new [] [] = Ok envcmds /\
    emit Sh is_eups fwd old new al oldal = Ok (envcmds ++ a).
Proof. exact (emit_aliases_after is_eups fwd old new al oldal). Qed.
Print Assumptions aliases_follow_environment.

(* ---- the command-line front end, at every verbosity ---- *)

(* what EupsSetup.execute writes to standard output is the rendered command list whatever the
   number of -v flags and whether or not -q is given *)
Theorem cli_stdout_any_verbosity nv quiet cmds : cli_stdout nv quiet cmds = render cmds.
Proof. exact (cli_stdout_render nv quiet cmds). Qed.
Print Assumptions cli_stdout_any_verbosity.

(* the listing of the commands goes to standard error, and only above verbosity 3 *)
Theorem cli_listing_on_stderr nv quiet cmds :
  snd (front_end nv quiet cmds) = if 3 <? effective_verbose nv quiet then Some (listing cmds) else None.
Proof. exact (front_end_listing nv quiet cmds). Qed.
Print Assumptions cli_listing_on_stderr.

(* emit_sound for the standard output of the command, for all nv and quiet *)
Theorem cli_sound nv quiet is_eups fwd old new :
  valid_names old = true -> valid_names new = true -> nodup_keys (akeys new) = true ->
  claim_env old new = true -> gone_ok is_eups fwd old new = true ->
  exists cmds env',
    emit Sh is_eups fwd old new [] [] = Ok cmds /\
    sh_source (cli_stdout nv quiet cmds) old = Ok env' /\
    env_equiv env' (protect is_eups old (new_after is_eups fwd new)).
Proof. exact (emit_sound_lemma is_eups fwd old new). Qed.
Print Assumptions cli_sound.

(* ---- several calls of the python interface in one process ---- *)

(* every call's text, sourced by a shell that starts from the environment the process has at that
   call (which is the environment the previous call left), yields what that call computed; a
   failed call changes nothing *)
Theorem api_session_sound cur calls :
  session_in_claim cur calls = true ->
  exists steps, api_session cur calls = Ok steps /\ steps_sound cur steps calls.
Proof. exact (api_session_sound_lemma calls cur). Qed.
Print Assumptions api_session_sound.

(* one shell that sources the texts of all the calls in turn ends with the environment the process
   ends with, provided no call fails or removes a variable that the code refuses to unset *)
Theorem api_session_chained cur calls :
  session_in_claim cur calls = true -> session_keeps cur calls = true ->
  exists steps env',
    api_session cur calls = Ok steps /\
    sh_chain (map snd steps) cur = Ok env' /\
    env_equiv env' (session_final cur calls).
Proof. intros H K. exact (api_session_chained_lemma calls cur cur H K (fun k => eq_refl)). Qed.
Print Assumptions api_session_chained.

(* the refreshed baseline is what this rests on: with one snapshot of the environment kept for the
   whole session (stale_session, not the code) setup followed by unsetup emits no unset for the
   variables the first call defined, and the shell keeps them *)
Definition ex_s_start : env := [(lit "HOME", lit "/root"); (lit "EUPS_PATH", lit "/s")].
Definition ex_s_set : env :=
  [(lit "HOME", lit "/root"); (lit "EUPS_PATH", lit "/s"); (lit "W_DIR", lit "/s/w (beta) 1");
   (lit "SETUP_W", lit "w 1.0 -f Linux -Z /s"); (lit "W_PATH", lit "/s/w (beta) 1/lib")].
Definition ex_s_unset : env := [(lit "HOME", lit "/root"); (lit "EUPS_PATH", lit "/s"); (lit "W_PATH", [])].
Definition ex_s_calls : list apicall := [Call false true ex_s_set [] []; Call false false ex_s_unset [] []].

Theorem stale_baseline_refuted :
  session_in_claim ex_s_start ex_s_calls = true /\
  exists t1 t2 env',
    stale_session ex_s_start ex_s_start ex_s_calls = Ok [(ex_s_start, t1); (ex_s_set, t2)] /\
    sh_source t2 ex_s_set = Ok env' /\
    alookup (lit "W_DIR") env' = Some (lit "/s/w (beta) 1") /\
    alookup (lit "W_DIR") (call_shell_env ex_s_set (Call false false ex_s_unset [] [])) = None.
Proof. split; [reflexivity|]. eexists. eexists. eexists. split; [reflexivity|]. split; [reflexivity|]. split; reflexivity. Qed.
Print Assumptions stale_baseline_refuted.

(* ---- the hypotheses are needed ---- *)

(* outside the claim alphabet the statement is false of the faithful model: a value holding
   a single quote and a blank is wrapped in quotes as it is, and the text is then a syntax
   error (unterminated quote) for the shell (the property excludes such values: eups passes
   them to the shell) *)
Theorem emit_sound_outside_alphabet_refuted :
  exists old new, valid_names old = true /\ valid_names new = true /\ nodup_keys (akeys new) = true /\
    gone_ok false true old new = true /\ claim_env old new = false /\
    exists cmds, emit Sh false true old new [] [] = Ok cmds /\ sh_source (render cmds) old = Err BadTable.
Proof.
  exists [(lit "HOME", lit "/root")], [(lit "HOME", lit "/root"); (lit "FOO_DIR", lit "/opt/it's here")].
  split; [reflexivity|]. split; [reflexivity|]. split; [reflexivity|]. split; [reflexivity|].
  split; [reflexivity|]. eexists. split; reflexivity.
Qed.
Print Assumptions emit_sound_outside_alphabet_refuted.

(* gone_ok is needed: on unsetup of eups a variable among EUPS_PATH, EUPS_PKGROOT, EUPS_SHELL
   that is in the new environment but was not in the old one is exported and never taken back,
   although eups deleted it from what it computed *)
Theorem emit_sound_gone_refuted :
  exists old new env', valid_names old = true /\ valid_names new = true /\ nodup_keys (akeys new) = true /\
    claim_env old new = true /\ gone_ok true false old new = false /\
    sourced true false old new env' /\
    alookup (lit "EUPS_PKGROOT") env' = Some [] /\
    alookup (lit "EUPS_PKGROOT") (protect true old (new_after true false new)) = None.
Proof.
  exists [(lit "HOME", lit "/root")], [(lit "HOME", lit "/root"); (lit "EUPS_PKGROOT", [])],
         [(lit "HOME", lit "/root"); (lit "EUPS_PKGROOT", [])].
  split; [reflexivity|]. split; [reflexivity|]. split; [reflexivity|]. split; [reflexivity|].
  split; [reflexivity|]. split; [eexists; split; reflexivity|]. split; reflexivity.
Qed.
Print Assumptions emit_sound_gone_refuted.

(* the pinned tree (before the fix to execute_envSet): unsetup --force of a product whose
   table has envSet(A_EXTRA, ...) deletes A_EXTRA both from oldEnviron and from os.environ;
   no unset is emitted and the variable survives in the shell.  forced_ok is what fails. *)
Theorem force_unsetup_refuted_pinned :
  exists caller forced new env',
    in_claim false false (forget forced caller) new = true /\
    forced_ok forced (new_after false false new) = false /\
    (exists cmds, emit Sh false false (forget forced caller) new [] [] = Ok cmds /\
                  sh_source (render cmds) caller = Ok env') /\
    alookup (lit "A_EXTRA") env' = Some (lit "x y") /\
    alookup (lit "A_EXTRA") (protect false caller (new_after false false new)) = None.
Proof.
  exists [(lit "HOME", lit "/root"); (lit "A_EXTRA", lit "x y"); (lit "SETUP_A", lit "a 1.0")],
         [lit "A_EXTRA"], [(lit "HOME", lit "/root")],
         [(lit "HOME", lit "/root"); (lit "A_EXTRA", lit "x y")].
  split; [reflexivity|]. split; [reflexivity|]. split; [eexists; split; reflexivity|]. split; reflexivity.
Qed.
Print Assumptions force_unsetup_refuted_pinned.

(* ---- the hypotheses are inhabited by a non-trivial state ---- *)

Definition ex_old : env :=
  [(lit "PATH", lit "/usr/bin:/bin"); (lit "HOME", lit "/ro$ot's"); (lit "EUPS_DIR", lit "/e");
   (lit "SETUP_BAR", lit "bar 1.0"); (lit "BAR_DIR", lit "/s/bar"); (lit "EMPTYME", lit "x")].
Definition ex_new : env :=
  [(lit "FOO_DIR", lit "/opt/my stack/foo (v1);x"); (lit "PATH", lit "/opt/my stack/foo (v1);x/bin:/usr/bin:/bin");
   (lit "HOME", lit "/ro$ot's"); (lit "EMPTYME", []); (lit "SETUP_FOO", (lit "foo 1.0 -f Linux64 -Z ") ++ [c_tab; c_nl] ++ lit "<&|>")].

Example ex_in_claim : in_claim false true ex_old ex_new = true.
Proof. reflexivity. Qed.

Example ex_text :
  exists cmds, emit Sh false true ex_old ex_new [] [] = Ok cmds /\
  render cmds =
    lit "export FOO_DIR='/opt/my stack/foo (v1);x';" ++ [c_nl] ++
    lit "export PATH='/opt/my stack/foo (v1);x/bin:/usr/bin:/bin';" ++ [c_nl] ++
    lit "export EMPTYME=;" ++ [c_nl] ++
    lit "export SETUP_FOO='foo 1.0 -f Linux64 -Z " ++ [c_tab; c_nl] ++ lit "<&|>';" ++ [c_nl] ++
    lit "unset SETUP_BAR;" ++ [c_nl] ++
    lit "unset BAR_DIR" ++ [c_nl].
Proof. eexists. split; reflexivity. Qed.

Example ex_sourced :
  sourced false true ex_old ex_new
    [(lit "PATH", lit "/opt/my stack/foo (v1);x/bin:/usr/bin:/bin"); (lit "HOME", lit "/ro$ot's"); (lit "EUPS_DIR", lit "/e");
     (lit "EMPTYME", []); (lit "FOO_DIR", lit "/opt/my stack/foo (v1);x");
     (lit "SETUP_FOO", (lit "foo 1.0 -f Linux64 -Z ") ++ [c_tab; c_nl] ++ lit "<&|>")].
Proof. eexists. split; reflexivity. Qed.

(* unsetup of eups inside gone_ok: the three variables are exported if they changed, then unset *)
Example ex_unsetup_eups :
  in_claim true false [(lit "EUPS_PATH", lit "/s"); (lit "EUPS_DIR", lit "/e"); (lit "A", lit "1")]
                      [(lit "EUPS_PATH", lit "/s:/t"); (lit "A", lit "1")] = true /\
  sourced true false [(lit "EUPS_PATH", lit "/s"); (lit "EUPS_DIR", lit "/e"); (lit "A", lit "1")]
                     [(lit "EUPS_PATH", lit "/s:/t"); (lit "A", lit "1")] [(lit "A", lit "1")].
Proof. split; [reflexivity|]. eexists. split; reflexivity. Qed.

(* the zsh quirk of the alias loop, as the code has it: the last environment command is
   repeated instead of a function definition, and with no environment command the python
   code raises UnboundLocalError *)
Example ex_zsh_alias_quirk :
  emit Zsh false true [] [(lit "A", lit "1")] [(lit "ll", lit "ls -l")] [] = Ok [lit "export A=1"; lit "export A=1"] /\
  emit Zsh false true [] [] [(lit "ll", lit "ls -l")] [] = Err Crash.
Proof. split; reflexivity. Qed.

(* a session through the python interface: setup, unsetup, and the texts of the two calls *)
Example ex_session :
  session_in_claim ex_s_start ex_s_calls = true /\ session_keeps ex_s_start ex_s_calls = true /\
  api_session ex_s_start ex_s_calls =
    Ok [(ex_s_start,
         lit "export W_DIR='/s/w (beta) 1';" ++ [c_nl] ++ lit "export SETUP_W='w 1.0 -f Linux -Z /s';" ++ [c_nl] ++
         lit "export W_PATH='/s/w (beta) 1/lib'" ++ [c_nl]);
        (ex_s_set,
         lit "export W_PATH=;" ++ [c_nl] ++ lit "unset W_DIR;" ++ [c_nl] ++ lit "unset SETUP_W" ++ [c_nl])] /\
  sh_chain [lit "export W_DIR='/s/w (beta) 1';" ++ [c_nl] ++ lit "export SETUP_W='w 1.0 -f Linux -Z /s';" ++ [c_nl] ++
            lit "export W_PATH='/s/w (beta) 1/lib'" ++ [c_nl];
            lit "export W_PATH=;" ++ [c_nl] ++ lit "unset W_DIR;" ++ [c_nl] ++ lit "unset SETUP_W" ++ [c_nl]] ex_s_start =
    Ok ex_s_unset.
Proof. repeat split; reflexivity. Qed.

(* the front end at verbosity 4: the same standard output, and the listing on standard error *)
Example ex_front_end :
  front_end 4 false [lit "export A=1"; lit "unset B"] =
    (lit "export A=1;" ++ [c_nl] ++ lit "unset B" ++ [c_nl],
     Some (lit "Issuing commands:" ++ [c_nl; c_tab] ++ lit "export A=1" ++ [c_nl; c_tab] ++ lit "unset B" ++ [c_nl])) /\
  front_end 4 true [lit "export A=1"; lit "unset B"] = (lit "export A=1;" ++ [c_nl] ++ lit "unset B" ++ [c_nl], None) /\
  front_end 3 false [lit "export A=1"; lit "unset B"] = (lit "export A=1;" ++ [c_nl] ++ lit "unset B" ++ [c_nl], None).
Proof. repeat split; reflexivity. Qed.
