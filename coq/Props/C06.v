(* C06 - The database reflects exactly the history of declare / undeclare / tag operations.
   Property theorems only; proofs are short appeals to Proofs/Db*.v.

   Reading guide.  [db] is the files of the stacks on EUPS_PATH, [step d o] runs one command
   (Ok d' or Err class), [run p d ops] a history (a command that raises changes nothing).
   [view d] is what a fresh reader sees: [a_decl (view d) s n v f = db_decl d s n v f] is the
   (directory, table) of product n version v flavor f in stack s, [a_tag] / [db_tag] the version
   a tag names.  [astep] / [arun] are the abstract specification: the same decisions, each
   record-level action a one-line update of the two finite maps.  [aeq] = same path and the
   same answer to every lookup.  The flag p selects the tag move of Eups.declare:
   false = the repaired code (assign first, then unassign in the other stacks, looked up per stack),
   true = the pinned tree (unassign every occurrence merged across stacks, then assign: D14, D20).
   [step] = [step_gen false]. *)
From Eupsv Require Import Base.Base Base.BaseLemmas Model.Db Proofs.DbLib Proofs.Db Proofs.DbSim Proofs.DbInv Proofs.DbCor.
From Eupsv Require Import Model.DbExt Proofs.DbExt.

(* ---------------------------------------------------------------- refinement *)

(* one command: the files afterwards show exactly what the abstract transition yields, and
   the command raises exactly when the specification does (both variants of the tag move) *)
Theorem refinement_step p d o :
  (forall d', step_gen p d o = Ok d' -> exists a', astep_gen p (view d) o = Ok a' /\ aeq (view d') a') /\
  (forall e, step_gen p d o = Err e <-> astep_gen p (view d) o = Err e).
Proof. split; [apply step_refines|intro e; apply step_err_iff]. Qed.
Print Assumptions refinement_step.

(* every history, from any database *)
Theorem refinement_history p d ops : aeq (view (run p d ops)) (arun p (view d) ops).
Proof. apply run_refines. Qed.
Print Assumptions refinement_history.

(* the abstract transitions only depend on what lookups answer *)
Theorem spec_respects_lookups p a b ops : aeq a b -> aeq (arun p a ops) (arun p b ops).
Proof. apply arun_aeq. Qed.
Print Assumptions spec_respects_lookups.

(* ---------------------------------------------------------------- declared is found *)

(* a declaration with explicit directory and table, new or forced, is found by a fresh reader
   with exactly that directory and table *)
Theorem declared_is_found d o n v dir tb t tg d' :
  declare_target (view d) o = Some tg -> has_stack d tg = true ->
  o_noaction o = false ->
  (o_force o = true \/ db_decl d tg n v (o_flavor o) = None) ->
  step d (Declare o n v (Some dir) (Some tb) t) = Ok d' ->
  a_decl (view d') tg n v (o_flavor o) = Some (dir, tb) /\
  find_exact (view d') (map fst d') n v (o_flavor o) <> None.
Proof.
  intros Ht Hs Hn Hc H. unfold step in H.
  pose proof (proj2 (view_target_has_stack d tg) Hs) as Hm.
  destruct (declare_decls _ _ _ _ _ _ _ _ _ Hn H) as [pl [Hp Hd]].
  rewrite (plan_explicit _ _ _ _ _ _ _ _ Ht Hm) in Hp. cbv zeta in Hp. rewrite a_decl_view in Hp.
  assert (Hpl : dp_write pl = true /\ dp_dir pl = dir /\ dp_table pl = tb /\ dp_target pl = tg).
  { destruct Hc as [Hc|Hc]; rewrite Hc in Hp.
    - destruct (db_decl d tg n v (o_flavor o)); inversion Hp; auto.
    - inversion Hp; auto. }
  destruct Hpl as [H1 [H2 [H3 H4]]].
  assert (Hf : a_decl (view d') tg n v (o_flavor o) = Some (dir, tb)).
  { rewrite a_decl_view, Hd, H1, H2, H3, H4, dkey_eqb_refl. reflexivity. }
  split; [exact Hf|].
  destruct (find_exact (view d') (map fst d') n v (o_flavor o)) eqn:E; [discriminate|].
  rewrite (find_exact_none _ _ _ _ _ tg E) in Hf; [discriminate|].
  rewrite (path_step _ _ _ _ H). apply mem_str_In. rewrite has_stack_path. exact Hs.
Qed.
Print Assumptions declared_is_found.

(* the same with the default table file productDir/ups/product.table *)
Theorem declared_is_found_default_table d o n v dir tg d' :
  declare_target (view d) o = Some tg -> has_stack d tg = true ->
  o_noaction o = false ->
  (o_force o = true \/ db_decl d tg n v (o_flavor o) = None) ->
  step d (Declare o n v (Some dir) None None) = Ok d' ->
  a_decl (view d') tg n v (o_flavor o) = Some (dir, default_table dir n).
Proof.
  intros Ht Hs Hn Hc H. unfold step in H.
  pose proof (proj2 (view_target_has_stack d tg) Hs) as Hm.
  destruct (declare_decls _ _ _ _ _ _ _ _ _ Hn H) as [pl [Hp Hd]].
  rewrite (plan_default_table _ _ _ _ _ _ Ht Hm) in Hp. cbv zeta in Hp. rewrite a_decl_view in Hp.
  assert (Hpl : dp_write pl = true /\ dp_dir pl = dir /\ dp_table pl = default_table dir n /\ dp_target pl = tg).
  { destruct Hc as [Hc|Hc]; rewrite Hc in Hp.
    - destruct (db_decl d tg n v (o_flavor o)); inversion Hp; auto.
    - inversion Hp; auto. }
  destruct Hpl as [H1 [H2 [H3 H4]]].
  rewrite a_decl_view, Hd, H1, H2, H3, H4, dkey_eqb_refl. reflexivity.
Qed.
Print Assumptions declared_is_found_default_table.

(* ---------------------------------------------------------------- first version is current *)

(* DESIGN section 7 item 6: the rule of the code is -- no version of the product can be found
   (by the invoking flavor or its fallback, in any stack) -- not -- ever declared *)
Theorem first_version_current d o n v dir tb tg d' :
  no_dangling (view d) ->
  declare_target (view d) o = Some tg -> has_stack d tg = true ->
  o_noaction o = false ->
  findable (view d) n (fallbacks (o_flavor o)) = false ->
  step d (Declare o n v (Some dir) (Some tb) None) = Ok d' ->
  db_tag d' tg n current (o_flavor o) = Some v /\
  find_tagged (view d') (map fst d') n current (o_flavor o) = Some (tg, v).
Proof.
  intros Hnd Ht Hs Hn Hf H. unfold step in H.
  pose proof (proj2 (view_target_has_stack d tg) Hs) as Hm.
  destruct (declare_tags _ _ _ _ _ _ _ _ Hnd Hn H) as [pl [Hp Hd]].
  rewrite (plan_explicit _ _ _ _ _ _ _ _ Ht Hm) in Hp. cbv zeta in Hp. rewrite Hf in Hp.
  assert (Hnone : a_decl (view d) tg n v (o_flavor o) = None).
  { destruct (a_decl (view d) tg n v (o_flavor o)) eqn:E; [|reflexivity].
    rewrite (decl_findable _ _ _ _ _ _ Hm E) in Hf. discriminate. }
  rewrite Hnone in Hp. inversion Hp. subst pl. cbn [dp_tag dp_target] in Hd.
  assert (Ha : forall s, db_tag d' s n current (o_flavor o) = if str_eqb s tg then Some v else None).
  { intro s. rewrite Hd, !str_eqb_refl. reflexivity. }
  split; [rewrite Ha, str_eqb_refl; reflexivity|].
  apply find_tagged_unique.
  - rewrite (path_step _ _ _ _ H). apply mem_str_In. rewrite has_stack_path. exact Hs.
  - apply (step_no_dangling _ _ _ _ Hnd H tg n current). rewrite a_tag_view, Ha, str_eqb_refl. reflexivity.
  - intros s _. rewrite a_tag_view. apply Ha.
Qed.
Print Assumptions first_version_current.

(* when some version can be found and no tag is asked for, no tag changes *)
Theorem later_version_assigns_no_tag d o n v dir tb tg d' :
  no_dangling (view d) ->
  declare_target (view d) o = Some tg -> has_stack d tg = true ->
  o_noaction o = false ->
  findable (view d) n (fallbacks (o_flavor o)) = true ->
  step d (Declare o n v (Some dir) (Some tb) None) = Ok d' ->
  forall s n' t f, db_tag d' s n' t f = db_tag d s n' t f.
Proof.
  intros Hnd Ht Hs Hn Hf H. unfold step in H.
  pose proof (proj2 (view_target_has_stack d tg) Hs) as Hm.
  destruct (declare_tags _ _ _ _ _ _ _ _ Hnd Hn H) as [pl [Hp Hd]].
  rewrite (plan_explicit _ _ _ _ _ _ _ _ Ht Hm) in Hp. cbv zeta in Hp. rewrite Hf in Hp.
  intros. rewrite Hd.
  destruct (a_decl (view d) tg n v (o_flavor o)); [destruct (o_force o); [|destruct (vrec_eqb _ _)]|];
    inversion Hp; reflexivity.
Qed.
Print Assumptions later_version_assigns_no_tag.

(* ---------------------------------------------------------------- tags: functional, and they move *)

(* assignTag: within the stack where the version is found the tag now names that version (the
   map is functional by construction: one version per stack, product, tag and flavor), every
   other assignment and every declaration is as before *)
Theorem assign_tag_functional d o t n v d' :
  step d (AssignTag o t n v) = Ok d' ->
  exists s', db_decl d s' n v (o_flavor o) <> None /\
    db_tag d' s' n t (o_flavor o) = Some v /\
    (forall s n' t' f', (s, n', t', f') <> (s', n, t, o_flavor o) -> db_tag d' s n' t' f' = db_tag d s n' t' f') /\
    (forall s n' v' f', db_decl d' s n' v' f' = db_decl d s n' v' f').
Proof.
  intro H. destruct (assign_step _ _ _ _ _ _ _ H) as [s' [r [Hf [Hd Ht]]]]. exists s'.
  apply find_exact_some in Hf. destruct Hf as [_ Hf]. rewrite a_decl_view in Hf.
  split; [congruence|]. split; [rewrite Ht, dkey_eqb_refl; reflexivity|]. split; [|exact Hd].
  intros s n' t' f' N. rewrite Ht. rewrite (geqb_neq dkey_eqb dkey_eqb_eq _ _ N). reflexivity.
Qed.
Print Assumptions assign_tag_functional.

(* declare with a tag moves it: afterwards the tag names the declared version in the target
   stack and is assigned in no other stack, so resolving it on the path yields the version it
   was last assigned to; no other tag, product or flavor is touched.  (The tag is assigned in
   the target stack first and then removed from every other stack that has it, looked up per
   stack; the pinned tree fails this, see tag_functional_and_moves_refuted_pinned.) *)
Theorem tag_functional_and_moves d o n v dir table x d' :
  no_dangling (view d) ->
  o_noaction o = false ->
  step d (Declare o n v dir table (Some x)) = Ok d' ->
  exists tg, has_stack d tg = true /\
    (forall s, db_tag d' s n x (o_flavor o) = if str_eqb s tg then Some v else None) /\
    find_tagged (view d') (map fst d') n x (o_flavor o) = Some (tg, v) /\
    (forall s n' t' f', (n', t', f') <> (n, x, o_flavor o) -> db_tag d' s n' t' f' = db_tag d s n' t' f').
Proof.
  intros Hnd Hn H. unfold step in H.
  destruct (declare_tags _ _ _ _ _ _ _ _ Hnd Hn H) as [pl [Hp Hd]].
  pose proof (declare_plan_tag _ _ _ _ _ _ _ _ Hp) as Et. rewrite Et in Hd.
  destruct (declare_plan_target _ _ _ _ _ _ _ _ Hp) as [Hm _].
  pose proof (proj1 (view_target_has_stack d _) Hm) as Hs.
  exists (dp_target pl). split; [exact Hs|].
  assert (Ha : forall s, db_tag d' s n x (o_flavor o) = if str_eqb s (dp_target pl) then Some v else None).
  { intro s. rewrite Hd, !str_eqb_refl. reflexivity. }
  split; [exact Ha|]. split.
  - apply find_tagged_unique.
    + rewrite (path_step _ _ _ _ H). apply mem_str_In. rewrite has_stack_path. exact Hs.
    + apply (step_no_dangling _ _ _ _ Hnd H (dp_target pl) n x). rewrite a_tag_view, Ha, str_eqb_refl. reflexivity.
    + intros s _. rewrite a_tag_view. apply Ha.
  - intros s n' t' f' N. rewrite Hd.
    destruct (str_eqb_spec n' n) as [->|]; cbn [andb]; [|reflexivity].
    destruct (str_eqb_spec t' x) as [->|]; cbn [andb]; [|reflexivity].
    destruct (str_eqb_spec f' (o_flavor o)) as [->|]; cbn [andb]; [|reflexivity].
    congruence.
Qed.
Print Assumptions tag_functional_and_moves.

Definition s1 := lit "s1".
Definition s2 := lit "s2".
Definition linux := lit "Linux64".
Definition o_in (s : str) : opts := mkOpts linux (Some s) false false.
Definition o_any : opts := mkOpts linux None false false.
Definition d14_history : list op :=
  [ Declare (o_in s2) (lit "a") (lit "2") (Some (lit "/p/a2")) None (Some current);
    Declare (o_in s1) (lit "a") (lit "2") (Some (lit "/p/a2")) None (Some current) ].

(* D14 on the pinned tree: the same version declared in two stacks, both tagged; the second
   declare leaves the tag assigned in the other stack, and after undeclare --tag the tag
   still resolves *)
Theorem tag_functional_and_moves_refuted_pinned :
  let d := run true (empty_db [s1; s2]) d14_history in
  db_tag d s2 (lit "a") current linux = Some (lit "2") /\
  db_tag d s1 (lit "a") current linux = Some (lit "2") /\
  let d' := run true d [UndeclareTag o_any (lit "a") None current false] in
  find_tagged (view d') [s1; s2] (lit "a") current linux = Some (s2, lit "2").
Proof. vm_compute. auto. Qed.
Print Assumptions tag_functional_and_moves_refuted_pinned.

(* the same history with the repaired tag move *)
Example tag_moves_d14_repaired :
  let d := run false (empty_db [s1; s2]) d14_history in
  db_tag d s2 (lit "a") current linux = None /\
  db_tag d s1 (lit "a") current linux = Some (lit "2") /\
  let d' := run false d [UndeclareTag o_any (lit "a") None current false] in
  find_tagged (view d') [s1; s2] (lit "a") current linux = None.
Proof. vm_compute. auto. Qed.

(* ---------------------------------------------------------------- undeclare *)

(* undeclare removes exactly the declaration it settles on, and exactly the tags of that
   stack, product and flavor that name the version; everything else is as before *)
Theorem undeclare_removes_version_and_its_tags p d o n vo d' :
  o_noaction o = false ->
  step_gen p d (Undeclare o n vo) = Ok d' ->
  exists s' v,
    undeclare_target (view d) o n vo = Ok (s', v) /\
    db_decl d s' n v (o_flavor o) <> None /\
    db_decl d' s' n v (o_flavor o) = None /\
    (forall t, db_tag d' s' n t (o_flavor o) <> Some v) /\
    (forall s n' v' f', (s, n', v', f') <> (s', n, v, o_flavor o) -> db_decl d' s n' v' f' = db_decl d s n' v' f') /\
    (forall s n' t f', ~ (s = s' /\ n' = n /\ f' = o_flavor o /\ db_tag d s n' t f' = Some v) ->
                       db_tag d' s n' t f' = db_tag d s n' t f').
Proof.
  intros Hn H. destruct (undeclare_step _ _ _ _ _ _ Hn H) as [s' [v [r [Ht [Hr [Hd Hg]]]]]].
  exists s', v. split; [exact Ht|]. split; [congruence|].
  split; [rewrite Hd, dkey_eqb_refl; reflexivity|]. split; [|split].
  - intro t. rewrite Hg, !str_eqb_refl. cbn [andb].
    destruct (opt_str_eqb (db_tag d s' n t (o_flavor o)) v) eqn:E; [discriminate|].
    intro E2. rewrite (proj2 (opt_str_eqb_true _ _) E2) in E. discriminate.
  - intros s n' v' f' N. rewrite Hd, (geqb_neq dkey_eqb dkey_eqb_eq _ _ N). reflexivity.
  - intros s n' t f' N. rewrite Hg.
    destruct (str_eqb s s' && str_eqb n' n && str_eqb f' (o_flavor o) && opt_str_eqb (db_tag d s n' t f') v) eqn:E;
      [|reflexivity].
    exfalso. apply N.
    apply andb_true_iff in E. destruct E as [E E4]. apply andb_true_iff in E. destruct E as [E E3].
    apply andb_true_iff in E. destruct E as [E1 E2]. apply str_eqb_eq in E1, E2, E3.
    apply opt_str_eqb_true in E4. auto.
Qed.
Print Assumptions undeclare_removes_version_and_its_tags.

(* eups remove is undeclare of that version searched on the whole path (the database part) *)
Theorem remove_is_undeclare_on_path p d o n v :
  step_gen p d (Remove o n v) = step_gen p d (Undeclare (mkOpts (o_flavor o) None (o_force o) (o_noaction o)) n (Some v)).
Proof. unfold step_gen, effects_gen. cbn [decide]. rewrite remove_is_undeclare. reflexivity. Qed.
Print Assumptions remove_is_undeclare_on_path.

(* ---------------------------------------------------------------- the invariant *)

(* over every history from the empty database (either variant of the tag move): no tag names
   a version that is not declared for that stack, product and flavor *)
Theorem no_dangling_tag p path ops :
  let d := run p (empty_db path) ops in
  forall s n t f v, db_tag d s n t f = Some v -> db_decl d s n v f <> None.
Proof.
  cbv zeta. apply no_dangling_db. apply run_no_dangling. apply no_dangling_empty.
Qed.
Print Assumptions no_dangling_tag.

(* it is inductive: kept by every command from any database that has it *)
Theorem no_dangling_tag_inductive p d o : no_dangling (view d) -> no_dangling (view (step_total p d o)).
Proof. apply step_total_no_dangling. Qed.
Print Assumptions no_dangling_tag_inductive.

(* ---------------------------------------------------------------- frame *)

(* no command touches a declaration or a tag of another product or of another flavor *)
Theorem frame p d o d' :
  step_gen p d o = Ok d' ->
  forall s n k f, (n, f) <> (op_name o, o_flavor (op_opts o)) ->
  db_decl d' s n k f = db_decl d s n k f /\ db_tag d' s n k f = db_tag d s n k f.
Proof. apply frame_nf. Qed.
Print Assumptions frame.

(* every command but declare works in a single stack *)
Theorem frame_stacks p d o d' :
  is_declare o = false -> step_gen p d o = Ok d' ->
  exists s0, forall s n k f, s <> s0 ->
  db_decl d' s n k f = db_decl d s n k f /\ db_tag d' s n k f = db_tag d s n k f.
Proof. apply frame_stack. Qed.
Print Assumptions frame_stacks.

(* declare changes at most the one declaration it names (other versions and other stacks
   keep theirs), and only assignments of the one tag it assigns *)
Theorem frame_declare d o n v dir table t d' :
  no_dangling (view d) -> o_noaction o = false ->
  step d (Declare o n v dir table t) = Ok d' ->
  exists pl, declare_plan (view d) o n v dir table t = Ok pl /\
    (forall s n' v' f', (s, n', v', f') <> (dp_target pl, n, v, o_flavor o) -> db_decl d' s n' v' f' = db_decl d s n' v' f') /\
    (forall s n' t' f', dp_tag pl <> Some t' -> db_tag d' s n' t' f' = db_tag d s n' t' f').
Proof.
  intros Hnd Hn H. unfold step in H.
  destruct (declare_decls _ _ _ _ _ _ _ _ _ Hn H) as [pl [Hp Hd]].
  destruct (declare_tags _ _ _ _ _ _ _ _ Hnd Hn H) as [pl' [Hp' Hg]].
  rewrite Hp in Hp'. inversion Hp'. subst pl'.
  exists pl. split; [exact Hp|]. split.
  - intros s n' v' f' N. rewrite Hd, (geqb_neq dkey_eqb dkey_eqb_eq _ _ N), andb_false_r. reflexivity.
  - intros s n' t' f' N. rewrite Hg. destruct (dp_tag pl) as [x|]; [|reflexivity].
    destruct (str_eqb_spec t' x) as [->|]; [congruence|]. rewrite andb_false_r. reflexivity.
Qed.
Print Assumptions frame_declare.

(* ---------------------------------------------------------------- refusals and dry runs *)

(* a command that raises has changed nothing (in the model every exception of the modelled
   commands is raised before the first write; the correspondence check compares the files) *)
Theorem refused_changes_nothing p d o e : effects_gen p d o = Err e -> step_total p d o = d.
Proof. apply step_total_err. Qed.
Print Assumptions refused_changes_nothing.

(* declare can only raise while it is still settling its arguments (declare_plan reads, it does
   not write): once the first record is written the command runs to completion *)
Theorem declare_raises_before_writing p d o n v dir table t e :
  effects_gen p d (Declare o n v dir table t) = Err e ->
  declare_plan (view d) o n v dir table t = Err e.
Proof.
  unfold effects_gen. destruct (decide p (view d) (Declare o n v dir table t)) eqn:E; [discriminate|].
  intro H. inversion H. subst. apply (declare_error_is_planning_error _ _ _ _ _ _ _ _ _ E).
Qed.
Print Assumptions declare_raises_before_writing.

(* a conflicting redeclaration (other directory or table) without force and without a tag is refused *)
Theorem conflicting_redeclaration_refused p d o n v dir tb tg r' :
  declare_target (view d) o = Some tg ->
  db_decl d tg n v (o_flavor o) = Some r' -> r' <> (dir, tb) ->
  o_force o = false ->
  effects_gen p d (Declare o n v (Some dir) (Some tb) None) = Err Refused /\
  step_total p d (Declare o n v (Some dir) (Some tb) None) = d.
Proof.
  intros Ht Hd N Hf.
  assert (Hs : has_stack d tg = true) by apply (db_decl_has_stack _ _ _ _ _ _ Hd).
  pose proof (proj2 (view_target_has_stack d tg) Hs) as Hm.
  assert (E : effects_gen p d (Declare o n v (Some dir) (Some tb) None) = Err Refused).
  { unfold effects_gen. cbn [decide]. unfold declare_acts.
    rewrite (plan_explicit _ _ _ _ _ _ _ _ Ht Hm). cbv zeta.
    rewrite <- a_decl_view in Hd. rewrite Hd, Hf, (decl_findable _ _ _ _ _ _ Hm Hd).
    destruct (vrec_eqb (dir, tb) r') eqn:Ev; [|reflexivity].
    apply vrec_eqb_eq in Ev. congruence. }
  split; [exact E|]. apply (step_total_err _ _ _ _ E).
Qed.
Print Assumptions conflicting_redeclaration_refused.

(* with a tag, a conflicting redeclaration without force only assigns the tag: the declaration stays *)
Theorem conflicting_redeclaration_with_tag_keeps_declaration p d o n v dir tb x tg r' d' :
  declare_target (view d) o = Some tg ->
  db_decl d tg n v (o_flavor o) = Some r' -> r' <> (dir, tb) ->
  o_force o = false -> o_noaction o = false ->
  step_gen p d (Declare o n v (Some dir) (Some tb) (Some x)) = Ok d' ->
  forall s n' v' f', db_decl d' s n' v' f' = db_decl d s n' v' f'.
Proof.
  intros Ht Hd N Hf Hn H.
  assert (Hs : has_stack d tg = true) by apply (db_decl_has_stack _ _ _ _ _ _ Hd).
  pose proof (proj2 (view_target_has_stack d tg) Hs) as Hm.
  destruct (declare_decls _ _ _ _ _ _ _ _ _ Hn H) as [pl [Hp Hq]].
  rewrite (plan_explicit _ _ _ _ _ _ _ _ Ht Hm) in Hp. cbv zeta in Hp.
  rewrite <- a_decl_view in Hd. rewrite Hd, Hf in Hp.
  assert (Hw : dp_write pl = false) by (destruct (vrec_eqb (dir, tb) r'); inversion Hp; reflexivity).
  intros. rewrite Hq, Hw. reflexivity.
Qed.
Print Assumptions conflicting_redeclaration_with_tag_keeps_declaration.

(* dry run: with noaction every command except Eups.assignTag (which never looks at the flag)
   performs no effect at all *)
Theorem noaction_changes_nothing p d o d' :
  o_noaction (op_opts o) = true -> is_assign o = false ->
  step_gen p d o = Ok d' -> effects_gen p d o = Ok [] /\ d' = d.
Proof. apply noaction_step. Qed.
Print Assumptions noaction_changes_nothing.

(* ---------------------------------------------------------------- the hypotheses are inhabited *)

Definition darwin := lit "Darwin".
Definition ex_history : list op :=
  [ Declare o_any (lit "a") (lit "1") (Some (lit "/p/a1")) None None;
    Declare (mkOpts darwin None false false) (lit "a") (lit "1") (Some (lit "/p/a1d")) None None;
    Declare (o_in s2) (lit "a") (lit "2") (Some (lit "/p/a2")) None (Some (lit "stable"));
    AssignTag o_any (lit "stable") (lit "a") (lit "1");
    Undeclare (mkOpts darwin None false false) (lit "a") None ].

(* a reachable, non-trivial database: two stacks, two flavors sharing a version file, tags *)
Example ex_state :
  let d := run false (empty_db [s1; s2]) ex_history in
  adecls (view d) = [ ((s1, lit "a", lit "1", linux), (lit "/p/a1", lit "/p/a1/ups/a.table"));
                      ((s2, lit "a", lit "2", linux), (lit "/p/a2", lit "/p/a2/ups/a.table")) ] /\
  atags (view d) = [ ((s1, lit "a", current, linux), lit "1");
                     ((s1, lit "a", lit "stable", linux), lit "1");
                     ((s2, lit "a", lit "stable", linux), lit "2") ] /\
  listing d = [ (s1, ([lit "a"], [(lit "a", lit "1")], [(lit "a", current); (lit "a", lit "stable")]));
                (s2, ([lit "a"], [(lit "a", lit "2")], [(lit "a", lit "stable")])) ].
Proof. vm_compute. auto. Qed.

(* the effects of one undeclare, in the order the code performs them: tags first, then the
   version block, then the directory; and of a first declaration: Database.declare writes the
   chain file of the tag the product carries, Eups.assignTag writes it again (same content) *)
Example ex_effects :
  let d := run false (empty_db [s1]) [Declare o_any (lit "a") (lit "1") (Some (lit "/p/a1")) None (Some (lit "stable"))] in
  effects d (Undeclare o_any (lit "a") (Some (lit "1"))) =
  Ok [ RemoveC s1 (lit "a", lit "stable"); RemoveV s1 (lit "a", lit "1"); Rmdir s1 (lit "a") ] /\
  effects (empty_db [s1]) (Declare o_any (lit "a") (lit "1") (Some (lit "/p/a1")) None None) =
  Ok [ Mkdir s1 (lit "a");
       WriteV s1 (lit "a", lit "1") [(linux, (lit "/p/a1", lit "/p/a1/ups/a.table"))];
       WriteC s1 (lit "a", current) [(linux, lit "1")];
       WriteC s1 (lit "a", current) [(linux, lit "1")] ].
Proof. vm_compute. auto. Qed.

(* a tag move across two stacks, in the order the code performs it: current names a 1 in s1 and in s2;
   declare a 2 -t current in s1 rewrites the chain file of s1 once (the tag is at no time unassigned there)
   and then removes the tag from s2.  The pinned tree removed first, then wrote, and left s2 alone (D20, D14) *)
Definition ex_move_history : list op :=
  [ Declare (o_in s1) (lit "a") (lit "1") (Some (lit "/p/a1")) None (Some current);
    Declare (o_in s2) (lit "a") (lit "1") (Some (lit "/p/a1")) None None;
    AssignTag (o_in s2) current (lit "a") (lit "1");
    Declare (o_in s1) (lit "a") (lit "2") (Some (lit "/p/a2")) None None ].

Example ex_tag_move_effects :
  let d := run false (empty_db [s1; s2]) ex_move_history in
  let move := Declare (o_in s1) (lit "a") (lit "2") None None (Some current) in
  db_tag d s1 (lit "a") current linux = Some (lit "1") /\ db_tag d s2 (lit "a") current linux = Some (lit "1") /\
  effects d move = Ok [ WriteC s1 (lit "a", current) [(linux, lit "2")]; RemoveC s2 (lit "a", current) ] /\
  effects_pinned d move = Ok [ RemoveC s1 (lit "a", current); WriteC s1 (lit "a", current) [(linux, lit "2")] ].
Proof. vm_compute. auto. Qed.

Example ex_conflict_hypotheses :
  let d := run false (empty_db [s1; s2]) ex_history in
  declare_target (view d) o_any = Some s1 /\
  db_decl d s1 (lit "a") (lit "1") linux = Some (lit "/p/a1", lit "/p/a1/ups/a.table") /\
  no_dangling (view d).
Proof.
  split; [vm_compute; reflexivity|]. split; [vm_compute; reflexivity|].
  apply run_no_dangling. apply no_dangling_empty.
Qed.

(* ================================================================ the extended declaration
   Model/DbExt.v: table files with text (compared by content), tablefile none, tables handed over
   as a stream and external files (copied below ups_db/<flavor>/<product>/<version>), the choice of
   the target stack (-Z, home stack of the product directory, read-only stacks).  [xdb] = records
   and copies, [xstep e x o] one command under the environment e (read-only stacks, texts of the
   files outside the databases), [xrun] a history.  Every other command is that of Db.v. *)

(* one command of the extended model: the records afterwards show what the abstract transition
   yields, the copies are the same map, and it raises exactly when the specification does *)
Theorem ext_refinement_step e x o :
  (forall x', xstep e x o = Ok x' ->
     exists y', xastep e (xview x) o = Ok y' /\ aeq (view (xd x')) (xa y') /\ xfiles x' = xafiles y') /\
  (forall k, xstep e x o = Err k <-> xastep e (xview x) o = Err k).
Proof. split; [apply xstep_refines|intro k; apply xstep_err_iff]. Qed.
Print Assumptions ext_refinement_step.

(* the invariant over every extended history from the empty database *)
Theorem ext_no_dangling_tag e path os :
  let d := xd (xrun e (xempty path) os) in
  forall s n t f v, db_tag d s n t f = Some v -> db_decl d s n v f <> None.
Proof. cbv zeta. apply no_dangling_db. apply xrun_no_dangling. apply no_dangling_empty. Qed.
Print Assumptions ext_no_dangling_tag.

(* no command touches a declaration or a tag of another product or of another flavor *)
Theorem ext_frame e x o x' :
  xstep e x o = Ok x' ->
  forall s n k f, (n, f) <> xop_nf o ->
  db_decl (xd x') s n k f = db_decl (xd x) s n k f /\ db_tag (xd x') s n k f = db_tag (xd x) s n k f.
Proof. apply xframe_nf. Qed.
Print Assumptions ext_frame.

(* a declaration writes copies below its own directory ups_db/<flavor>/<product>/<version> of the
   target stack only; the copies kept with every other declaration are as before *)
Theorem ext_frame_files e x o n v dir tb t ext x' :
  xstep e x (XDeclare o n v dir tb t ext) = Ok x' ->
  o_noaction o = true /\ xfiles x' = xfiles x \/
  exists p, xdeclare_plan e (view (xd x)) (xfiles x) o n v dir tb t ext = Ok p /\
    forall q, starts_with (extra_dir (dp_target (xp_plan p)) (o_flavor o) n v ++ slash) q = false ->
              alookup q (xfiles x') = alookup q (xfiles x).
Proof. apply xdeclare_frame_files. Qed.
Print Assumptions ext_frame_files.

(* the code as it is: undeclare, remove and the tag commands leave every copy where it is *)
Theorem ext_other_commands_keep_files e x y x' : xstep e x (XOld y) = Ok x' -> xfiles x' = xfiles x.
Proof. apply xold_keeps_files. Qed.
Print Assumptions ext_other_commands_keep_files.

(* what the table argument is recorded as *)
Definition table_named (xf' : amap str) (tg f n v d : str) (tb : tspec) (tname : str) : Prop :=
  match tb with
  | TNone => tname = none_s
  | TDefault => tname = default_table d n
  | TPath p => is_subpath p (extra_dir tg f n v) = false -> tname = p
  | TStream text => tname = interned_table tg f n v /\ alookup tname xf' = Some (intern_text text)
  end.

(* declared is found, for the extended declaration: a new or a FORCED declaration with an explicit
   directory is found in the target stack with that directory and with the table file it was given --
   the path, none, the default table, or the copy of the stream, whose text is there -- whatever was
   declared before, in particular when only the table path changed and the text did not *)
Theorem ext_declared_is_found e x o n v d tb t ext x' :
  o_noaction o = false ->
  (tspec_given tb = true \/ t = None) ->
  xstep e x (XDeclare o n v (Some d) tb t ext) = Ok x' ->
  exists rd tg tname,
    xtarget e (map fst (xd x)) o d = Ok (rd, tg) /\
    ((o_force o = true \/ db_decl (xd x) rd n v (o_flavor o) = None) ->
     db_decl (xd x') tg n v (o_flavor o) = Some (d, tname) /\
     table_named (xfiles x') tg (o_flavor o) n v d tb tname).
Proof.
  intros Hn Hg H. destruct (xdeclare_step _ _ _ _ _ _ _ _ _ _ Hn H) as [p [Hp [Hf Hd]]].
  destruct (xdeclare_plan_inv _ _ _ _ _ _ _ _ _ _ _ Hp)
    as [d' [tb1 [rd [tg [tname [full [tc [ec [Ht [Hrt [Hre [Hdir [Htb [Hpd [Hpt [Hpg [_ [Hc [_ [_ [Hw _]]]]]]]]]]]]]]]]]]]]].
  pose proof (Hdir d eq_refl) as ->. rewrite (Htb Hg) in Hrt. rewrite apath_view in Ht.
  exists rd, tg, tname. split; [exact Ht|]. intro Hc0. rewrite <- a_decl_view in Hc0.
  split.
  - rewrite Hd, (Hw Hc0), Hpd, Hpt, Hpg, dkey_eqb_refl. reflexivity.
  - unfold table_named. destruct tb as [|p0| |text]; cbn [resolve_table] in Hrt.
    + destruct (is_some _); inversion Hrt. reflexivity.
    + intro Hs. rewrite Hs in Hrt. destruct (is_some _); inversion Hrt. reflexivity.
    + inversion Hrt. reflexivity.
    + inversion Hrt. subst tname full tc. split; [reflexivity|].
      rewrite Hf, Hc, map_app. cbn [map fst snd].
      unfold interned_table.
      match goal with |- alookup ?k (write_files (?cs ++ [(?k', ?tx)]) ?xf) = _ => change k with k' end.
      apply write_files_last.
Qed.
Print Assumptions ext_declared_is_found.

(* without force the record of a version that is declared never changes: the request is either no
   difference (the same directory, the same table text under whatever path, the same copies), or only
   the tag is declared, or it is refused *)
Theorem ext_unforced_redeclaration_keeps_record e x o n v d tb t ext x' rd tg :
  o_noaction o = false -> o_force o = false ->
  xtarget e (map fst (xd x)) o d = Ok (rd, tg) ->
  db_decl (xd x) rd n v (o_flavor o) <> None ->
  xstep e x (XDeclare o n v (Some d) tb t ext) = Ok x' ->
  forall s n' v' f', db_decl (xd x') s n' v' f' = db_decl (xd x) s n' v' f'.
Proof.
  intros Hn Hf Hx Hr H s n' v' f'. destruct (xdeclare_step _ _ _ _ _ _ _ _ _ _ Hn H) as [p [Hp [_ Hd]]].
  destruct (xdeclare_plan_inv _ _ _ _ _ _ _ _ _ _ _ Hp)
    as [d' [tb1 [rd' [tg' [tname [full [tc [ec [Ht [Hrt [Hre [Hdir [Htb [Hpd [Hpt [Hpg [_ [Hc [Hrd [_ [_ Hw]]]]]]]]]]]]]]]]]]]]].
  pose proof (Hdir d eq_refl) as ->. rewrite apath_view, Hx in Ht. inversion Ht. subst rd' tg'.
  rewrite <- a_decl_view in Hr. rewrite Hd, (Hw Hf Hr). reflexivity.
Qed.
Print Assumptions ext_unforced_redeclaration_keeps_record.

(* where a declaration goes *)
Theorem ext_declare_goes_to_home_stack e path o d h :
  o_stack o = None -> home_stack path d = Some h -> mem_str h (e_ro e) = false ->
  xtarget e path o d = Ok (h, h).
Proof. intros H1 H2 H3. unfold xtarget. rewrite H1, H2, H3. reflexivity. Qed.
Print Assumptions ext_declare_goes_to_home_stack.

Theorem ext_declare_goes_to_first_writable e path o d w :
  o_stack o = None -> home_stack path d = None -> first_writable (e_ro e) path = Some w ->
  xtarget e path o d = Ok (w, w) /\ In w path /\ mem_str w (e_ro e) = false.
Proof.
  intros H1 H2 H3. split; [unfold xtarget; rewrite H1, H2, H3; reflexivity|]. apply (first_writable_In _ _ _ H3).
Qed.
Print Assumptions ext_declare_goes_to_first_writable.

(* whatever the request, the record is written to a stack of the path that is not read-only *)
Theorem ext_declare_target_is_writable e x o n v dir tb t ext p :
  xdeclare_plan e (view (xd x)) (xfiles x) o n v dir tb t ext = Ok p ->
  has_stack (xd x) (dp_target (xp_plan p)) = true /\ mem_str (dp_target (xp_plan p)) (e_ro e) = false.
Proof.
  intro Hp. destruct (xdeclare_plan_inv _ _ _ _ _ _ _ _ _ _ _ Hp)
    as [d' [tb1 [rd [tg [tname [full [tc [ec [Ht [_ [_ [_ [_ [_ [_ [Hpg _]]]]]]]]]]]]]]]].
  rewrite Hpg. destruct (xtarget_sound _ _ _ _ _ _ Ht) as [H1 [H2 _]].
  split; [apply view_target_has_stack; exact H1|exact H2].
Qed.
Print Assumptions ext_declare_target_is_writable.

(* -Z naming a read-only stack: refused, nothing changes *)
Theorem ext_declare_into_readonly_refused e x o n v d tb t ext s :
  o_stack o = Some s -> mem_str s (e_ro e) = true ->
  xstep e x (XDeclare o n v (Some d) tb t ext) = Err Refused /\
  xstep_total e x (XDeclare o n v (Some d) tb t ext) = x.
Proof.
  intros H1 H2.
  assert (E : xstep e x (XDeclare o n v (Some d) tb t ext) = Err Refused).
  { unfold xstep. cbn [xdecide]. unfold xdeclare_plan. cbv zeta. unfold xtarget. rewrite H1, H2. reflexivity. }
  split; [exact E|apply (xstep_total_err _ _ _ _ E)].
Qed.
Print Assumptions ext_declare_into_readonly_refused.

(* a command that raises has changed nothing, records and copies *)
Theorem ext_refused_changes_nothing e x o k : xstep e x o = Err k -> xstep_total e x o = x.
Proof. apply xstep_total_err. Qed.
Print Assumptions ext_refused_changes_nothing.

(* the hypotheses are inhabited: a stream declared into the second stack by home-stack inference with
   the first stack read-only, redeclared by force with tablefile none, the copy stays *)
Definition ex_env : env :=
  mkEnv [s1] [(lit "/prod/a1/ups/a.table", lit "# a"); (lit "/s2/prod/a1/ups/a.table", lit "# a")].
Definition ex_xhistory : list xop :=
  [ XDeclare o_any (lit "a") (lit "1") (Some (lit "/s2/prod/a1")) (TStream (lit "# l1" ++ ["010"%char] ++ lit "# l2")) None [];
    XDeclare (mkOpts linux None true false) (lit "a") (lit "1") (Some (lit "/s2/prod/a1")) TNone None [];
    XDeclare (mkOpts linux None false false) (lit "a") (lit "1") (Some (lit "/s2/prod/a1")) TDefault None [] ].

(* the table kept with the generic declaration, named again when only a tag is declared under a flavor
   that falls back on generic: the new declaration names that very file (before the repair it named
   ups_db/Linux64/a/1/ups/a.table, which does not exist) *)
Example ex_interned_table_of_fallback_flavor :
  let og := mkOpts generic (Some s1) false false in
  let x := xrun (mkEnv [] []) (xempty [s1; s2])
             [ XDeclare og (lit "a") (lit "1") (Some (lit "/prod/a1")) (TStream (lit "# g")) None [];
               XDeclare (o_in s1) (lit "a") (lit "1") None TDefault (Some (lit "beta")) [] ] in
  db_decl (xd x) s1 (lit "a") (lit "1") linux = Some (lit "/prod/a1", lit "/s1/ups_db/generic/a/1/ups/a.table") /\
  alookup (lit "/s1/ups_db/generic/a/1/ups/a.table") (xfiles x) = Some (lit "# g ").
Proof. vm_compute. auto. Qed.

Example ex_xstate :
  let x := xrun ex_env (xempty [s1; s2]) (firstn 2 ex_xhistory) in
  adecls (view (xd x)) = [ ((s2, lit "a", lit "1", linux), (lit "/s2/prod/a1", lit "none")) ] /\
  xfiles x = [ (lit "/s2/ups_db/Linux64/a/1/ups/a.table", lit "# l1" ++ ["010"%char; " "%char] ++ lit "# l2 ") ] /\
  xstep ex_env x (nth 2 ex_xhistory (XOld (Remove o_any [] []))) = Err Refused /\
  xstep ex_env x (XDeclare (o_in s1) (lit "a") (lit "2") (Some (lit "/prod/a1")) TDefault None []) = Err Refused.
Proof. vm_compute. auto. Qed.

(* ================================================================ tags that are not recognised
   [kstep known e x o]: the command o under the list [known] of registered global tags.  A command
   whose tag is not in the list raises (TagNotRecognized) before anything is written. *)

(* a command naming an unrecognised tag -- declare -t, assignTag, unassignTag, undeclare --tag, with
   or without force, noaction, a table stream, external files -- raises and changes nothing: no new
   version file, no new flavor block, no copy below ups_db *)
Theorem unknown_tag_refused_changes_nothing known e x o :
  unknown_tag known o = true ->
  (exists k, kstep known e x o = Err k) /\ kstep_total known e x o = x.
Proof.
  intro H. destruct (kstep_unknown known e x o H) as [H1 H2]. split; [eexists; exact H1|exact H2].
Qed.
Print Assumptions unknown_tag_refused_changes_nothing.

(* declare -t with an unrecognised tag is refused whatever else was asked for *)
Theorem unknown_tag_declare_refused known e x o n v dir tb t ext :
  mem_str t known = false ->
  kstep known e x (XDeclare o n v dir tb (Some t) ext) = Err Refused /\
  kstep_total known e x (XDeclare o n v dir tb (Some t) ext) = x.
Proof.
  intro H. assert (U : unknown_tag known (XDeclare o n v dir tb (Some t) ext) = true).
  { unfold unknown_tag. cbn [xop_tag]. rewrite H. reflexivity. }
  destruct (kstep_unknown known e x _ U) as [H1 H2]. split; [exact H1|exact H2].
Qed.
Print Assumptions unknown_tag_declare_refused.

(* the commands whose tag is recognised, and those that name no tag, are the commands of [xstep] *)
Theorem known_tag_commands_unaffected known e x o :
  unknown_tag known o = false -> kstep known e x o = xstep e x o.
Proof. intro H. apply (proj1 (kstep_known known e x o H)). Qed.
Print Assumptions known_tag_commands_unaffected.

(* ANY command that raises has changed nothing, records and copies *)
Theorem any_refused_command_changes_nothing known e x o k :
  kstep known e x o = Err k -> kstep_total known e x o = x.
Proof. apply kstep_total_err. Qed.
Print Assumptions any_refused_command_changes_nothing.

(* a history is worth the history in which the commands with an unrecognised tag were never typed:
   in particular the first version declared afterwards of a product still becomes current *)
Theorem history_ignores_unknown_tags known e x os :
  krun known e x os = xrun e x (recognised known os).
Proof. apply krun_recognised. Qed.
Print Assumptions history_ignores_unknown_tags.

Theorem unknown_tags_no_dangling_tag known e path os :
  let d := xd (krun known e (xempty path) os) in
  forall s n t f v, db_tag d s n t f = Some v -> db_decl d s n v f <> None.
Proof. cbv zeta. rewrite krun_recognised. apply ext_no_dangling_tag. Qed.
Print Assumptions unknown_tags_no_dangling_tag.

(* ================================================================ directories beside a stack
   A directory whose path merely begins with the characters of the path of a stack (/x/stack2,
   /x/stack-extras for the stack /x/stack) is not inside that stack: it is no home stack, and the
   declaration records it as it was given ([ext_declared_is_found] holds for every directory). *)
Theorem sibling_directory_is_outside_stack s c r :
  ascii_eqb "/"%char c = false -> is_subpath (stack_dir s ++ c :: r) (stack_dir s) = false.
Proof. apply is_subpath_sibling. Qed.
Print Assumptions sibling_directory_is_outside_stack.

Theorem sibling_directory_goes_to_first_writable e s path o c r w :
  ascii_eqb "/"%char c = false -> o_stack o = None ->
  home_stack path (stack_dir s ++ c :: r) = None ->
  first_writable (e_ro e) (s :: path) = Some w ->
  xtarget e (s :: path) o (stack_dir s ++ c :: r) = Ok (w, w).
Proof.
  intros Hc Ho Hh Hw. unfold xtarget. rewrite Ho. cbn [home_stack].
  rewrite (is_subpath_sibling (stack_dir s) c r Hc), Hh, Hw. reflexivity.
Qed.
Print Assumptions sibling_directory_goes_to_first_writable.

(* stacks whose names are prefixes of each other: a product inside /s12 declared into /s1 by -Z, one
   in /s1-extras declared without -Z (no home stack: first stack), then the other flavor of the first
   one declared in the shared version file, and a command with an unrecognised tag in between *)
Example ex_prefix_stacks :
  let s12 := lit "s12" in
  let e := mkEnv [] [(lit "/s12/prod/a1/ups/a.table", lit "# a"); (lit "/s1-extras/b2/ups/b.table", lit "# b");
                     (lit "/s1/prod/a1/ups/a.table", lit "# a1")] in
  let x := krun [lit "current"; lit "stable"] e (xempty [s1; s12])
             [ XDeclare (o_in s1) (lit "a") (lit "1") (Some (lit "/s12/prod/a1")) TDefault None [];
               XDeclare o_any (lit "b") (lit "2") (Some (lit "/s1-extras/b2")) TDefault None [];
               XDeclare (o_in s1) (lit "a") (lit "2") (Some (lit "/s12/prod/a1")) TDefault (Some (lit "stabel")) [];
               XDeclare (mkOpts generic (Some s1) false false) (lit "a") (lit "1") (Some (lit "/s1/prod/a1")) TDefault None [];
               XOld (AssignTag o_any (lit "nightly") (lit "a") (lit "1")) ] in
  adecls (view (xd x)) =
    [ ((s1, lit "a", lit "1", linux), (lit "/s12/prod/a1", lit "/s12/prod/a1/ups/a.table"));
      ((s1, lit "a", lit "1", generic), (lit "/s1/prod/a1", lit "/s1/prod/a1/ups/a.table"));
      ((s1, lit "b", lit "2", linux), (lit "/s1-extras/b2", lit "/s1-extras/b2/ups/b.table")) ] /\
  atags (view (xd x)) = [ ((s1, lit "a", lit "current", linux), lit "1"); ((s1, lit "a", lit "current", generic), lit "1");
                          ((s1, lit "b", lit "current", linux), lit "2") ] /\
  home_stack [s1; s12] (lit "/s12/prod/a1") = Some s12 /\ home_stack [s1; s12] (lit "/s1-extras/b2") = None.
Proof. vm_compute. auto. Qed.
