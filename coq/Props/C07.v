(* C07 - answers served from the product cache equal the answers in the database files.

   Model: Model/Cache.v on top of Model/Db.v.  A world = database files + a modification time for
   every product directory, version file and chain file + the cache files of every (cache
   directory, stack, flavor).  [reachable tick vr w]: w is produced from empty stacks by any number
   of processes run one after the other -- each one the fromCache load of every stack followed by
   any commands, dying or not before a database call or between a database call and the cache
   update that follows it -- by any users (cache directories) and flavors, with cache files deleted
   at any moment, inside or outside processes.  [repaired] = the code with the two fixes proposed
   for this property (ProductFamily.removeVersion; order of the fall-back flavor set-up in
   Eups.__init__); the pinned behaviours are kept as variants and refuted below.

   [q_cache m q] is the answer of an Eups whose product stacks are m (noCache=False), [q_db w q]
   the answer read from the version and chain files (noCache=True); queries: is a version
   declared, its directory and table, does it carry a tag, the version a tag designates, per stack
   and over the path.

   Hypotheses that stay in the statements:
   - clock_strict tick: every record effect and every cache-file write gets a stamp strictly
     later than the previous ones (refuted without it: coherent_refuted_coarse_clock);
   - the query is about a flavor the loading instance consults (its own or a fall-back): an
     Eups does not load, hence cannot answer for, other flavors (unconsulted_flavor_not_served). *)
From Eupsv Require Import Base.Base Model.Db Model.Cache.
From Eupsv Require Import Proofs.DbLib Proofs.Db Proofs.DbInv Proofs.DbCor.
From Eupsv Require Import Proofs.CacheLib Proofs.CacheWt Proofs.CacheRebuild Proofs.CacheEff Proofs.CacheInv
  Proofs.CacheLoad Proofs.CacheProc Proofs.CacheCor.

(* ---------------------------------------------------------------- the property *)

(* whatever the history, whoever made it, a new process of any user and flavor answers every
   query through its cache as the database files do *)
Theorem coherent : forall tick, clock_strict tick -> forall w, reachable tick repaired w ->
  forall loc fl q, In (q_flavor q) (fallbacks fl) ->
  q_cache (snd (load tick repaired w loc fl)) q = q_db w q.
Proof. intros tick CS w R loc fl q Hq. apply coherent_load; assumption. Qed.
Print Assumptions coherent.

(* the invariant behind it: in every reachable world every cache file, product by product,
   either agrees with the files, or is older than a record of the product, or lists a product
   that has no version file any more *)
Theorem cache_files_stale_or_right : forall tick, clock_strict tick -> forall w, reachable tick repaired w ->
  forall loc s f p, pk_get w loc s f = Some p -> forall n,
    agree_n (pk_data p) (w_db w) s f n
    \/ (In n (db_names (w_db w) s) /\ newer_n (w_db w) (w_stamps w) s n (pk_stamp p) = true)
    \/ (~ In n (db_names (w_db w) s) /\ alookup n (pk_data p) <> None).
Proof.
  intros tick CS w R loc s f p H n. destruct (reachable_inv tick w CS R) as [I _].
  exact (inv_pk w I loc s f p H n).
Qed.
Print Assumptions cache_files_stale_or_right.

(* a cache that is missing or older than the database is not believed ... *)
Theorem missing_or_older_is_not_believed : forall w loc s nf f, In f nf ->
  (pk_get w loc s f = None \/ exists p, pk_get w loc s f = Some p /\ newer_than w s (pk_stamp p) = true) ->
  believed w loc s nf = false.
Proof.
  intros w loc s nf f Hf [H|[p [H1 H2]]]; apply (not_up_to_date_not_believed w loc s nf f Hf).
  - apply absent_not_up_to_date. exact H.
  - eapply older_not_up_to_date; eassumption.
Qed.
Print Assumptions missing_or_older_is_not_believed.

(* ... and a cache that is not believed (in the user's directory nor in ups_db) is rebuilt: the
   stack is loaded with what the files say, for every flavor, and every needed cache file is
   rewritten with a fresh stamp *)
Theorem stale_is_rebuilt : forall tick, clock_strict tick -> forall w, reachable tick repaired w ->
  forall s loc nf, believed w loc s nf = false -> believed w upsdb s nf = false ->
  let '(w', ps) := from_cache tick w s loc nf in
  (forall f, In f (db_flavors (w_db w) s) -> alookup f (ps_lookup ps) = Some (rebuild_fdata (w_db w) s f)) /\
  (forall f, In f nf -> exists p, pk_get w' loc s f = Some p /\ w_clock w < pk_stamp p) /\
  (forall f fd, alookup f (ps_lookup ps) = Some fd -> agree fd (w_db w) s f) /\
  w_db w' = w_db w.
Proof.
  intros tick CS w R s loc nf B1 B2. destruct (reachable_inv tick w CS R) as [I _].
  pose proof (stale_rebuilt tick w s loc nf CS I B1 B2) as H.
  destruct (from_cache tick w s loc nf) as [w' ps]. destruct H as [H1 [H2 [[H3 _] H4]]].
  split; [exact H1|]. split; [exact H2|]. split; [|exact H4]. rewrite <- H4. exact H3.
Qed.
Print Assumptions stale_is_rebuilt.

(* a command killed between the database update and the cache update: the world it leaves is
   answered coherently by every later process *)
Theorem crash_between_db_and_cache_detected : forall tick, clock_strict tick ->
  forall w, reachable tick repaired w ->
  forall p i g, p_crash p = Some (i, g, true) ->
  forall loc fl q, In (q_flavor q) (fallbacks fl) ->
  q_cache (snd (load tick repaired (run_proc tick repaired w p) loc fl)) q = q_db (run_proc tick repaired w p) q.
Proof.
  intros tick CS w R p i g _ loc fl q Hq. apply coherent_load; [exact CS| |exact Hq]. apply R_proc. exact R.
Qed.
Print Assumptions crash_between_db_and_cache_detected.

(* the mechanism: a database call that changes anything leaves the product directory newer than
   every cache file of the stack, whoever wrote it; none of them is up to date afterwards *)
Theorem db_update_outdates_cache_files : forall tick, clock_strict tick -> forall w, reachable tick repaired w ->
  forall x l f p, compile (w_db w) x <> [] -> pk_get w l (act_stack x) f = Some p ->
  In (act_name x) (db_names (w_db (do_act tick w x)) (act_stack x)) ->
  up_to_date (do_act tick w x) l (act_stack x) f = false.
Proof.
  intros tick CS w R x l f p Ne Hp Hn. destruct (reachable_inv tick w CS R) as [I _].
  eapply act_outdates; eassumption.
Qed.
Print Assumptions db_update_outdates_cache_files.

(* the write-through of one database call, on the repaired removeVersion: data that agree with
   the files before the call agree with the files after it *)
Theorem write_through_follows_database : forall ps d s x,
  lookup_agree ps d s -> no_dangling (view d) -> act_ok (view d) x -> act_root x = s ->
  has_stack d s = true -> alookup (act_flavor x) (ps_lookup ps) <> None ->
  exists ps' ch, wt_act false x ps = Ok (ps', ch) /\ lookup_agree ps' (apply (compile d x) d) s.
Proof.
  intros ps d s x A ND OK R H F. destruct (wt_act_agree ps d s x A ND OK R H F) as [ps' [ch [E [A' _]]]].
  exists ps', ch. auto.
Qed.
Print Assumptions write_through_follows_database.

(* ---------------------------------------------------------------- witnesses *)

Definition g : str := lit "generic".
Definition L : str := lit "Linux64".
Definition D : str := lit "Darwin".
Definition s1 : str := lit "s1".
Definition s2 : str := lit "s2".
Definition u1 : str := lit "u1".
Definition u2 : str := lit "u2".
Definition a : str := lit "a".
Definition o (f : str) : opts := mkOpts f None false false.
Definition decl (f : str) (v : string) : pop := POp (Declare (o f) a (lit v) (Some (lit "/prod/a")) None None).
Definition undecl (f : str) (v : string) : pop := POp (Undeclare (o f) a (Some (lit v))).
Arguments decl f v%string.
Arguments undecl f v%string.
Definition P (loc f : str) (ops : list pop) : proc := mkProc loc f ops None.
Definition w0 : world := init_world [s1; s2].

Lemma nodup_path : NoDup [s1; s2].
Proof. constructor; [intros [H|[]]; discriminate|]. constructor; [intros []|constructor]. Qed.

(* the hypotheses are inhabited: the real clock of the model, and a world with two stacks, two
   users, two flavors, a tag, a death between database and cache, and a deleted cache file *)
Example clock_strict_S : clock_strict S.
Proof. intro c. apply Nat.lt_succ_diag_r. Qed.

Definition w_example : world :=
  delete_cache
    (run_proc S repaired
      (run_proc S repaired
         (run_proc S repaired
            (run_proc S repaired w0 (P u1 L [decl L "1.0"; decl L "2.0"]))
            (mkProc u2 g [decl g "3.0"; undecl g "3.0"] (Some (1, 0, true))))
         (P u2 L [undecl L "1.0"]))
      (P u2 L []))
    u1 s1 L.

Example w_example_reachable : reachable S repaired w_example.
Proof. unfold w_example. apply R_del. do 4 apply R_proc. apply R_init. exact nodup_path. Qed.

(* the cache files of user u2 are believed, those of user u1 are not (one was deleted); the database holds
   a 2.0 and lost a 1.0 (undeclared) and a 3.0 (undeclared by a command that died before its
   cache update) *)
Example w_example_nontrivial :
  believed w_example u2 s1 (fallbacks L) = true /\ believed w_example u1 s1 (fallbacks L) = false /\
  q_db w_example (QFind a (lit "2.0") L) = AStackRec (Some (s1, (lit "/prod/a", lit "/prod/a/ups/a.table"))) /\
  q_db w_example (QFind a (lit "3.0") g) = AStackRec None.
Proof. vm_compute. repeat split. Qed.

Example w_example_answers :
  q_cache (snd (load S repaired w_example u2 L)) (QFind a (lit "2.0") L) =
    AStackRec (Some (s1, (lit "/prod/a", lit "/prod/a/ups/a.table"))) /\
  q_cache (snd (load S repaired w_example u2 L)) (QFind a (lit "3.0") g) = AStackRec None /\
  q_cache (snd (load S repaired w_example u1 L)) (QDeclared s1 a (lit "1.0") L) = ABool false.
Proof. vm_compute. repeat split. Qed.

(* D1, the pinned ProductFamily.removeVersion: it looks for the tags of the version among the
   values of self.versions, never finds one, and the tag outlives the version in the cache.
   declare a 1.0 (becomes current) . declare a 2.0 . undeclare a 1.0 . declare a 1.0, four
   processes under the generic flavor: the cache answers that current is 1.0, the files have no
   current.chain. *)
Definition pinned_remove : variant := mkVar true false.
Definition w_d1 (vr : variant) : world :=
  run_proc S vr (run_proc S vr (run_proc S vr (run_proc S vr w0
    (P u1 g [decl g "1.0"])) (P u1 g [decl g "2.0"])) (P u1 g [undecl g "1.0"])) (P u1 g [decl g "1.0"]).

Example coherent_refuted_pinned :
  reachable S pinned_remove (w_d1 pinned_remove) /\
  q_cache (snd (load S pinned_remove (w_d1 pinned_remove) u1 g)) (QFindTagged a current g)
    = AStackVer (Some (s1, lit "1.0")) /\
  q_db (w_d1 pinned_remove) (QFindTagged a current g) = AStackVer None.
Proof.
  split; [|vm_compute; split; reflexivity].
  unfold w_d1. do 4 apply R_proc. apply R_init. exact nodup_path.
Qed.

Example d1_repaired :
  q_cache (snd (load S repaired (w_d1 repaired) u1 g)) (QFindTagged a current g) = AStackVer None.
Proof. vm_compute. reflexivity. Qed.

(* the pinned Eups.__init__ computes the needed flavors before the fall-back list is installed:
   the first Eups of a process (every command-line invocation) loads the invoking flavor only and
   answers that a product declared for the fall-back flavor generic is not there *)
Definition pinned_flavors : variant := mkVar false true.
Definition w_fl (vr : variant) : world :=
  run_proc S vr (run_proc S vr w0 (P u1 g [decl g "1.0"])) (P u1 L [decl L "2.0"]).

Example coherent_refuted_pinned_flavors :
  reachable S pinned_flavors (w_fl pinned_flavors) /\ In g (fallbacks L) /\
  q_cache (snd (load S pinned_flavors (w_fl pinned_flavors) u1 L)) (QDeclared s1 a (lit "1.0") g) = ABool false /\
  q_db (w_fl pinned_flavors) (QDeclared s1 a (lit "1.0") g) = ABool true.
Proof.
  split; [unfold w_fl; do 2 apply R_proc; apply R_init; exact nodup_path|].
  split; [right; left; reflexivity|]. vm_compute. split; reflexivity.
Qed.

Example flavors_repaired :
  q_cache (snd (load S repaired (w_fl repaired) u1 L)) (QDeclared s1 a (lit "1.0") g) = ABool true.
Proof. vm_compute. reflexivity. Qed.

(* clock_strict is needed: with a clock that stands still, a cache file written in the same tick
   as a later database update (here by a command killed before its cache update) is believed *)
Definition stuck (c : nat) : nat := c.
Definition w_coarse : world :=
  run_proc stuck repaired (run_proc stuck repaired w0 (P u1 g [decl g "1.0"]))
    (mkProc u1 g [decl g "2.0"] (Some (0, 0, true))).

Example coherent_refuted_coarse_clock :
  reachable stuck repaired w_coarse /\
  q_cache (snd (load stuck repaired w_coarse u1 g)) (QDeclared s1 a (lit "2.0") g) = ABool false /\
  q_db w_coarse (QDeclared s1 a (lit "2.0") g) = ABool true.
Proof.
  split; [unfold w_coarse; do 2 apply R_proc; apply R_init; exact nodup_path|].
  vm_compute. split; reflexivity.
Qed.

(* the same history under the strict clock: the killed command's update is seen *)
Example crash_detected_example :
  let w := run_proc S repaired (run_proc S repaired w0 (P u1 g [decl g "1.0"]))
             (mkProc u1 g [decl g "2.0"] (Some (0, 0, true))) in
  believed w u1 s1 (fallbacks g) = false /\
  q_cache (snd (load S repaired w u1 g)) (QDeclared s1 a (lit "2.0") g) = ABool true.
Proof. vm_compute. split; reflexivity. Qed.

(* the flavor hypothesis is needed: an instance of flavor Linux64 that loaded from its cache
   files holds nothing about Darwin and answers that a Darwin declaration is not there *)
Definition w_foreign : world :=
  run_proc S repaired
    (run_proc S repaired (run_proc S repaired w0 (P u1 D [decl D "1.0"])) (P u1 L [decl L "2.0"]))
    (P u1 L []).

Example unconsulted_flavor_not_served :
  reachable S repaired w_foreign /\ ~ In D (fallbacks L) /\
  q_cache (snd (load S repaired w_foreign u1 L)) (QDeclared s1 a (lit "1.0") D) = ABool false /\
  q_db w_foreign (QDeclared s1 a (lit "1.0") D) = ABool true.
Proof.
  split; [unfold w_foreign; do 3 apply R_proc; apply R_init; exact nodup_path|].
  split; [intros [H|[H|[]]]; discriminate|]. vm_compute. split; reflexivity.
Qed.
