(* C07 - answers served from the product cache equal the answers in the database files.

   Model: Model/Cache.v on top of Model/Db.v.  A world = database files + the chain files of every
   user's tag directory (user tags) + a modification time for every product directory, version file
   and chain file, of the stacks and of the tag directories + the cache files of every (cache
   directory, stack, flavor).  [reachable tick vr w]: w is produced from empty stacks by any number
   of processes run one after the other -- each one the fromCache load of every stack followed by
   any commands, user-tag commands included, dying or not before a database call or between a
   database call and the cache update that follows it -- by any users (cache directories) and
   flavors, with cache files deleted at any moment, inside or outside processes.

   The variant record of the model has six switches.  Two of them (v_rm: ProductFamily.removeVersion;
   v_init: order of the fall-back flavor set-up in Eups.__init__) are repairs that /repo has; the other
   four (v_uloc, v_ustale, v_noread, v_shared) are the user-tag repairs of proposed_fixes/C07-user-tag-
   location, -user-tag-staleness, -declare-reads-back-tags, -shared-cache-user-tags (with -load-user-tags-
   skip, which has no switch), which /repo does NOT have: Eups.assignTag writes the chain file of a user
   tag among the stack's own (open finding D42), and that cannot be repaired while tests/test_eups2.py::
   testUserTags pins it; the other four only show once it is repaired.
   [repaired] = all switches on the repaired side = /repo + proposed_fixes/C07-*.diff.
   [tree_as_it_is] = v_rm and v_init repaired, the four user-tag switches pinned = /repo.

   - The theorems about declarations and global tags are stated for [repaired] (whose histories include
     user-tag commands) AND for any setting of the four user-tag switches, [tree_as_it_is] among them, over
     the histories without user-tag commands ([reachable_nut]; *_whatever_the_user_tag_switches): those are
     the statements that hold of /repo as it is.
   - The theorems about user tags are stated for [repaired] only; of /repo as it is they are false:
     user_tags_refuted_pinned_location.

   [q_served w m q] is the answer of an Eups whose product stacks are m, in world w (noCache=False): the
   loaded stack answers for the flavors it holds, the database files for any other flavor
   (Eups._readDatabase, proposed_fixes/C07-unloaded-flavor-from-database); [q_cache m q] is the pinned
   answer, which takes a flavor that was not loaded for a flavor without products
   (coherent_refuted_pinned_unloaded_flavor); [q_db w q]
   the answer read from the version and chain files (noCache=True); queries: is a version
   declared, its directory and table, does it carry a tag, the version a tag designates, per stack
   and over the path.  [uq_served w m u q] ([uq_cache m q] pinned) / [uq_db w u q]: the same for the user tags of user u (does
   the version carry user tag t, the version t designates, per stack and over the path), read from
   the chain files of the tag directory of u.

   Hypotheses that stay in the statements:
   - clock_strict tick: every record effect and every cache-file write gets a stamp strictly
     later than the previous ones (refuted without it: coherent_refuted_coarse_clock);
   - (user tags only) the query is about a flavor the loading instance consults, or no chain file of a
     stack is named like the user tag: for a flavor that was not loaded findTaggedProduct reads
     Database.getChainFile, which looks among the stack's own chain files first;
   - a user's data directory is not a stack's ups_db (u <> upsdb), and (in reachable) an
     administrator's instance only loads; user-tag answers are stated for instances that are not
     administrators (an administrator's instance holds no user tag, by design of the repair). *)
From Eupsv Require Import Base.Base Model.Db Model.Cache Model.CacheLive.
From Eupsv Require Import Proofs.DbLib Proofs.Db Proofs.DbInv Proofs.DbCor.
From Eupsv Require Import Proofs.CacheLib Proofs.CacheWt Proofs.CacheRebuild Proofs.CacheEff Proofs.CacheU Proofs.CacheInv
  Proofs.CacheLoad Proofs.CacheProc Proofs.CacheCor Proofs.CacheNoU Proofs.CacheLive.

(* ---------------------------------------------------------------- the property *)

(* whatever the history, whoever made it, a new process of any user and flavor answers every
   query through its cache as the database files do *)
Theorem coherent : forall tick, clock_strict tick -> forall w, reachable tick repaired w ->
  forall u loc fl q, u <> upsdb -> loc = u \/ loc = upsdb ->
  q_served (fst (load tick repaired w loc u fl)) (snd (load tick repaired w loc u fl)) q = q_db w q.
Proof. intros tick CS w R u loc fl q Hu Hl. apply coherent_load_served; assumption. Qed.
Print Assumptions coherent.

(* [repaired] = /repo + proposed_fixes/C07-*.diff.  On /repo as it is this clause is refuted
   (user_tags_refuted_pinned_location: open finding D42, not repairable while tests/test_eups2.py::testUserTags
   pins the behaviour of Eups.assignTag / unassignTag).
   The same for user tags: whatever the history -- assignments, moves and removals of user tags by any
   user, undeclarations of tagged versions by the same or another user and their redeclaration, deaths
   between the write in the tag directory and the cache update, deleted cache files -- a new process of
   user u answers every query about the user tags of u through its cache as the chain files of the tag
   directory of u (and the version files) do *)
Theorem user_tags_coherent : forall tick, clock_strict tick -> forall w, reachable tick repaired w ->
  forall u fl q, u <> upsdb ->
  In (uq_flavor q) (fallbacks fl) \/ (forall s n, db_cfile (w_db w) s (n, uq_tag q) = None) ->
  uq_served (fst (load tick repaired w u u fl)) (snd (load tick repaired w u u fl)) u q = uq_db w u q.
Proof. intros tick CS w R u fl q Hu Hq. apply ucoherent_load_served; assumption. Qed.
Print Assumptions user_tags_coherent.

(* /repo as it is: removeVersion and the flavor set-up repaired, the four user-tag switches pinned *)
Definition tree_as_it_is : variant := mkVar false false true true true true.

Example tree_as_it_is_base : base_repaired tree_as_it_is.
Proof. split; reflexivity. Qed.

(* the property for declarations and global tags, whatever the four user-tag switches (hence for /repo as it
   is), over the histories that contain no user-tag command: every process then does what the repaired code
   does, the tag directories stay empty *)
Theorem coherent_whatever_the_user_tag_switches : forall tick, clock_strict tick ->
  forall vr, base_repaired vr -> forall w, reachable_nut tick vr w ->
  forall u loc fl q, u <> upsdb -> loc = u \/ loc = upsdb ->
  q_served (fst (load tick vr w loc u fl)) (snd (load tick vr w loc u fl)) q = q_db w q.
Proof.
  intros tick CS vr B w R u loc fl q Hu Hl. destruct (reachable_nut_repaired tick vr w B R) as [R' N].
  rewrite (proj1 (load_nouc tick vr w loc u fl B N)). apply coherent_load_served; assumption.
Qed.
Print Assumptions coherent_whatever_the_user_tag_switches.

(* the invariant behind both: in every reachable world every cache file, product by product,
   either agrees with the files -- the stack's records, and for the user tags the tag directory of
   the owner of the cache directory (nobody's for ups_db) --, or is older than a record of the
   product or than the owner's tag directory for the product, or lists a product that has no
   version file any more *)
Theorem cache_files_stale_or_right : forall tick, clock_strict tick -> forall w, reachable tick repaired w ->
  forall loc s f p, pk_get w loc s f = Some p -> forall n,
    (agree_n (pk_data p) (w_db w) s f n /\ uagree_n (pk_data p) (w_db w) (w_uc w) (owner loc) s f n)
    \/ (In n (db_names (w_db w) s) /\
        (newer_n (w_db w) (w_stamps w) s n (pk_stamp p) = true
         \/ (loc <> upsdb /\ pk_stamp p < stamp_of (w_stamps w) (RUDir loc s n))))
    \/ (~ In n (db_names (w_db w) s) /\ alookup n (pk_data p) <> None).
Proof.
  intros tick CS w R loc s f p H n. destruct (reachable_inv tick w CS R) as [I _].
  exact (inv_pk w I loc s f p H n).
Qed.
Print Assumptions cache_files_stale_or_right.

(* a cache that is missing, or older than the database, or (in a user's directory) older than his
   tag directory, is not believed ... *)
Theorem missing_or_older_is_not_believed : forall w loc s nf f, In f nf ->
  (pk_get w loc s f = None \/
   (exists p, pk_get w loc s f = Some p /\ newer_than w s (pk_stamp p) = true) \/
   (loc <> upsdb /\ exists p, pk_get w loc s f = Some p /\ unewer_than w loc s (pk_stamp p) = true)) ->
  believed w loc s nf = false.
Proof.
  intros w loc s nf f Hf [H|[[p [H1 H2]]|[N [p [H1 H2]]]]]; apply (not_up_to_date_not_believed w loc s nf f Hf).
  - apply absent_not_up_to_date. exact H.
  - eapply older_not_up_to_date; eassumption.
  - eapply uolder_not_up_to_date; eassumption.
Qed.
Print Assumptions missing_or_older_is_not_believed.

(* the first two cases do not depend on the switch of cacheIsUpToDate: missing, or older than the database,
   is not believed on /repo as it is either *)
Theorem missing_or_older_is_not_believed_whatever_the_switch : forall b w loc s nf f ps, In f nf ->
  (pk_get w loc s f = None \/ (exists p, pk_get w loc s f = Some p /\ newer_than w s (pk_stamp p) = true)) ->
  snd (try_cache b w loc s nf ps) = false.
Proof.
  intros b w loc s nf f ps Hf [H|[p [H1 H2]]]; apply (not_up_to_date_not_believed_any b w loc s nf f ps Hf).
  - apply absent_not_up_to_date. exact H.
  - eapply older_not_up_to_date; eassumption.
Qed.
Print Assumptions missing_or_older_is_not_believed_whatever_the_switch.

(* ... and a cache that is not believed (in the user's directory nor in ups_db) is rebuilt: the
   stack is loaded with what the files say (the user tags: what the tag directory of the loading
   user says), for every flavor, and every needed cache file is rewritten with a fresh stamp *)
Theorem stale_is_rebuilt : forall tick, clock_strict tick -> forall w, reachable tick repaired w ->
  forall s loc nf, believed w loc s nf = false -> believed w upsdb s nf = false ->
  let '(w', ps) := from_cache tick false w s loc (owner loc) nf in
  (forall f, In f (db_flavors (w_db w) s) ->
     alookup f (ps_lookup ps) = Some (rebuild_fdata (w_db w) (w_uc w) (owner loc) s f)) /\
  (forall f, In f nf -> exists p, pk_get w' loc s f = Some p /\ w_clock w < pk_stamp p) /\
  (forall f fd, alookup f (ps_lookup ps) = Some fd ->
     agree fd (w_db w) s f /\ uagree fd (w_db w) (w_uc w) (owner loc) s f) /\
  w_db w' = w_db w /\ w_uc w' = w_uc w.
Proof.
  intros tick CS w R s loc nf B1 B2. destruct (reachable_inv tick w CS R) as [I _].
  pose proof (stale_rebuilt tick w s loc (owner loc) nf CS I eq_refl B1 B2) as H.
  destruct (from_cache tick false w s loc (owner loc) nf) as [w' ps]. destruct H as [H1 [H2 [[H3 [H3u _]] [H4 H5]]]].
  split; [exact H1|]. split; [exact H2|]. split; [|split; [exact H4|exact H5]].
  intros f fd E. rewrite <- H4, <- H5. split; [exact (H3 f fd E)|].
  intro n. apply (ugood_uagree_n fd (w_db w') (w_uc w') (owner loc) s f n (H3 f fd E n)). apply (H3u f fd E).
Qed.
Print Assumptions stale_is_rebuilt.

(* a command killed between the database update and the cache update: the world it leaves is
   answered coherently by every later process *)
Theorem crash_between_db_and_cache_detected : forall tick, clock_strict tick ->
  forall w, reachable tick repaired w ->
  forall p i g, p_user p <> upsdb -> (p_admin p = true -> p_ops p = []) -> p_crash p = Some (i, g, true) ->
  forall u loc fl q, u <> upsdb -> loc = u \/ loc = upsdb ->
  q_served (fst (load tick repaired (run_proc tick repaired w p) loc u fl))
           (snd (load tick repaired (run_proc tick repaired w p) loc u fl)) q = q_db (run_proc tick repaired w p) q.
Proof.
  intros tick CS w R p i g Hp Ha _ u loc fl q Hu Hl. apply coherent_load_served; try assumption. apply R_proc; assumption.
Qed.
Print Assumptions crash_between_db_and_cache_detected.

(* the same whatever the four user-tag switches, for commands that are not user-tag commands *)
Theorem crash_detected_whatever_the_user_tag_switches : forall tick, clock_strict tick ->
  forall vr, base_repaired vr -> forall w, reachable_nut tick vr w ->
  forall p i g, p_user p <> upsdb -> (p_admin p = true -> p_ops p = []) -> forallb base_pop (p_ops p) = true ->
  p_crash p = Some (i, g, true) ->
  forall u loc fl q, u <> upsdb -> loc = u \/ loc = upsdb ->
  q_served (fst (load tick vr (run_proc tick vr w p) loc u fl)) (snd (load tick vr (run_proc tick vr w p) loc u fl)) q
    = q_db (run_proc tick vr w p) q.
Proof.
  intros tick CS vr B w R p i g Hp Ha Hb _ u loc fl q Hu Hl.
  apply coherent_whatever_the_user_tag_switches; try assumption. apply RN_proc; assumption.
Qed.
Print Assumptions crash_detected_whatever_the_user_tag_switches.

(* [repaired] = /repo + proposed_fixes/C07-*.diff; on /repo as it is the user-tag clauses are refuted
   (user_tags_refuted_pinned_location, D42) and this one in particular by user_tags_refuted_pinned_staleness.
   The same when the command killed is a user-tag command (the write in the tag directory is done, the
   cache update is not), for the user tags of any user *)
Theorem user_tag_crash_detected : forall tick, clock_strict tick ->
  forall w, reachable tick repaired w ->
  forall p i g, p_user p <> upsdb -> (p_admin p = true -> p_ops p = []) -> p_crash p = Some (i, g, true) ->
  forall u fl q, u <> upsdb ->
  In (uq_flavor q) (fallbacks fl) \/ (forall s n, db_cfile (w_db (run_proc tick repaired w p)) s (n, uq_tag q) = None) ->
  uq_served (fst (load tick repaired (run_proc tick repaired w p) u u fl))
            (snd (load tick repaired (run_proc tick repaired w p) u u fl)) u q = uq_db (run_proc tick repaired w p) u q.
Proof.
  intros tick CS w R p i g Hp Ha _ u fl q Hu Hq. apply ucoherent_load_served; try assumption. apply R_proc; assumption.
Qed.
Print Assumptions user_tag_crash_detected.

(* the mechanism: a database call that changes anything leaves the product directory newer than
   every cache file of the stack, whoever wrote it; none of them is up to date afterwards *)
Theorem db_update_outdates_cache_files : forall tick, clock_strict tick -> forall w, reachable tick repaired w ->
  forall b x l f p, compile (w_db w) x <> [] -> pk_get w l (act_stack x) f = Some p ->
  In (act_name x) (db_names (w_db (do_act tick w x)) (act_stack x)) ->
  up_to_date b (do_act tick w x) l (act_stack x) f = false.
Proof.
  intros tick CS w R b x l f p Ne Hp Hn. destruct (reachable_inv tick w CS R) as [I _].
  eapply act_outdates; eassumption.
Qed.
Print Assumptions db_update_outdates_cache_files.

(* [repaired] = /repo + proposed_fixes/C07-*.diff (cacheIsUpToDate with the switch on the repaired side, a
   write that goes into the tag directory); on /repo as it is Eups.assignTag does not write there at all
   (user_tags_refuted_pinned_location, D42).
   The mechanism for user tags: a write in the tag directory of user u leaves the product's directory
   there newer than every cache file of u for the stack; none of them is up to date afterwards *)
Theorem user_tag_update_outdates_own_cache_files : forall tick, clock_strict tick -> forall w, reachable tick repaired w ->
  forall u s n t f v f0 p, u <> upsdb -> pk_get w u s f0 = Some p -> In n (db_names (w_db w) s) ->
  up_to_date false (do_uset tick w u s n t f v) u s f0 = false.
Proof.
  intros tick CS w R u s n t f v f0 p Hu Hp Hn. destruct (reachable_inv tick w CS R) as [I _].
  eapply uset_outdates; eassumption.
Qed.
Print Assumptions user_tag_update_outdates_own_cache_files.

(* the write-through of one database call, on the repaired removeVersion: data that agree with
   the files before the call agree with the files after it *)
Theorem write_through_follows_database : forall uts ps d s x,
  lookup_agree ps d s -> no_dangling (view d) -> act_ok (view d) x -> act_root x = s ->
  has_stack d s = true -> alookup (act_flavor x) (ps_lookup ps) <> None ->
  exists ps' ch, wt_act false uts x ps = Ok (ps', ch) /\ lookup_agree ps' (apply (compile d x) d) s.
Proof.
  intros uts ps d s x A ND OK R H F. destruct (wt_act_agree uts ps d s x A ND OK R H F) as [ps' [ch [E [A' _]]]].
  exists ps', ch. auto.
Qed.
Print Assumptions write_through_follows_database.

(* [repaired] = /repo + proposed_fixes/C07-*.diff (read-back switch and location switch on the repaired side);
   on /repo as it is the tag directory is not where Eups.assignTag writes (user_tags_refuted_pinned_location,
   D42) and nothing is read back (user_tags_refuted_pinned_read_back).
   The write-through for user tags, of a database call (a declaration reads the user's chain files that
   name the version back; an undeclaration takes his tags off the version in the tag directory and in
   the data) and of the two user-tag calls: user tags that agree with the tag directory before the
   call agree with it after *)
Theorem write_through_follows_tag_directory : forall tick w u ps,
  (forall s x ps' ch, ps_ugood ps (w_uc w) (Some u) s -> lookup_agree ps (w_db w) s -> act_root x = s ->
     alookup (act_flavor x) (ps_lookup ps) <> None ->
     wt_act false (read_back false (do_act tick (do_uact tick w u x) x) u) x ps = Ok (ps', ch) ->
     ps_ugood ps' (w_uc (do_act tick (do_uact tick w u x) x)) (Some u) s) /\
  (forall x ps' ch, ps_ugood ps (w_uc w) (Some u) (uact_stack x) -> wt_uact x ps = Ok (ps', ch) ->
     ps_ugood ps' (w_uc (do_udb tick false w u x)) (Some u) (uact_stack x)).
Proof.
  intros tick w u ps. split.
  - intros s x ps' ch G A R F E. apply (wt_act_ugood tick w u _ ps s x ps' ch) with (6 := E); auto.
    intros s0 n v f. unfold read_back. rewrite do_act_uc. reflexivity.
  - intros x ps' ch G E. eapply wt_uact_ugood; eassumption.
Qed.
Print Assumptions write_through_follows_tag_directory.

(* ---------------------------------------------------------------- several live instances in one process *)

(* Model/CacheLive.v: one process of a user holds several Eups instances at the same time; they share the
   database files and the cache files of the user and each keeps its own loaded copy.  Before an instance
   does anything with a stack it calls ensureInSync on it.  [ensure_in_sync_held] is the repaired
   ensureInSync (proposed_fixes/C07-ensure-in-sync-held-flavors: the flavors the stack holds are read again);
   the pinned one, [ensure_in_sync] of Model/Cache.v, reads every cache file of the directory and is refuted
   below (live_refuted_pinned_reload_all).

   [live_ok w loc s ps]: every flavor the stack holds agrees with the files or its cache file was rewritten
   since the stack loaded or wrote it, and when a held file was rewritten the cache files of the held
   flavors agree with the files (what the write-through of the other instance leaves:
   write_through_follows_database, then persist).  Under it the answers through the cache after
   ensureInSync are those of the database files, for every flavor, whatever the instance did in between
   (tables parsed on demand leave no trace in the model: table_read_changes_nothing).

   NOT proved (stated here in full): for every reachable w and every session xs of a user u <> upsdb,
     run_session tick repaired false u fl w xs = (w', ms) -> nth_error ms i = Some m ->
     forall s ps, alookup s m = Some ps -> live_ok w' u s ps
   -- that every step of a session re-establishes live_ok for every OTHER live instance.  Before the repair of
   ProductStack.fromCache (D58: an instance that loaded from the shared files of ups_db did not watch the file
   in its own directory) it was false: shared_cache_fallback_tracks_own_file, stale_writer_does_not_overwrite
   show the repaired behaviour on the two witnesses.  No counterexample is known now; it is still not proved.
   The correspondence runs compare the model of the sessions with the real code step by step instead. *)
Theorem live_instance_coherent : forall w loc m q,
  map fst m = map fst (w_db w) ->
  (forall s ps, alookup s m = Some ps -> live_ok w loc s ps) ->
  q_served w (sync_mem false w loc m) q = q_db w q.
Proof. intros w loc m q K L. apply live_coherent; assumption. Qed.
Print Assumptions live_instance_coherent.

(* what ensureInSync reads again replaces the data of the flavor wholesale: versions, directories, tables
   and tags are those of the cache file, nothing of the old copy is kept *)
Theorem live_reload_replaces_the_flavor_wholesale : forall w s loc ps f p,
  held_moved w s loc ps = true -> alookup f (ps_lookup ps) <> None -> pk_get w loc s f = Some p ->
  alookup f (ps_lookup (ensure_in_sync_held w s loc ps)) = Some (pk_data p).
Proof. intros. apply sync_held_wholesale; assumption. Qed.
Print Assumptions live_reload_replaces_the_flavor_wholesale.

(* and it never makes the stack hold a flavor it did not hold (whose cache file nobody checked) *)
Theorem live_reload_adds_no_flavor : forall w s loc ps f,
  alookup f (ps_lookup ps) = None -> alookup f (ps_lookup (ensure_in_sync_held w s loc ps)) = None.
Proof. intros. apply sync_held_no_new_flavor; assumption. Qed.
Print Assumptions live_reload_adds_no_flavor.

(* every instance built in any reachable world starts in that state, for every stack *)
Theorem new_instance_is_live_ok : forall tick, clock_strict tick -> forall w, reachable tick repaired w ->
  forall u fl s ps, u <> upsdb -> alookup s (snd (load tick repaired w u u fl)) = Some ps ->
  live_ok (fst (load tick repaired w u u fl)) u s ps.
Proof.
  intros tick CS w R u fl s ps Hu H. destruct (reachable_inv tick w CS R) as [I ND].
  destruct (load tick repaired w u u fl) as [w1 m] eqn:El. cbn [fst snd] in *.
  destruct (load_ok tick w u u fl w1 m CS I ND Hu (or_introl eq_refl) El) as [_ [_ [_ [_ L1]]]].
  destruct (L1 s ps H) as [X _]. eapply ps_ok_live_ok. exact X.
Qed.
Print Assumptions new_instance_is_live_ok.

(* parsing a table on demand (Product.getTable handing the table back to the stack, which marks the flavor
   as updated) is, for the files and for every instance, the same step as being asked: ensureInSync and
   nothing else *)
Theorem table_read_changes_nothing : forall tick vr pin u fl w ms i,
  fst (fst (run_lstep tick vr pin u fl w ms (LTable i))) = w /\
  run_lstep tick vr pin u fl w ms (LTable i) = run_lstep tick vr pin u fl w ms (LAsk i).
Proof. intros. destruct (table_and_ask_keep_world tick vr pin u fl w ms i) as [A [_ B]]. split; assumption. Qed.
Print Assumptions table_read_changes_nothing.

(* ---------------------------------------------------------------- witnesses *)

Definition g : str := lit "generic".
Definition L : str := lit "Linux64".
Definition D : str := lit "Darwin".
Definition s1 : str := lit "s1".
Definition s2 : str := lit "s2".
Definition u1 : str := lit "u1".
Definition u2 : str := lit "u2".
Definition a : str := lit "a".
Definition mine : str := lit "mine".
Definition exp : str := lit "exp".
Definition o (f : str) : opts := mkOpts f None false false.
Definition decl (f : str) (v : string) : pop := POp (Declare (o f) a (lit v) (Some (lit "/prod/a")) None None).
Definition undecl (f : str) (v : string) : pop := POp (Undeclare (o f) a (Some (lit v))).
Definition utag (f t : str) (v : string) : pop := PUAssign (o f) t a (lit v).
Definition uuntag (f t : str) : pop := PUUnassign (mkOpts f (Some (lit "s1")) false false) t a None.
Arguments decl f v%string.
Arguments undecl f v%string.
Arguments utag f t v%string.
Definition P (u f : str) (ops : list pop) : proc := mkProc u false f ops None.
Definition Adm (u f : str) : proc := mkProc u true f [] None.
Definition w0 : world := init_world [s1; s2].

Lemma nodup_path : NoDup [s1; s2].
Proof. constructor; [intros [H|[]]; discriminate|]. constructor; [intros []|constructor]. Qed.

Ltac reach :=
  repeat (lazymatch goal with
          | |- reachable _ _ (delete_cache _ _ _ _) => apply R_del
          | |- reachable _ _ (run_proc _ _ _ _) => apply R_proc; [discriminate | (intro; discriminate) || reflexivity |]
          end);
  apply R_init; exact nodup_path.

(* the hypotheses are inhabited: the real clock of the model, and a world with two stacks, two
   users, two flavors, a tag, a death between database and cache, and a deleted cache file *)
Example clock_strict_S : clock_strict S.
Proof. intro c. apply Nat.lt_succ_diag_r. Qed.

Definition w_example : world :=
  delete_cache
    (run_proc S repaired
      (run_proc S repaired
         (run_proc S repaired
            (run_proc S repaired w0 (P u1 L [decl L "1.0"; decl L "2.0"]))
            (mkProc u2 false g [decl g "3.0"; undecl g "3.0"] (Some (1, 0, true))))
         (P u2 L [undecl L "1.0"]))
      (P u2 L []))
    u1 s1 L.

Example w_example_reachable : reachable S repaired w_example.
Proof. unfold w_example. reach. Qed.

(* the cache files of user u2 are believed, those of user u1 are not (one was deleted); the database holds
   a 2.0 and lost a 1.0 (undeclared) and a 3.0 (undeclared by a command that died before its
   cache update) *)
Example w_example_nontrivial :
  believed w_example u2 s1 (fallbacks L) = true /\ believed w_example u1 s1 (fallbacks L) = false /\
  q_db w_example (QFind a (lit "2.0") L) = AStackRec (Some (s1, (lit "/prod/a", lit "/prod/a/ups/a.table"))) /\
  q_db w_example (QFind a (lit "3.0") g) = AStackRec None.
Proof. vm_compute. repeat split. Qed.

Example w_example_answers :
  q_cache (snd (load S repaired w_example u2 u2 L)) (QFind a (lit "2.0") L) =
    AStackRec (Some (s1, (lit "/prod/a", lit "/prod/a/ups/a.table"))) /\
  q_cache (snd (load S repaired w_example u2 u2 L)) (QFind a (lit "3.0") g) = AStackRec None /\
  q_cache (snd (load S repaired w_example u1 u1 L)) (QDeclared s1 a (lit "1.0") L) = ABool false.
Proof. vm_compute. repeat split. Qed.

(* a world with user tags: u1 declares 1.0 and 2.0 and tags 1.0 mine; u2 tags 2.0 mine (his own tag of
   that name); a command of u1 dies between writing exp -> 2.0 into his tag directory and the cache
   update; u2 undeclares 1.0 (the chain file mine of u1 stays, naming a version that is gone); an
   administrator rebuilds the caches of ups_db; a cache file of u2 is deleted *)
Definition w_uexample : world :=
  delete_cache
    (run_proc S repaired
      (run_proc S repaired
         (run_proc S repaired
            (run_proc S repaired
               (run_proc S repaired w0 (P u1 g [decl g "1.0"; decl g "2.0"; utag g mine "1.0"]))
               (P u2 g [utag g mine "2.0"]))
            (mkProc u1 false g [utag g exp "2.0"] (Some (0, 0, true))))
         (P u2 g [undecl g "1.0"]))
      (Adm u1 g))
    u2 s1 g.

Example w_uexample_reachable : reachable S repaired w_uexample.
Proof. unfold w_uexample. reach. Qed.

Example w_uexample_nontrivial :
  (* the tag directory of u1 still has the chain file mine -> 1.0; no reader sees it, 1.0 is gone *)
  uc_tag (w_uc w_uexample) u1 s1 a mine g = Some (lit "1.0") /\
  uq_db w_uexample u1 (UQTagged s1 a mine g) = AVer None /\
  (* the assignment of the command that died is in the files *)
  uq_db w_uexample u1 (UQTagged s1 a exp g) = AVer (Some (lit "2.0")) /\
  (* the same tag name of the other user is another tag *)
  uq_db w_uexample u2 (UQFindTagged a mine g) = AStackVer (Some (s1, lit "2.0")) /\
  (* the cache files of u1 are older than his tag directory, those of u2 are gone, those of ups_db are fresh *)
  believed w_uexample u1 s1 (fallbacks g) = false /\ believed w_uexample u2 s1 (fallbacks g) = false /\
  believed w_uexample upsdb s1 (fallbacks g) = true.
Proof. vm_compute. repeat split. Qed.

Example w_uexample_answers :
  uq_cache (snd (load S repaired w_uexample u1 u1 g)) (UQTagged s1 a exp g) = AVer (Some (lit "2.0")) /\
  uq_cache (snd (load S repaired w_uexample u1 u1 g)) (UQTagged s1 a mine g) = AVer None /\
  uq_cache (snd (load S repaired w_uexample u2 u2 g)) (UQFindTagged a mine g) = AStackVer (Some (s1, lit "2.0")) /\
  uq_cache (snd (load S repaired w_uexample u2 u2 g)) (UQHasTag s1 a (lit "2.0") exp g) = ABool false.
Proof. vm_compute. repeat split. Qed.

(* D1, the pinned ProductFamily.removeVersion: it looks for the tags of the version among the
   values of self.versions, never finds one, and the tag outlives the version in the cache.
   declare a 1.0 (becomes current) . declare a 2.0 . undeclare a 1.0 . declare a 1.0, four
   processes under the generic flavor: the cache answers that current is 1.0, the files have no
   current.chain. *)
Definition pinned_remove : variant := mkVar true false false false false false.
Definition w_d1 (vr : variant) : world :=
  run_proc S vr (run_proc S vr (run_proc S vr (run_proc S vr w0
    (P u1 g [decl g "1.0"])) (P u1 g [decl g "2.0"])) (P u1 g [undecl g "1.0"])) (P u1 g [decl g "1.0"]).

Example coherent_refuted_pinned :
  reachable S pinned_remove (w_d1 pinned_remove) /\
  q_cache (snd (load S pinned_remove (w_d1 pinned_remove) u1 u1 g)) (QFindTagged a current g)
    = AStackVer (Some (s1, lit "1.0")) /\
  q_db (w_d1 pinned_remove) (QFindTagged a current g) = AStackVer None.
Proof.
  split; [|vm_compute; split; reflexivity].
  unfold w_d1. reach.
Qed.

Example d1_repaired :
  q_cache (snd (load S repaired (w_d1 repaired) u1 u1 g)) (QFindTagged a current g) = AStackVer None.
Proof. vm_compute. reflexivity. Qed.

(* the pinned Eups.__init__ computes the needed flavors before the fall-back list is installed:
   the first Eups of a process (every command-line invocation) loads the invoking flavor only and
   answers that a product declared for the fall-back flavor generic is not there *)
Definition pinned_flavors : variant := mkVar false true false false false false.
Definition w_fl (vr : variant) : world :=
  run_proc S vr (run_proc S vr w0 (P u1 g [decl g "1.0"])) (P u1 L [decl L "2.0"]).

Example coherent_refuted_pinned_flavors :
  reachable S pinned_flavors (w_fl pinned_flavors) /\ In g (fallbacks L) /\
  q_cache (snd (load S pinned_flavors (w_fl pinned_flavors) u1 u1 L)) (QDeclared s1 a (lit "1.0") g) = ABool false /\
  q_db (w_fl pinned_flavors) (QDeclared s1 a (lit "1.0") g) = ABool true.
Proof.
  split; [unfold w_fl; reach|].
  split; [right; left; reflexivity|]. vm_compute. split; reflexivity.
Qed.

Example flavors_repaired :
  q_cache (snd (load S repaired (w_fl repaired) u1 u1 L)) (QDeclared s1 a (lit "1.0") g) = ABool true.
Proof. vm_compute. reflexivity. Qed.

(* the pinned Eups.assignTag writes the chain file of a user tag among the chain files of the stack, where
   Eups.unassignTag (which looks into the tag directory) never removes it: assign mine to 1.0, unassign
   it (in stack s1); the files say that mine designates 1.0 (a chain file mine.chain in ups_db), the cache says that
   nothing does, neither as a user tag nor as a global one *)
Definition pinned_uloc : variant := mkVar false false true false false false.
Definition w_uloc (vr : variant) : world :=
  run_proc S vr (run_proc S vr (run_proc S vr w0 (P u1 g [decl g "1.0"])) (P u1 g [utag g mine "1.0"]))
    (P u1 g [uuntag g mine]).

Example user_tags_refuted_pinned_location :
  reachable S pinned_uloc (w_uloc pinned_uloc) /\
  q_db (w_uloc pinned_uloc) (QTagged s1 a mine g) = AVer (Some (lit "1.0")) /\
  q_cache (snd (load S pinned_uloc (w_uloc pinned_uloc) u1 u1 g)) (QTagged s1 a mine g) = AVer None /\
  uq_cache (snd (load S pinned_uloc (w_uloc pinned_uloc) u1 u1 g)) (UQTagged s1 a mine g) = AVer None.
Proof. split; [unfold w_uloc; reach|]. vm_compute. repeat split. Qed.

(* the same history on /repo as it is (all four user-tag switches pinned) *)
Example user_tags_refuted_on_the_tree_as_it_is :
  reachable S tree_as_it_is (w_uloc tree_as_it_is) /\
  q_db (w_uloc tree_as_it_is) (QTagged s1 a mine g) = AVer (Some (lit "1.0")) /\
  uq_files (w_uloc tree_as_it_is) u1 (UQTagged s1 a mine g) = AVer (Some (lit "1.0")) /\
  uq_cache (snd (load S tree_as_it_is (w_uloc tree_as_it_is) u1 u1 g)) (UQTagged s1 a mine g) = AVer None.
Proof. split; [unfold w_uloc; reach|]. vm_compute. repeat split. Qed.

(* a history without user-tag commands, on /repo as it is: the hypotheses of the *_whatever_the_user_tag_switches
   theorems are inhabited *)
Example w_example_on_the_tree_as_it_is :
  reachable_nut S tree_as_it_is
    (delete_cache
      (run_proc S tree_as_it_is
         (run_proc S tree_as_it_is
            (run_proc S tree_as_it_is w0 (P u1 L [decl L "1.0"; decl L "2.0"]))
            (mkProc u2 false g [decl g "3.0"; undecl g "3.0"] (Some (1, 0, true))))
         (Adm u1 L))
      u1 s1 L).
Proof.
  apply RN_del. repeat (apply RN_proc; [discriminate|(intro; discriminate) || reflexivity|reflexivity|]).
  apply RN_init. exact nodup_path.
Qed.

Example location_repaired :
  q_db (w_uloc repaired) (QTagged s1 a mine g) = AVer None /\
  uq_db (w_uloc repaired) u1 (UQTagged s1 a mine g) = AVer None /\
  uq_cache (snd (load S repaired (w_uloc repaired) u1 u1 g)) (UQTagged s1 a mine g) = AVer None.
Proof. vm_compute. repeat split. Qed.

(* the pinned cacheIsUpToDate never finds the tag directory newer (it lists Database(cacheDir), which has
   no product because a tag directory has no version file): a command killed between the write in the
   tag directory and the cache update leaves a cache that is believed and lacks the tag *)
Definition pinned_ustale : variant := mkVar false false false true false false.
Definition w_ustale (vr : variant) : world :=
  run_proc S vr (run_proc S vr w0 (P u1 g [decl g "1.0"])) (mkProc u1 false g [utag g mine "1.0"] (Some (0, 0, true))).

Example user_tags_refuted_pinned_staleness :
  reachable S pinned_ustale (w_ustale pinned_ustale) /\
  uq_cache (snd (load S pinned_ustale (w_ustale pinned_ustale) u1 u1 g)) (UQTagged s1 a mine g) = AVer None /\
  uq_db (w_ustale pinned_ustale) u1 (UQTagged s1 a mine g) = AVer (Some (lit "1.0")).
Proof. split; [unfold w_ustale; reach|]. vm_compute. repeat split. Qed.

Example staleness_repaired :
  believed (w_ustale repaired) u1 s1 (fallbacks g) = false /\
  uq_cache (snd (load S repaired (w_ustale repaired) u1 u1 g)) (UQTagged s1 a mine g) = AVer (Some (lit "1.0")).
Proof. vm_compute. repeat split. Qed.

(* the pinned Eups.declare registers the new version in the cache with the tag of the command line only:
   u2 tags 1.0 mine, u1 undeclares 1.0 (the chain file of u2 stays), u2 declares 1.0 again; the files
   say that mine of u2 designates 1.0, his cache (fresh: he wrote it last) says that nothing does *)
Definition pinned_noread : variant := mkVar false false false false true false.
Definition w_noread (vr : variant) : world :=
  run_proc S vr (run_proc S vr (run_proc S vr (run_proc S vr w0 (P u1 g [decl g "1.0"; decl g "2.0"]))
    (P u2 g [utag g mine "1.0"])) (P u1 g [undecl g "1.0"])) (P u2 g [decl g "1.0"]).

Example user_tags_refuted_pinned_read_back :
  reachable S pinned_noread (w_noread pinned_noread) /\
  uq_cache (snd (load S pinned_noread (w_noread pinned_noread) u2 u2 g)) (UQTagged s1 a mine g) = AVer None /\
  uq_db (w_noread pinned_noread) u2 (UQTagged s1 a mine g) = AVer (Some (lit "1.0")).
Proof. split; [unfold w_noread; reach|]. vm_compute. repeat split. Qed.

Example read_back_repaired :
  uq_cache (snd (load S repaired (w_noread repaired) u2 u2 g)) (UQTagged s1 a mine g) = AVer (Some (lit "1.0")).
Proof. vm_compute. reflexivity. Qed.

(* the pinned administrator's rebuild (eups admin buildCache -A) reads his own tag directory and writes his
   user tags into the cache files of ups_db, which every user without an up-to-date cache of his own loads:
   u1 tags 1.0 mine and rebuilds as administrator; u2, who never tagged anything, is told that 1.0 carries
   his user tag mine *)
Definition pinned_shared : variant := mkVar false false false false false true.
Definition w_shared (vr : variant) : world :=
  run_proc S vr (run_proc S vr (run_proc S vr w0 (P u1 g [decl g "1.0"])) (P u1 g [utag g mine "1.0"])) (Adm u1 g).

Example user_tags_refuted_pinned_shared_cache :
  reachable S pinned_shared (w_shared pinned_shared) /\
  uq_cache (snd (load S pinned_shared (w_shared pinned_shared) u2 u2 g)) (UQTagged s1 a mine g) = AVer (Some (lit "1.0")) /\
  uq_db (w_shared pinned_shared) u2 (UQTagged s1 a mine g) = AVer None.
Proof. split; [unfold w_shared; reach|]. vm_compute. repeat split. Qed.

Example shared_cache_repaired :
  uq_cache (snd (load S repaired (w_shared repaired) u2 u2 g)) (UQTagged s1 a mine g) = AVer None.
Proof. vm_compute. reflexivity. Qed.

(* clock_strict is needed: with a clock that stands still, a cache file written in the same tick
   as a later database update (here by a command killed before its cache update) is believed *)
Definition stuck (c : nat) : nat := c.
Definition w_coarse : world :=
  run_proc stuck repaired (run_proc stuck repaired w0 (P u1 g [decl g "1.0"]))
    (mkProc u1 false g [decl g "2.0"] (Some (0, 0, true))).

Example coherent_refuted_coarse_clock :
  reachable stuck repaired w_coarse /\
  q_cache (snd (load stuck repaired w_coarse u1 u1 g)) (QDeclared s1 a (lit "2.0") g) = ABool false /\
  q_db w_coarse (QDeclared s1 a (lit "2.0") g) = ABool true.
Proof.
  split; [unfold w_coarse; reach|].
  vm_compute. split; reflexivity.
Qed.

(* the same history under the strict clock: the killed command's update is seen *)
Example crash_detected_example :
  let w := run_proc S repaired (run_proc S repaired w0 (P u1 g [decl g "1.0"]))
             (mkProc u1 false g [decl g "2.0"] (Some (0, 0, true))) in
  believed w u1 s1 (fallbacks g) = false /\
  q_cache (snd (load S repaired w u1 u1 g)) (QDeclared s1 a (lit "2.0") g) = ABool true.
Proof. vm_compute. split; reflexivity. Qed.

(* the pinned lookups take a flavor that was not loaded for a flavor without products: an instance of flavor
   Linux64 that loaded from its cache files holds nothing about Darwin and answers that a Darwin declaration is
   not there (D34); the repaired ones read the database files for that flavor *)
Definition w_foreign : world :=
  run_proc S repaired
    (run_proc S repaired (run_proc S repaired w0 (P u1 D [decl D "1.0"])) (P u1 L [decl L "2.0"]))
    (P u1 L []).

Example coherent_refuted_pinned_unloaded_flavor :
  reachable S repaired w_foreign /\ ~ In D (fallbacks L) /\
  q_cache (snd (load S repaired w_foreign u1 u1 L)) (QDeclared s1 a (lit "1.0") D) = ABool false /\
  q_db w_foreign (QDeclared s1 a (lit "1.0") D) = ABool true.
Proof.
  split; [unfold w_foreign; reach|].
  split; [intros [H|[H|[]]]; discriminate|]. vm_compute. split; reflexivity.
Qed.

Example unloaded_flavor_repaired :
  q_served (fst (load S repaired w_foreign u1 u1 L)) (snd (load S repaired w_foreign u1 u1 L)) (QDeclared s1 a (lit "1.0") D)
    = ABool true.
Proof. vm_compute. reflexivity. Qed.

(* ---------------------------------------------------------------- several live instances: witnesses *)

Definition declt (f : str) (v : string) (t : string) : pop :=
  POp (Declare (o f) a (lit v) (Some (lit "/prod/a")) None (Some (lit t))).
Definition retag (f : str) (t : string) (v : string) : pop := POp (AssignTag (o f) (lit t) a (lit v)).
Arguments declt f v%string t%string.
Arguments retag f t%string v%string.

(* two instances of u1; instance 0 parses a table; instance 1 moves the tag current from 1.0 to 2.0 (chain
   files only); instance 0 is asked, then moves stable (its copy goes into the cache file), instance 1 is asked *)
Definition w_live : world := run_proc S repaired w0 (P u1 g [declt g "1.0" "current"; decl g "2.0"]).
Definition live_steps : list lstep :=
  [LNew; LNew; LTable 0; LOp 1 (retag g "current" "2.0"); LAsk 0; LOp 0 (retag g "stable" "1.0"); LAsk 1].

Example live_session_example :
  let '(w', ms) := run_session S repaired false u1 g w_live live_steps in
  length ms = 2 /\
  live_answer w' ms 0 (QTagged s1 a (lit "current") g) = AVer (Some (lit "2.0")) /\
  live_answer w' ms 1 (QTagged s1 a (lit "stable") g) = AVer (Some (lit "1.0")) /\
  q_db w' (QTagged s1 a (lit "current") g) = AVer (Some (lit "2.0")) /\
  q_db w' (QTagged s1 a (lit "stable") g) = AVer (Some (lit "1.0")) /\
  q_served w' (snd (load S repaired w' u1 u1 g)) (QTagged s1 a (lit "current") g) = AVer (Some (lit "2.0")).
Proof. vm_compute. repeat split. Qed.

(* the pinned ensureInSync reads every cache file of the directory: u1 declared a 2.0 for Darwin, u2 undeclared
   it (the Darwin cache file of u1 is out of date); a live instance of u1, flavor generic, that reloads because
   another instance declared something, from then on holds Darwin and answers that a 2.0 is declared *)
Definition w_dar : world :=
  run_proc S repaired (run_proc S repaired w0 (P u1 D [decl D "2.0"])) (P u2 D [undecl D "2.0"]).
Definition dar_steps : list lstep := [LNew; LNew; LOp 1 (decl g "3.0"); LAsk 0].

Example live_refuted_pinned_reload_all :
  let '(w', ms) := run_session S repaired true u1 g w_dar dar_steps in
  live_answer w' ms 0 (QDeclared s1 a (lit "2.0") D) = ABool true /\
  q_db w' (QDeclared s1 a (lit "2.0") D) = ABool false.
Proof. vm_compute. split; reflexivity. Qed.

Example reload_held_flavors_repaired :
  let '(w', ms) := run_session S repaired false u1 g w_dar dar_steps in
  live_answer w' ms 0 (QDeclared s1 a (lit "2.0") D) = ABool false /\
  live_answer w' ms 0 (QDeclared s1 a (lit "3.0") g) = ABool true /\
  q_db w' (QDeclared s1 a (lit "3.0") g) = ABool true.
Proof. vm_compute. repeat split. Qed.

(* an instance that loads a stack from the shared cache files of ups_db (an administrator keeps them; the
   user has none of his own, or out-of-date ones) persists it into its own directory (repaired:
   proposed_fixes/C07-fromcache-persists-after-fallback, D58): it then has a file of its own whose time it
   recorded, ensureInSync sees the write-through of another live instance, and save refuses to write over
   it.  Before the repair the instance had no time for that file and took it for in sync: it never saw the
   declaration below, and - the second session - a stale instance saved its copy over the other one's update
   (corpus/C07/live-shared-cache-untracked-own-file.json, live-shared-cache-stale-writer.json) *)
Definition w_adm : world := run_proc S repaired w0 (Adm u2 g).
Definition adm_steps : list lstep := [LNew; LNew; LOp 0 (decl g "1.0"); LAsk 1].

Example shared_cache_fallback_tracks_own_file :
  let '(w', ms) := run_session S repaired false u2 g w_adm adm_steps in
  live_answer w' ms 1 (QDeclared s1 a (lit "1.0") g) = ABool true /\
  live_answer w' ms 0 (QDeclared s1 a (lit "1.0") g) = ABool true /\
  q_db w' (QDeclared s1 a (lit "1.0") g) = ABool true /\
  q_served w' (snd (load S repaired w' u2 u2 g)) (QDeclared s1 a (lit "1.0") g) = ABool true.
Proof. vm_compute. repeat split. Qed.

(* u1 declares a 2.0, his cache file for s1 is deleted, an administrator's load leaves shared files; three
   instances of u1 load s1 from them; instance 2 undeclares a 2.0; instance 1 declares a 1.0; instance 2 is
   asked, and a new process: a 2.0 is gone for everybody, and from the cache file *)
Definition w_stale : world :=
  run_proc S repaired (delete_cache (run_proc S repaired w0 (P u1 g [decl g "2.0"])) u1 s1 g) (Adm u1 g).
Definition stale_steps : list lstep := [LNew; LNew; LNew; LOp 2 (undecl g "2.0"); LOp 1 (decl g "1.0"); LAsk 2].

Example stale_writer_does_not_overwrite :
  let '(w', ms) := run_session S repaired false u1 g w_stale stale_steps in
  live_answer w' ms 2 (QDeclared s1 a (lit "2.0") g) = ABool false /\
  live_answer w' ms 2 (QDeclared s1 a (lit "1.0") g) = ABool true /\
  q_db w' (QDeclared s1 a (lit "2.0") g) = ABool false /\
  q_served w' (snd (load S repaired w' u1 u1 g)) (QDeclared s1 a (lit "2.0") g) = ABool false /\
  q_served w' (snd (load S repaired w' u1 u1 g)) (QDeclared s1 a (lit "1.0") g) = ABool true.
Proof. vm_compute. repeat split. Qed.

Example live_worlds_reachable : reachable S repaired w_live /\ reachable S repaired w_dar /\ reachable S repaired w_adm /\ reachable S repaired w_stale.
Proof. unfold w_live, w_dar, w_adm, w_stale. repeat split; reach. Qed.
