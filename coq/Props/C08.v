(* C08 - An interrupted update never corrupts or loses existing declarations.
   Generic layer: whatever list of record-level effects a mutating operation performs (C06's
   model computes it), killing the process after any number k of system calls of the repaired
   (write-temporary-then-rename) protocol leaves the database records exactly as after a whole
   number j of those effects.  Hence every record is seen in its old or its new form, never
   truncated, and records the operation does not target are untouched. *)
From Eupsv Require Import Base.Base Base.BaseLemmas Model.Crash Proofs.Crash.
From Coq Require Import Lia.

Theorem crash_is_effect_prefix f l k :
  clean f -> Forall wf_effect l ->
  exists j, j <= length l /\
    forall q, is_tmp q = false ->
      alookup q (crash_state lower_atomic f l k) = alookup q (apply_effects f (firstn j l)).
Proof. exact (crash_is_effect_prefix_gen l f k). Qed.
Print Assumptions crash_is_effect_prefix.

(* each record is seen in its old form or in the complete form some write of the operation gives it *)
Theorem records_old_or_new f l k q c :
  clean f -> Forall wf_effect l -> is_tmp q = false ->
  alookup q (crash_state lower_atomic f l k) = Some (File c) ->
  alookup q f = Some (File c) \/ In (EWrite q c) l.
Proof.
  intros Hc Hw Hq H. destruct (crash_is_effect_prefix f l k Hc Hw) as [j [_ Hj]].
  rewrite (Hj q Hq) in H. destruct (apply_effects_file _ _ _ _ H) as [H1|H1]; [now left|].
  right. now apply (In_firstn _ j).
Qed.
Print Assumptions records_old_or_new.

(* records that are not the target of any effect of the interrupted operation are exactly as before *)
Theorem untargeted_records_untouched f l k q :
  clean f -> Forall wf_effect l -> is_tmp q = false ->
  (forall e, In e l -> q <> effect_target e) ->
  alookup q (crash_state lower_atomic f l k) = alookup q f.
Proof.
  intros Hc Hw Hq Hn. destruct (crash_is_effect_prefix f l k Hc Hw) as [j [_ Hj]].
  rewrite (Hj q Hq). apply apply_effects_other. intros e He. apply Hn. now apply (In_firstn _ j).
Qed.
Print Assumptions untargeted_records_untouched.

(* running to completion is the special case k = all system calls *)
Theorem completed_operation_applies_all f l :
  clean f -> Forall wf_effect l ->
  crash_state lower_atomic f l (length (lower_all lower_atomic l)) = apply_effects f l.
Proof.
  intros Hc Hw. unfold crash_state. rewrite firstn_all.
  revert f Hc. induction Hw as [|e l He Hl IH]; intros f Hc; [reflexivity|].
  unfold lower_all. cbn [flat_map]. rewrite run_all_app, atomic_complete by assumption.
  unfold apply_effects. cbn [fold_left]. apply IH. now apply clean_apply.
Qed.
Print Assumptions completed_operation_applies_all.

(* the pinned (in place) protocol does lose records: rewriting a version file that holds the block of
   another flavor and dying right after open(file, "w") leaves it empty *)
Theorem inplace_refuted_pinned :
  exists f l k q c,
    clean f /\ Forall wf_effect l /\ alookup q f = Some (File c) /\ c <> [] /\
    alookup q (crash_state lower_inplace f l k) = Some (File []).
Proof.
  exists [(lit "ups_db/a/1.version", File [lit "FLAVOR = Linux64"])],
         [EWrite (lit "ups_db/a/1.version") [lit "FLAVOR = Linux64"; lit "FLAVOR = Darwin"]],
         1, (lit "ups_db/a/1.version"), [lit "FLAVOR = Linux64"].
  split; [apply clean_cons; [reflexivity|apply clean_nil]|].
  split; [repeat constructor|]. split; [reflexivity|]. split; [discriminate|]. reflexivity.
Qed.
Print Assumptions inplace_refuted_pinned.

(* non-vacuity: a two-effect operation (rewrite a chain file, remove a version file), crashed inside the
   first write, shows the old chain file *)
Example c08_hypotheses_inhabited :
  let f := [(lit "ups_db/a/current.chain", File [lit "VERSION = 1"]); (lit "ups_db/a/1.version", File [lit "x"])] in
  let l := [EWrite (lit "ups_db/a/current.chain") [lit "VERSION = 2"]; ERemove (lit "ups_db/a/1.version")] in
  alookup (lit "ups_db/a/current.chain") (crash_state lower_atomic f l 2) = Some (File [lit "VERSION = 1"]) /\
  alookup (lit "ups_db/a/current.chain") (crash_state lower_atomic f l 4) = Some (File [lit "VERSION = 2"]) /\
  alookup (lit "ups_db/a/1.version") (crash_state lower_atomic f l 4) = Some (File [lit "x"]) /\
  alookup (lit "ups_db/a/1.version") (crash_state lower_atomic f l 5) = None.
Proof. vm_compute. repeat split. Qed.
