(* C08 - An interrupted update never corrupts or loses existing declarations.
   Generic layer: whatever list of record-level effects a mutating operation performs (C06's
   model computes it), killing the process after any number k of system calls of the repaired
   (write-temporary-then-rename) protocol leaves the database records exactly as after a whole
   number j of those effects.  Hence every record is seen in its old or its new form, never
   truncated, and records the operation does not target are untouched.
   Second layer (below, from crash_db_is_effect_prefix on): the commands of C06 on this store -
   which command produces which effects and what a fresh reader sees at every crash point. *)
From Eupsv Require Import Base.Base Base.BaseLemmas Model.Crash Proofs.Crash.
From Coq Require Import Lia.

Theorem crash_is_effect_prefix f l k :
  clean f -> Forall wf_effect l ->
  exists j, j <= length l /\
    forall q, is_tmp q = false ->
      alookup q (crash_state lower_atomic f l k) = alookup q (apply_effects f (firstn j l)).
Proof. exact (crash_is_effect_prefix_gen l f k). Qed.
Print Assumptions crash_is_effect_prefix.

(* each record is seen in its old form or in the complete form some write of the operation gives it *)
Theorem records_old_or_new f l k q c :
  clean f -> Forall wf_effect l -> is_tmp q = false ->
  alookup q (crash_state lower_atomic f l k) = Some (File c) ->
  alookup q f = Some (File c) \/ In (EWrite q c) l.
Proof.
  intros Hc Hw Hq H. destruct (crash_is_effect_prefix f l k Hc Hw) as [j [_ Hj]].
  rewrite (Hj q Hq) in H. destruct (apply_effects_file _ _ _ _ H) as [H1|H1]; [now left|].
  right. now apply (In_firstn _ j).
Qed.
Print Assumptions records_old_or_new.

(* records that are not the target of any effect of the interrupted operation are exactly as before *)
Theorem untargeted_records_untouched f l k q :
  clean f -> Forall wf_effect l -> is_tmp q = false ->
  (forall e, In e l -> q <> effect_target e) ->
  alookup q (crash_state lower_atomic f l k) = alookup q f.
Proof.
  intros Hc Hw Hq Hn. destruct (crash_is_effect_prefix f l k Hc Hw) as [j [_ Hj]].
  rewrite (Hj q Hq). apply apply_effects_other. intros e He. apply Hn. now apply (In_firstn _ j).
Qed.
Print Assumptions untargeted_records_untouched.

(* running to completion is the special case k = all system calls *)
Theorem completed_operation_applies_all f l :
  clean f -> Forall wf_effect l ->
  crash_state lower_atomic f l (length (lower_all lower_atomic l)) = apply_effects f l.
Proof.
  intros Hc Hw. unfold crash_state. rewrite firstn_all.
  revert f Hc. induction Hw as [|e l He Hl IH]; intros f Hc; [reflexivity|].
  unfold lower_all. cbn [flat_map]. rewrite run_all_app, atomic_complete by assumption.
  unfold apply_effects. cbn [fold_left]. apply IH. now apply clean_apply.
Qed.
Print Assumptions completed_operation_applies_all.

(* the pinned (in place) protocol does lose records: rewriting a version file that holds the block of
   another flavor and dying right after open(file, "w") leaves it empty *)
Theorem inplace_refuted_pinned :
  exists f l k q c,
    clean f /\ Forall wf_effect l /\ alookup q f = Some (File c) /\ c <> [] /\
    alookup q (crash_state lower_inplace f l k) = Some (File []).
Proof.
  exists [(lit "ups_db/a/1.version", File [lit "FLAVOR = Linux64"])],
         [EWrite (lit "ups_db/a/1.version") [lit "FLAVOR = Linux64"; lit "FLAVOR = Darwin"]],
         1, (lit "ups_db/a/1.version"), [lit "FLAVOR = Linux64"].
  split; [apply clean_cons; [reflexivity|apply clean_nil]|].
  split; [repeat constructor|]. split; [reflexivity|]. split; [discriminate|]. reflexivity.
Qed.
Print Assumptions inplace_refuted_pinned.

(* non-vacuity: a two-effect operation (rewrite a chain file, remove a version file), crashed inside the
   first write, shows the old chain file *)
Example c08_hypotheses_inhabited :
  let f := [(lit "ups_db/a/current.chain", File [lit "VERSION = 1"]); (lit "ups_db/a/1.version", File [lit "x"])] in
  let l := [EWrite (lit "ups_db/a/current.chain") [lit "VERSION = 2"]; ERemove (lit "ups_db/a/1.version")] in
  alookup (lit "ups_db/a/current.chain") (crash_state lower_atomic f l 2) = Some (File [lit "VERSION = 1"]) /\
  alookup (lit "ups_db/a/current.chain") (crash_state lower_atomic f l 4) = Some (File [lit "VERSION = 2"]) /\
  alookup (lit "ups_db/a/1.version") (crash_state lower_atomic f l 4) = Some (File [lit "x"]) /\
  alookup (lit "ups_db/a/1.version") (crash_state lower_atomic f l 5) = None.
Proof. vm_compute. repeat split. Qed.

(* ================================================================================================
   Second layer: the database commands of C06 (Model/Db.v) on this store (Model/CrashDb.v).

   [represents f d]: the store f holds exactly the records of database d, printed, at the paths
   <stack>/ups_db/<product>/<version>.version and <stack>/ups_db/<product>/<tag>.chain, no temporary
   file, and every name in d can be a path component.  [op_ok o]: the product, version and tag named on
   the command line contain no slash and the product does not end in .tmp.  [effects d o = Ok es]: the
   file effects the command performs (C06).  [crash_fs f es k]: the store after k system calls of the
   write-temporary-then-rename lowering of es.  [read_db]: a fresh reader (lists the store, parses every
   version and chain file of the stacks on the path, raises on a record that does not parse).
   [crash_point f d o es k d'] bundles: represents f d, op_ok o, effects d o = Ok es, and the reader
   returned d' on the crashed store.  Record contents are abstract (field values, one per line).
   ================================================================================================ *)
From Eupsv Require Import Model.Db Model.CrashDb Proofs.DbLib Proofs.Db Proofs.DbInv Proofs.DbCor
  Proofs.CrashDbLib Proofs.CrashDb Proofs.CrashDbAct Proofs.CrashDbOp Proofs.CrashDbMain Proofs.CrashDbWitness.

(* the database read back from the crashed store is the database after a whole number of file effects *)
Theorem crash_db_is_effect_prefix f d o es k :
  represents f d -> op_ok o = true -> effects d o = Ok es ->
  exists j d', j <= length es /\
    read_db (map fst d) (crash_fs f es k) = Ok d' /\ db_eq d' (apply (firstn j es) d).
Proof. exact (crash_point_reads f d o es k). Qed.
Print Assumptions crash_db_is_effect_prefix.

(* a file-effect prefix reads as an action prefix: what the reader sees after the crash is, for the whole
   view at once, the view after a whole number of refined actions (Database.undeclare spelled out as
   unassign each tag, then remove the version block) *)
Theorem crash_view_is_action_prefix f d o es k d' : crash_point f d o es k d' ->
  exists acts i, decide false (view d) o = Ok acts /\ i <= length (refine d acts) /\
    aeq (view d') (aapply_all (firstn i (refine d acts)) (view d)).
Proof.
  intro C. destruct (crash_point_view _ _ _ _ _ _ C) as [acts [j [Hd [_ [_ Hv]]]]].
  destruct (effect_prefix_is_action_prefix d acts j) as [i [Hi K]].
  exists acts, i. split; [exact Hd|]. split; [exact Hi|]. eapply aeq_trans; eassumption.
Qed.
Print Assumptions crash_view_is_action_prefix.

(* every declaration and every tag assignment reads as its value after i or after i+1 of the command's
   record-level actions, the same i for all of them (i = 0: its value before the command) *)
Theorem crash_view_old_or_step f d o es k d' : crash_point f d o es k d' ->
  exists acts i, decide false (view d) o = Ok acts /\ i <= length acts /\
    same_or (view d') (aapply_all (firstn i acts) (view d)) (aapply_all (firstn (S i) acts) (view d)).
Proof. exact (crash_between f d o es k d'). Qed.
Print Assumptions crash_view_old_or_step.

(* special case kept for its short proof - a command that comes down to at most one action (assignTag, unassignTag,
   undeclare or remove of a version however many tags point at it, a declaration that assigns no tag): old or new *)
Theorem crash_view_old_or_new_single_action f d o es k d' acts : crash_point f d o es k d' ->
  decide false (view d) o = Ok acts -> length acts <= 1 ->
  same_or (view d') (view d) (view (apply es d)).
Proof. exact (crash_single f d o es k d' acts). Qed.
Print Assumptions crash_view_old_or_new_single_action.

(* special case: every command except declare (undeclare --tag with undeclareVersionAndTag is two actions) *)
Theorem crash_view_old_or_new_not_declare f d o es k d' : crash_point f d o es k d' -> is_declare o = false ->
  same_or (view d') (view d) (view (apply es d)).
Proof. exact (crash_not_declare f d o es k d'). Qed.
Print Assumptions crash_view_old_or_new_not_declare.

(* declarations: old or new for every command, declare included *)
Theorem crash_decl_old_or_new f d o es k d' : crash_point f d o es k d' ->
  forall s n v fl, a_decl (view d') s n v fl = a_decl (view d) s n v fl \/
                   a_decl (view d') s n v fl = a_decl (view (apply es d)) s n v fl.
Proof. exact (crash_decl_old_or_new_gen f d o es k d'). Qed.
Print Assumptions crash_decl_old_or_new.

(* the literal statement, for all commands, declare with a tag move included: every declaration and every tag
   assignment (per stack, product, tag or version, flavor) reads as its value before the command or as its value
   after the completed command.  Eups.declare moves a tag by assigning it first (Database.assignTag replaces the
   flavor's entry of the chain file in one rewrite) and unassigning it in the other stacks of the path afterwards,
   so no key is written twice with different values.  No hypothesis beyond crash_point. *)
Theorem crash_view_old_or_new f d o es k d' : crash_point f d o es k d' ->
  same_or (view d') (view d) (view (apply es d)).
Proof. exact (crash_old_or_new f d o es k d'). Qed.
Print Assumptions crash_view_old_or_new.

(* its tag half spelled out: the tag of a product in a stack for a flavor names the old version or the new one
   (None = not assigned), never anything else - in particular never "unassigned" when it is assigned before and after *)
Theorem crash_tag_old_or_new f d o es k d' : crash_point f d o es k d' ->
  forall s n t fl, a_tag (view d') s n t fl = a_tag (view d) s n t fl \/
                   a_tag (view d') s n t fl = a_tag (view (apply es d)) s n t fl.
Proof. intros C. exact (proj2 (crash_old_or_new f d o es k d' C)). Qed.
Print Assumptions crash_tag_old_or_new.

(* the tag move as the tree had it before the repair (finding D20, Db.effects_pinned: unassign every old occurrence,
   then assign) violates this: declare a 2 -t current, when current points at a 1, killed after the first system
   call (the removal of current.chain): the tag reads as unassigned, neither a 1 nor a 2.  The store protocol is the
   repaired write-temporary-then-rename one, so the order of the two record-level effects alone is to blame *)
Theorem crash_view_old_or_new_refuted_pinned :
  exists f d o es k d', represents f d /\ op_ok o = true /\ effects_pinned d o = Ok es /\
    read_db (map fst d) (crash_fs f es k) = Ok d' /\
    exists s n t fl, a_tag (view d') s n t fl <> a_tag (view d) s n t fl /\
                     a_tag (view d') s n t fl <> a_tag (view (apply es d)) s n t fl.
Proof.
  exists w_f, w_d, w_move, (match effects_pinned w_d w_move with Ok es => es | Err _ => [] end), 1,
         (read_raw (map fst w_d)
            (crash_fs w_f (match effects_pinned w_d w_move with Ok es => es | Err _ => [] end) 1)).
  split; [apply w_represents|]. split; [reflexivity|]. split; [vm_compute; reflexivity|].
  split; [vm_compute; reflexivity|].
  exists (lit "stack"), (lit "a"), (lit "current"), w_L. split; vm_compute; discriminate.
Qed.
Print Assumptions crash_view_old_or_new_refuted_pinned.

(* the same command on the same state with the repaired order: one file effect (the rewrite of current.chain, four
   system calls); before the rename the tag names a 1, from the rename on a 2 *)
Example c08_tag_move_inhabited :
  let es := op_effects w_d w_move in
  let seen k := a_tag (view (read_raw (map fst w_d) (crash_fs w_f es k))) (lit "stack") (lit "a") (lit "current") w_L in
  length es = 1 /\ length (lower_all lower_atomic (images es)) = 5 /\
  crash_point w_f w_d w_move es 4 (read_raw (map fst w_d) (crash_fs w_f es 4)) /\
  map seen [0; 1; 2; 3; 4; 5] =
    [Some (lit "1"); Some (lit "1"); Some (lit "1"); Some (lit "1"); Some (lit "1"); Some (lit "2")].
Proof.
  cbv zeta. split; [vm_compute; reflexivity|]. split; [vm_compute; reflexivity|]. split.
  - constructor; [apply w_represents|reflexivity|vm_compute; reflexivity|vm_compute; reflexivity].
  - vm_compute. reflexivity.
Qed.

(* no tag points at an undeclared version at any crash point of any command *)
Theorem no_dangling_at_every_crash_point f d o es k d' : crash_point f d o es k d' ->
  no_dangling (view d) -> no_dangling (view d').
Proof. exact (crash_no_dangling f d o es k d'). Qed.
Print Assumptions no_dangling_at_every_crash_point.

(* declarations and tags of other products, or of the same product for another flavor, are unchanged *)
Theorem crash_frame f d o es k d' : crash_point f d o es k d' ->
  forall s n x fl, (n, fl) <> op_nf o ->
  a_decl (view d') s n x fl = a_decl (view d) s n x fl /\ a_tag (view d') s n x fl = a_tag (view d) s n x fl.
Proof. exact (crash_frame_nf f d o es k d'). Qed.
Print Assumptions crash_frame.

(* every command but declare (whose tag move walks the whole path) works in one stack *)
Theorem crash_frame_other_stacks f d o es k d' : crash_point f d o es k d' -> is_declare o = false ->
  exists s0, forall s n x fl, s <> s0 ->
  a_decl (view d') s n x fl = a_decl (view d) s n x fl /\ a_tag (view d') s n x fl = a_tag (view d) s n x fl.
Proof. exact (crash_frame_stack f d o es k d'). Qed.
Print Assumptions crash_frame_other_stacks.

(* the reader never raises on a crash state of the repaired protocol: no partial record is visible *)
Theorem reader_total f d o es k :
  represents f d -> op_ok o = true -> effects d o = Ok es ->
  exists d', read_db (map fst d) (crash_fs f es k) = Ok d'.
Proof.
  intros R Hok He. destruct (crash_point_reads f d o es k R Hok He) as [j [d' [_ [H _]]]]. exists d'. exact H.
Qed.
Print Assumptions reader_total.

(* under the pinned in-place protocol it does raise: a second flavor joins the version file of a 1, the
   process dies after the first line of the rewritten file *)
Theorem reader_refuted_pinned :
  exists f d o es k, represents f d /\ op_ok o = true /\ effects d o = Ok es /\
    read_db (map fst d) (crash_fs_inplace f es k) = Err Crash.
Proof.
  exists w_f, w_d, w_join, (op_effects w_d w_join), 2.
  split; [apply w_represents|]. split; [reflexivity|]. split; vm_compute; reflexivity.
Qed.
Print Assumptions reader_refuted_pinned.

(* and one system call earlier (right after the truncating open) the reader succeeds but the declaration of the
   other flavor, present before and after the command, is gone *)
Theorem inplace_loses_declaration_pinned :
  exists f d o es k d', represents f d /\ op_ok o = true /\ effects d o = Ok es /\
    read_db (map fst d) (crash_fs_inplace f es k) = Ok d' /\
    exists s n v fl, a_decl (view d) s n v fl <> None /\ a_decl (view (apply es d)) s n v fl <> None /\
                     a_decl (view d') s n v fl = None.
Proof.
  exists w_f, w_d, w_join, (op_effects w_d w_join), 1,
         (read_raw (map fst w_d) (crash_fs_inplace w_f (op_effects w_d w_join) 1)).
  split; [apply w_represents|]. split; [reflexivity|]. split; [vm_compute; reflexivity|].
  split; [vm_compute; reflexivity|].
  exists (lit "stack"), (lit "a"), (lit "1"), w_L.
  split; [vm_compute; discriminate|]. split; [vm_compute; discriminate|]. vm_compute. reflexivity.
Qed.
Print Assumptions inplace_loses_declaration_pinned.

(* non-vacuity: every database reached from the empty one by commands with path-safe names is represented
   by the store that the images of their file effects build *)
Theorem reachable_is_represented path ops :
  forallb seg_ok path = true -> forallb op_ok ops = true ->
  represents (store_of path ops) (run false (empty_db path) ops).
Proof. exact (Proofs.CrashDbWitness.reachable_is_represented path ops). Qed.
Print Assumptions reachable_is_represented.

(* the hypotheses hold of a non-trivial state: after declare a 1 -t current; declare a 2, the command
   undeclare a 1 (three file effects: remove current.chain, remove 1.version, rmdir) killed after the first
   one: the tag is gone, the declaration still there, nothing dangles *)
Example c08_crash_point_inhabited :
  let es := op_effects w_d w_undeclare in
  let d' := read_raw (map fst w_d) (crash_fs w_f es 1) in
  crash_point w_f w_d w_undeclare es 1 d' /\ no_dangling (view w_d) /\ length es = 3 /\
  a_tag (view w_d) (lit "stack") (lit "a") (lit "current") w_L = Some (lit "1") /\
  a_tag (view d') (lit "stack") (lit "a") (lit "current") w_L = None /\
  a_decl (view d') (lit "stack") (lit "a") (lit "1") w_L <> None /\
  a_decl (view (apply es w_d)) (lit "stack") (lit "a") (lit "1") w_L = None.
Proof.
  cbv zeta. split.
  - constructor; [apply w_represents|reflexivity|vm_compute; reflexivity|vm_compute; reflexivity].
  - split; [apply w_no_dangling|]. split; [vm_compute; reflexivity|]. split; [vm_compute; reflexivity|].
    split; [vm_compute; reflexivity|]. split; [vm_compute; discriminate|]. vm_compute. reflexivity.
Qed.

(* ================================================================================================
   Targets.  "Every declaration and tag that was not the target of the interrupted command is reported
   exactly as before": whatever the completed command leaves as it was is as it was at every crash point
   (all commands); and for an undeclare the completed command changes exactly the declaration it names and
   the tags that point at that version for that flavor - the entries other flavors have in the same chain
   files stay, whichever versions they point at (chain files re-pointed per flavor).
   ================================================================================================ *)
From Eupsv Require Import Proofs.CrashDbTarget.

Theorem crash_untouched_by_command_is_untouched f d o es k d' : crash_point f d o es k d' ->
  (forall s n v fl, a_decl (view (apply es d)) s n v fl = a_decl (view d) s n v fl ->
                    a_decl (view d') s n v fl = a_decl (view d) s n v fl) /\
  (forall s n t fl, a_tag (view (apply es d)) s n t fl = a_tag (view d) s n t fl ->
                    a_tag (view d') s n t fl = a_tag (view d) s n t fl).
Proof. intro C. split; [exact (crash_unchanged_decl f d o es k d' C)|exact (crash_unchanged_tag f d o es k d' C)]. Qed.
Print Assumptions crash_untouched_by_command_is_untouched.

(* undeclare n v for flavor fl, found in stack s0: every other declaration - other versions of n, other flavors of
   n v, other products - and every tag assignment that is not (s0, n, fl) pointing at v reads exactly as before at
   every crash point (k = all system calls: after the completed command) *)
Theorem crash_undeclare_frame f d o n vo es k d' s0 v0 :
  crash_point f d (Undeclare o n vo) es k d' -> undeclare_target (view d) o n vo = Ok (s0, v0) ->
  (forall s n' x fl, (s, n', x, fl) <> (s0, n, v0, o_flavor o) ->
     a_decl (view d') s n' x fl = a_decl (view d) s n' x fl) /\
  (forall s n' t fl, (s, n', fl) <> (s0, n, o_flavor o) \/ a_tag (view d) s n' t fl <> Some v0 ->
     a_tag (view d') s n' t fl = a_tag (view d) s n' t fl).
Proof. exact (crash_undeclare_frame_gen f d o n vo es k d' s0 v0). Qed.
Print Assumptions crash_undeclare_frame.

(* non-vacuity on the shape the quantifier names: a 1 (Linux64) and a 2 (Darwin) both carry current and stable, so
   each chain file holds two flavors pointing at different versions; undeclare a 1 (Linux64) is four file effects
   (rewrite current.chain, rewrite stable.chain, remove 1.version, a refused rmdir), twelve system calls; at each of
   the thirteen crash points the Darwin tags and declaration read as before, and at the end the target is gone *)
Example c08_split_chains_inhabited :
  let es := op_effects x_d x_undeclare in
  let seen k := view (read_raw (map fst x_d) (crash_fs x_f es k)) in
  undeclare_target (view x_d) (w_o w_L) (lit "a") (Some (lit "1")) = Ok (lit "stack", lit "1") /\
  length es = 4 /\ length (lower_all lower_atomic (images es)) = 12 /\
  crash_point x_f x_d x_undeclare es 5 (read_raw (map fst x_d) (crash_fs x_f es 5)) /\
  forallb (fun k => opt_str_eqb (a_tag (seen k) (lit "stack") (lit "a") (lit "current") w_D) (lit "2") &&
                    opt_str_eqb (a_tag (seen k) (lit "stack") (lit "a") (lit "stable") w_D) (lit "2") &&
                    is_some (a_decl (seen k) (lit "stack") (lit "a") (lit "2") w_D))
          (seq 0 13) = true /\
  a_tag (seen 5) (lit "stack") (lit "a") (lit "current") w_L = None /\
  a_tag (seen 5) (lit "stack") (lit "a") (lit "stable") w_L = Some (lit "1") /\
  a_decl (seen 12) (lit "stack") (lit "a") (lit "1") w_L = None.
Proof.
  cbv zeta. split; [vm_compute; reflexivity|]. split; [vm_compute; reflexivity|]. split; [vm_compute; reflexivity|].
  split; [constructor; [apply x_represents|reflexivity|vm_compute; reflexivity|vm_compute; reflexivity]|].
  split; [vm_compute; reflexivity|]. split; [vm_compute; reflexivity|]. split; vm_compute; reflexivity.
Qed.

(* ================================================================================================
   The atomic-write helper (utils.AtomicFile, used by ProductStack.persist for the cache every mutating
   command rewrites last) and file-system boundaries (Model/CrashXdev.v).  With the temporary file on the
   target's file system the installation is one rename: the helper is the protocol of the generic layer, the
   cache reads old or new at every crash point and nothing else changes.  With the temporary elsewhere
   (TMPDIR on another mount) an installer that falls back to copying truncates the target first.
   ================================================================================================ *)
From Eupsv Require Import Model.CrashXdev Proofs.CrashXdev.

Theorem atomic_helper_same_fs_old_or_new f p c k : clean f -> is_tmp p = false ->
  alookup p (crash_state (lower_atomic_at SameFs) f [EWrite p c] k) = alookup p f \/
  alookup p (crash_state (lower_atomic_at SameFs) f [EWrite p c] k) = Some (File c).
Proof. exact (same_fs_old_or_new f p c k). Qed.
Print Assumptions atomic_helper_same_fs_old_or_new.

Theorem atomic_helper_same_fs_frame f p c k q : clean f -> is_tmp p = false -> is_tmp q = false -> q <> p ->
  alookup q (crash_state (lower_atomic_at SameFs) f [EWrite p c] k) = alookup q f.
Proof. exact (same_fs_others_untouched f p c k q). Qed.
Print Assumptions atomic_helper_same_fs_frame.

(* so a loader of the cache never meets an empty file it did not meet before the command *)
Theorem atomic_helper_same_fs_loader f p c k : clean f -> is_tmp p = false -> c <> [] ->
  load_cache (alookup p f) <> Err Crash ->
  load_cache (alookup p (crash_state (lower_atomic_at SameFs) f [EWrite p c] k)) <> Err Crash.
Proof.
  intros Hc Hp Hn Ho. destruct (same_fs_old_or_new f p c k Hc Hp) as [E|E]; rewrite E; [exact Ho|].
  destruct c; [congruence|discriminate].
Qed.
Print Assumptions atomic_helper_same_fs_loader.

(* what a trace shows on the target name (compared with the traces of the real helper by the harness) *)
Theorem atomic_helper_target_sees_one_rename p c : is_tmp p = false -> target_kinds SameFs (EWrite p c) = [KRename].
Proof. exact (target_kinds_same_fs p c). Qed.
Print Assumptions atomic_helper_target_sees_one_rename.

(* across a file-system boundary, installing by copy: once the temporary file is complete and the target has been
   opened, the target is empty whatever it held, and the loader raises - neither old nor new *)
Theorem install_by_copy_is_not_atomic f p c :
  alookup p (crash_state (lower_atomic_at OtherFs) f [EWrite p c] (length c + 3)) = Some (File []) /\
  load_cache (alookup p (crash_state (lower_atomic_at OtherFs) f [EWrite p c] (length c + 3))) = Err Crash /\
  (is_tmp p = false -> target_kinds OtherFs (EWrite p c) = KOpen :: map (fun _ => KWrite) c ++ [KClose]).
Proof.
  split; [apply other_fs_truncates|]. split; [apply other_fs_loader_raises|]. apply target_kinds_other_fs.
Qed.
Print Assumptions install_by_copy_is_not_atomic.

Example c08_cache_helper_inhabited :
  let p := lit "ups_db/Linux64.pickleDB1_3_0" in
  let f := [(p, File [lit "old"])] in
  map (fun k => alookup p (crash_state (lower_atomic_at SameFs) f [EWrite p [lit "new"]] k)) [0; 1; 2; 3; 4] =
    [Some (File [lit "old"]); Some (File [lit "old"]); Some (File [lit "old"]); Some (File [lit "old"]);
     Some (File [lit "new"])] /\
  map (fun k => alookup p (crash_state (lower_atomic_at OtherFs) f [EWrite p [lit "new"]] k)) [3; 4; 5; 6; 7] =
    [Some (File [lit "old"]); Some (File []); Some (File [lit "new"]); Some (File [lit "new"]); Some (File [lit "new"])].
Proof. vm_compute. split; reflexivity. Qed.

(* ================================================================================================
   The product cache when the command is ended by an exception, and when it is killed during the
   rebuild of the cache it performs at start-up (Model/CrashCache.v).
   1. SIGINT reaches python as KeyboardInterrupt: the command unwinds through the with statement of
      utils.AtomicFile.  As the helper is written (the statements after its yield are skipped when the
      body raised) no name but the temporary one changes, whichever call the exception replaces; a helper
      whose exit installs unconditionally leaves an empty cache file that the loader cannot read.
   2. The rebuild persists only complete files (autosave off): every cache file that passes for newer
      than the database holds exactly the rows of its flavor at every crash point, so a later reader
      lists what the database holds whether it believes the cache or not.  With autosave on the partial
      files are believed.
   ================================================================================================ *)
From Eupsv Require Import Model.CrashCache Proofs.CrashCache.

Theorem interrupted_helper_installs_nothing f p c k q : is_tmp q = false -> k < length c + 3 ->
  alookup q (interrupted SkipOnRaise f p c k) = alookup q f.
Proof. exact (interrupted_skip_untouched f p c k q). Qed.
Print Assumptions interrupted_helper_installs_nothing.

Theorem interrupted_helper_old_or_new f p c k : clean f -> is_tmp p = false ->
  alookup p (interrupted SkipOnRaise f p c k) = alookup p f \/
  alookup p (interrupted SkipOnRaise f p c k) = Some (File c).
Proof. exact (interrupted_skip_old_or_new f p c k). Qed.
Print Assumptions interrupted_helper_old_or_new.

Theorem interrupted_helper_frame f p c k q : clean f -> is_tmp q = false -> q <> p ->
  alookup q (interrupted SkipOnRaise f p c k) = alookup q f.
Proof. exact (interrupted_skip_frame f p c k q). Qed.
Print Assumptions interrupted_helper_frame.

(* so the loader of the cache never meets an empty file it did not meet before the command *)
Theorem interrupted_helper_loader f p c k : clean f -> is_tmp p = false -> c <> [] ->
  load_cache (alookup p f) <> Err Crash ->
  load_cache (alookup p (interrupted SkipOnRaise f p c k)) <> Err Crash.
Proof.
  intros Hc Hp Hn Ho. destruct (interrupted_skip_old_or_new f p c k Hc Hp) as [E|E]; rewrite E; [exact Ho|].
  destruct c; [congruence|discriminate].
Qed.
Print Assumptions interrupted_helper_loader.

(* a helper that installs the temporary file in its exit whatever happened: interrupted at its first write
   it replaces a readable cache by an empty one *)
Theorem commit_on_raise_refuted :
  let p := lit "user/_caches_/generic.pickleDB1_3_0" in
  let f := [(p, File [lit "old"])] in
  clean f /\ is_tmp p = false /\ load_cache (alookup p f) = Ok [lit "old"] /\
  alookup p (interrupted CommitOnRaise f p [lit "new1"; lit "new2"] 1) = Some (File []) /\
  load_cache (alookup p (interrupted CommitOnRaise f p [lit "new1"; lit "new2"] 1)) = Err Crash /\
  alookup p (interrupted CommitOnRaise f p [lit "new1"; lit "new2"] 2) = Some (File [lit "new1"]).
Proof.
  cbv zeta. split.
  - intros k Hk. cbn [alookup]. destruct (str_eqb k _) eqn:E; [|reflexivity].
    apply str_eqb_eq in E. subst k. vm_compute in Hk. discriminate.
  - vm_compute. repeat split; reflexivity.
Qed.
Print Assumptions commit_on_raise_refuted.

Theorem rebuild_keeps_fresh_caches_complete fls db cs k : sound db cs ->
  sound db (crash_caches false fls db cs k).
Proof. exact (sound_crash_caches fls db cs k). Qed.
Print Assumptions rebuild_keeps_fresh_caches_complete.

Theorem reader_after_killed_rebuild_lists_the_database fls db cs k fl : sound db cs ->
  reader_answer fls db (crash_caches false fls db cs k) fl = rows_of fl db.
Proof. intro H. apply sound_reader. now apply sound_crash_caches. Qed.
Print Assumptions reader_after_killed_rebuild_lists_the_database.

(* autosave on during the rebuild: killed after the first version of the last-listed product was persisted, the
   files of both flavors are new, name every product, and lack its second version *)
Theorem rebuild_with_autosave_refuted :
  let L := lit "Linux64" in let G := lit "generic" in
  let db := [(L, lit "a", lit "1"); (L, lit "a", lit "2"); (G, lit "b", lit "1"); (G, lit "b", lit "2")] in
  sound db [] /\
  reader_answer [L; G] db (crash_caches true [L; G] db [] 3) G = [(lit "b", lit "1")] /\
  rows_of G db = [(lit "b", lit "1"); (lit "b", lit "2")] /\
  reader_answer [L; G] db (crash_caches true [L; G] db [] 3) L = rows_of L db /\
  reader_answer [L; G] db (crash_caches true [L; G] db [] 2) G = rows_of G db.
Proof. cbv zeta. split; [intros fl rows E; discriminate|]. vm_compute. repeat split; reflexivity. Qed.
Print Assumptions rebuild_with_autosave_refuted.

Example c08_cache_rebuild_inhabited :
  let L := lit "Linux64" in let G := lit "generic" in
  let db := [(L, lit "a", lit "1"); (G, lit "b", lit "1"); (G, lit "b", lit "2")] in
  let cs := [(L, (true, [(lit "a", lit "1")])); (G, (false, [(lit "b", lit "1")]))] in
  sound db cs /\
  map (fun k => reader_answer [L; G] db (crash_caches false [L; G] db cs k) G) [0; 1; 2] =
    [rows_of G db; rows_of G db; rows_of G db] /\
  map (fun k => cache_rows (crash_caches false [L; G] db cs k) G) [0; 1; 2] = [None; None; Some (rows_of G db)].
Proof.
  cbv zeta. split.
  - intros fl rows E. cbn [alookup] in E. destruct (str_eqb fl (lit "Linux64")) eqn:E1.
    + apply str_eqb_eq in E1. subst fl. inversion E. reflexivity.
    + destruct (str_eqb fl (lit "generic")); discriminate.
  - vm_compute. split; reflexivity.
Qed.

(* the final save of the rebuild writes the file of every flavor the database holds a declaration of - loaded by
   the command or not - in the order the walk met them, then the loaded flavors it holds nothing of (the real trace
   is compared with this list on every run); a reader of other flavors than the killed command's is served too *)
Example c08_rebuild_writes_every_flavor_of_the_database :
  let L := lit "Linux64" in let D := lit "Darwin" in let G := lit "generic" in
  let db := [(D, lit "b", lit "2"); (L, lit "a", lit "1"); (D, lit "b", lit "1")] in
  map fst (persists false [L; G] db) = [D; L; G] /\
  map (fun k => reader_answer [D; G] db (crash_caches false [L; G] db [] k) D) [0; 1; 2; 3] =
    [rows_of D db; rows_of D db; rows_of D db; rows_of D db] /\
  cache_rows (crash_caches false [L; G] db [] 1) D = Some [(lit "b", lit "2"); (lit "b", lit "1")].
Proof. vm_compute. repeat split; reflexivity. Qed.
