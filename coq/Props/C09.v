(* C09 - Exclusive database locks exclude every other holder under all interleavings.
   Property theorems only; the proofs are in Proofs/Lock.v (safety) and Proofs/LockLive.v.

   Model/Lock.v: [step cfg s p c] is one file-system call of process p of the lock protocol as repaired by
   proposed_fixes/C09-lock-revalidate.diff, [step_pinned] the same for the pinned tree; [reachable cfg s]
   says that s is reached from the empty stack by some sequence of such steps of any processes in any
   order with any directory-listing order; [cfg] gives every pid its lock kind, its inherited
   EUPS_LOCK_PID and its retry budget.  holds s p: takeLocks has returned for p and giveLocks has not
   been called yet.  related cfg p q: one of them is the EUPS_LOCK_PID ancestor of the other. *)
From Eupsv Require Import Base.Base Model.Lock Proofs.LockLib Proofs.Lock Proofs.LockLive Generated.Locks.

(* ---- mutual exclusion *)

(* at no instant do two unrelated processes both hold if either lock is exclusive: for every schedule,
   every number of processes, every retry budget *)
Theorem mutex cfg s p q :
  reachable cfg s -> holds s p -> holds s q -> p <> q -> ~ related cfg p q ->
  kind_of cfg p = Sh /\ kind_of cfg q = Sh.
Proof. exact (mutex_proof cfg s p q). Qed.
Print Assumptions mutex.

(* the boolean form of the same statement, which the driver evaluates on every state of every trace *)
Corollary mutex_okb_reachable cfg s ps : reachable cfg s -> mutex_okb cfg s ps = true.
Proof.
  intro R. unfold mutex_okb. apply forallb_forall. intros p _. apply forallb_forall. intros q _.
  destruct (Nat.eqb p q) eqn:E; [reflexivity|]. apply Nat.eqb_neq in E.
  destruct (relatedb cfg p q) eqn:Rl; [reflexivity|].
  destruct (holdsb s p) eqn:Hp; [|reflexivity]. destruct (holdsb s q) eqn:Hq; [|reflexivity].
  assert (NR : ~ related cfg p q) by (intro H; apply relatedb_true in H; congruence).
  destruct (mutex cfg s p q R Hp Hq E NR) as [Kp Kq]. unfold isEx. now rewrite Kp, Kq.
Qed.
Print Assumptions mutex_okb_reachable.

(* The pinned protocol does not have the property.  Three check-then-act windows, each with its schedule;
   process 1 is the shared requester, 3 the exclusive one, 2 a reader that comes and goes. *)
Definition k_procs : list (pid * (kind * option pid * nat)) :=
  [(1, (Sh, None, 2)); (2, (Sh, None, 2)); (3, (Ex, None, 2))].
Definition z (l : list pid) : list (pid * choice) := map (fun p => (p, 0)) l.
(* K1: 3 has made the directory but not its file when 1 scans for exclusive locks *)
Definition k1_schedule := z [3; 1; 1; 1; 1; 3; 3].
(* K2: 1 has scanned; 2 releases and removes the directory; 3 makes it anew; 1 creates its file in it *)
Definition k2_schedule := z [2; 2; 2; 1; 1; 1; 2; 2; 2; 2; 2; 2; 3; 3; 1; 3].
(* K3: 1 finds the directory, which 2 removes before 1 tests its existence: 1 proceeds without a lock *)
Definition k3_schedule := z [2; 2; 2; 1; 2; 2; 2; 2; 2; 2; 1; 3; 3; 3].

Definition both_hold (s : state) : bool := holdsb s 1 && holdsb s 3.

Theorem mutex_refuted_pinned :
  exists cfg sched p q,
    let s := run_pinned cfg init sched in
    reachable_gen false cfg s /\ holds s p /\ holds s q /\ p <> q /\ ~ related cfg p q /\ kind_of cfg q = Ex.
Proof.
  exists (cfg_of k_procs), k1_schedule, 1, 3. cbv zeta.
  split; [apply reachable_run; constructor|].
  split; [vm_compute; reflexivity|]. split; [vm_compute; reflexivity|].
  split; [discriminate|]. split; [|reflexivity].
  intros [H|H]; vm_compute in H; discriminate.
Qed.
Print Assumptions mutex_refuted_pinned.

Example k1_pinned : both_hold (run_pinned (cfg_of k_procs) init k1_schedule) = true.
Proof. vm_compute. reflexivity. Qed.
Example k2_pinned : both_hold (run_pinned (cfg_of k_procs) init k2_schedule) = true.
Proof. vm_compute. reflexivity. Qed.
Example k3_pinned : both_hold (run_pinned (cfg_of k_procs) init k3_schedule) = true.
Proof. vm_compute. reflexivity. Qed.
(* the same window between two exclusive children 2 and 3 of the shared holder 1: siblings are unrelated *)
Definition sib_procs : list (pid * (kind * option pid * nat)) :=
  [(1, (Sh, None, 2)); (2, (Ex, Some 1, 2)); (3, (Ex, Some 1, 2))].
Example siblings_pinned :
  let s := run_pinned (cfg_of sib_procs) init (z [1; 1; 1; 2; 2; 3; 3; 2; 3; 2; 3]) in
  holdsb s 2 && holdsb s 3 && negb (relatedb (cfg_of sib_procs) 2 3) = true.
Proof. vm_compute. reflexivity. Qed.
Example siblings_repaired :
  forallb (fun s => mutex_okb (cfg_of sib_procs) s [1; 2; 3])
          (trace_gen true (cfg_of sib_procs) init (z [1; 1; 1; 1; 2; 2; 3; 3; 2; 3; 2; 3; 2; 3])) = true.
Proof. vm_compute. reflexivity. Qed.
(* the same three schedules under the repaired protocol: nobody holds together with 3 at any point *)
Example k123_repaired :
  forallb (fun sched => forallb (fun s => mutex_okb (cfg_of k_procs) s [1; 2; 3])
                                (trace_gen true (cfg_of k_procs) init sched))
          [k1_schedule; k2_schedule; k3_schedule] = true.
Proof. vm_compute. reflexivity. Qed.

(* ---- what is let through *)

(* a process that runs alone on a free stack gets its lock, shared or exclusive (so mutex is not
   vacuous: holders exist) *)
Theorem free_stack_acquires cfg s p c :
  reachable cfg s -> dir s = false -> pc s p = LMkdir ->
  holds (run cfg s (repeat (p, c) 4)) p.
Proof.
  intros R D L. destruct (reachable_gen_inv true cfg s R) as (H0 & _).
  assert (F : files s = []).
  { destruct (files s) as [|x r] eqn:E; [reflexivity|]. specialize (H0 x). rewrite E in H0.
    rewrite D in H0. discriminate H0. now left. }
  destruct (solo_free_acquires cfg s p c D F L) as (H & _). now apply held_holds.
Qed.
Print Assumptions free_stack_acquires.

(* any number of readers may share: for every n a state in which n shared requesters all hold is reachable *)
Theorem readers_share cfg n :
  (forall i, i < n -> kind_of cfg i = Sh) ->
  exists s, reachable cfg s /\ forall i, i < n -> holds s i.
Proof.
  intro K. destruct (readers_share_proof cfg n K) as (s & R & H & _). now exists s.
Qed.
Print Assumptions readers_share.

(* a child of the lock holder re-enters its parent's lock: q inherited EUPS_LOCK_PID = p, p holds and is
   the only locker; then q, whatever kind it asks for and whatever kind p holds, acquires on its first
   attempt and both hold *)
Theorem reentry cfg s p q :
  reachable cfg s -> root_of cfg q = Some p -> q <> p -> holds s p -> files s = [p] -> pc s q = LMkdir ->
  exists n, let s' := run cfg s (repeat (q, 0) n) in holds s' q /\ holds s' p.
Proof.
  intros R Rt Hne Hp F Lq.
  destruct (reachable_gen_inv true cfg s R) as (H0 & _). destruct (reachable_inv cfg s R) as (HN & _).
  assert (D : dir s = true) by (apply (H0 p); rewrite F; now left).
  assert (Lp : pc s p = LHeld).
  { unfold holds, holdsb in Hp. pose proof (HN p). destruct (pc s p); try discriminate; congruence. }
  destruct (reentry_proof cfg s p q Rt Hne D F Lp Lq) as (n & A & B & _).
  exists n. cbv zeta. split; now apply held_holds.
Qed.
Print Assumptions reentry.

(* released locks leave no residue: whenever no process is inside takeLocks or giveLocks (every process
   has not started, is done, has failed or has crashed) the lock directory does not exist *)
Theorem no_residue cfg s : reachable cfg s -> quiescent s -> dir s = false /\ files s = [].
Proof. exact (no_residue_proof true cfg s). Qed.
Print Assumptions no_residue.

(* this clause already holds for the pinned protocol *)
Corollary no_residue_pinned cfg s : reachable_gen false cfg s -> quiescent s -> dir s = false /\ files s = [].
Proof. exact (no_residue_proof false cfg s). Qed.
Print Assumptions no_residue_pinned.

(* a reachable, non-trivial state satisfying the hypotheses of mutex: two readers hold, a writer has just
   created its file and is about to look again *)
Example hypotheses_inhabited :
  let cfg := cfg_of k_procs in
  let s := run cfg init (z [3; 3; 1; 1; 1; 1; 1; 2; 2; 2; 2; 2; 3; 3]) in
  holdsb s 1 = true /\ holdsb s 2 = true /\ pc s 3 = LGive true GIsdir /\ files s = [3; 2; 1].
Proof. vm_compute. repeat split; reflexivity. Qed.

(* ---- which commands take which lock (table regenerated from cmd.py and setupcmd.py on every run) *)

(* every command that updates the database takes the exclusive lock *)
Theorem updaters_exclusive : forall c, In c mutating_commands -> takes registered Ex c = true.
Proof. apply forallb_forall. vm_compute. reflexivity. Qed.
Print Assumptions updaters_exclusive.

(* every command that only reads it takes the shared lock *)
Theorem readers_shared : forall c, In c reader_commands -> takes registered Sh c = true.
Proof. apply forallb_forall. vm_compute. reflexivity. Qed.
Print Assumptions readers_shared.
