(* C09 - Exclusive database locks exclude every other holder under all interleavings.
   Property theorems only; the proofs are in Proofs/Lock*.v.

   Model/Lock.v: [step cfg s p c] is one file-system call of process p of the lock protocol of /repo
   with proposed_fixes/C09-lock-revalidate.diff and C09-release-on-failure.diff; [step_pinned] is the
   pinned tree, [run_norelease] the protocol with the first of the two repairs only.  [reachable cfg s]
   says that s is reached from empty stacks by some sequence of such steps of any processes in any order
   with any directory-listing order; [cfg] gives every pid its lock kind, its inherited EUPS_LOCK_PID, its
   retry budget and the path of stacks it locks (in that order; wf cfg: no stack twice in one path).
   holds s p: takeLocks has returned for p and giveLocks has not been called yet.  related cfg p q: one
   of them is the EUPS_LOCK_PID ancestor of the other. *)
From Eupsv Require Import Base.Base Model.Lock Proofs.LockLib Proofs.LockNext Proofs.LockNext2 Proofs.Lock
  Proofs.LockLive Generated.Locks Model.LockName Proofs.LockName Model.LockCmd Proofs.LockCmd.

(* ---- mutual exclusion *)

(* at no instant do two unrelated processes both hold a lock on the same stack if either lock is
   exclusive: for every schedule, every number of processes and of stacks, every retry budget *)
Theorem mutex cfg s p q k :
  wf cfg -> reachable cfg s -> holds s p -> holds s q -> p <> q -> ~ related cfg p q ->
  In k (path_of cfg p) -> In k (path_of cfg q) ->
  kind_of cfg p = Sh /\ kind_of cfg q = Sh.
Proof. exact (mutex_proof true cfg s p q k). Qed.
Print Assumptions mutex.

(* the boolean form of the same statement, which the driver evaluates on every state of every trace *)
Corollary mutex_okb_reachable cfg s ps : wf cfg -> reachable cfg s -> mutex_okb cfg s ps = true.
Proof.
  intros WF R. unfold mutex_okb. apply forallb_forall. intros p _. apply forallb_forall. intros q _.
  destruct (Nat.eqb p q) eqn:E; [reflexivity|]. apply Nat.eqb_neq in E.
  destruct (relatedb cfg p q) eqn:Rl; [reflexivity|].
  destruct (holdsb s p) eqn:Hp; [|reflexivity]. destruct (holdsb s q) eqn:Hq; [|reflexivity].
  destruct (share_stack cfg p q) eqn:Sh; [|reflexivity].
  assert (NR : ~ related cfg p q) by (intro H; apply relatedb_true in H; congruence).
  destruct (share_stack_true cfg p q Sh) as (k & Kp & Kq).
  destruct (mutex cfg s p q k WF R Hp Hq E NR Kp Kq) as [A B]. unfold isEx. now rewrite A, B.
Qed.
Print Assumptions mutex_okb_reachable.

(* ---- the file-name layer (Model/LockName.v): the lock directory holds NAMES kind-user.pid, and takeLocks
   decides on what listLockers reads back out of them *)

(* the name of a lock file reads back as its kind, its owner's login name and its pid: for every kind, every
   pid of any width and every login name the pattern can match at all (not empty, no newline; dots, dashes,
   at-signs, digits, slashes are all fine) *)
Theorem lock_name_roundtrip k u p :
  user_ok u = true -> parse_lock_name (lock_name k u p) = Some (k, u, digits p).
Proof. exact (parse_lock_name_roundtrip k u p). Qed.
Print Assumptions lock_name_roundtrip.

(* pids are compared as the strings written in the names: two pids are told apart whatever their widths *)
Theorem pid_strings_distinct p q : digits p = digits q -> p = q.
Proof. exact (digits_inj p q). Qed.
Print Assumptions pid_strings_distinct.

(* mutual exclusion of the protocol run on names: every process has a login name of its own choosing; for
   every schedule, every number of processes and stacks, every retry budget.  [nstep] is [step] with every
   query on the directory replaced by listLockers over the names; it starts from empty stacks *)
Theorem mutex_named cfg usr ns p q k :
  wf cfg -> users_ok usr -> nreachable true true cfg usr no_junk ns ->
  nholds ns p -> nholds ns q -> p <> q -> ~ related cfg p q ->
  In k (path_of cfg p) -> In k (path_of cfg q) ->
  kind_of cfg p = Sh /\ kind_of cfg q = Sh.
Proof. exact (mutex_named_proof cfg usr ns p q k). Qed.
Print Assumptions mutex_named.

(* the step the proof of mutex_named rests on: a state over names that shows a state over owners steps to
   one that shows its successor (so every theorem about [reachable] carries over to names) *)
Theorem names_refine_owners cfg usr fx fr ns s p c :
  users_ok usr -> shows cfg usr ns s -> shows cfg usr (nstep fx fr cfg usr ns p c) (step_gen fx fr cfg s p c).
Proof. intro U. exact (shows_step cfg usr U fx fr ns s p c). Qed.
Print Assumptions names_refine_owners.

(* an exclusive lock file is seen by every reader whoever owns it: with the lock file of an exclusive process
   q in the directory, the scan for exclusive files of a shared requester p (not q's child) is not empty and
   its second look reports a conflict *)
Theorem exclusive_lock_seen cfg usr p q fs :
  users_ok usr -> In q fs -> kind_of cfg q = Ex -> kind_of cfg p = Sh -> q <> p -> root_of cfg p <> Some q ->
  list_lockers PExcl [] (map (myname cfg usr) fs) <> [] /\ n_conflict cfg p (map (myname cfg usr) fs) = true.
Proof. exact (exclusive_seen cfg usr p q fs). Qed.
Print Assumptions exclusive_lock_seen.

(* entries of the lock directory that are not lock files (they do not parse, or the pattern does not match
   them: editor back-ups, .nfs files) change no listing *)
Theorem foreign_entries_invisible pt ig a j b :
  parse_lock_name j = None \/ glob_match pt j = false ->
  list_lockers pt ig (a ++ j :: b) = list_lockers pt ig (a ++ b).
Proof. exact (foreign_invisible pt ig a j b). Qed.
Print Assumptions foreign_entries_invisible.

Example names_parse :
  parse_lock_name (lit "exclusive-john.doe.4711") = Some (Ex, lit "john.doe", lit "4711") /\
  parse_lock_name (lit "shared-www-data.7") = Some (Sh, lit "www-data", lit "7") /\
  parse_lock_name (lit "exclusive-first.last@realm.12.345") = Some (Ex, lit "first.last@realm.12", lit "345") /\
  parse_lock_name (lit "shared-bob.007") = Some (Sh, lit "bob", lit "007") /\
  parse_lock_name (lit "exclusive-root.12~") = None /\ parse_lock_name (lit "exclusive.bak") = None /\
  parse_lock_name (lit "shared-.12") = None /\ parse_lock_name (lit "locked-root.12") = None /\
  lock_name Ex (lit "john.doe") 4711 = lit "exclusive-john.doe.4711".
Proof. vm_compute. repeat split; reflexivity. Qed.

(* a writer john.doe (pid 12) holds; a reader www-data (pid 123) is refused at its scan; with foreign entries
   in the directory from the start a reader still acquires, and gives the lock back leaving them alone *)
Definition named_procs : nprocs :=
  [(12, (Ex, None, 1, [0]), lit "john.doe"); (123, (Sh, None, 1, [0]), lit "www-data")].
Example named_writer_excludes_reader :
  let cfg := cfg_of (procs_of named_procs) in
  let s := last (ntrace true true cfg (usr_of named_procs) (ninit no_junk) (map (fun p => (p, 0)) [12; 12; 12; 12; 123; 123; 123; 123])) (ninit no_junk) in
  nholdsb s 12 = true /\ lpc (nlocal s 123) = LFailed /\ nfiles s 0 = [lit "exclusive-john.doe.12"].
Proof. vm_compute. repeat split; reflexivity. Qed.
Example named_reader_among_foreign :
  let cfg := cfg_of (procs_of named_procs) in
  let junk := junk_of [[lit "exclusive.bak"; lit ".nfs0001"]] in
  let t := ntrace true true cfg (usr_of named_procs) (ninit junk) (map (fun p => (p, 0)) [123; 123; 123; 123; 123; 123; 123; 123; 123; 123]) in
  existsb (fun s => nholdsb s 123) t = true /\
  lpc (nlocal (last t (ninit junk)) 123) = LDone /\ nfiles (last t (ninit junk)) 0 = junk 0.
Proof. vm_compute. repeat split; reflexivity. Qed.

(* The pinned protocol does not have the property.  Three check-then-act windows, each with its schedule;
   process 1 is the shared requester, 3 the exclusive one, 2 a reader that comes and goes; one stack. *)
Definition k_procs : procs :=
  [(1, (Sh, None, 2, [0])); (2, (Sh, None, 2, [0])); (3, (Ex, None, 2, [0]))].
Definition z (l : list pid) : list (pid * choice) := map (fun p => (p, 0)) l.
(* K1: 3 has made the directory but not its file when 1 scans for exclusive locks *)
Definition k1_schedule := z [3; 1; 1; 1; 1; 3; 3].
(* K2: 1 has scanned; 2 releases and removes the directory; 3 makes it anew; 1 creates its file in it *)
Definition k2_schedule := z [2; 2; 2; 1; 1; 1; 2; 2; 2; 2; 2; 2; 3; 3; 1; 3].
(* K3: 1 finds the directory, which 2 removes before 1 tests its existence: 1 proceeds without a lock *)
Definition k3_schedule := z [2; 2; 2; 1; 2; 2; 2; 2; 2; 2; 1; 3; 3; 3].

Definition both_hold (s : state) : bool := holdsb s 1 && holdsb s 3.

Theorem mutex_refuted_pinned :
  exists cfg sched p q k,
    let s := run_pinned cfg init sched in
    wf cfg /\ reachable_gen false false cfg s /\ holds s p /\ holds s q /\ p <> q /\ ~ related cfg p q /\
    In k (path_of cfg p) /\ In k (path_of cfg q) /\ kind_of cfg q = Ex.
Proof.
  exists (cfg_of k_procs), k1_schedule, 1, 3, 0. cbv zeta.
  split; [apply wf_cfg_of; reflexivity|].
  split; [apply reachable_run; constructor|].
  split; [vm_compute; reflexivity|]. split; [vm_compute; reflexivity|].
  split; [discriminate|]. split; [intros [H|H]; vm_compute in H; discriminate|].
  repeat split; vm_compute; auto.
Qed.
Print Assumptions mutex_refuted_pinned.

Example k1_pinned : both_hold (run_pinned (cfg_of k_procs) init k1_schedule) = true.
Proof. vm_compute. reflexivity. Qed.
Example k2_pinned : both_hold (run_pinned (cfg_of k_procs) init k2_schedule) = true.
Proof. vm_compute. reflexivity. Qed.
Example k3_pinned : both_hold (run_pinned (cfg_of k_procs) init k3_schedule) = true.
Proof. vm_compute. reflexivity. Qed.
(* the same window between two exclusive children 2 and 3 of the shared holder 1: siblings are unrelated *)
Definition sib_procs : procs :=
  [(1, (Sh, None, 2, [0])); (2, (Ex, Some 1, 2, [0])); (3, (Ex, Some 1, 2, [0]))].
Example siblings_pinned :
  let s := run_pinned (cfg_of sib_procs) init (z [1; 1; 1; 2; 2; 3; 3; 2; 3; 2; 3]) in
  holdsb s 2 && holdsb s 3 && negb (relatedb (cfg_of sib_procs) 2 3) = true.
Proof. vm_compute. reflexivity. Qed.
Example siblings_repaired :
  forallb (fun s => mutex_okb (cfg_of sib_procs) s [1; 2; 3])
          (trace_gen true true (cfg_of sib_procs) init (z [1; 1; 1; 1; 2; 2; 3; 3; 2; 3; 2; 3; 2; 3])) = true.
Proof. vm_compute. reflexivity. Qed.
(* the same three schedules under the repaired protocol: nobody holds together with 3 at any point *)
Example k123_repaired :
  forallb (fun sched => forallb (fun s => mutex_okb (cfg_of k_procs) s [1; 2; 3])
                                (trace_gen true true (cfg_of k_procs) init sched))
          [k1_schedule; k2_schedule; k3_schedule] = true.
Proof. vm_compute. reflexivity. Qed.

(* ---- what is let through (processes that lock one stack) *)

(* a process that has not started: about to make its first call, nothing locked *)
Definition fresh (s : state) (p : pid) : Prop := pc s p = LMkdir /\ nlk s p = 0.

(* a process that runs alone on a free stack gets its lock, shared or exclusive (so mutex is not
   vacuous: holders exist) *)
Theorem free_stack_acquires cfg s p c k :
  wf cfg -> reachable cfg s -> path_of cfg p = [k] -> dir s k = false -> fresh s p ->
  holds (run cfg s (repeat (p, c) 4)) p.
Proof.
  intros WF R P D [L N0]. destruct (reachable_gen_inv true true cfg s WF R) as (H0 & _).
  assert (F : files s k = []).
  { destruct (files s k) as [|x r] eqn:E; [reflexivity|]. specialize (H0 k x). rewrite E in H0.
    rewrite D in H0. discriminate H0. now left. }
  destruct (solo_free_acquires cfg s p c k P D F L N0) as (H & _). now apply held_holds.
Qed.
Print Assumptions free_stack_acquires.

(* any number of readers may share: for every n a state in which n shared requesters of one stack all
   hold is reachable *)
Theorem readers_share cfg k n :
  (forall i, i < n -> kind_of cfg i = Sh /\ path_of cfg i = [k]) ->
  exists s, reachable cfg s /\ forall i, i < n -> holds s i.
Proof.
  intro K. destruct (readers_share_proof cfg k n K) as (s & R & H & _). now exists s.
Qed.
Print Assumptions readers_share.

(* a child of the lock holder re-enters its parent's lock: q inherited EUPS_LOCK_PID = p, p holds and is
   the only locker of the stack; then q, whatever kind it asks for and whatever kind p holds, acquires on
   its first attempt and both hold *)
Theorem reentry cfg s p q k :
  wf cfg -> reachable cfg s -> path_of cfg q = [k] -> root_of cfg q = Some p -> q <> p ->
  holds s p -> files s k = [p] -> fresh s q ->
  exists n, let s' := run cfg s (repeat (q, 0) n) in holds s' q /\ holds s' p.
Proof.
  intros WF R P Rt Hne Hp F [Lq N0].
  destruct (reachable_gen_inv true true cfg s WF R) as (H0 & _).
  destruct (reachable_fx_inv true cfg s WF R) as (HN & _).
  assert (D : dir s k = true) by (apply (H0 k p); rewrite F; now left).
  assert (Lp : pc s p = LHeld).
  { unfold holds, holdsb in Hp. pose proof (HN p). destruct (pc s p); try discriminate; congruence. }
  destruct (reentry_proof cfg s p q k P Rt Hne D F Lp Lq N0) as (n & A & B & _).
  exists n. cbv zeta. split; now apply held_holds.
Qed.
Print Assumptions reentry.

(* ---- no residue *)

(* released locks leave no residue: whenever no process is inside takeLocks or giveLocks (every process
   has not started, is done, has failed or has crashed) no lock directory exists, on any stack *)
Theorem no_residue cfg s k : wf cfg -> reachable cfg s -> quiescent s -> dir s k = false /\ files s k = [].
Proof. exact (no_residue_proof cfg s k). Qed.
Print Assumptions no_residue.

(* a command that failed to take its locks holds nothing: no lock file of its on any stack, also not on the
   stacks of its path that it had locked before the one that refused it *)
Theorem no_residue_after_failure cfg s p k :
  wf cfg -> reachable cfg s -> pc s p = LFailed -> ~ In p (files s k).
Proof. intros WF R L. apply (ended_owns_nothing cfg s p k WF R). now rewrite L. Qed.
Print Assumptions no_residue_after_failure.

(* Without the release on failure the clause is false.  Process 1 (exclusive) locks the stacks 0 and 1 in
   that order, process 2 (a reader) only stack 1.  2 takes stack 1; 1 locks stack 0, is refused on stack 1
   and gives up; 2 finishes.  Nobody is running and the lock of 1 on stack 0 is still there. *)
Definition two_procs : procs := [(1, (Ex, None, 1, [0; 1])); (2, (Sh, None, 1, [1]))].
Definition two_schedule := z [2; 2; 2; 2; 1; 1; 1; 1; 1; 1; 1; 2; 2; 2; 2; 2; 2].

Theorem no_residue_refuted_norelease :
  exists cfg sched,
    let s := run_norelease cfg init sched in
    wf cfg /\ reachable_gen true false cfg s /\ pc s 1 = LFailed /\ pc s 2 = LDone /\
    dir s 0 = true /\ files s 0 = [1].
Proof.
  exists (cfg_of two_procs), two_schedule. cbv zeta.
  split; [apply wf_cfg_of; reflexivity|].
  split; [apply reachable_run; constructor|].
  repeat split; vm_compute; reflexivity.
Qed.
Print Assumptions no_residue_refuted_norelease.

(* the same schedule, continued by the five calls with which 1 now gives stack 0 back, under the protocol
   with both repairs: everything is clean *)
Example two_stacks_repaired :
  let s := run (cfg_of two_procs) init (z [2; 2; 2; 2; 1; 1; 1; 1; 1; 1; 1; 1; 1; 1; 1; 1; 2; 2; 2; 2; 2; 2]) in
  pc s 1 = LFailed /\ pc s 2 = LDone /\ dir s 0 = false /\ dir s 1 = false /\ files s 0 = [] /\ files s 1 = [].
Proof. vm_compute. repeat split; reflexivity. Qed.

(* a reachable, non-trivial state satisfying the hypotheses of mutex: two readers hold, a writer has just
   created its file and is about to withdraw it *)
Example hypotheses_inhabited :
  let cfg := cfg_of k_procs in
  let s := run cfg init (z [3; 3; 1; 1; 1; 1; 1; 2; 2; 2; 2; 2; 3; 3]) in
  wf cfg /\ holdsb s 1 = true /\ holdsb s 2 = true /\ pc s 3 = LGive GBackoff GIsdir /\ files s 0 = [3; 2; 1].
Proof. split; [apply wf_cfg_of; reflexivity|]. vm_compute. repeat split; reflexivity. Qed.

(* ---- which commands take which lock (table regenerated from cmd.py and setupcmd.py on every run) *)

(* every command that updates the database takes the exclusive lock *)
Theorem updaters_exclusive : forall c, In c mutating_commands -> takes registered Ex c = true.
Proof. apply forallb_forall. vm_compute. reflexivity. Qed.
Print Assumptions updaters_exclusive.

(* every command that only reads it takes the shared lock *)
Theorem readers_shared : forall c, In c reader_commands -> takes registered Sh c = true.
Proof. apply forallb_forall. vm_compute. reflexivity. Qed.
Print Assumptions readers_shared.

(* ---- WHICH stacks a command locks (Model/LockCmd.v).  mutex is a statement per stack: a command excludes the
   others exactly on the stacks it has locked.  So the clause holds of COMMANDS only if each takes its locks on
   the stacks it works on. *)

(* for every command line - EUPS_PATH of any number of stacks, -Z and -z any number of times before and after
   the command word - the stacks the Eups object of the command works on are the stacks execute locks *)
Theorem commands_lock_used_stacks c k : In k (used_stacks c) <-> In k (locked_stacks c).
Proof. exact (used_iff_locked c k). Qed.
Print Assumptions commands_lock_used_stacks.

(* hence: two unrelated commands that run at the same time and WORK ON a common stack are both readers *)
Theorem commands_exclude_on_used_stacks cfg s (line : pid -> cmdline) p q k :
  wf cfg -> reachable cfg s -> (forall r, path_of cfg r = locked_stacks (line r)) ->
  holds s p -> holds s q -> p <> q -> ~ related cfg p q ->
  In k (used_stacks (line p)) -> In k (used_stacks (line q)) ->
  kind_of cfg p = Sh /\ kind_of cfg q = Sh.
Proof.
  intros WF R L Hp Hq NE NR Kp Kq. apply (mutex cfg s p q k WF R Hp Hq NE NR).
  - rewrite L. apply used_iff_locked. exact Kp.
  - rewrite L. apply used_iff_locked. exact Kq.
Qed.
Print Assumptions commands_exclude_on_used_stacks.

(* Locking what the dispatcher alone makes of the line (the options before the command word) is not enough:
   eups declare -Z stack1 with EUPS_PATH = stack0 works on stack 1 and would lock stack 0; a reader of stack 1
   then holds its lock together with the updater. *)
Definition z_after : cmdline := {| env_path := [0]; before := []; after := [OptZ [1]] |}.
Definition reader_of_1 : cmdline := {| env_path := [1]; before := []; after := [] |}.
Definition dispatcher_procs : procs :=
  [(1, (Ex, None, 1, dispatcher_stacks z_after)); (2, (Sh, None, 1, locked_stacks reader_of_1))].

Theorem dispatcher_view_refuted :
  exists sched p q k,
    let cfg := cfg_of dispatcher_procs in
    let s := run cfg init sched in
    wf cfg /\ reachable cfg s /\ holds s p /\ holds s q /\ p <> q /\ ~ related cfg p q /\
    In k (used_stacks z_after) /\ In k (used_stacks reader_of_1) /\ kind_of cfg p = Ex /\
    ~ In k (dispatcher_stacks z_after).
Proof.
  exists (z [1; 1; 1; 1; 2; 2; 2; 2]), 1, 2, 1. cbv zeta.
  split; [apply wf_cfg_of; reflexivity|].
  split; [apply reachable_run; constructor|].
  split; [vm_compute; reflexivity|]. split; [vm_compute; reflexivity|].
  split; [discriminate|]. split; [intros [H|H]; vm_compute in H; discriminate|].
  split; [vm_compute; auto|]. split; [vm_compute; auto|]. split; [vm_compute; reflexivity|].
  vm_compute. intros [H|H]; [discriminate|exact H].
Qed.
Print Assumptions dispatcher_view_refuted.

Example line_examples :
  locked_stacks z_after = [1] /\ used_stacks z_after = [1] /\ dispatcher_stacks z_after = [0] /\
  locked_stacks {| env_path := [1; 0; 1; 2]; before := [Optz (fun k => Nat.leb k 1)]; after := [] |} = [1; 0] /\
  locked_stacks {| env_path := [0]; before := [OptZ [1]]; after := [OptZ [2; 1; 2]] |} = [2; 1].
Proof. vm_compute. repeat split; reflexivity. Qed.
