(* C10 - Version names are ordered consistently.
   Property theorems only; every proof is a short appeal to Proofs/VersionCompare*.v.

   version_cmp is hooks.version_cmp(a, b) (sorting mode), version_cmp_strict the mode used by
   relational matching (mustReturnInt=False), both with the repair of D7; accepts is the
   domain of names (alphabet, splits without error, no plus sign left in the primary part);
   conv recognises conventional names  part [-part] [+part],  part = letters digits
   ((.|_) digits)*;  key maps such a name to (letters, numbers), optional pre-release key,
   optional post-release key;  key_compare is the lexicographic order on keys. *)
From Eupsv Require Import Base.Base Base.BaseLemmas Model.VersionCompare Model.VersionKey Model.VersionStacks
  Proofs.VersionCompareLib Proofs.VersionCompare Proofs.VersionCompareKey Proofs.VersionCompareMatch
  Proofs.VersionStacks.

(* ------------------------------------------------------------ every accepted name *)

Theorem cmp_refl v :
  accepts v = true -> version_cmp v v = Ok Eq /\ version_cmp_strict v v = Ok Eq.
Proof.
  intro A. apply accepts_good in A as [_ [p [s [t [E _]]]]].
  split; apply scmp_refl; eauto.
Qed.
Print Assumptions cmp_refl.

Theorem cmp_antisym a b c :
  accepts a = true -> accepts b = true ->
  version_cmp a b = Ok c -> version_cmp b a = Ok (CompOpp c).
Proof.
  intros A B H. apply accepts_good in A, B. unfold version_cmp in *. change std_compare with (scmp true) in *.
  now rewrite (scmp_flip true false a b A B), H.
Qed.
Print Assumptions cmp_antisym.

(* strict mode: the same, and "cannot be sorted" is raised for both orders or for neither *)
Theorem cmp_antisym_strict a b :
  accepts a = true -> accepts b = true ->
  (forall c, version_cmp_strict a b = Ok c -> version_cmp_strict b a = Ok (CompOpp c)) /\
  (version_cmp_strict a b = Err Unsortable <-> version_cmp_strict b a = Err Unsortable).
Proof.
  intros A B. apply accepts_good in A, B. unfold version_cmp_strict. change std_compare with (scmp true).
  pose proof (scmp_flip true true a b A B) as F. pose proof (scmp_flip true true b a B A) as G.
  split; [intros c H; now rewrite F, H|]. split; intro H.
  - now rewrite F, H.
  - now rewrite G, H.
Qed.
Print Assumptions cmp_antisym_strict.

(* accepted names never crash the comparison; only the strict mode may refuse to sort *)
Theorem cmp_defined a b :
  accepts a = true -> accepts b = true ->
  (exists c, version_cmp a b = Ok c) /\
  ((exists c, version_cmp_strict a b = Ok c) \/ version_cmp_strict a b = Err Unsortable).
Proof.
  intros A B. apply accepts_good in A, B. unfold version_cmp, version_cmp_strict. change std_compare with (scmp true).
  split.
  - destruct (scmp_defined true false a b A B) as [H|[H _]]; [assumption|discriminate].
  - destruct (scmp_defined true true a b A B) as [H|[_ H]]; auto.
Qed.
Print Assumptions cmp_defined.

(* ------------------------------------------------------------ conventional names *)

Theorem conv_is_accepted v : conv v = true -> accepts v = true.
Proof. exact (conv_accepts v). Qed.
Print Assumptions conv_is_accepted.

(* what conv recognises: exactly texts of the grammar, printed from a well-formed structure *)
Theorem conv_grammar v :
  conv v = true -> exists c, wf_cname c /\ print_cname c = v /\ key v = cname_key c.
Proof. exact (conv_spec v). Qed.
Print Assumptions conv_grammar.

(* ... and every text printed from a well-formed structure is recognised, with that key *)
Theorem conv_recognises_grammar c :
  wf_cname c -> conv (print_cname c) = true /\ key (print_cname c) = cname_key c.
Proof. exact (conv_complete c). Qed.
Print Assumptions conv_recognises_grammar.

(* the refinement: on conventional names the comparison is the order of the keys *)
Theorem cmp_is_key_order a b :
  conv a = true -> conv b = true -> version_cmp a b = Ok (key_compare (key a) (key b)).
Proof. exact (cmp_key_order a b). Qed.
Print Assumptions cmp_is_key_order.

(* in strict mode the same holds when the two names share their letter prefix *)
Theorem cmp_is_key_order_strict a b :
  conv a = true -> conv b = true -> prefix_of a = prefix_of b ->
  version_cmp_strict a b = Ok (key_compare (key a) (key b)).
Proof. exact (cmp_strict_key_order a b). Qed.
Print Assumptions cmp_is_key_order_strict.

(* ... and refuses to sort when they do not (which relational matching turns into: no match) *)
Theorem strict_unsortable_across_prefixes a b :
  conv a = true -> conv b = true -> prefix_of a <> prefix_of b ->
  version_cmp_strict a b = Err Unsortable.
Proof. exact (cmp_strict_unsortable a b). Qed.
Print Assumptions strict_unsortable_across_prefixes.

(* the order on keys is a total order: reflexive, antisymmetric, transitive, and equal keys
   only for equal key values *)
Theorem key_order_is_total_order :
  (forall k, key_compare k k = Eq) /\
  (forall j k, key_compare j k = Eq -> j = k) /\
  (forall j k, key_compare k j = CompOpp (key_compare j k)) /\
  (forall i j k, key_compare i j = Lt -> key_compare j k = Lt -> key_compare i k = Lt).
Proof. destruct ord_ok_key as [R E A T]. auto. Qed.
Print Assumptions key_order_is_total_order.

Theorem conv_trans a b c :
  conv a = true -> conv b = true -> conv c = true ->
  (version_cmp a b = Ok Lt -> version_cmp b c = Ok Lt -> version_cmp a c = Ok Lt) /\
  (version_cmp a b <> Ok Gt -> version_cmp b c <> Ok Gt -> version_cmp a c <> Ok Gt) /\
  (version_cmp a b = Ok Eq -> version_cmp b c = Ok Eq -> version_cmp a c = Ok Eq).
Proof.
  intros A B C. rewrite (cmp_key_order a b), (cmp_key_order b c), (cmp_key_order a c) by assumption. repeat split.
  - intros H1 H2. inversion H1 as [K1]. inversion H2 as [K2].
    now rewrite (ok_trans _ ord_ok_key _ _ _ K1 K2).
  - intros H1 H2 H3. inversion H3 as [K3].
    apply (ok_le_trans _ ord_ok_key (key a) (key b) (key c)); congruence.
  - intros H1 H2. inversion H1 as [K1]. inversion H2 as [K2].
    apply (ok_eq _ ord_ok_key) in K1, K2. rewrite K1, K2. now rewrite (ok_refl _ ord_ok_key).
Qed.
Print Assumptions conv_trans.

Theorem conv_total a b :
  conv a = true -> conv b = true ->
  exists c, version_cmp a b = Ok c /\ version_cmp b a = Ok (CompOpp c).
Proof.
  intros A B. rewrite (cmp_key_order a b), (cmp_key_order b a) by assumption. eexists. split; [reflexivity|].
  now rewrite (ok_anti _ ord_ok_key (key a) (key b)).
Qed.
Print Assumptions conv_total.

(* components compare as numbers: the last component ... *)
Theorem numeric_components p s d e :
  wf_part p -> is_sep s = true -> all_digits d = true -> all_digits e = true ->
  version_cmp (print_part p ++ s :: d) (print_part p ++ s :: e)
  = Ok (N.compare (num_of_digits d) (num_of_digits e)).
Proof.
  intros W S D E. rewrite <- !print_part_snoc, <- !print_cname_part.
  rewrite version_cmp_printed by (apply wf_cname_part; now apply wf_part_snoc).
  cbn [cname_key option_map key_compare sec_compare ter_compare]. rewrite !then_cmp_eq_r, !part_key_snoc.
  unfold pkey_compare. cbn [fst snd]. rewrite (ok_refl _ ord_ok_str). cbn [then_cmp].
  now rewrite (lex_compare_snoc _ _ _ _ ord_ok_N).
Qed.
Print Assumptions numeric_components.

(* ... and the first one, after the common letters *)
Theorem numeric_first_component l d e :
  forallb is_alpha l = true -> ends_mp l = false -> all_digits d = true -> all_digits e = true ->
  version_cmp (l ++ d) (l ++ e) = Ok (N.compare (num_of_digits d) (num_of_digits e)).
Proof.
  intros L M D E.
  assert (P : forall x, l ++ x = print_cname ((l, x, []), None, None))
    by (intro x; cbn; now rewrite !app_nil_r).
  rewrite (P d), (P e). rewrite version_cmp_printed by (cbn; repeat split; auto; constructor).
  cbn [cname_key option_map key_compare sec_compare ter_compare part_key map]. rewrite !then_cmp_eq_r.
  unfold pkey_compare. cbn [fst snd lex_compare]. rewrite (ok_refl _ ord_ok_str). cbn [then_cmp].
  now destruct (N.compare (num_of_digits d) (num_of_digits e)).
Qed.
Print Assumptions numeric_first_component.

Theorem longer_follows_prefix p s d :
  wf_part p -> is_sep s = true -> all_digits d = true ->
  version_cmp (print_part p) (print_part p ++ s :: d) = Ok Lt.
Proof.
  intros W S D. rewrite <- print_part_snoc, <- !print_cname_part.
  rewrite version_cmp_printed by (apply wf_cname_part; auto using wf_part_snoc).
  cbn [cname_key option_map key_compare sec_compare ter_compare]. rewrite !then_cmp_eq_r, part_key_snoc.
  unfold pkey_compare. cbn [fst snd]. rewrite (ok_refl _ ord_ok_str). cbn [then_cmp].
  now rewrite (lex_compare_longer _ _ _ ord_ok_N).
Qed.
Print Assumptions longer_follows_prefix.

(* p-q[+t] precedes p[+t] *)
Theorem prerelease_precedes p q t :
  wf_part p -> wf_part q -> wf_opt t ->
  version_cmp (print_cname (p, Some q, t)) (print_cname (p, None, t)) = Ok Lt.
Proof.
  intros Wp Wq Wt. rewrite version_cmp_printed by (cbn; auto).
  cbn [cname_key option_map key_compare sec_compare]. now rewrite (ok_refl _ ord_ok_pkey).
Qed.
Print Assumptions prerelease_precedes.

(* p[-s]+r follows p[-s] *)
Theorem postrelease_follows p s r :
  wf_part p -> wf_opt s -> wf_part r ->
  version_cmp (print_cname (p, s, Some r)) (print_cname (p, s, None)) = Ok Gt.
Proof.
  intros Wp Ws Wr. rewrite version_cmp_printed by (cbn; auto).
  cbn [cname_key option_map key_compare ter_compare].
  now rewrite (ok_refl _ ord_ok_pkey), (ok_refl _ ord_ok_sec).
Qed.
Print Assumptions postrelease_follows.

(* ------------------------------------------------------------ relational requests *)

(* v matches  op w  exactly when the keys are in relation op *)
Theorem match_relop v op w :
  conv v = true -> conv w = true -> prefix_of w = prefix_of v ->
  version_match v (relop_text op ++ " "%char :: w) = Ok (rel op (key_compare (key v) (key w))).
Proof.
  intros Cv Cw P.
  assert (H : Forall (alt_conv v) [(Some op, w)]) by (constructor; [split; assumption|constructor]).
  apply (match_expr v (Some op, w) [] Cv) in H.
  unfold print_expr, alt_holds in H. cbn [map join_str print_alt fst snd existsb] in H.
  now rewrite orb_false_r in H.
Qed.
Print Assumptions match_relop.

Theorem match_other_prefix v op w :
  conv v = true -> conv w = true -> prefix_of w <> prefix_of v ->
  version_match v (relop_text op ++ " "%char :: w) = Ok false.
Proof. intros Cv Cw P. exact (match_unsortable v (Some op, w) Cv Cw P). Qed.
Print Assumptions match_other_prefix.

(* a bare version means == *)
Theorem match_bare v w :
  conv v = true -> conv w = true -> prefix_of w = prefix_of v ->
  version_match v w = Ok (rel REq (key_compare (key v) (key w))).
Proof.
  intros Cv Cw P.
  assert (H : Forall (alt_conv v) [(None, w)]) by (constructor; [split; assumption|constructor]).
  apply (match_expr v (None, w) [] Cv) in H.
  unfold print_expr, alt_holds in H. cbn [map join_str print_alt fst snd existsb] in H.
  now rewrite orb_false_r in H.
Qed.
Print Assumptions match_bare.

(* any expression  [op] w (|| [op] w)*  : accepted iff some alternative holds in the key order *)
Theorem match_alternatives v a l :
  conv v = true -> Forall (alt_conv v) (a :: l) ->
  version_match v (print_expr (a :: l)) = Ok (existsb (alt_holds v) (a :: l)).
Proof. exact (match_expr v a l). Qed.
Print Assumptions match_alternatives.

Theorem match_or v a1 l1 a2 l2 :
  conv v = true -> Forall (alt_conv v) (a1 :: l1) -> Forall (alt_conv v) (a2 :: l2) ->
  print_expr ((a1 :: l1) ++ a2 :: l2) = print_expr (a1 :: l1) ++ sep_or ++ print_expr (a2 :: l2) /\
  exists b1 b2,
    version_match v (print_expr (a1 :: l1)) = Ok b1 /\ version_match v (print_expr (a2 :: l2)) = Ok b2 /\
    version_match v (print_expr (a1 :: l1) ++ sep_or ++ print_expr (a2 :: l2)) = Ok (b1 || b2).
Proof.
  intros Cv H1 H2.
  assert (E : print_expr ((a1 :: l1) ++ a2 :: l2) = print_expr (a1 :: l1) ++ sep_or ++ print_expr (a2 :: l2)).
  { cbn [app]. rewrite !print_expr_cons. unfold tail_str. rewrite flat_map_app. cbn [flat_map].
    fold (tail_str l1). fold (tail_str l2). now rewrite <- !app_assoc. }
  split; [exact E|]. do 2 eexists. split; [now apply match_expr|]. split; [now apply match_expr|].
  rewrite <- E.
  assert (H : Forall (alt_conv v) ((a1 :: l1) ++ a2 :: l2)) by (apply Forall_app; auto).
  cbn [app] in *. rewrite (match_expr v a1 (l1 ++ a2 :: l2) Cv H).
  change (a1 :: l1 ++ a2 :: l2) with ((a1 :: l1) ++ a2 :: l2). now rewrite existsb_app.
Qed.
Print Assumptions match_or.

(* ------------------------------------------------------------ latest *)

Theorem latest_is_max l :
  Forall (fun x => conv x = true) l -> l <> [] ->
  exists m, latest l = Ok (Some m) /\ In m l /\ forall x, In x l -> key_le (key x) (key m).
Proof. exact (latest_spec l). Qed.
Print Assumptions latest_is_max.

Theorem latest_none l : latest l = Ok None <-> l = [].
Proof. exact (latest_none_iff l). Qed.
Print Assumptions latest_none.

(* ------------------------------------------------------------ latest over the stacks of the path *)

(* Eups._findLatestProduct: latest_over_stacks minver stacks, stacks = for every stack of EUPS_PATH
   in order the versions it declares, minver the optional minimum version.  The answer (position of
   the stack, version) names a version declared in that stack which is a maximum, in the key order,
   of the union of all the stacks' versions - whichever stack holds it - and is not below the
   minimum; there is no answer exactly when (no minimum) no stack declares a version, (minimum)
   every declared version is below the minimum. *)
Theorem latest_over_stacks_is_max minver stacks :
  conv_min minver -> conv_stacks stacks ->
  exists r, latest_over_stacks minver stacks = Ok r /\
    match r with
    | Some (i, m) =>
        (exists vs, nth_error stacks i = Some vs /\ In m vs) /\
        (forall x, In x (concat stacks) -> key_le (key x) (key m)) /\
        (forall mv, minver = Some mv -> key_le (key mv) (key m))
    | None =>
        forall x, In x (concat stacks) ->
          match minver with Some mv => key_lt (key x) (key mv) | None => False end
    end.
Proof.
  intros Hm Hs. destruct (latest_over_stacks_spec minver stacks Hm Hs) as [r [E K]]. exists r. split; [exact E|].
  destruct r as [[i m]|]; [|exact K]. destruct K as (_ & L & M & Mn). auto.
Qed.
Print Assumptions latest_over_stacks_is_max.

Theorem latest_over_stacks_none stacks :
  conv_stacks stacks -> (latest_over_stacks None stacks = Ok None <-> concat stacks = []).
Proof. exact (latest_over_stacks_none_iff stacks). Qed.
Print Assumptions latest_over_stacks_none.

Theorem latest_over_stacks_none_with_minimum mv stacks :
  conv mv = true -> conv_stacks stacks ->
  (latest_over_stacks (Some mv) stacks = Ok None <-> forall x, In x (concat stacks) -> key_lt (key x) (key mv)).
Proof. exact (latest_over_stacks_min_none_iff mv stacks). Qed.
Print Assumptions latest_over_stacks_none_with_minimum.

(* one stack and no minimum: the search is the function latest of that stack (any names) *)
Theorem latest_over_one_stack l :
  latest_over_stacks None [l] =
  match latest l with Ok (Some m) => Ok (Some (0, m)) | Ok None => Ok None | Err e => Err e end.
Proof. unfold latest_over_stacks. cbn [latest_stacks_from]. now destruct (latest l) as [[m|]|e]. Qed.
Print Assumptions latest_over_one_stack.

(* eups list -t latest (Eups.findProducts): every stack is asked on its own; every entry is a maximum
   of the stack it names, and a maximum of every stack that declares the product is among the
   version names listed (equal entries of different stacks are listed once) *)
Theorem latest_listing_per_stack stacks :
  conv_stacks stacks ->
  exists lst, latest_listing stacks = Ok lst /\
    (forall i v, In (i, v) lst ->
       exists vs, nth_error stacks i = Some vs /\ In v vs /\ forall x, In x vs -> key_le (key x) (key v)) /\
    (forall i vs, nth_error stacks i = Some vs -> vs <> [] ->
       exists v, In v (map snd lst) /\ In v vs /\ forall x, In x vs -> key_le (key x) (key v)).
Proof. exact (latest_listing_spec stacks). Qed.
Print Assumptions latest_listing_per_stack.

(* the maximum may be in any stack; ties go to the first stack; the minimum passes stacks over *)
Example latest_over_stacks_inhabited :
  let A := [lit "1.0"; lit "10.0"; lit "2.0"] in
  let B := [lit "1.5"; lit "3.0"] in
  let C := [lit "2.5"; lit "9.0-rc1"; lit "10_0"] in
  conv_stacks [A; B; C; []] /\
  latest_over_stacks None [A; B] = Ok (Some (0, lit "10.0")) /\
  latest_over_stacks None [B; A] = Ok (Some (1, lit "10.0")) /\
  latest_over_stacks None [B; []; C; A] = Ok (Some (2, lit "10_0")) /\
  latest_over_stacks None [[]; []] = Ok None /\
  latest_over_stacks (Some (lit "3.0")) [B; []] = Ok (Some (0, lit "3.0")) /\
  latest_over_stacks (Some (lit "3.0.1")) [B; []] = Ok None /\
  latest_over_stacks (Some (lit "3.0.1")) [B; A] = Ok (Some (1, lit "10.0")) /\
  latest_over_stacks (Some (lit "11")) [B; A; C] = Ok None /\
  latest_over_stacks (Some []) [B; A] = Ok (Some (1, lit "10.0")) /\
  latest_per_stack [A; []; B] = Ok [Some (lit "10.0"); None; Some (lit "3.0")] /\
  latest_listing [A; []; B; [lit "10.0"; lit "3.0"]] = Ok [(0, lit "10.0"); (2, lit "3.0")].
Proof.
  cbv zeta. split; [|vm_compute; repeat split].
  unfold conv_stacks, conv_list. repeat (apply Forall_cons || apply Forall_nil); vm_compute; reflexivity.
Qed.

(* ------------------------------------------------------------ witnesses *)

(* the tree as pinned (before the repair of D7) is not transitive on conventional names:
   v1.0 = v1_0-rc1 < v1_0 = v1.0 *)
Theorem conv_trans_refuted_pinned :
  exists a b c, conv a = true /\ conv b = true /\ conv c = true /\
    version_cmp_pinned a b = Ok Eq /\ version_cmp_pinned b c = Ok Lt /\ version_cmp_pinned a c = Ok Eq.
Proof.
  exists (lit "v1.0"), (lit "v1_0-rc1"), (lit "v1_0"). vm_compute. repeat split.
Qed.
Print Assumptions conv_trans_refuted_pinned.

Example pinned_tree_witness_repaired :
  version_cmp (lit "v1.0") (lit "v1_0-rc1") = Ok Gt /\ version_cmp (lit "v1_0-rc1") (lit "v1_0") = Ok Lt /\
  version_cmp (lit "v1.0") (lit "v1_0") = Ok Eq /\ version_cmp (lit "1.01+2") (lit "1.1+3") = Ok Lt.
Proof. vm_compute. repeat split. Qed.

(* outside the conventional names sorting mode is not transitive (2 < 10 < 1a < 2); such
   names are covered by reflexivity and antisymmetry only *)
Example nonconventional_cycle :
  version_cmp (lit "2") (lit "10") = Ok Lt /\ version_cmp (lit "10") (lit "1a") = Ok Lt /\
  version_cmp (lit "1a") (lit "2") = Ok Lt /\ conv (lit "1a") = false /\ accepts (lit "1a") = true.
Proof. vm_compute. repeat split. Qed.

(* non-vacuity *)
Example c10_hypotheses_inhabited :
  conv (lit "v1_0_3") = true /\ conv (lit "1.2-rc1+a1") = true /\ conv (lit "2") = true /\ conv (lit "10") = true /\
  accepts (lit "1.2-rc1+a") = true /\ accepts (lit "rel-0-8-2") = true /\ accepts (lit "1.2m3") = true /\
  accepts (lit "-1") = false /\ conv (lit "1.2m3") = false /\
  key (lit "v1_02.3-rc1+a1") = ((lit "v", [1; 2; 3]%N), Some (lit "rc", [1%N]), Some (lit "a", [1%N])) /\
  prefix_of (lit "v1_0_3") = lit "v" /\
  version_cmp (lit "2") (lit "10") = Ok Lt /\ version_cmp (lit "1.9") (lit "1.10") = Ok Lt /\
  version_cmp (lit "1.2-rc1") (lit "1.2") = Ok Lt /\ version_cmp (lit "1.2+1") (lit "1.2") = Ok Gt /\
  version_cmp (lit "1.2") (lit "1.2.1") = Ok Lt /\
  version_cmp_strict (lit "v1") (lit "w1") = Err Unsortable /\
  version_match (lit "v1.2") (lit ">= v1.1 || v3") = Ok true /\
  version_match (lit "v1.2") (lit "< v1.2 || == v1_3") = Ok false /\
  latest [lit "1.0"; lit "1.10"; lit "1.9"; lit "1_10-rc1"] = Ok (Some (lit "1.10")).
Proof. vm_compute. repeat split. Qed.
