(* C11 - Table files mean what they say: block selection, conditions and arguments.
   Property theorems only; the proofs are in Proofs/CondEval.v (evaluator), CondTok.v
   (tokeniser), ArgsRT.v (argument splitter), Lines.v (readlines, _rewrite, line patterns),
   BlocksB.v (block state machine and branch selection), LegacyEq.v (Flavor= groups),
   LegacyFull.v (whole legacy files, Model/LegacySpec.v).

   Models (Model/Cond.v, Args.v, Legacy.v, Blocks.v) follow python/eups/VersionParser.py and
   python/eups/table.py; the first flag [true] selects the code with the three small repairs
   (fix: commits f4206d2, 9ec7318, 6f99cf4), [false] the pinned code; the second flag of
   read_text / table_actions [true] selects the block reader with the repair of D6
   (proposed_fixes/C11-empty-branch: a branch is closed by the brace line that follows it,
   whether or not it holds a command), [false] the reader before that repair.
   Specification (Model/TableSpec.v): items = commands and if / else if / else chains, every
   node carrying its layout (indentation, blank and comment lines, trailing comments, letter
   case of command names and of FLAVOR / TYPE, quoting of values and literals, separators,
   optional semicolon); a double quote that is part of a value is printed backslash, quote
   (esc_dq; the manual: do not forget to escape the quotes), wherever it stands: inside a
   quoted value, at one or both ends of a bare word, next to a separator;
   print_table prints the text, denote_items is the meaning:
   unconditional commands in place, for each chain the body of the first branch whose
   condition is true by the truth tables, else the else body.
   All layout is universally quantified (it lives in the items); wf_items / wf_cond / wf_env
   are the alphabet restrictions listed in the evidence. *)
From Coq Require Import Lia.
From Eupsv Require Import Base.Base Base.BaseLemmas Model.Rx Model.Cond Model.Args Model.Legacy
  Model.Blocks Model.TableSpec Model.LegacySpec Proofs.RxLib Proofs.CondEval Proofs.CondTok Proofs.ArgsRT
  Proofs.BlocksB Proofs.Lines Proofs.LegacyEq Proofs.LegacyFull.

(* ------------------------------------------------------------------ conditions *)

(* evaluating the text of a condition gives its truth-table value; && and || associate to
   the left with equal precedence, as the grammar in the VersionParser docstring says (the
   tree shape of [cond] records exactly that: print_cond parenthesises a right operand
   that is itself a binary node) *)
Theorem cond_sound e c :
  wf_env e = true -> wf_cond c = true ->
  eval_value true e (print_cond c) = Ok (VBool (denote e c)) /\
  eval_cond true e (print_cond c) = Ok (denote e c).
Proof.
  intros He Hc. unfold eval_cond, eval_value. rewrite (tokenize_print_cond c Hc).
  rewrite (eval_tokens_sound e He c Hc). split; reflexivity.
Qed.
Print Assumptions cond_sound.

(* the hypotheses are inhabited: (FLAVOR == Darwin && flavor != "Linux64") || TYPE == build *)
Definition ex_atom (sp : string) (v : cvar) (o : cmpop) (x : string) (q : quote) : cond :=
  Atom (mkAlay (lit sp) 1 1 q) v o (lit x).
Arguments ex_atom sp%string v o x%string q.
Definition ex_cond : cond :=
  Bin 1 1 BOr
    (Paren 0 0 (Bin 1 0 BAnd (ex_atom "FLAVOR" CFlavor OEq "Darwin" QNone)
                            (ex_atom "flavor" CFlavor ONe "Linux64" QDouble)))
    (ex_atom "TYPE" CType OEq "build" QSingle).
Definition ex_env : cenv := mkCenv (lit "Linux64") [lit "build"].

Example cond_sound_inhabited :
  wf_env ex_env = true /\ wf_cond ex_cond = true /\
  eval_cond true ex_env (print_cond ex_cond) = Ok true /\ denote ex_env ex_cond = true.
Proof. vm_compute. repeat split. Qed.

(* the pinned evaluator (D5): A && B || C with A false and C true is answered False, and
   (A && B) || C raises; the repaired one answers True to both *)
Definition d5_flat : cond :=
  Bin 1 1 BOr (Bin 1 1 BAnd (ex_atom "FLAVOR" CFlavor OEq "Darwin" QNone)
                            (ex_atom "FLAVOR" CFlavor OEq "Linux64" QNone))
              (ex_atom "FLAVOR" CFlavor OEq "Linux64" QNone).
Definition d5_paren : cond :=
  Bin 1 1 BOr (Paren 0 0 (Bin 1 1 BAnd (ex_atom "FLAVOR" CFlavor OEq "Darwin" QNone)
                                       (ex_atom "FLAVOR" CFlavor OEq "Linux64" QNone)))
              (ex_atom "FLAVOR" CFlavor OEq "Linux64" QNone).

Theorem cond_refuted_pinned :
  wf_env ex_env = true /\ wf_cond d5_flat = true /\ wf_cond d5_paren = true /\
  denote ex_env d5_flat = true /\ denote ex_env d5_paren = true /\
  eval_cond false ex_env (print_cond d5_flat) = Ok false /\
  eval_cond false ex_env (print_cond d5_paren) = Err Refused /\
  eval_cond true ex_env (print_cond d5_flat) = Ok true /\
  eval_cond true ex_env (print_cond d5_paren) = Ok true.
Proof. vm_compute. repeat split. Qed.
Print Assumptions cond_refuted_pinned.

(* ------------------------------------------------------------------ arguments *)

(* the arguments written are the arguments received: quoted values keep their blanks and
   commas, whatever the separators and the quoting of the other values; the double quotes
   of a value, written backslash-quote, are received as double quotes.
   Alphabet (wf_args): a value is not empty and has no hash, backslash, line end or control
   character 1-3 - the double quote is allowed; a bare value has no blank and no comma; a
   quoted value has no blank other than the space; the first value is bare; a separator is
   blanks with at most one comma.  Outside, hence not claimed: a backslash that is not the
   escape of a quote (a value ending in one, quoted, swallows the closing delimiter), the
   empty quoted value, a quoted first value, an unescaped quote inside a word. *)
Theorem args_roundtrip g args :
  wf_args g args = true -> split_args true (print_args g args) = args.
Proof. apply split_print_args. Qed.
Print Assumptions args_roundtrip.

(* the escaping is the identity on values without double quote: every text of the alphabet
   before quotes were admitted is printed as before *)
Theorem args_escape_conservative a :
  forallb (fun c => negb (ascii_eqb c c_dq)) a = true -> esc_dq a = a /\ forall q, pr_arg q a = pr_arg0 q a.
Proof. intros H. split; [apply esc_dq_id, H|intros q; apply pr_arg_plain, H]. Qed.
Print Assumptions args_escape_conservative.

(* a bare word between two double quotes - the sh idiom of the manual, quote dollar-at quote -
   is written with both quotes escaped and received with both: the delimiting quotes of an
   argument are removed BEFORE the escaped ones are put back *)
Theorem args_quoted_word_keeps_quotes name sep w :
  wf_value name = true -> bare_ok name = true -> wf_sep sep = true ->
  wf_value w = true -> bare_ok w = true ->
  let g := mkArglay 0 [(sep, false)] 0 in
  let a := c_dq :: w ++ [c_dq] in
  print_args g [name; a] = esc_dq name ++ sep ++ [c_bsl; c_dq] ++ esc_dq w ++ [c_bsl; c_dq] /\
  split_args true (print_args g [name; a]) = [name; a].
Proof. apply split_quoted_word. Qed.
Print Assumptions args_quoted_word_keeps_quotes.

(* the same from the side of the TEXT: args_class (Model/TableSpec.v) decides whether a text
   between the parentheses is inside the argument grammar; when it says Some args the text is
   the print of those arguments under some layout and the splitter gives them back.  None is
   the answer OUTSIDE: the harness counts those texts (argtext/outside) and only compares
   model and implementation on them. *)
Theorem args_text_sound t args :
  args_class t = Some args ->
  split_args true t = args /\ exists g, wf_args g args = true /\ print_args g args = t.
Proof. apply args_class_sound. Qed.
Print Assumptions args_text_sound.

Example args_text_inhabited :
  args_class (lit "runit, run \""$@\""") = Some [lit "runit"; lit "run"; lit """$@"""] /\
  args_class (lit "foo, source `${PRODUCT_DIR}/bin/eups_setup setup \""$@\""`;")
  = Some [lit "foo"; lit "source"; lit "`${PRODUCT_DIR}/bin/eups_setup"; lit "setup"; lit """$@""`;"] /\
  args_class (lit " A , ""x \""y\"", z""  \""") = Some [lit "A"; lit "x ""y"", z"; lit """"] /\
  (* outside: a backslash that escapes nothing, one before the closing quote, an unescaped
     quote inside a word, text glued to a closing quote, a quoted first value, an empty
     quoted value, two commas, a trailing comma, a tab *)
  map args_class [lit "a\b"; lit "a, ""b\"""; lit "a""b c""d"; lit "a, ""b""c"; lit """a b"""; lit "a, """"";
                  lit "a,,b"; lit "a, b,"; [chr 97; chr 9; chr 98]]
  = [None; None; None; None; None; None; None; None; None].
Proof. vm_compute. repeat split. Qed.

(* inhabited: escaped quotes at both ends of a bare word, inside a quoted value next to a
   blank and a comma, at the end of a bare word before a comma, a quoted lone quote *)
Definition ex_qarglay : arglay :=
  mkArglay 1 [(lit ", ", false); (lit " ", true); (lit ",", false); (lit " , ", true)] 0.
Definition ex_qargs : list str :=
  [lit "CFLAGS"; lit """-Wall"""; lit "say ""hi"", twice"; lit "-DNAME=""x"""; lit """"].

Example args_roundtrip_inhabited_escaped_quotes :
  wf_args ex_qarglay ex_qargs = true /\
  print_args ex_qarglay ex_qargs = lit " CFLAGS, \""-Wall\"" ""say \""hi\"", twice"",-DNAME=\""x\"" , ""\""""" /\
  split_args true (print_args ex_qarglay ex_qargs) = ex_qargs.
Proof. vm_compute. repeat split. Qed.

Example args_quoted_word_inhabited :
  print_args (mkArglay 0 [(lit ", ", false)] 0) [lit "GREETING"; lit """hello"""] = lit "GREETING, \""hello\""" /\
  split_args true (lit "GREETING, \""hello\""") = [lit "GREETING"; lit """hello"""] /\
  split_args true (lit "runit, run \""$@\""") = [lit "runit"; lit "run"; lit """$@"""].
Proof. vm_compute. repeat split. Qed.

(* why the order of the passes matters: a splitter that puts the escaped quotes back before
   it removes the delimiting quotes (the same passes, those two exchanged) takes the quotes
   of such a word for delimiters *)
Definition unprotect_early (s : str) : str :=
  strip_dq (map_char c_03 c_comma (map_char c_02 c_dq (map_char c_01 c_sp s))).
Definition split_args_early (s : str) : list str :=
  map unprotect_early (split_set is_argsep (protect true s)).

Example args_refuted_when_reinstated_early :
  split_args_early (lit "GREETING, \""hello\""") = [lit "GREETING"; lit "hello"] /\
  split_args_early (lit "FOO_OPTS, ""-I/x -I/y, "" b") = [lit "FOO_OPTS"; lit "-I/x -I/y, "; lit "b"].
Proof. vm_compute. repeat split. Qed.

Definition ex_arglay : arglay :=
  mkArglay 1 [(lit ", ", true); (lit " ", true); (lit " ,  ", false)] 0.
Definition ex_args : list str := [lit "FOO_OPTS"; lit "-I/x -I/y, "; lit " a,b"; lit "${PRODUCT_DIR}/bin:(x)"].

Example args_roundtrip_inhabited :
  wf_args ex_arglay ex_args = true /\
  print_args ex_arglay ex_args = lit " FOO_OPTS, ""-I/x -I/y, "" "" a,b"" ,  ${PRODUCT_DIR}/bin:(x)" /\
  split_args true (print_args ex_arglay ex_args) = ex_args.
Proof. vm_compute. repeat split. Qed.

(* the pinned splitter loses exactly such a value (a quoted value ending in a comma, a
   blank separator, another quoted value) *)
Theorem args_refuted_pinned :
  wf_args ex_arglay ex_args = true /\ split_args false (print_args ex_arglay ex_args) <> ex_args.
Proof. split; [reflexivity|]. vm_compute. discriminate. Qed.
Print Assumptions args_refuted_pinned.

(* each command line becomes the action the documentation describes: canonical command,
   the arguments as written, the flags *)
Theorem command_meaning top c :
  wf_cmd c = true ->
  mk_action true top (cl_spell (c_lay c)) (print_args (cl_args (c_lay c)) (c_args c))
  = CAdd (denote_cmd top c).
Proof.
  intros H. apply cmd_action; [exact H|]. apply split_print_args.
  now destruct (wf_cmd_parts c H) as (_ & Ha & _).
Qed.
Print Assumptions command_meaning.

(* append and prepend are told apart, under every spelling and letter case *)
Theorem append_prepend_distinct top c a :
  wf_cmd c = true ->
  mk_action true top (cl_spell (c_lay c)) (print_args (cl_args (c_lay c)) (c_args c)) = CAdd a ->
  (In (c_kind c) [KEnvAppend; KPathAppend] ->
     a_cmd a = lit "envPrepend" /\ a_extra a = [(lit "append", true)] /\ a_args a = c_args c) /\
  (In (c_kind c) [KEnvPrepend; KPathPrepend] ->
     a_cmd a = lit "envPrepend" /\ a_extra a = [(lit "append", false)] /\ a_args a = c_args c).
Proof.
  intros H E. rewrite (command_meaning top c H) in E. injection E as <-.
  unfold denote_cmd. destruct c as [k args lay]. cbn [c_kind c_args In].
  split; intros [<-|[<-|[]]]; cbn; auto.
Qed.
Print Assumptions append_prepend_distinct.

(* required and optional are told apart *)
Theorem required_optional_distinct top c a :
  wf_cmd c = true ->
  mk_action true top (cl_spell (c_lay c)) (print_args (cl_args (c_lay c)) (c_args c)) = CAdd a ->
  (c_kind c = KSetupRequired -> a_cmd a = lit "setupRequired" /\ a_extra a = [(lit "optional", false)] /\ a_args a = c_args c) /\
  (c_kind c = KSetupOptional -> a_cmd a = lit "setupRequired" /\ a_extra a = [(lit "optional", true)] /\ a_args a = c_args c) /\
  (c_kind c = KUnsetupRequired -> a_cmd a = lit "unsetupRequired" /\ a_extra a = [(lit "optional", false)] /\ a_args a = c_args c) /\
  (c_kind c = KUnsetupOptional -> a_cmd a = lit "unsetupRequired" /\ a_extra a = [(lit "optional", true)] /\ a_args a = c_args c).
Proof.
  intros H E. rewrite (command_meaning top c H) in E. injection E as <-.
  unfold denote_cmd. destruct c as [k args lay]. cbn [c_kind c_args].
  repeat split; subst k; reflexivity.
Qed.
Print Assumptions required_optional_distinct.

(* ------------------------------------------------------------------ blocks *)

(* reading the text of an items list and asking for the actions of a flavor / type gives
   the denotation of the items, whether or not every branch holds a command (the reader
   with the repair of D6; the reader before it needs no_empty_branch, see
   blocks_refuted_empty_branch_pinned and repair_conservative_items below). *)
Theorem blocks_sound top e is :
  wf_env e = true -> wf_items is = true ->
  table_actions true true top (print_table is) e = Ok (denote_items e top is).
Proof.
  intros He Hw. unfold table_actions. rewrite (read_text_print true top is Hw). unfold read_blocks_sel.
  rewrite (read_blocks_r_items top (fun c Hc => split_print_args _ _ (proj1 (proj2 (wf_cmd_parts c Hc)))) is Hw).
  cbn [bind]. rewrite (select_compile top e (fun c Hc => proj2 (cond_sound e c He Hc)) is [] Hw). reflexivity.
Qed.
Print Assumptions blocks_sound.

(* exactly one branch of a chain applies: the first whose condition is true, else the else
   branch (nothing when there is none) *)
Theorem exactly_one_branch top e b0 elifs els cl :
  let ch := IChain b0 elifs els cl in
  wf_env e = true -> wf_items [ch] = true ->
  exists acts, table_actions true true top (print_table [ch]) e = Ok acts /\
    ((exists pre b post, b0 :: elifs = pre ++ b :: post /\
        forallb (fun b' => negb (denote e (b_cond b'))) pre = true /\ denote e (b_cond b) = true /\
        acts = denote_body top (b_body b))
     \/ (forallb (fun b' => negb (denote e (b_cond b'))) (b0 :: elifs) = true /\
         acts = match els with Some (b, _) => denote_body top b | None => [] end)).
Proof.
  intros ch He Hw. eexists. split; [apply (blocks_sound top e [ch] He Hw)|].
  unfold denote_items. cbn [flat_map ch denote_item]. rewrite app_nil_r.
  generalize (b0 :: elifs). intros bs. induction bs as [|b bs IH].
  - right. split; reflexivity.
  - cbn [pick_branch]. destruct (denote e (b_cond b)) eqn:E.
    + left. exists [], b, bs. split; [reflexivity|]. split; [reflexivity|]. split; [exact E|reflexivity].
    + destruct IH as [(pre & b' & post & E1 & E2 & E3 & E4)|[E1 E2]].
      * left. exists (b :: pre), b', post. split; [now rewrite E1|].
        split; [cbn [forallb]; now rewrite E, E2|]. split; [exact E3|exact E4].
      * right. split; [cbn [forallb]; now rewrite E, E1|exact E2].
Qed.
Print Assumptions exactly_one_branch.

(* commands keep their order: the actions of a file are those of its first part followed by
   those of the rest *)
Theorem order_preserved top e is1 is2 :
  wf_env e = true -> wf_items (is1 ++ is2) = true ->
  exists a1 a2,
    table_actions true true top (print_table is1) e = Ok a1 /\
    table_actions true true top (print_table is2) e = Ok a2 /\
    table_actions true true top (print_table (is1 ++ is2)) e = Ok (a1 ++ a2).
Proof.
  intros He Hw. unfold wf_items in *. rewrite forallb_app in Hw.
  apply andb_true_iff in Hw. destruct Hw as [W1 W2].
  exists (denote_items e top is1), (denote_items e top is2). repeat split.
  - now apply blocks_sound.
  - now apply blocks_sound.
  - rewrite blocks_sound; auto.
    + unfold denote_items. now rewrite flat_map_app.
    + unfold wf_items. now rewrite forallb_app, W1, W2.
Qed.
Print Assumptions order_preserved.

(* a non-trivial state inhabits the hypotheses *)
Definition ex_cmdlay (spell : string) (g : arglay) : cmdlay :=
  mkCmdlay [lit "  # a comment"; []] (lit "    ") (lit spell) [] g (lit " ") true (lit "   # trailing").
Arguments ex_cmdlay spell%string g.
Definition ex_cmd (k : ckind) (spell : string) (args : list str) (g : arglay) : cmd :=
  mkCmd k args (ex_cmdlay spell g).
Arguments ex_cmd k spell%string args g.
Definition ex_blay : bracelay := mkBracelay [[]] [] (lit " ") (lit " ") (lit " ") (lit " ") (lit "  # why").
Definition ex_items : list item :=
  [ ICmd (ex_cmd KSetupOptional "SetupOptional" [lit "bar"; lit "1.0"] (mkArglay 0 [(lit " ", false)] 0));
    IChain (mkBranch ex_cond [ex_cmd KPathAppend "PATHAPPEND" [lit "PATH"; lit "/opt/p q/bin"; lit ":"]
                                (mkArglay 1 [(lit ", ", true); (lit ",", false)] 1)] ex_blay)
           [mkBranch (ex_atom "Type" CType ONe "exact" QNone)
              [ex_cmd KEnvSet "envSet" [lit "FOO_OPTS"; lit "-I/x -I/y, -O2"] (mkArglay 0 [(lit " ", true)] 0)] ex_blay]
           (Some ([ex_cmd KProdDir "prodDir" [] (mkArglay 0 [] 0)], ex_blay)) ex_blay ].

Example blocks_sound_inhabited :
  wf_items ex_items = true /\ no_empty_branch ex_items = true /\
  table_actions true true (lit "foo") (print_table ex_items) ex_env
  = Ok [ mkAction (lit "setupRequired") [lit "bar"; lit "1.0"] [(lit "optional", true)];
         mkAction (lit "envPrepend") [lit "PATH"; lit "/opt/p q/bin"; lit ":"] [(lit "append", true)] ].
Proof. vm_compute. repeat split. Qed.

(* the example of the manual (addAlias: do not forget to escape the quotes), character for
   character, read as a table *)
Definition ex_manual_cmd : cmd :=
  mkCmd KAddAlias
    [lit "foo"; lit "source"; lit "`${PRODUCT_DIR}/bin/eups_setup"; lit "setup"; lit """$@""`;"]
    (mkCmdlay [] (lit "     ") (lit "addAlias") []
       (mkArglay 0 [(lit ", ", false); (lit " ", false); (lit " ", false); (lit " ", false)] 0) [] true []).

Example blocks_sound_inhabited_escaped_quotes :
  wf_items [ICmd ex_manual_cmd] = true /\
  print_table [ICmd ex_manual_cmd]
  = lit "     addAlias(foo, source `${PRODUCT_DIR}/bin/eups_setup setup \""$@\""`;);" ++ [c_nl] /\
  table_actions true true (lit "foo") (print_table [ICmd ex_manual_cmd]) ex_env
  = Ok [ mkAction (lit "addAlias")
           [lit "foo"; lit "source"; lit "`${PRODUCT_DIR}/bin/eups_setup"; lit "setup"; lit """$@""`;"] [] ].
Proof. vm_compute. repeat split. Qed.

(* ... and one with empty branches: if (type == exact) {} else if (FLAVOR == Linux64) {X}
   else {} followed by if (FLAVOR == Linux64) {Y}, what expandTableFile writes when nothing
   was set up below the product being the first two lines of it *)
Definition ex_set (v x : string) : cmd :=
  ex_cmd KEnvSet "envSet" [lit v; lit x] (mkArglay 0 [(lit ", ", false)] 0).
Arguments ex_set v%string x%string.
Definition ex_empty_items : list item :=
  [ IChain (mkBranch (ex_atom "type" CType OEq "exact" QNone) [] ex_blay)
           [mkBranch (ex_atom "FLAVOR" CFlavor OEq "Linux64" QNone) [ex_set "A" "x"] ex_blay]
           (Some ([], ex_blay)) ex_blay;
    IChain (mkBranch (ex_atom "FLAVOR" CFlavor OEq "Linux64" QNone) [ex_set "B" "y"] ex_blay) [] None ex_blay ].

Example blocks_sound_inhabited_empty_branches :
  wf_items ex_empty_items = true /\ no_empty_branch ex_empty_items = false /\
  table_actions true true (lit "foo") (print_table ex_empty_items) ex_env
  = Ok [ mkAction (lit "envSet") [lit "A"; lit "x"] []; mkAction (lit "envSet") [lit "B"; lit "y"] [] ] /\
  table_actions true true (lit "foo") (print_table ex_empty_items) (mkCenv (lit "Linux64") [lit "exact"])
  = Ok [ mkAction (lit "envSet") [lit "B"; lit "y"] [] ].
Proof. vm_compute. repeat split. Qed.

(* D6, the reader before the repair: a branch without any command.  if (A) {} else {X} runs
   X exactly when A holds; the text denotes nothing for such a flavor, and that is what the
   repaired reader answers. *)
Definition d6_items : list item :=
  [ IChain (mkBranch (ex_atom "FLAVOR" CFlavor OEq "Linux64" QNone) [] ex_blay) []
           (Some ([ex_cmd KEnvSet "envSet" [lit "A"; lit "c"] (mkArglay 0 [(lit ", ", false)] 0)], ex_blay))
           ex_blay ].

Theorem blocks_refuted_empty_branch_pinned :
  wf_env ex_env = true /\ wf_items d6_items = true /\ no_empty_branch d6_items = false /\
  denote_items ex_env (lit "foo") d6_items = [] /\
  table_actions true false (lit "foo") (print_table d6_items) ex_env
  = Ok [mkAction (lit "envSet") [lit "A"; lit "c"] []] /\
  table_actions true true (lit "foo") (print_table d6_items) ex_env = Ok [].
Proof. vm_compute. repeat split. Qed.
Print Assumptions blocks_refuted_empty_branch_pinned.

(* the repair changes nothing else.  On any text (malformed ones, stray braces and legacy
   lines included): if, as the repaired reader runs over the classified lines, no brace line
   finds it inside a branch with an empty block, it builds exactly the blocks the reader
   before the repair builds ... *)
Theorem repair_conservative fx top text ls :
  rewrite (split_lines text) = Ok ls ->
  no_empty_open fx top (map (classify fx) ls) q_init = true ->
  read_text fx true top text = read_text fx false top text /\
  forall e, table_actions fx true top text e = table_actions fx false top text e.
Proof.
  intros Hr Hn.
  assert (E : read_text fx true top text = read_text fx false top text).
  { unfold read_text. rewrite Hr. cbn [bind]. unfold read_blocks_sel. now apply repair_conservative_lines. }
  split; [exact E|]. intros e. unfold table_actions. now rewrite E.
Qed.
Print Assumptions repair_conservative.

(* ... in particular on the text of items every branch of which holds a command, where the
   reader before the repair was already right *)
Theorem repair_conservative_items top e is :
  wf_env e = true -> wf_items is = true -> no_empty_branch is = true ->
  table_actions true false top (print_table is) e = Ok (denote_items e top is) /\
  table_actions true false top (print_table is) e = table_actions true true top (print_table is) e.
Proof.
  intros He Hw Hn.
  assert (A : table_actions true false top (print_table is) e = Ok (denote_items e top is)).
  { unfold table_actions. rewrite (read_text_print false top is Hw). unfold read_blocks_sel.
    rewrite (read_blocks_items top (fun c Hc => split_print_args _ _ (proj1 (proj2 (wf_cmd_parts c Hc)))) is Hw Hn).
    cbn [bind]. rewrite (select_compile top e (fun c Hc => proj2 (cond_sound e c He Hc)) is [] Hw). reflexivity. }
  split; [exact A|]. now rewrite A, blocks_sound.
Qed.
Print Assumptions repair_conservative_items.

(* the pinned brace pattern drops an else line that is followed by blanks or a comment *)
Definition else_trailing_items : list item :=
  [ IChain (mkBranch (ex_atom "FLAVOR" CFlavor OEq "Linux64" QNone)
              [ex_cmd KEnvSet "envSet" [lit "A"; lit "b"] (mkArglay 0 [(lit ", ", false)] 0)] ex_blay) []
           (Some ([ex_cmd KEnvSet "envSet" [lit "A"; lit "c"] (mkArglay 0 [(lit ", ", false)] 0)], ex_blay))
           ex_blay ].

Theorem blocks_refuted_pinned_else_trailing :
  wf_items else_trailing_items = true /\ no_empty_branch else_trailing_items = true /\
  table_actions false false (lit "foo") (print_table else_trailing_items) ex_env
  = Ok [mkAction (lit "envSet") [lit "A"; lit "b"] []; mkAction (lit "envSet") [lit "A"; lit "c"] []] /\
  table_actions true true (lit "foo") (print_table else_trailing_items) ex_env
  = Ok [mkAction (lit "envSet") [lit "A"; lit "b"] []].
Proof. vm_compute. repeat split. Qed.
Print Assumptions blocks_refuted_pinned_else_trailing.

(* ------------------------------------------------------------------ legacy groups *)

(* a group of Flavor= lines followed by commands (closed by the next Flavor= line or the end
   of the file), and the older Group: / Flavor= / Common: / End: form, mean the same as the
   if block over the disjunction of the flavors: the body applies exactly when the flavor
   is one of those listed *)
Theorem legacy_equiv top e fs body :
  wf_env e = true -> wf_flavors fs = true -> forallb wf_cmd body = true -> is_nil body = false ->
  let chain := [IChain (mkBranch (flavor_disj fs) body plain_blay) [] None plain_blay] in
  read_text true true top (print_new_group fs body) = read_text true true top (print_table chain) /\
  read_text true true top (print_old_group fs body) = read_text true true top (print_table chain) /\
  table_actions true true top (print_new_group fs body) e
  = Ok (if mem_str (ce_flavor e) fs then denote_body top body else []) /\
  table_actions true true top (print_old_group fs body) e
  = Ok (if mem_str (ce_flavor e) fs then denote_body top body else []).
Proof. apply legacy_groups. Qed.
Print Assumptions legacy_equiv.

Example legacy_equiv_inhabited :
  let fs := [lit "Linux64"; lit "DarwinX86"] in
  let body := [ex_cmd KSetenv "setenv" [lit "A"; lit "b c"] (mkArglay 0 [(lit ", ", true)] 0)] in
  wf_flavors fs = true /\ forallb wf_cmd body = true /\
  table_actions true true (lit "foo") (print_new_group fs body) ex_env = Ok [mkAction (lit "envSet") [lit "A"; lit "b c"] []] /\
  table_actions true true (lit "foo") (print_old_group fs body) ex_env = Ok [mkAction (lit "envSet") [lit "A"; lit "b c"] []] /\
  table_actions true true (lit "foo") (print_new_group fs body) (mkCenv (lit "SunOS") []) = Ok [].
Proof. vm_compute. repeat split. Qed.

(* ------------------------------------------------------------------ legacy files in full *)

(* Model/LegacySpec.v: a legacy file is ignorable lines, then commands, if chains and old
   Group: / Flavor= / Common: / End: blocks, then new-style Flavor= groups, with ignorable
   lines (blank, comment, Action = setup, Qualifiers = dq dq, File = Table, and Product = P
   once the head of the file has a File = line) in EVERY slot: before any line, between
   the Flavor= lines of one group, between the last Flavor= line and the body, inside the
   bodies, before Common: and End:, at the end; key words in any letter case, any blanks
   around the equal sign, trailing comments.  Such a file is read exactly as the if blocks
   it corresponds to (legacy_items: each group becomes the chain over the disjunction of
   its flavors), and it means denote_legacy: commands and chains as in any table, the body
   of a group exactly when the flavor is one of those its Flavor= lines list. *)
Theorem legacy_file_equiv top e t :
  wf_env e = true -> wf_ltable t = true ->
  wf_items (legacy_items t) = true /\
  read_text true true top (print_legacy t) = read_text true true top (print_table (legacy_items t)) /\
  table_actions true true top (print_legacy t) e = table_actions true true top (print_table (legacy_items t)) e /\
  table_actions true true top (print_legacy t) e = Ok (denote_legacy e top t).
Proof.
  intros He Hw. pose proof (legacy_items_wf t Hw) as Wi. pose proof (legacy_file_read true top t Hw) as R.
  assert (A : table_actions true true top (print_legacy t) e = table_actions true true top (print_table (legacy_items t)) e).
  { unfold table_actions. now rewrite R. }
  repeat split; auto. rewrite A, (blocks_sound top e _ He Wi). now rewrite (denote_legacy_items e top t Hw).
Qed.
Print Assumptions legacy_file_equiv.

(* the ignorable lines are ignorable: two legacy files that differ only in them (same
   items, same groups) are read alike *)
Theorem legacy_ignorable_lines top t1 t2 :
  wf_ltable t1 = true -> wf_ltable t2 = true -> legacy_items t1 = legacy_items t2 ->
  read_text true true top (print_legacy t1) = read_text true true top (print_legacy t2).
Proof. intros H1 H2 E. now rewrite (legacy_file_read true top t1 H1), (legacy_file_read true top t2 H2), E. Qed.
Print Assumptions legacy_ignorable_lines.

(* a group applies exactly when the flavor is listed, whatever stands between its Flavor= lines *)
Theorem legacy_group_membership top e t g :
  wf_env e = true -> wf_ltable t = true -> lt_top t = [] -> lt_groups t = [g] ->
  table_actions true true top (print_legacy t) e
  = Ok (if mem_str (ce_flavor e) (map fl_name (ng_flavors g)) then denote_body top (map bc_cmd (ng_body g)) else []).
Proof.
  intros He Hw Ht Hg. destruct (legacy_file_equiv top e t He Hw) as (_ & _ & _ & ->).
  unfold denote_legacy. rewrite Ht, Hg. cbn [flat_map app]. now rewrite app_nil_r.
Qed.
Print Assumptions legacy_group_membership.

Definition ex_ign (k : ikind) (key val : string) : ign := GKey k (lit "  ") (lit key) (lit " ") (lit " ") (lit val) [].
Definition ex_flav (pre : list ign) (name : string) : flav := mkFlav pre [] (lit "Flavor") (lit " ") (lit " ") (lit name) [].
Arguments ex_ign k (key val)%string.
Arguments ex_flav pre name%string.
(* File = Table / Product = foo / a command / an old group with Qualifiers between its
   Flavor lines / a new-style group whose two Flavor lines are separated by Qualifiers and
   whose body starts with Action = setup / a second group / a trailing comment *)
Definition ex_legset (v : string) : cmd := ex_cmd KSetenv "setenv" [lit "A"; lit v] (mkArglay 0 [(lit ", ", true)] 0).
Arguments ex_legset v%string.
Definition ex_legacy : ltable :=
  let q := ex_ign IKQual "Qualifiers" "" in
  let a := ex_ign IKAction "ACTION" "setup" in
  mkLt [GJunk (lit "# old format"); ex_ign IKFile "File" "Table"]
       [TItem [ex_ign IKProduct "Product" "foo"] (ICmd (ex_legset "top"));
        TOld [a] (mkKw [] (lit "Group:") []) [ex_flav [] "SunOS"; ex_flav [q] "Darwin"] [q]
             (mkKw (lit " ") (lit "COMMON:") (lit " # c")) [mkBcmd [a; GJunk []] (ex_legset "old")] [q] (mkKw [] (lit "End:") [])]
       [mkNg [ex_flav [] "Linux"; ex_flav [q] "Linux64"] [mkBcmd [q; a] (ex_legset "b c"); mkBcmd [ex_ign IKFile "file" "TABLE"] (ex_legset "d")];
        mkNg [ex_flav [q; a] "DarwinX86"] [mkBcmd [] (ex_legset "x")]]
       [GJunk (lit "  # end")].

Example legacy_file_inhabited :
  wf_ltable ex_legacy = true /\
  table_actions true true (lit "foo") (print_legacy ex_legacy) (mkCenv (lit "Linux") [])
  = Ok [mkAction (lit "envSet") [lit "A"; lit "top"] []; mkAction (lit "envSet") [lit "A"; lit "b c"] [];
        mkAction (lit "envSet") [lit "A"; lit "d"] []] /\
  table_actions true true (lit "foo") (print_legacy ex_legacy) (mkCenv (lit "Linux64") [])
  = table_actions true true (lit "foo") (print_legacy ex_legacy) (mkCenv (lit "Linux") []) /\
  table_actions true true (lit "foo") (print_legacy ex_legacy) (mkCenv (lit "Darwin") [])
  = Ok [mkAction (lit "envSet") [lit "A"; lit "top"] []; mkAction (lit "envSet") [lit "A"; lit "old"] []] /\
  table_actions true true (lit "foo") (print_legacy ex_legacy) (mkCenv (lit "Plan9") [])
  = Ok [mkAction (lit "envSet") [lit "A"; lit "top"] []].
Proof. vm_compute. repeat split. Qed.
