(* C12 - Path-variable commands obey list algebra.
   Property theorems only; every proof is a short appeal to Proofs/PathAlg.v. *)
From Eupsv Require Import Base.Base Base.BaseLemmas Model.PathAlg Proofs.PathAlg.
From Eupsv Require Import Model.PathAlgScript Proofs.PathAlgScript.

(* Notation: [oldv var e] is the text of variable var in environment e (empty when unset),
   [elems d x] the non-empty elements of x split at delimiter d, [uniq] first-occurrence
   de-duplication, [remove_str v l] = l without the copies of v. *)

(* envPrepend puts its value first; every other element is kept once, in order; no other
   variable changes *)
Theorem prepend_first d var v e :
  wf_delim d = true -> wf_elem d v = true -> no_dollar (oldv var e) = true ->
  exists e', env_prepend false true var v d e = Ok (Some e') /\
    elems d (oldv var e') = v :: remove_str v (uniq (elems d (oldv var e))) /\
    (forall k, k <> var -> alookup k e' = alookup k e).
Proof.
  intros Hd Hv Ho. destruct (env_prepend_elems false true var v d e Hd Hv Ho) as [e' [H1 [H2 [_ H4]]]].
  exists e'. rewrite H2. auto using result_prepend.
Qed.
Print Assumptions prepend_first.

(* envAppend puts its value last, whether or not it was an element already; every other element is kept once,
   in order; no other variable changes (the code after the fix of D8) *)
Theorem append_last d var v e :
  wf_delim d = true -> wf_elem d v = true -> no_dollar (oldv var e) = true ->
  exists e', env_prepend true true var v d e = Ok (Some e') /\
    elems d (oldv var e') = remove_str v (uniq (elems d (oldv var e))) ++ [v] /\
    (forall k, k <> var -> alookup k e' = alookup k e).
Proof.
  intros Hd Hv Ho. destruct (env_prepend_elems true true var v d e Hd Hv Ho) as [e' [H1 [H2 [_ H4]]]].
  exists e'. rewrite H2. auto using result_append.
Qed.
Print Assumptions append_last.

(* ... in particular a value that is not yet an element comes after all the old ones *)
Theorem append_last_fresh d var v e :
  wf_delim d = true -> wf_elem d v = true -> no_dollar (oldv var e) = true ->
  ~ In v (elems d (oldv var e)) ->
  exists e', env_prepend true true var v d e = Ok (Some e') /\
    elems d (oldv var e') = uniq (elems d (oldv var e)) ++ [v] /\
    (forall k, k <> var -> alookup k e' = alookup k e).
Proof.
  intros Hd Hv Ho Hn. destruct (env_prepend_elems true true var v d e Hd Hv Ho) as [e' [H1 [H2 [_ H4]]]].
  exists e'. rewrite H2. auto using result_append_fresh.
Qed.
Print Assumptions append_last_fresh.

(* ... and a value that is already an element is moved to the end (the case of the former finding D8) *)
Theorem append_present_moves_last d var v e :
  wf_delim d = true -> wf_elem d v = true -> no_dollar (oldv var e) = true ->
  In v (elems d (oldv var e)) ->
  exists e', env_prepend true true var v d e = Ok (Some e') /\
    last_opt (elems d (oldv var e')) = Some v.
Proof.
  intros Hd Hv Ho Hn. destruct (env_prepend_elems true true var v d e Hd Hv Ho) as [e' [H1 [H2 _]]].
  exists e'. split; [exact H1|]. rewrite H2, result_append. apply last_opt_snoc.
Qed.
Print Assumptions append_present_moves_last.

(* the pinned code left a present element where it was: a:b:c with b appended stayed a:b:c *)
Theorem append_present_refuted_pinned :
  exists d v old,
    In v (elems d old) /\ last_opt (result_list_pinned true true d v old) <> Some v.
Proof.
  exists ":"%char, (lit "b"), (lit "a:b:c"). split; [vm_compute; auto|vm_compute; discriminate].
Qed.
Print Assumptions append_present_refuted_pinned.

(* each element once, in setup and in unsetup mode, for prepend and append *)
Theorem once_each ap fwd d var v e :
  wf_delim d = true -> wf_elem d v = true -> no_dollar (oldv var e) = true ->
  exists e', env_prepend ap fwd var v d e = Ok (Some e') /\ NoDup (elems d (oldv var e')).
Proof.
  intros Hd Hv Ho. destruct (env_prepend_elems ap fwd var v d e Hd Hv Ho) as [e' [H1 [H2 _]]].
  exists e'. rewrite H2. auto using result_NoDup.
Qed.
Print Assumptions once_each.

(* every other element is kept, in its relative order *)
Theorem others_kept_in_order ap fwd d var v e :
  wf_delim d = true -> wf_elem d v = true -> no_dollar (oldv var e) = true ->
  exists e', env_prepend ap fwd var v d e = Ok (Some e') /\
    remove_str v (elems d (oldv var e')) = remove_str v (uniq (elems d (oldv var e))).
Proof.
  intros Hd Hv Ho. destruct (env_prepend_elems ap fwd var v d e Hd Hv Ho) as [e' [H1 [H2 _]]].
  exists e'. rewrite H2. auto using result_others.
Qed.
Print Assumptions others_kept_in_order.

(* a requested leading / trailing empty element (MANPATH style) is honoured and changes
   nothing else *)
Theorem manpath_flags ap var v d e (lead trail : bool) :
  wf_delim d = true -> wf_elem d v = true -> no_dollar (oldv var e) = true ->
  let value := (if lead then [d] else []) ++ v ++ (if trail then [d] else []) in
  exists e' e0, env_prepend ap true var value d e = Ok (Some e') /\
    env_prepend ap true var v d e = Ok (Some e0) /\
    elems d (oldv var e') = elems d (oldv var e0) /\
    (lead = true -> starts_with [d] (oldv var e') = true) /\
    (trail = true -> ends_with [d] (oldv var e') = true) /\
    (forall k, k <> var -> alookup k e' = alookup k e).
Proof.
  intros Hd Hv Ho value.
  destruct (env_prepend_flagged ap var v d e lead trail Hd Hv Ho) as [e' [H1 [H2 [H3 [H4 H5]]]]].
  destruct (env_prepend_elems ap true var v d e Hd Hv Ho) as [e0 [G1 [G2 _]]].
  exists e', e0. rewrite H2, G2. auto 10.
Qed.
Print Assumptions manpath_flags.

(* unsetup mode removes exactly the element *)
Theorem reverse_removes_exactly ap d var v e :
  wf_delim d = true -> wf_elem d v = true -> no_dollar (oldv var e) = true ->
  exists e', env_prepend ap false var v d e = Ok (Some e') /\
    elems d (oldv var e') = remove_str v (uniq (elems d (oldv var e))) /\
    (forall k, k <> var -> alookup k e' = alookup k e).
Proof.
  intros Hd Hv Ho. destruct (env_prepend_elems ap false var v d e Hd Hv Ho) as [e' [H1 [H2 [_ H4]]]].
  exists e'. rewrite H2. auto using result_reverse.
Qed.
Print Assumptions reverse_removes_exactly.

(* setup then unsetup of a fresh element restores the (duplicate-free) element list *)
Theorem unsetup_after_setup ap d var v e :
  wf_delim d = true -> wf_elem d v = true -> no_dollar (oldv var e) = true ->
  ~ In v (elems d (oldv var e)) ->
  exists e1 e2, env_prepend ap true var v d e = Ok (Some e1) /\
    env_prepend ap false var v d e1 = Ok (Some e2) /\
    elems d (oldv var e2) = uniq (elems d (oldv var e)) /\
    (forall k, k <> var -> alookup k e2 = alookup k e).
Proof.
  intros Hd Hv Ho Hn.
  destruct (env_prepend_elems ap true var v d e Hd Hv Ho) as [e1 [H1 [H2 [H3 H4]]]].
  destruct (env_prepend_elems ap false var v d e1 Hd Hv H3) as [e2 [G1 [G2 [_ G4]]]].
  exists e1, e2. repeat split; auto.
  - rewrite G2, result_reverse, H2.
    assert (Hn' : ~ In v (uniq (elems d (oldv var e)))) by (now rewrite uniq_In).
    destruct ap.
    + rewrite result_append_fresh by assumption. rewrite uniq_app_fresh by assumption.
      rewrite uniq_idem, remove_str_app. simpl. rewrite str_eqb_refl. simpl.
      rewrite app_nil_r. now apply remove_str_notin.
    + rewrite result_prepend. rewrite uniq_NoDup_id.
      * simpl. rewrite str_eqb_refl. simpl. rewrite remove_str_idem. now apply remove_str_notin.
      * constructor; [rewrite remove_str_In; tauto|]. apply NoDup_filter, uniq_NoDup.
  - intros k Hk. rewrite G4, H4; auto.
Qed.
Print Assumptions unsetup_after_setup.

(* envSet sets exactly the given value with its references expanded: the value is first
   expanded (each reference by its own variable or default, see expansion_step), then
   ${VAR} references to defined variables that the expansion produced are interpolated *)
Theorem envset_exact k v v' e :
  expand_var e v = Ok (Some v') -> v' <> [] ->
  exists e', env_set true k v e = Ok (Some e') /\
    alookup k e' = Some (interp e v') /\ (forall k', k' <> k -> alookup k' e' = alookup k' e).
Proof.
  intros Hf Hv. exists (aset k (interp e v') e). split; [now apply (env_set_expanded k v v')|]. split.
  - apply alookup_aset_same.
  - intros k' Hk. now apply alookup_aset_other.
Qed.
Print Assumptions envset_exact.

(* expansion, one reference at a time: text free of dollars is copied, a reference to a
   defined variable is replaced by that variable's own value, and the rest is expanded
   the same way (so n references are replaced by their n values) *)
Theorem expansion_step e a opt key val b :
  mem_ascii c_dollar a = false -> key_ok key -> alookup key e = Some val ->
  expand_var e (a ++ c_dollar :: (if opt : bool then [c_quest] else []) ++ c_lbrace :: key ++ c_rbrace :: b)
  = seq_text (a ++ val) (expand_var e b).
Proof. exact (expand_reference e a opt key val b). Qed.
Print Assumptions expansion_step.

Theorem expansion_of_plain_text e v : mem_ascii c_dollar v = false -> expand_var e v = Ok (Some v).
Proof. exact (expand_nodollar e v). Qed.
Print Assumptions expansion_of_plain_text.

Example envset_two_references :
  env_set true (lit "V") (lit "a${HOME}b${OTHER}c") [(lit "HOME", lit "/root"); (lit "OTHER", lit "/o")]
  = Ok (Some [(lit "HOME", lit "/root"); (lit "OTHER", lit "/o"); (lit "V", lit "a/rootb/oc")]).
Proof. vm_compute. reflexivity. Qed.

(* what interpolation means: a defined reference is replaced by the variable's value *)
Theorem interp_replaces_reference e a key val b :
  mem_ascii c_dollar a = false -> mem_ascii c_rbrace key = false -> alookup key e = Some val ->
  interp e (a ++ c_dollar :: c_lbrace :: key ++ c_rbrace :: b) = a ++ val ++ interp e b.
Proof. exact (interp_reference e a key val b). Qed.
Print Assumptions interp_replaces_reference.

Theorem interp_without_reference e x : mem_ascii c_dollar x = false -> interp e x = x.
Proof. exact (interp_nodollar e x). Qed.
Print Assumptions interp_without_reference.

(* envSet in unsetup mode unsets the variable and nothing else *)
Theorem envset_reverse_unsets k v e :
  exists e', env_set false k v e = Ok (Some e') /\
    alookup k e' = None /\ (forall k', k' <> k -> alookup k' e' = alookup k' e).
Proof.
  exists (aremove k e). split; [reflexivity|]. split.
  - apply alookup_aremove_same.
  - intros k' Hk. now apply alookup_aremove_other.
Qed.
Print Assumptions envset_reverse_unsets.

(* an action guarded by $?{VAR} with VAR undefined does nothing *)
Theorem guarded_undefined_noop ap var d k e a key b :
  let value := a ++ c_dollar :: c_quest :: c_lbrace :: key ++ c_rbrace :: b in
  mem_ascii c_dollar a = false -> mem_ascii d value = false ->
  key_ok key -> alookup key e = None ->
  env_prepend ap true var value d e = Ok None /\ env_set true k value e = Ok None /\
  exec_pact true (PPrepend ap var value d) e = Ok e /\ exec_pact true (PSet k value) e = Ok e.
Proof.
  intros value Ha Hd Hk Hl.
  assert (X : expand_var e value = Ok None) by (now apply expand_guarded_undefined).
  assert (P : env_prepend ap true var value d e = Ok None).
  { unfold env_prepend. rewrite (strip_lead_none d value Hd), (strip_trail_none d value Hd), X. reflexivity. }
  assert (S : env_set true k value e = Ok None) by (unfold env_set; now rewrite X).
  repeat split; auto.
  - unfold exec_pact. now rewrite P.
  - unfold exec_pact. now rewrite S.
Qed.
Print Assumptions guarded_undefined_noop.

(* all sequences of actions: any predicate preserved by each single action is preserved
   by executing the whole list (the lift from single actions to tables) *)
Theorem sequence_invariant (P : env -> Prop) fwd l :
  (forall a e e', In a l -> P e -> exec_pact fwd a e = Ok e' -> P e') ->
  forall e e', P e -> exec_pacts fwd l e = Ok e' -> P e'.
Proof. exact (exec_pacts_inv P fwd l). Qed.
Print Assumptions sequence_invariant.

(* instance: after any sequence of well-formed prepend/append actions (forward or in
   unsetup mode) on dollar-free variables, the variable each action touched holds every
   element once *)
Definition wf_pact (a : pact) : Prop :=
  match a with
  | PPrepend _ _ v d => wf_delim d = true /\ wf_elem d v = true
  | _ => False
  end.
Definition all_nodollar (e : env) : Prop := forall k, no_dollar (oldv k e) = true.

Theorem sequence_keeps_dollar_free fwd l :
  (forall a, In a l -> wf_pact a) ->
  forall e e', all_nodollar e -> exec_pacts fwd l e = Ok e' -> all_nodollar e'.
Proof.
  intros Hwf. apply sequence_invariant. intros a e e' Hin He Hx.
  specialize (Hwf a Hin). destruct a as [ap var v d| |]; try contradiction.
  destruct Hwf as [Hd Hv].
  destruct (env_prepend_elems ap fwd var v d e Hd Hv (He var)) as [e1 [H1 [_ [H3 H4]]]].
  unfold exec_pact in Hx. rewrite H1 in Hx. injection Hx as <-.
  intro k. destruct (str_eq_dec k var) as [->|N]; [assumption|].
  unfold oldv. rewrite H4 by assumption. apply He.
Qed.
Print Assumptions sequence_keeps_dollar_free.

(* ---- all sequences of such actions: ONE action executed many times while the environment changes.
   A table that stays loaded keeps its actions; [run_script acts steps e] executes actions of the table
   [acts] by index (forwards or in unsetup mode) interleaved with changes of the environment, and lists
   the outcome of every step (Model/PathAlgScript.v). *)

(* an action whose value holds references acts, in either mode, exactly as the action whose value is the
   text the references expand to in the environment it is executed in *)
Theorem reference_read_at_execution ap fwd var v x d e :
  mem_ascii d v = false -> expand_var e v = Ok (Some x) -> wf_elem d x = true ->
  env_prepend ap fwd var v d e = env_prepend ap fwd var x d e.
Proof. exact (env_prepend_expanded ap fwd var v x d e). Qed.
Print Assumptions reference_read_at_execution.

(* setup adds the present expansion of the value: first for envPrepend, last for envAppend *)
Theorem setup_adds_current_expansion ap d var v x e :
  wf_delim d = true -> mem_ascii d v = false -> expand_var e v = Ok (Some x) -> wf_elem d x = true ->
  no_dollar (oldv var e) = true ->
  exists e', env_prepend ap true var v d e = Ok (Some e') /\
    elems d (oldv var e') = (if ap then remove_str x (uniq (elems d (oldv var e))) ++ [x]
                             else x :: remove_str x (uniq (elems d (oldv var e)))) /\
    (forall k, k <> var -> alookup k e' = alookup k e).
Proof.
  intros Hd Hdv Hx Hw Ho.
  destruct (env_prepend_ref_elems ap true var v x d e Hd Hdv Hx Hw Ho) as [e' [H1 [H2 [_ H4]]]].
  exists e'. rewrite H2. split; [exact H1|]. split; [|exact H4].
  destruct ap; [apply result_append|apply result_prepend].
Qed.
Print Assumptions setup_adds_current_expansion.

(* unsetup removes exactly the element the action would add now: the present expansion of its value *)
Theorem unsetup_removes_current_expansion ap d var v x e :
  wf_delim d = true -> mem_ascii d v = false -> expand_var e v = Ok (Some x) -> wf_elem d x = true ->
  no_dollar (oldv var e) = true ->
  exists e', env_prepend ap false var v d e = Ok (Some e') /\
    elems d (oldv var e') = remove_str x (uniq (elems d (oldv var e))) /\
    (forall k, k <> var -> alookup k e' = alookup k e).
Proof.
  intros Hd Hdv Hx Hw Ho.
  destruct (env_prepend_ref_elems ap false var v x d e Hd Hdv Hx Hw Ho) as [e' [H1 [H2 [_ H4]]]].
  exists e'. rewrite H2. auto using result_reverse.
Qed.
Print Assumptions unsetup_removes_current_expansion.

(* a script splits at any point: what the steps after the point do depends on the steps before it only
   through the environment they left *)
Theorem script_splits acts pre post e :
  run_script acts (pre ++ post) e = run_script acts pre e ++ run_script acts post (script_env acts pre e).
Proof. exact (run_script_app acts pre post e). Qed.
Print Assumptions script_splits.

(* ... so a step has no memory: after any history its outcome is that of the single step on the current
   environment (the executions of an action before it, in whichever mode, leave nothing behind) *)
Theorem script_step_memoryless acts pre s post e :
  nth_error (run_script acts (pre ++ s :: post) e) (length pre)
  = Some (exec_sstep acts s (script_env acts pre e)).
Proof. exact (run_script_nth acts pre s post e). Qed.
Print Assumptions script_step_memoryless.

(* after ANY history (the same action executed forwards and backwards any number of times, other actions,
   changes of the variables) unsetup of action i removes exactly the present expansion of its value *)
Theorem unsetup_after_any_history acts pre i ap var v d x e0 :
  let e := script_env acts pre e0 in
  nth_error acts i = Some (PPrepend ap var v d) ->
  wf_delim d = true -> mem_ascii d v = false -> expand_var e v = Ok (Some x) -> wf_elem d x = true ->
  no_dollar (oldv var e) = true ->
  exists e', nth_error (run_script acts (pre ++ [SExec i false]) e0) (length pre) = Some (Ok e') /\
    elems d (oldv var e') = remove_str x (uniq (elems d (oldv var e))) /\
    (forall k, k <> var -> alookup k e' = alookup k e).
Proof.
  intros e Hi Hd Hdv Hx Hw Ho.
  destruct (unsetup_removes_current_expansion ap d var v x e Hd Hdv Hx Hw Ho) as [e' [H1 [H2 H3]]].
  exists e'. split; [|split; assumption].
  rewrite run_script_nth. fold e. cbn [exec_sstep]. rewrite Hi. unfold exec_pact. now rewrite H1.
Qed.
Print Assumptions unsetup_after_any_history.

(* one action: set up with KEY = val1, KEY becomes val2, unsetup of the same action.  The element of val2
   is what is removed; the element that the earlier setup added is not *)
Theorem setup_change_unsetup ap opt d var key a b val1 val2 acts i e :
  let v := a ++ c_dollar :: (if opt : bool then [c_quest] else []) ++ c_lbrace :: key ++ c_rbrace :: b in
  let x1 := a ++ val1 ++ b in
  let x2 := a ++ val2 ++ b in
  nth_error acts i = Some (PPrepend ap var v d) ->
  wf_delim d = true -> mem_ascii d v = false ->
  mem_ascii c_dollar a = false -> mem_ascii c_dollar b = false -> key_ok key -> key <> var ->
  alookup key e = Some val1 ->
  wf_elem d x1 = true -> wf_elem d x2 = true -> no_dollar (oldv var e) = true ->
  exists e1 e2,
    run_script acts [SExec i true; SPut key val2; SExec i false] e = [Ok e1; Ok (aset key val2 e1); Ok e2] /\
    elems d (oldv var e2)
      = remove_str x2 (if ap then remove_str x1 (uniq (elems d (oldv var e))) ++ [x1]
                       else x1 :: remove_str x1 (uniq (elems d (oldv var e)))) /\
    (x1 <> x2 -> In x1 (elems d (oldv var e2))) /\
    (forall k, k <> var -> k <> key -> alookup k e2 = alookup k e).
Proof.
  intros v x1 x2 Hi Hd Hdv Ha Hb Hk Hkv Hl Hw1 Hw2 Ho.
  destruct (setup_change_unsetup_script ap opt d var key a b val1 val2 acts i e
              Hi Hd Hdv Ha Hb Hk Hkv Hl Hw1 Hw2 Ho) as [e1 [e2 [R [E F]]]].
  exists e1, e2. split; [exact R|]. split; [exact E|]. split; [|exact F].
  intro N. rewrite E. now apply law_list_keeps.
Qed.
Print Assumptions setup_change_unsetup.

(* the lift from single steps to scripts: a predicate kept by every step is kept by the script *)
Theorem script_invariant (P : env -> Prop) acts steps :
  (forall s e, In s steps -> P e -> P (env_after acts s e)) ->
  forall e, P e -> P (script_env acts steps e).
Proof. exact (script_env_inv P acts steps). Qed.
Print Assumptions script_invariant.

(* instance: well-formed actions of one table executed in any order and mode, any number of times, with
   dollar-free changes of the environment in between, keep every variable dollar-free (the standing
   hypothesis of the list laws, so the laws apply at every step of the script) *)
Definition wf_sstep (s : sstep) : Prop :=
  match s with
  | SPut _ v => no_dollar v = true
  | _ => True
  end.

Theorem script_keeps_dollar_free acts steps :
  (forall a, In a acts -> wf_pact a) -> (forall s, In s steps -> wf_sstep s) ->
  forall e, all_nodollar e -> all_nodollar (script_env acts steps e).
Proof.
  intros Ha Hs. apply script_invariant. intros s e Hin He. specialize (Hs s Hin).
  unfold env_after. destruct s as [i fwd|k v|k]; cbn [exec_sstep].
  - destruct (nth_error acts i) as [a|] eqn:Ei; [|exact He].
    specialize (Ha a (nth_error_In _ _ Ei)). destruct a as [ap var v d| |]; try contradiction.
    destruct Ha as [Hd Hv].
    destruct (env_prepend_elems ap fwd var v d e Hd Hv (He var)) as [e1 [H1 [_ [H3 H4]]]].
    unfold exec_pact. rewrite H1. intro k. destruct (str_eq_dec k var) as [->|N]; [assumption|].
    unfold oldv. rewrite H4 by assumption. apply He.
  - intro k'. destruct (str_eq_dec k' k) as [->|N].
    + unfold oldv. rewrite alookup_aset_same. exact Hs.
    + unfold oldv. rewrite alookup_aset_other by assumption. apply He.
  - intro k'. destruct (str_eq_dec k' k) as [->|N].
    + unfold oldv. now rewrite alookup_aremove_same.
    + unfold oldv. rewrite alookup_aremove_other by assumption. apply He.
Qed.
Print Assumptions script_keeps_dollar_free.

(* the scenario in small: PATH gets the tool of version 1.0, the version becomes 2.0 and the list is rolled
   back to hold the 2.0 element, unsetup of the SAME action removes the 2.0 element; then forwards again *)
Example script_one_action_four_times :
  run_script [PPrepend false (lit "PATH") (lit "/opt/${V}/bin") ":"%char]
    [SExec 0 true; SExec 0 false; SPut (lit "V") (lit "2.0"); SPut (lit "PATH") (lit "/opt/1.0/bin:/opt/2.0/bin:/usr/bin");
     SExec 0 false; SExec 0 true]
    [(lit "V", lit "1.0"); (lit "PATH", lit "/usr/bin")]
  = [Ok [(lit "V", lit "1.0"); (lit "PATH", lit "/opt/1.0/bin:/usr/bin")];
     Ok [(lit "V", lit "1.0"); (lit "PATH", lit "/usr/bin")];
     Ok [(lit "V", lit "2.0"); (lit "PATH", lit "/usr/bin")];
     Ok [(lit "V", lit "2.0"); (lit "PATH", lit "/opt/1.0/bin:/opt/2.0/bin:/usr/bin")];
     Ok [(lit "V", lit "2.0"); (lit "PATH", lit "/opt/1.0/bin:/usr/bin")];
     Ok [(lit "V", lit "2.0"); (lit "PATH", lit "/opt/2.0/bin:/opt/1.0/bin:/usr/bin")]].
Proof. vm_compute. reflexivity. Qed.

(* non-vacuity: the hypotheses are satisfiable on a non-trivial state *)
Example c12_hypotheses_inhabited :
  wf_delim ":"%char = true /\ wf_elem ":"%char (lit "/opt/p 1/bin") = true /\
  no_dollar (oldv (lit "PATH") [(lit "PATH", lit ":/a/bin::/b/lib:/a/bin:")]) = true /\
  env_prepend false true (lit "PATH") (lit "/b/lib") ":"%char [(lit "PATH", lit ":/a/bin::/b/lib:/a/bin:")]
    = Ok (Some [(lit "PATH", lit "/b/lib:/a/bin")]).
Proof. vm_compute. repeat split. Qed.
