(* C13 - Dependency listings are complete and ordered; uses is their inverse.
   Property theorems only; proofs are short appeals to Proofs/Graph*.v.

   Vocabulary (Model/Graph.v): a [node] is (name, version-or-None, found?); a [world] maps each
   declared (name, version) to the resolved dependency lines of its table; [own_target e] is the
   product a line denotes; [dependent_products fuel w top topological] is
   Eups.getDependentProducts; [users idx x ov] is Uses.users on the index built by Eups.uses.
   [step w p q]: some line of the table of p denotes q.  [reach_plus w p q]: one or more steps. *)
From Eupsv Require Import Model.SetupText Model.DepWalkText.
From Eupsv Require Import Model.Resolve Model.ResolveSpec Model.ResolveReal Proofs.ResolveReal.
From Eupsv Require Import Base.Base Model.Graph Proofs.GraphLib Proofs.GraphWalk Proofs.GraphListing
     Proofs.GraphLayers Proofs.GraphTarjan Proofs.GraphPartition Proofs.GraphOrder
     Proofs.GraphTarjanLib Proofs.GraphTarjanFull Proofs.GraphTotal Proofs.GraphBuild.
From Eupsv Require Import Model.DepWalk Proofs.DepWalkConst Proofs.DepWalkSim Proofs.DepWalkComplete Proofs.DepWalkEdges
     Proofs.DepWalkPins Proofs.DepWalkMain Proofs.DepWalkCheck Proofs.DepWalkInherit Generated.Config.
From Eupsv Require Import Model.BuildOrder Proofs.BuildOrderLib Proofs.BuildOrder.
Open Scope string_scope.

(* ------------------------------------------------------------------ completeness of the listing *)

(* the listing holds exactly the products reachable through the table files, stubs included and
   the top product excluded; cycles are allowed; any fuel above the number of declared products
   suffices *)
Theorem walk_complete w top fuel :
  length w < fuel ->
  exists l, dependent_products fuel w top false = Ok l /\
            forall q, In q (map enode l) <-> q <> top /\ reach_plus w top q.
Proof. exact (listing_plain w top fuel). Qed.
Print Assumptions walk_complete.

(* the same for the topological listing, which moreover names every product once *)
Theorem walk_complete_topological w top fuel l :
  length w < fuel ->
  dependent_products fuel w top true = Ok l ->
  (forall q, In q (map enode l) <-> q <> top /\ reach_plus w top q) /\ NoDup (map enode l).
Proof. exact (listing_topological true node_cmp w top fuel l). Qed.
Print Assumptions walk_complete_topological.

(* the recursive walk answers on every world, cyclic or not, pinned versions or not *)
Theorem walk_terminates_on_cycles w pins top fuel :
  length w < fuel -> exists out st, walk_top fuel w pins top = Ok (out, st).
Proof.
  intros H. destruct (walk_top_spec w pins top fuel H) as [out [st [E _]]]. eauto.
Qed.
Print Assumptions walk_terminates_on_cycles.

(* ------------------------------------------------------------------ layers *)

(* for ANY component list cs for which the layering completes, an edge of the graph either stays
   inside one component or goes to a component that was yielded in a strictly earlier layer
   ([lidx L c] = index of the first layer of L that holds c; see layer_index_meaning) *)
Theorem layers_respect_edges check g cs L :
  comp_layers check g cs = Ok L ->
  forall n ss s, In (n, ss) g -> In s ss ->
    exists cn c_s, comp_of cs n = Some cn /\ comp_of cs s = Some c_s /\
                   (cn = c_s \/ lidx L c_s < lidx L cn).
Proof. exact (comp_layers_order check g cs L). Qed.
Print Assumptions layers_respect_edges.

Theorem layer_index_meaning check g cs L :
  comp_layers check g cs = Ok L -> forall c, In c cs -> In c (nth (lidx L c) L []).
Proof. exact (comp_layers_yields check g cs L). Qed.
Print Assumptions layer_index_meaning.

(* Tarjan's algorithm as written reports, on a graph without cycles, every node as a component
   of its own - so that on such graphs every edge is ordered by the previous theorem (the general
   statement, cycles included, is tarjan_correct below) *)
Theorem dag_components_singleton g cs :
  acyclic g -> closed_graph g -> scc g = Ok cs ->
  (forall c, In c cs -> exists x, c = [x] /\ In x (gkeys g)) /\ (forall n, In n (gkeys g) -> In [n] cs).
Proof. exact (scc_dag g cs). Qed.
Print Assumptions dag_components_singleton.

(* what topologicalSort receives is closed under successors and has no self edges *)
Theorem prepared_graph_wellformed g :
  closed_graph (prepare g) /\ (forall n ss, In (n, ss) (prepare g) -> ~ In n ss).
Proof. split; [apply prepare_closed | apply prepare_no_self]. Qed.
Print Assumptions prepared_graph_wellformed.

(* ------------------------------------------------------------------ the build order *)

(* The second walk of getDependentProducts (D16 repaired: a name is tied to the version listed for it
   only when one product of that name is listed, the depth is kept per product) hands topologicalSort
   the graph of the closure of the top product, every product with the edges of its own table (self
   dependencies dropped) - whatever the closure holds: two versions of one name, unresolved stubs,
   cycles.  The only hypothesis is that the resolved edges given to the model agree with the
   declarations (wf_world: what a line resolved to is declared, an explicit version that did not
   resolve is not); the correspondence check establishes it for every generated world. *)
Theorem topological_sort_graph_is_closure w top fuel g :
  length w < fuel -> wf_world w -> (exists es, node_table w top = Some es) ->
  topo_graph fuel w top = Ok g ->
  (forall a b, gedge g a b <-> closure w top a /\ step w a b /\ a <> b) /\
  (forall n, In n (gkeys g) -> closure w top n) /\
  (forall n, reach_plus w top n -> In n (gkeys g)).
Proof.
  intros Hf Hw Ht Hg. destruct (topo_graph_closure w top fuel g Hf Hw Hg Ht) as [H1 H2 H3 _]. auto.
Qed.
Print Assumptions topological_sort_graph_is_closure.

(* Every dependency has a strictly greater depth than the listed product that needs it, unless the
   two need each other (they lie on a common cycle, where no order exists).  No hypothesis on the
   closure: it may hold two versions of one product name (D16 on the pinned tree) and cycles.
   Distrib.createDependencies installs in descending depth (stable), so outside cycles it never meets an
   uninstalled dependency.  Stubs (unresolved dependencies) are ordered like everything else. *)
Theorem build_order_safe_outside_cycles w top fuel l :
  length w < fuel -> wf_world w ->
  dependent_products fuel w top true = Ok l ->
  forall x y, In x l -> In y l -> step w (enode x) (enode y) ->
    ~ reach_plus w (enode y) (enode x) -> edepth x < edepth y.
Proof. exact (build_order_general w top fuel l). Qed.
Print Assumptions build_order_safe_outside_cycles.

(* on a closure without cycles every edge between listed products is ordered *)
Theorem build_order_safe w top fuel l :
  length w < fuel -> wf_world w -> acyclic_from w top ->
  dependent_products fuel w top true = Ok l ->
  forall x y, In x l -> In y l -> step w (enode x) (enode y) -> edepth x < edepth y.
Proof. exact (build_order w top fuel l). Qed.
Print Assumptions build_order_safe.

(* the topological listing is in ascending depth ... *)
Theorem listing_ascending fuel w top l :
  dependent_products fuel w top true = Ok l -> Sorted.StronglySorted depth_le l.
Proof. exact (listing_sorted true node_cmp fuel w top l). Qed.
Print Assumptions listing_ascending.

(* ... hence every product is listed after all the listed products that depend on it (and do not lie on
   a cycle with it) *)
Corollary listed_after_its_users w top fuel l l1 y l2 x :
  length w < fuel -> wf_world w ->
  dependent_products fuel w top true = Ok l ->
  l = l1 ++ y :: l2 -> In x l2 -> ~ reach_plus w (enode y) (enode x) -> ~ step w (enode x) (enode y).
Proof.
  intros Hf Hw D El Ix Nc S.
  assert (Iy : In y l) by (rewrite El; apply in_or_app; right; left; reflexivity).
  assert (Ix' : In x l) by (rewrite El; apply in_or_app; right; right; exact Ix).
  pose proof (build_order_general w top fuel l Hf Hw D x y Ix' Iy S Nc) as Hlt.
  pose proof (listing_sorted true node_cmp fuel w top l D) as Hs. rewrite El in Hs.
  apply sorted_suffix in Hs. inversion Hs as [|? ? _ Hall]. subst.
  rewrite Forall_forall in Hall. specialize (Hall x Ix). unfold depth_le in Hall.
  apply (PeanoNat.Nat.lt_irrefl (edepth x)). eapply PeanoNat.Nat.lt_le_trans; eauto.
Qed.
Print Assumptions listed_after_its_users.

(* ------------------------------------------------------------------ cycles are reported *)

(* Independent of the correctness of Tarjan on cyclic graphs and of the keys being distinct: whenever
   topologicalSort(checkCycles=True) returns normally the graph has no cycle.  A cycle therefore
   never passes: the call ends in RuntimeError ([Err Refused] from the component test or
   [Err Crash] from the left-over test of the layering loop). *)
Theorem cycle_check_sound g0 NL : check_cycles g0 = Ok NL -> acyclic (prepare g0).
Proof. exact (check_cycles_passes_acyclic g0 NL). Qed.
Print Assumptions cycle_check_sound.

(* ... and the error is a python exception, not the model running out of fuel: Tarjan's fuel (number of
   nodes + 1) and the layering loop's fuel (number of components + 1) are proved sufficient *)
Theorem cycle_reported g0 :
  ~ acyclic (prepare g0) -> exists e, check_cycles g0 = Err e /\ e <> OutOfFuel.
Proof. exact (cycle_is_reported g0). Qed.
Print Assumptions cycle_reported.

(* With Tarjan's algorithm proved correct on every graph (tarjan_correct below) the outcome of the
   check is known exactly.  The graph is a python dict, so its keys are distinct; on such a graph a
   cycle makes topologicalSort(checkCycles=True) raise the RuntimeError of the component test
   ([Err Refused]: a component with more than one product; self dependencies were discarded by
   prepare) - never the left-over error of the layering loop ([Err Crash]) - ... *)
Theorem cycle_reported_refused g0 :
  NoDup (gkeys g0) -> ~ acyclic (prepare g0) -> check_cycles g0 = Err Refused.
Proof. exact (check_cycles_refused g0). Qed.
Print Assumptions cycle_reported_refused.

(* ... and a graph without cycles passes: the check raises exactly on the graphs that have a cycle *)
Theorem cycle_check_complete g0 :
  NoDup (gkeys g0) -> acyclic (prepare g0) -> exists NL, check_cycles g0 = Ok NL.
Proof. exact (check_cycles_passes g0). Qed.
Print Assumptions cycle_check_complete.

(* the graphs getDependentProducts hands to topologicalSort (productDictionary, prepared) do have
   distinct keys *)
Theorem topological_sort_graph_keys_distinct fuel w top g :
  topo_graph fuel w top = Ok g -> NoDup (gkeys g).
Proof. exact (topo_graph_keys_nodup fuel w top g). Qed.
Print Assumptions topological_sort_graph_keys_distinct.

(* ... and, that graph being the closure of the top product with every product's own edges,
   getDependentProducts(checkCycles=True) raises its RuntimeError exactly when two different products
   of the closure (the top product included) need each other - two versions of one name or not: *)
Theorem cycle_reported_exactly w top fuel g :
  length w < fuel -> wf_world w -> topo_graph fuel w top = Ok g ->
  proper_cycle w top -> check_cycles g = Err Refused.
Proof. exact (world_cycle_reported w top fuel g). Qed.
Print Assumptions cycle_reported_exactly.

Theorem no_cycle_no_report w top fuel g :
  length w < fuel -> wf_world w -> topo_graph fuel w top = Ok g ->
  ~ proper_cycle w top -> exists NL, check_cycles g = Ok NL.
Proof. exact (world_without_cycle_passes w top fuel g). Qed.
Print Assumptions no_cycle_no_report.

(* ------------------------------------------------------------------ Tarjan's algorithm, in general *)

(* utils.stronglyConnectedComponents as written (low links in one dict with the visiting numbers,
   finished nodes marked len(graph), fuel = number of nodes + 1) answers on every graph with distinct
   keys that is closed under successors, cyclic or not, and its answer is a partition of the nodes
   into strongly connected sets listed in reverse topological order: an edge leaving a component
   goes to a component listed earlier ([cidx cs x] = position of the component of x;
   [gstar] = reflexive-transitive closure of the edges) *)
Theorem tarjan_correct g :
  NoDup (gkeys g) -> closed_graph g ->
  exists cs, scc g = Ok cs /\
    NoDup (concat cs) /\
    (forall n, In n (gkeys g) <-> In n (concat cs)) /\
    (forall c, In c cs -> c <> [] /\ forall a b, In a c -> In b c -> gstar g a b) /\
    (forall x y, In x (concat cs) -> gedge g x y -> In y (concat cs) /\ cidx cs y <= cidx cs x).
Proof.
  intros Hn Hc. destruct (scc_correct g Hn Hc) as [cs [E [S1 S2 S3 S4]]]. exists cs. auto.
Qed.
Print Assumptions tarjan_correct.

(* hence the components are maximal: two nodes share a component exactly when each reaches the
   other - the components ARE the strongly connected components (same conclusion as
   partition_checker_sound, now for every graph instead of per tested graph) *)
Theorem tarjan_components g cs :
  NoDup (gkeys g) -> closed_graph g -> scc g = Ok cs ->
  NoDup (concat cs) /\
  (forall n, In n (gkeys g) <-> In n (concat cs)) /\
  (forall a b, In a (gkeys g) -> In b (gkeys g) ->
     (same_comp cs a b <-> a = b \/ (gpath g a b /\ gpath g b a))).
Proof.
  intros Hn Hc E. destruct (scc_correct g Hn Hc) as [cs' [E' S]]. rewrite E in E'. inversion E'. subst cs'.
  split; [apply (ss_nodup _ _ S)|]. split; [apply (ss_cover _ _ S)|]. apply (scc_spec_components_path g cs S).
Qed.
Print Assumptions tarjan_components.

(* ------------------------------------------------------------------ the topological pipeline always answers *)

(* topologicalSort itself: without checkCycles on every graph (the component graph of a correct
   component list is acyclic, so the layering loop always finds a component without successors and
   its left-over RuntimeError is unreachable), with checkCycles on every graph without cycles *)
Theorem topological_sort_total check g0 :
  NoDup (gkeys g0) -> (check = false \/ acyclic (prepare g0)) -> exists NL, topo_layers check g0 = Ok NL.
Proof. exact (topo_layers_total check g0). Qed.
Print Assumptions topological_sort_total.

(* getDependentProducts(topological=True) answers on EVERY world, cyclic or not, with the fuel the
   correspondence check uses (number of declared products + 2), and its answer is the complete,
   duplicate-free listing in ascending depth: walk_complete_topological and listing_ascending are
   unconditional *)
Theorem topological_listing_total w top fuel :
  length w < fuel ->
  exists l, dependent_products fuel w top true = Ok l /\
    (forall q, In q (map enode l) <-> q <> top /\ reach_plus w top q) /\ NoDup (map enode l) /\
    Sorted.StronglySorted depth_le l.
Proof.
  intros Hf. destruct (dependent_products_total w top fuel Hf) as [l E]. exists l. split; [exact E|].
  destruct (listing_topological true node_cmp w top fuel l Hf E) as [H1 H2]. split; [exact H1|]. split; [exact H2|].
  exact (listing_sorted true node_cmp fuel w top l E).
Qed.
Print Assumptions topological_listing_total.

(* on closures without cycles the listing exists and is a safe build order: build_order_safe and
   listed_after_its_users without the premise that the call returned *)
Theorem topological_listing_total_on_dags w top fuel :
  length w < fuel -> wf_world w -> acyclic_from w top ->
  exists l, dependent_products fuel w top true = Ok l /\
    (forall q, In q (map enode l) <-> q <> top /\ reach_plus w top q) /\ NoDup (map enode l) /\
    Sorted.StronglySorted depth_le l /\
    (forall x y, In x l -> In y l -> step w (enode x) (enode y) -> edepth x < edepth y) /\
    (forall l1 y l2 x, l = l1 ++ y :: l2 -> In x l2 -> ~ step w (enode x) (enode y)).
Proof.
  intros Hf Hw Ha. destruct (topological_listing_total w top fuel Hf) as [l [E [H1 [H2 H3]]]].
  exists l. split; [exact E|]. split; [exact H1|]. split; [exact H2|]. split; [exact H3|]. split.
  - exact (build_order_safe w top fuel l Hf Hw Ha E).
  - intros l1 y l2 x El Ix S. apply (listed_after_its_users w top fuel l l1 y l2 x Hf Hw E El Ix); [|exact S].
    intros R. assert (Cx : closure w top (enode x)).
    { right. apply H1. apply in_map. rewrite El. apply in_or_app. right. right. exact Ix. }
    apply (Ha _ Cx). eapply rp_more; [apply step_is_stepP, S | exact R].
Qed.
Print Assumptions topological_listing_total_on_dags.


(* ------------------------------------------------------------------ uses *)

(* Y is reported as a user of X [version ov, or any version] exactly when Y is declared and a
   product named X [of that version] is in Y's topological listing - stubs and two versions included *)
Theorem uses_inverse fuel w idx x ov us y :
  uses_index fuel w = Ok idx -> users idx x ov = Ok us ->
  (In y (map cuser us) <->
   In y (map fst w) /\
   exists l, dependent_products fuel w (pnode y) true = Ok l /\ exists q, In q (map enode l) /\ matches x ov q).
Proof. exact (uses_inverse_listing fuel w idx x ov us y). Qed.
Print Assumptions uses_inverse.

(* ... that is, exactly when Y reaches such a product through the table files *)
Theorem uses_inverse_reachability fuel w idx x ov us y :
  length w < fuel ->
  uses_index fuel w = Ok idx -> users idx x ov = Ok us ->
  (In y (map cuser us) <->
   In y (map fst w) /\ exists q, q <> pnode y /\ reach_plus w (pnode y) q /\ matches x ov q).
Proof. exact (uses_inverse_reach fuel w idx x ov us y). Qed.
Print Assumptions uses_inverse_reachability.

(* every record returned repeats an entry of the user's listing (version needed, optional, depth) *)
Theorem users_records_are_listing_entries idx x ov us c :
  users idx x ov = Ok us -> In c us ->
  exists l e, In (cuser c, l) idx /\ In e l /\ matches x ov (enode e) /\
              cprops c = (nver (enode e), eoptional e, edepth e).
Proof.
  intros Hu Hc. destruct (users_total_ok idx x ov) as [us' [E [H _]]]. rewrite Hu in E. inversion E. subst us'.
  apply H, consumers_props in Hc as [l [e [A [B [C D]]]]]. exists l, e.
  repeat split; auto; apply key_matches_spec in C; apply C.
Qed.
Print Assumptions users_records_are_listing_entries.

(* the query over the index never raises, whatever the index holds (the pinned code raised
   TypeError here: users_pinned_refuted below) *)
Theorem users_total idx x ov : exists us, users idx x ov = Ok us.
Proof. destruct (users_total_ok idx x ov) as [us [E _]]. eauto. Qed.
Print Assumptions users_total.

(* Eups.uses answers on every world: the index of all topological listings exists, and the query
   over it never raises (users_total) *)
Theorem uses_total w fuel x ov : length w < fuel -> exists us, uses fuel w x ov = Ok us.
Proof.
  intros Hf. unfold uses. destruct (uses_index_total w fuel Hf) as [idx E]. rewrite E. apply users_total.
Qed.
Print Assumptions uses_total.

(* ------------------------------------------------------------------ the partition checker *)

(* Tarjan's algorithm is proved correct on every graph (tarjan_correct, tarjan_components above), so
   no claim rests on this checker any more.  The correspondence check still runs it on the component
   list of every graph it meets, as an extra comparison of the extracted model with an independent
   executable statement of what a partition into strongly connected components is; the checker is
   sound: *)
Theorem partition_checker_sound g cs :
  partition_ok g cs = true ->
  NoDup (concat cs) /\
  (forall n, In n (gkeys g) <-> In n (concat cs)) /\
  (forall a b, In a (gkeys g) -> In b (gkeys g) ->
     (same_comp cs a b <-> a = b \/ (gpath g a b /\ gpath g b a))).
Proof. exact (partition_ok_sound g cs). Qed.
Print Assumptions partition_checker_sound.

(* ------------------------------------------------------------------ witnesses *)

Definition ed (n : string) (v r : option string) (o : bool) : edge :=
  mkEdge (lit n) (option_map lit v) (option_map lit r) o.
Definition pr (n v : string) (es : list edge) : (str * str) * list edge := ((lit n, lit v), es).
Definition nd (n v : string) : node := (lit n, Some (lit v), true).
Definition stub (n : string) (v : option string) : node := (lit n, option_map lit v, false).

(* a world with a cycle through the top product and a self dependency: the hypotheses of the
   theorems above are inhabited by cyclic worlds, the listing is finite, the cycle check raises *)
Definition w_cyclic : world :=
  [ pr "a" "1" [ed "b" None (Some "1") false];
    pr "b" "1" [ed "c" None (Some "1") false; ed "a" (Some "1") (Some "1") true];
    pr "c" "1" [ed "c" None (Some "1") false] ].

Example cyclic_world_listing :
  dependent_products 4 w_cyclic (nd "a" "1") true
  = Ok [ (nd "b" "1", false, 1); (nd "c" "1", false, 2) ]
  /\ reach_plus w_cyclic (nd "a" "1") (nd "a" "1")
  /\ (exists g, topo_graph 4 w_cyclic (nd "a" "1") = Ok g /\ check_cycles g = Err Refused).
Proof.
  split; [vm_compute; reflexivity|]. split.
  - eapply rp_more; [exists [ed "b" None (Some "1") false], (ed "b" None (Some "1") false); repeat split; simpl; auto|].
    apply rp_one. eexists _, (ed "a" (Some "1") (Some "1") true). split; [reflexivity|]. split; [right; left; reflexivity | reflexivity].
  - eexists. split; vm_compute; reflexivity.
Qed.

(* Tarjan on graphs with cycles: the graph of the cyclic world above (distinct keys, closed), and a
   graph with two cycles joined by an edge - the component reached is listed first *)
Definition g_two_cycles : graph :=
  [ (nd "a" "1", [nd "b" "1"]); (nd "b" "1", [nd "c" "1"; nd "d" "1"]); (nd "c" "1", [nd "a" "1"]);
    (nd "d" "1", [nd "e" "1"]); (nd "e" "1", [nd "d" "1"]) ].

Example tarjan_on_cyclic_graphs :
  (exists g, topo_graph 4 w_cyclic (nd "a" "1") = Ok g /\ NoDup (gkeys g) /\ closed_graph g /\
             scc g = Ok [ [nd "c" "1"]; [nd "a" "1"; nd "b" "1"] ]) /\
  NoDup (gkeys g_two_cycles) /\ closed_graph g_two_cycles /\
  scc g_two_cycles = Ok [ [nd "d" "1"; nd "e" "1"]; [nd "a" "1"; nd "b" "1"; nd "c" "1"] ] /\
  check_cycles g_two_cycles = Err Refused.
Proof.
  split.
  - eexists. split; [vm_compute; reflexivity|].
    match goal with |- NoDup (gkeys ?g) /\ _ => destruct (graph_ok_by_computation g) as [H1 H2]; [vm_compute; reflexivity|] end.
    split; [exact H1|]. split; [exact H2|]. vm_compute. reflexivity.
  - destruct (graph_ok_by_computation g_two_cycles) as [H1 H2]; [vm_compute; reflexivity|].
    split; [exact H1|]. split; [exact H2|]. split; vm_compute; reflexivity.
Qed.

(* why the keys must be distinct (they are: the graph is a python dict).  An association list that
   names a twice is not a dict; succs_of reads the first entry, the component graph is built from
   all of them, and the cycle a -> b -> a ends in the left-over error of the layering loop *)
Example cycle_refused_needs_distinct_keys :
  let g0 := [ (nd "a" "1", []); (nd "a" "1", [nd "b" "1"]); (nd "b" "1", [nd "a" "1"]) ] in
  gpath (prepare g0) (nd "a" "1") (nd "a" "1") /\ check_cycles g0 = Err Crash.
Proof.
  split; [|vm_compute; reflexivity].
  apply gp_more with (b := nd "b" "1"); [|apply gp_one].
  - exists [nd "b" "1"]. split; [vm_compute; right; left; reflexivity | left; reflexivity].
  - exists [nd "a" "1"]. split; [vm_compute; right; right; left; reflexivity | left; reflexivity].
Qed.

(* the hypotheses of build_order_safe are inhabited by a diamond with a shared sub-tree, an optional
   edge and an unresolved dependency *)
Definition w_diamond : world :=
  [ pr "a" "1" [ed "b" None (Some "1") false; ed "c" (Some "2") (Some "2") true];
    pr "b" "1" [ed "d" None (Some "1") false];
    pr "c" "2" [ed "d" (Some "1") (Some "1") false; ed "ghost" None None true];
    pr "d" "1" [ed "e" None (Some "1") false];
    pr "e" "1" [] ].

Example build_order_hypotheses_inhabited :
  wf_world w_diamond /\ acyclic_from w_diamond (nd "a" "1") /\
  dependent_products 6 w_diamond (nd "a" "1") true
  = Ok [ (nd "b" "1", false, 2); (nd "c" "2", true, 2); (nd "d" "1", false, 3);
         (nd "e" "1", false, 4); (stub "ghost" None, true, 4) ].
Proof.
  assert (H : wf_world w_diamond /\ acyclic_from w_diamond (nd "a" "1")).
  { eapply (hyps_by_computation 6); [vm_compute; repeat constructor | vm_compute; reflexivity | |]; vm_compute; reflexivity. }
  destruct H as [H1 H2]. split; [exact H1|]. split; [exact H2|]. vm_compute. reflexivity.
Qed.

(* D2 on the pinned tree: a 1 needs c 1 and c 2; pvsort compared two Props objects *)
Definition w_two_versions : world :=
  [ pr "a" "1" [ed "c" (Some "1") (Some "1") false; ed "c" (Some "2") (Some "2") true];
    pr "c" "1" []; pr "c" "2" [] ].

Example users_pinned_refuted :
  exists idx, uses_index 5 w_two_versions = Ok idx /\
              users_pinned idx (lit "c") None = Err Unsortable /\
              users idx (lit "c") None =
              Ok [ ((lit "a", lit "1"), (Some (lit "1"), false, 2)); ((lit "a", lit "1"), (Some (lit "2"), true, 2)) ].
Proof. eexists. split; [vm_compute; reflexivity|]. split; vm_compute; reflexivity. Qed.

(* D15 on the pinned tree: the undeclared product ghost is named bare in one table and with a
   version in another; both stubs sit in the first layer and Product.__lt__ compared None with a str *)
Definition w_two_stubs : world :=
  [ pr "a" "1" [ed "ghost" None None true; ed "b" None (Some "1") false];
    pr "b" "1" [ed "ghost" (Some "1") None true] ].

Example layer_sort_pinned_refuted :
  dependent_products_pinned 5 w_two_stubs (nd "a" "1") true = Err Unsortable /\
  dependent_products 5 w_two_stubs (nd "a" "1") true
  = Ok [ (nd "b" "1", false, 2); (stub "ghost" None, true, 3); (stub "ghost" (Some "1"), true, 3) ].
Proof. split; vm_compute; reflexivity. Qed.

(* D16 on the pinned tree: depths were kept per product NAME and the second walk pinned one version
   per name.  p5 1 needs p3 3 (which needs p2 3) and p4 2 (which needs p3 1): the closure of p5 1
   holds two versions of p3.  The hypotheses of build_order_safe are inhabited by it, and the repaired
   code orders it: p3 3 before its dependency p2 3, p3 1 (a leaf, needed by p4 2) last with p2 3. *)
Definition w_d16 : world :=
  [ pr "p5" "1" [ed "p3" (Some "3") (Some "3") false; ed "p4" (Some "2") (Some "2") false];
    pr "p3" "3" [ed "p2" (Some "3") (Some "3") false];
    pr "p2" "3" [];
    pr "p4" "2" [ed "p3" (Some "1") (Some "1") false];
    pr "p3" "1" [] ].

Example build_order_two_versions_inhabited :
  wf_world w_d16 /\ acyclic_from w_d16 (nd "p5" "1") /\
  (exists l, closure_list 7 w_d16 (nd "p5" "1") = Some l /\ two_versions_b l = true /\
             ~ one_version_per_name w_d16 (nd "p5" "1")) /\
  dependent_products 7 w_d16 (nd "p5" "1") true
  = Ok [ (nd "p3" "3", false, 2); (nd "p4" "2", false, 2); (nd "p2" "3", false, 3); (nd "p3" "1", false, 3) ].
Proof.
  assert (H : wf_world w_d16 /\ acyclic_from w_d16 (nd "p5" "1")).
  { eapply (hyps_by_computation 7); [vm_compute; repeat constructor | vm_compute; reflexivity | |]; vm_compute; reflexivity. }
  destruct H as [H1 H2]. split; [exact H1|]. split; [exact H2|]. split; [|vm_compute; reflexivity].
  eexists. split; [vm_compute; reflexivity|]. split; [vm_compute; reflexivity|].
  intros Ho.
  assert (R3 : reach_plus w_d16 (nd "p5" "1") (nd "p3" "3")).
  { apply rp_one. eexists _, (ed "p3" (Some "3") (Some "3") false). split; [reflexivity|]. split; [left; reflexivity | reflexivity]. }
  assert (R1 : reach_plus w_d16 (nd "p5" "1") (nd "p3" "1")).
  { eapply rp_more; [eexists _, (ed "p4" (Some "2") (Some "2") false); split; [reflexivity|]; split; [right; left; reflexivity | reflexivity]|].
    apply rp_one. eexists _, (ed "p3" (Some "1") (Some "1") false). split; [reflexivity|]. split; [left; reflexivity | reflexivity]. }
  specialize (Ho (nd "p3" "3") (nd "p3" "1") (or_intror R3) (or_intror R1) eq_refl). discriminate.
Qed.

(* the pinned code on the same world: p3 is pinned to version 1 in the second walk, the edge p3 3 -> p2 3 is
   lost, p3 3 is listed with depth 3 and its dependency p2 3 with depth 2, i.e. BEFORE the product that
   needs it *)
Example order_refuted_pinned :
  exists l dx dy,
    dependent_products_byname_pinned 7 w_d16 (nd "p5" "1") true = Ok l /\
    step w_d16 (nd "p3" "3") (nd "p2" "3") /\
    In (nd "p3" "3", false, dx) l /\ In (nd "p2" "3", false, dy) l /\ dy < dx.
Proof.
  eexists _, 3, 2. split; [vm_compute; reflexivity|]. split.
  - exists [ed "p2" (Some "3") (Some "3") false], (ed "p2" (Some "3") (Some "3") false). repeat split. left. reflexivity.
  - simpl. intuition.
Qed.

(* D16, cycle variant: p4 1 and p5 1 need each other; the listing of p2 1 also holds the stub p4 9, which
   the pinned code took as THE version of p4 in the second walk: every p4 line then denoted a stub and
   checkCycles passed.  The repaired code reports the cycle (cycle_reported_exactly applies: the closure
   holds two products named p4). *)
Definition w_d16_cycle : world :=
  [ pr "p2" "1" [ed "p4" (Some "1") (Some "1") false; ed "p4" (Some "9") None true];
    pr "p4" "1" [ed "p5" (Some "1") (Some "1") false];
    pr "p5" "1" [ed "p4" None (Some "1") false] ].

Example cycle_lost_refuted_pinned :
  wf_world w_d16_cycle /\ proper_cycle w_d16_cycle (nd "p2" "1") /\
  (exists g, topo_graph_byname_pinned 5 w_d16_cycle (nd "p2" "1") = Ok g /\ exists NL, check_cycles g = Ok NL) /\
  (exists g, topo_graph 5 w_d16_cycle (nd "p2" "1") = Ok g /\ check_cycles g = Err Refused).
Proof.
  assert (Hw : wf_world w_d16_cycle).
  { intros n v es e T Ie. apply table_of_In in T.
    assert (Hb : wf_world_b w_d16_cycle = true) by (vm_compute; reflexivity).
    unfold wf_world_b in Hb. rewrite forallb_forall in Hb. specialize (Hb _ T). simpl in Hb.
    rewrite forallb_forall in Hb. specialize (Hb e Ie). split.
    - intros r Er. rewrite Er in Hb. exact Hb.
    - intros v' Er Ev. rewrite Er, Ev in Hb. apply Bool.negb_true_iff, Hb. }
  assert (S45 : step w_d16_cycle (nd "p4" "1") (nd "p5" "1")).
  { eexists _, (ed "p5" (Some "1") (Some "1") false). split; [reflexivity|]. split; [left; reflexivity | reflexivity]. }
  assert (S54 : step w_d16_cycle (nd "p5" "1") (nd "p4" "1")).
  { eexists _, (ed "p4" None (Some "1") false). split; [reflexivity|]. split; [left; reflexivity | reflexivity]. }
  assert (Hc : proper_cycle w_d16_cycle (nd "p2" "1")).
  { exists (nd "p4" "1"), (nd "p5" "1"). split.
    - right. apply rp_one. eexists _, (ed "p4" (Some "1") (Some "1") false). split; [reflexivity|]. split; [left; reflexivity | reflexivity].
    - split; [discriminate|]. split; apply rp_one, step_is_stepP; assumption. }
  split; [exact Hw|]. split; [exact Hc|]. split.
  - eexists. split; [vm_compute; reflexivity|]. eexists. vm_compute. reflexivity.
  - eexists. split; [vm_compute; reflexivity|]. vm_compute. reflexivity.
Qed.

(* D16, the top product's own name: p4 2 needs p2 1, which needs p4 2 back and a bare p4 that does not
   resolve.  The listing of p4 2 holds the stub p4 None (the top product itself is dropped from it), so
   the pinned code pinned p4 to None, the line p4 2 of p2 1 denoted a stub in the second walk and
   checkCycles passed.  The repaired code never pins the name of the top product. *)
Definition w_d16_root : world :=
  [ pr "p2" "1" [ed "p4" None None false; ed "p4" (Some "2") (Some "2") true];
    pr "p4" "2" [ed "p2" (Some "1") (Some "1") false] ].

Example root_name_refuted_pinned :
  proper_cycle w_d16_root (nd "p4" "2") /\
  (exists g, topo_graph_byname_pinned 4 w_d16_root (nd "p4" "2") = Ok g /\ exists NL, check_cycles g = Ok NL) /\
  (exists g, topo_graph 4 w_d16_root (nd "p4" "2") = Ok g /\ check_cycles g = Err Refused) /\
  dependent_products 4 w_d16_root (nd "p4" "2") true = Ok [ (nd "p2" "1", false, 1); (stub "p4" None, false, 2) ].
Proof.
  split.
  - exists (nd "p4" "2"), (nd "p2" "1"). split; [left; reflexivity|]. split; [discriminate|].
    split; apply rp_one.
    + eexists _, (ed "p2" (Some "1") (Some "1") false). split; [reflexivity|]. split; [left; reflexivity | reflexivity].
    + eexists _, (ed "p4" (Some "2") (Some "2") true). split; [reflexivity|]. split; [right; left; reflexivity | reflexivity].
  - split; [eexists; split; [vm_compute; reflexivity|]; eexists; vm_compute; reflexivity|].
    split; [eexists; split; [vm_compute; reflexivity|]; vm_compute; reflexivity|].
    vm_compute. reflexivity.
Qed.


(* ==================================================================================================
   The dependency walk with the version resolver INSIDE (Model/DepWalk.v, Model/DepWalkText.v).

   Above, a world gives for every table line the product it denotes (the field eres of an edge): an input.
   Below, the model is Table.dependencies itself - it calls the resolver of C03 (Model/Resolve.v) for every
   line it meets, under the VRO Action.processArgs builds for the line - and getDependentProducts on top of
   it; the input is the database (stacks, declarations per flavor, chain files), the dependency lines of the
   tables (Model/DepWalkText.v derives them from the table TEXTS) and the VRO of the command.

   Vocabulary: a [dline] is one setupRequired / setupOptional line after processArgs (name, version,
   bracketed expression, -t tags, -k, optional, -j); [line_vro c vro l] the VRO in force for the line and for
   everything below it; [lookup_at ... lv l] the loop over the flavors around findProductFromVRO;
   [tgt_of l o] the listed product: the one found, or the stub (name, version text);
   [dep_products ... W vro follow fuel top topological check] = getDependentProducts;
   [plain_tables (line_vro c) vro T]: no line of T changes the VRO (no recognised -t tag, no -k);
   [no_just T]: no line carries -j;  [dworld_ok db flavors T]: the database is well formed (C03), every
   product declared for a flavor of the list has a table in T and every table belongs to such a product.
   ================================================================================================== *)

(* ------------------------------------------------------------------ (a) every edge followed is the designated product *)

(* whatever the database, the stacks on the path, the flavor list and the VRO in force: the product the walk
   lists for a line is the one the Version Resolution Order designates (C03: designates, at a depth other than
   0 - the top-level rule never applies to a dependency) for the request the line makes *)
Theorem walked_edge_is_designated vcmp vmatch c db flavors lv l d :
  wf_db db = true -> vcmp_ok vcmp db ->
  lookup_at vcmp vmatch c db flavors lv l = designates vcmp vmatch c db flavors (S d) lv (dreq l).
Proof. intros WF HT. exact (vro_lookup_designates vcmp vmatch c db WF HT flavors lv (dreq l) d). Qed.
Print Assumptions walked_edge_is_designated.

(* ... with the comparator and the matcher of C10, which the extracted model runs *)
Theorem walked_edge_is_designated_real c db flavors lv l d :
  wf_db db = true -> (forall n, real_names_ok (names_of db n) = true) ->
  lookup_at vcmp_real vmatch_real c db flavors lv l = designates_real c db flavors (S d) lv (dreq l).
Proof.
  intros WF OKn. apply walked_edge_is_designated; [exact WF|]. intros n. apply real_total_order, OKn.
Qed.
Print Assumptions walked_edge_is_designated_real.

(* what is designated is declared: in some stack of the path, for the flavor it is returned with *)
Theorem walked_edge_is_declared vcmp vmatch c db flavors lv l p :
  wf_db db = true -> vcmp_ok vcmp db ->
  lookup_at vcmp vmatch c db flavors lv l = Some p ->
  exists f s, In f flavors /\ In s db /\ Resolve.declared s (dl_name l) (fd_version p) f = true /\
              fd_name p = dl_name l /\ fd_flavor p = f.
Proof.
  intros WF HT H. destruct (vro_lookup_declared vcmp vmatch c db WF HT flavors lv (dreq l) p H) as [f [Hf [s [Hs [D [N F]]]]]].
  exists f, s. auto.
Qed.
Print Assumptions walked_edge_is_declared.

(* ------------------------------------------------------------------ (b) the listing is exactly what is reached *)

(* [reached lvro lk lkp vro T top q]: q is reached from top through the lines of the tables as the look-ups
   resolve them under vro - through lines without -j, then one line of any kind (a -j line is followed to its
   product and no further).  For every database and every look-up function (in particular the resolver of C03),
   every table set whose lines hand the VRO down unchanged, cycles and -j lines included, and any fuel above the
   number of tables: the listing exists (never Err OutOfFuel) and holds exactly the products reached, the top
   product excluded. *)
Theorem resolved_listing_complete lvro lk lkp pref_ok vro fuel TA TB top :
  plain_tables lvro vro TA -> length TA < fuel ->
  exists l, dep_products2 lvro lk lkp pref_ok vro fuel TA TB top false false = Ok l /\
            forall q, In q (map enode l) <-> q <> top /\ reached lvro lk lkp vro TA top q.
Proof. exact (listing_plain_general lvro lk lkp pref_ok vro fuel TA TB top). Qed.
Print Assumptions resolved_listing_complete.

(* the same for the topological listing (and with checkCycles), whatever tables the second walk reads - in
   exact mode they are not the tables of the first; it names every product once *)
Theorem resolved_listing_topological_complete lvro lk lkp pref_ok vro fuel TA TB top topological check l :
  plain_tables lvro vro TA -> length TA < fuel ->
  dep_products2 lvro lk lkp pref_ok vro fuel TA TB top topological check = Ok l ->
  (forall q, In q (map enode l) <-> q <> top /\ reached lvro lk lkp vro TA top q) /\
  (topological || check = true -> NoDup (map enode l)).
Proof. exact (listing_general lvro lk lkp pref_ok vro fuel TA TB top topological check l). Qed.
Print Assumptions resolved_listing_topological_complete.

(* FULL STATEMENT NOT PROVED (and false of the code): the two theorems without plain_tables.  A -t tag (or -k)
   on a line stays in force for the whole table walk below that line, and a table is walked once, the first
   time it is reached: what a line of that table denotes then depends on the way the walk came, and the
   listing is not the closure of a relation between products (line_tag_is_inherited below). *)

(* ------------------------------------------------------------------ (c) the theorems above, on the edges the walk computes *)

(* the resolved edges agree with the declarations: wf_world, the hypothesis of the build-order and cycle theorems
   above, is a THEOREM about the edges the resolver computes - under any VRO that holds a version entry (every
   VRO of the shipped configuration does: shipped_vro_has_version_entries) *)
Theorem resolved_edges_wellformed vcmp vmatch c db flavors vro T :
  dworld_ok db flavors T -> vcmp_ok vcmp db -> existsb is_version_like vro = true ->
  wf_world (resolved_world vcmp vmatch c db flavors vro T).
Proof. exact (resolved_world_wf vcmp vmatch c db flavors vro T). Qed.
Print Assumptions resolved_edges_wellformed.

(* a step of that world is a line of a table and the product the resolver designates for it (or its stub) *)
Theorem resolved_step_is_designated_line vcmp vmatch c db flavors vro T p q :
  step (resolved_world vcmp vmatch c db flavors vro T) p q <->
  exists l, dline_in T p l /\ q = tgt_of l (lookup_line vcmp vmatch c db flavors vro l).
Proof. apply step_edges_iff. Qed.
Print Assumptions resolved_step_is_designated_line.

(* and without -j lines being reached (b) is being reachable in that world (walk_complete above) *)
Theorem reached_is_reachable_in_resolved_world vcmp vmatch c db flavors vro T lkp p q :
  no_just T ->
  (dreach (lookup_line vcmp vmatch c db flavors vro) lkp T [] p q <->
   reach_plus (resolved_world vcmp vmatch c db flavors vro T) p q).
Proof. apply reached_is_reach_plus. Qed.
Print Assumptions reached_is_reachable_in_resolved_world.

(* getDependentProducts with the resolver inside IS getDependentProducts of Model/Graph.v on the world of the
   resolved edges, plain and topological: every theorem of the first part of this file applies to it with
   wf_world discharged.  _partial: tables without -j lines, whose lines do not change the VRO, read alike by the
   two walks (no condition on the exact type); pinned names are looked up under the flavors the walk tries (the
   code after proposed_fixes/C13-pinned-lookup-fallback-flavor; pinned_lookup_refuted_pinned below).
   FULL STATEMENT NOT PROVED: the same without no_just / plain_tables and with two table sets.  With -j the
   ordering walk does not read the table below the line (no order is promised there); with inherited tags there
   is no world of edges (see above); in exact mode the ordering walk reads the inexact branches, which are other
   tables than the ones listed. *)
Theorem composed_listing_is_graph_listing_partial vcmp vmatch c db flavors pf vro T follow fuel top topological l :
  dworld_ok db flavors T -> vcmp_ok vcmp db -> existsb is_version_like vro = true ->
  incl flavors pf -> incl pf flavors -> no_just T -> plain_tables (line_vro c) vro T -> length T < fuel ->
  dep_products vcmp vmatch c flavors pf (mkDworld db T T) vro follow fuel top topological false = Ok l ->
  dependent_products fuel (resolved_world vcmp vmatch c db flavors vro T) top topological = Ok l.
Proof.
  intros OK HT HV P1 P2 NJ PL Hf H. unfold dep_products in H. cbn [dw_db dw_exact dw_inexact] in H.
  destruct follow; exact (composed_is_graph vcmp vmatch c db flavors pf vro T OK HT HV P1 P2 NJ PL _ fuel top topological l Hf H).
Qed.
Print Assumptions composed_listing_is_graph_listing_partial.

(* the build order, from the database and the tables alone: every listed product that needs another listed
   product (a line of its table designates it) comes strictly earlier, unless the two need each other *)
Theorem composed_build_order_safe_outside_cycles_partial vcmp vmatch c db flavors pf vro T follow fuel top l :
  dworld_ok db flavors T -> vcmp_ok vcmp db -> existsb is_version_like vro = true ->
  incl flavors pf -> incl pf flavors -> no_just T -> plain_tables (line_vro c) vro T -> length T < fuel ->
  dep_products vcmp vmatch c flavors pf (mkDworld db T T) vro follow fuel top true false = Ok l ->
  let w := resolved_world vcmp vmatch c db flavors vro T in
  forall x y, In x l -> In y l -> step w (enode x) (enode y) -> ~ reach_plus w (enode y) (enode x) ->
    edepth x < edepth y.
Proof.
  intros OK HT HV P1 P2 NJ PL Hf H w.
  apply (build_order_safe_outside_cycles w top fuel l).
  - unfold w. rewrite resolved_world_length. exact Hf.
  - exact (resolved_world_wf vcmp vmatch c db flavors vro T OK HT HV).
  - exact (composed_listing_is_graph_listing_partial vcmp vmatch c db flavors pf vro T follow fuel top true l OK HT HV P1 P2 NJ PL Hf H).
Qed.
Print Assumptions composed_build_order_safe_outside_cycles_partial.

Theorem composed_build_order_safe_partial vcmp vmatch c db flavors pf vro T follow fuel top l :
  dworld_ok db flavors T -> vcmp_ok vcmp db -> existsb is_version_like vro = true ->
  incl flavors pf -> incl pf flavors -> no_just T -> plain_tables (line_vro c) vro T -> length T < fuel ->
  acyclic_from (resolved_world vcmp vmatch c db flavors vro T) top ->
  dep_products vcmp vmatch c flavors pf (mkDworld db T T) vro follow fuel top true false = Ok l ->
  forall x y, In x l -> In y l -> step (resolved_world vcmp vmatch c db flavors vro T) (enode x) (enode y) ->
    edepth x < edepth y.
Proof.
  intros OK HT HV P1 P2 NJ PL Hf Ha H.
  apply (build_order_safe (resolved_world vcmp vmatch c db flavors vro T) top fuel l).
  - rewrite resolved_world_length. exact Hf.
  - exact (resolved_world_wf vcmp vmatch c db flavors vro T OK HT HV).
  - exact Ha.
  - exact (composed_listing_is_graph_listing_partial vcmp vmatch c db flavors pf vro T follow fuel top true l OK HT HV P1 P2 NJ PL Hf H).
Qed.
Print Assumptions composed_build_order_safe_partial.

(* the cycle check: the graph the composed model hands to topologicalSort raises exactly when two different
   products of the closure need each other through designated edges *)
Theorem composed_cycle_reported_exactly_partial vcmp vmatch c db flavors pf vro T follow fuel top g :
  dworld_ok db flavors T -> vcmp_ok vcmp db -> existsb is_version_like vro = true ->
  incl flavors pf -> incl pf flavors -> no_just T -> plain_tables (line_vro c) vro T -> length T < fuel ->
  dep_graph vcmp vmatch c flavors pf (mkDworld db T T) vro follow fuel top = Ok g ->
  (proper_cycle (resolved_world vcmp vmatch c db flavors vro T) top -> check_cycles g = Err Refused) /\
  (~ proper_cycle (resolved_world vcmp vmatch c db flavors vro T) top -> exists NL, check_cycles g = Ok NL).
Proof.
  intros OK HT HV P1 P2 NJ PL Hf H. unfold dep_graph in H. cbn [dw_db dw_exact dw_inexact] in H.
  assert (G : topo_graph fuel (resolved_world vcmp vmatch c db flavors vro T) top = Ok g).
  { destruct follow; exact (composed_graph_is_graph vcmp vmatch c db flavors pf vro T OK HT HV P1 P2 NJ PL _ fuel top g Hf H). }
  assert (Hf' : length (resolved_world vcmp vmatch c db flavors vro T) < fuel) by (rewrite resolved_world_length; exact Hf).
  pose proof (resolved_world_wf vcmp vmatch c db flavors vro T OK HT HV) as Hw.
  split; intros Hc.
  - exact (cycle_reported_exactly _ top fuel g Hf' Hw G Hc).
  - exact (no_cycle_no_report _ top fuel g Hf' Hw G Hc).
Qed.
Print Assumptions composed_cycle_reported_exactly_partial.

(* uses, from the database and the tables alone: Y is reported as a user of X exactly when Y has a table and
   reaches, through designated edges, a product named X [of that version] *)
Theorem composed_uses_inverse_partial vcmp vmatch c db flavors pf vro T fuel idx x ov us y :
  dworld_ok db flavors T -> vcmp_ok vcmp db -> existsb is_version_like vro = true ->
  incl flavors pf -> incl pf flavors -> no_just T -> plain_tables (line_vro c) vro T -> length T < fuel ->
  dep_uses_index vcmp vmatch c flavors pf (mkDworld db T T) vro fuel = Ok idx -> users idx x ov = Ok us ->
  let w := resolved_world vcmp vmatch c db flavors vro T in
  (In y (map cuser us) <->
   In y (map fst T) /\ exists q, q <> pnode y /\ reach_plus w (pnode y) q /\ matches x ov q).
Proof.
  intros OK HT HV P1 P2 NJ PL Hf Hi Hu w.
  assert (E : map fst w = map fst T).
  { unfold w, resolved_world, edges_world. rewrite map_map. reflexivity. }
  rewrite <- E. apply (uses_inverse_reachability fuel w idx x ov us y).
  - unfold w. rewrite resolved_world_length. exact Hf.
  - exact (composed_index_is_graph_index vcmp vmatch c db flavors pf vro T OK HT HV P1 P2 NJ PL fuel idx Hf Hi).
  - exact Hu.
Qed.
Print Assumptions composed_uses_inverse_partial.

(* ------------------------------------------------------------------ the VROs of the shipped configuration *)

(* eups list takes -t tags, -e and a version; whatever they are (every ordered choice of at most two tags among
   current, stable, beta), the VRO selectVRO builds from the shipped configuration holds a version entry and no
   keep entry *)
Definition list_tag_choices : list (list str) :=
  let tags := [lit "current"; lit "stable"; lit "beta"] in
  [[]] ++ map (fun x => [x]) tags ++ flat_map (fun x => map (fun y => [x; y]) (remove_str x tags)) tags.
Definition list_opts : list opts :=
  flat_map (fun x => flat_map (fun vn => map (fun ts => mkOpts false x false ts [] false vn) list_tag_choices)
                              [false; true]) [false; true].
Definition cfg_beta : config := site_config [lit "beta"] [].

Theorem shipped_vro_has_version_entries o :
  In o list_opts ->
  exists vro, select_vro cfg_beta o = Ok vro /\ existsb is_version_like vro = true /\ mem_entry EKeep vro = false /\
              vro_pref_ok cfg_beta vro = true.
Proof.
  assert (H : forallb (fun o => match select_vro cfg_beta o with
                                | Ok vro => existsb is_version_like vro && negb (mem_entry EKeep vro) && vro_pref_ok cfg_beta vro
                                | Err _ => false
                                end) list_opts = true) by (vm_compute; reflexivity).
  rewrite forallb_forall in H. intros Ho. specialize (H o Ho).
  destruct (select_vro cfg_beta o) as [vro|]; [|discriminate]. exists vro. split; [reflexivity|].
  apply andb_true_iff in H as [H H3]. apply andb_true_iff in H as [H1 H2]. apply negb_true_iff in H2. auto.
Qed.
Print Assumptions shipped_vro_has_version_entries.

(* ------------------------------------------------------------------ witnesses *)

Definition dl (n : string) (v : option string) (o : bool) : dline :=
  mkDline (lit n) (option_map lit v) None [] false o false.
Definition dt (n v : string) (ls : list dline) : (str * str) * list dline := ((lit n, lit v), ls).
Definition decl (n v f : string) : str * str * str := (lit n, lit v, lit f).
Definition cur (n f v : string) : str * str * str * str := (lit n, lit f, lit "current", lit v).
Definition two_flavors : list str := [lit "Linux64"; lit "generic"].
Definition vro_default : list ventry := [EType (lit "exact"); ECommandLine; EVersion; EVersionExpr; ETag (lit "current")].

(* a diamond with two versions of b (a 1 names b 1, c 1 takes the current one, b 2), an optional product that is
   not declared (ghost), and a product declared under the fall-back flavor (d) *)
Definition db_diamond : dbv :=
  [ mkStack (lit "s")
      [ decl "a" "1" "Linux64"; decl "b" "1" "Linux64"; decl "b" "2" "Linux64"; decl "c" "1" "Linux64";
        decl "d" "1" "generic"; decl "e" "1" "Linux64" ]
      [ cur "a" "Linux64" "1"; cur "b" "Linux64" "2"; cur "c" "Linux64" "1"; cur "d" "generic" "1";
        cur "e" "Linux64" "1" ] ].
Definition T_diamond : dtables :=
  [ dt "a" "1" [dl "b" (Some "1") false; dl "c" None true; dl "ghost" None true];
    dt "b" "1" [dl "d" None false];
    dt "b" "2" [dl "d" (Some "1") false];
    dt "c" "1" [dl "b" None false];
    dt "d" "1" [dl "e" (Some "1") false];
    dt "e" "1" [] ].

Example composed_hypotheses_inhabited :
  select_vro default_config (mkOpts false false false [] [] false true) = Ok vro_default /\
  dworld_ok db_diamond two_flavors T_diamond /\ vcmp_ok vcmp_simple db_diamond /\
  existsb is_version_like vro_default = true /\ no_just T_diamond /\
  plain_tables (line_vro default_config) vro_default T_diamond /\
  (* the plain listing: depth first, b 1 before c 1, the stub of ghost at the end *)
  dep_products vcmp_simple vmatch_simple default_config two_flavors two_flavors (mkDworld db_diamond T_diamond T_diamond)
               vro_default true 8 (nd "a" "1") false false
  = Ok [ (nd "b" "1", false, 1); (nd "d" "1", false, 2); (nd "e" "1", false, 3); (nd "c" "1", true, 1);
         (nd "b" "2", false, 2); (nd "d" "1", false, 3); (stub "ghost" None, true, 1) ] /\
  (* the topological listing: both versions of b before d, d before e *)
  dep_products vcmp_simple vmatch_simple default_config two_flavors two_flavors (mkDworld db_diamond T_diamond T_diamond)
               vro_default true 8 (nd "a" "1") true false
  = Ok [ (nd "c" "1", true, 2); (nd "b" "1", false, 3); (nd "b" "2", false, 3); (nd "d" "1", false, 4);
         (nd "e" "1", false, 5); (stub "ghost" None, true, 5) ].
Proof.
  split; [vm_compute; reflexivity|].
  split; [apply dworld_ok_b_sound; vm_compute; reflexivity|].
  split; [apply vcmp_ok_b_sound; vm_compute; reflexivity|].
  split; [vm_compute; reflexivity|].
  split; [apply no_just_b_sound; vm_compute; reflexivity|].
  split; [apply plain_tables_b_sound; vm_compute; reflexivity|].
  split; vm_compute; reflexivity.
Qed.

(* the pinned tree looked the pinned names of the second walk up under the running flavor only: d 1, declared under
   generic, becomes a stub there, its edge to e 1 is lost and e 1 is listed BEFORE the product that needs it *)
Example pinned_lookup_refuted_pinned :
  exists l dd de,
    dep_products vcmp_simple vmatch_simple default_config two_flavors [lit "Linux64"]
                 (mkDworld db_diamond T_diamond T_diamond) vro_default true 8 (nd "a" "1") true false = Ok l /\
    step (resolved_world vcmp_simple vmatch_simple default_config db_diamond two_flavors vro_default T_diamond)
         (nd "d" "1") (nd "e" "1") /\
    In (nd "d" "1", false, dd) l /\ In (nd "e" "1", false, de) l /\ de <= dd.
Proof.
  eexists _, _, _. split; [vm_compute; reflexivity|]. split.
  - apply step_edges_iff. exists (dl "e" (Some "1") false). split; [|vm_compute; reflexivity].
    exists [dl "e" (Some "1") false]. split; [vm_compute; reflexivity | left; reflexivity].
  - simpl. intuition.
Qed.

(* a cycle through the top product, from the database and the tables alone: the walk ends, the cycle check raises *)
Definition db_cycle : dbv :=
  [ mkStack (lit "s") [ decl "x" "1" "Linux64"; decl "y" "1" "Linux64" ]
            [ cur "x" "Linux64" "1"; cur "y" "Linux64" "1" ] ].
Definition T_cycle : dtables := [ dt "x" "1" [dl "y" None false]; dt "y" "1" [dl "x" (Some "1") false] ].

Example composed_cycle_is_reported :
  dep_products vcmp_simple vmatch_simple default_config two_flavors two_flavors (mkDworld db_cycle T_cycle T_cycle)
               vro_default true 4 (nd "x" "1") false false = Ok [ (nd "y" "1", false, 1); (nd "y" "1", false, 3) ] /\
  dep_products vcmp_simple vmatch_simple default_config two_flavors two_flavors (mkDworld db_cycle T_cycle T_cycle)
               vro_default true 4 (nd "x" "1") true true = Err Refused.
Proof. split; vm_compute; reflexivity. Qed.

(* a -j line is followed to its product and no further: b 1 is listed, d 1 - reached only through it - is not *)
Example just_line_stops_the_walk :
  dep_products vcmp_simple vmatch_simple default_config two_flavors two_flavors
               (mkDworld db_diamond [ dt "a" "1" [mkDline (lit "b") (Some (lit "1")) None [] false false true];
                                      dt "b" "1" [dl "d" None false]; dt "d" "1" [] ] [])
               vro_default true 5 (nd "a" "1") false false = Ok [ (nd "b" "1", false, 1) ].
Proof. vm_compute. reflexivity. Qed.

(* a -t tag on a line stays in force below it.  top needs m through a line carrying -t beta, and n; m and n both
   need lib without a version; current names lib 1, beta names lib 2.  Under m the bare line denotes lib 2, under
   n lib 1: the table of a product is not one list of edges, plain_tables does not hold. *)
Definition db_tags : dbv :=
  [ mkStack (lit "s")
      [ decl "top" "1" "Linux64"; decl "m" "1" "Linux64"; decl "n" "1" "Linux64"; decl "lib" "1" "Linux64"; decl "lib" "2" "Linux64" ]
      [ cur "top" "Linux64" "1"; cur "m" "Linux64" "1"; cur "n" "Linux64" "1"; cur "lib" "Linux64" "1";
        (lit "lib", lit "Linux64", lit "beta", lit "2") ] ].
Definition T_tags : dtables :=
  [ dt "top" "1" [mkDline (lit "m") None None [lit "beta"] false false false; dl "n" None false];
    dt "m" "1" [dl "lib" None false]; dt "n" "1" [dl "lib" None false]; dt "lib" "1" []; dt "lib" "2" [] ].

Example line_tag_is_inherited :
  plain_tables_b cfg_beta vro_default T_tags = false /\
  dep_products vcmp_simple vmatch_simple cfg_beta two_flavors two_flavors (mkDworld db_tags T_tags T_tags)
               vro_default true 7 (nd "top" "1") false false
  = Ok [ (nd "m" "1", false, 1); (nd "lib" "2", false, 2); (nd "n" "1", false, 1); (nd "lib" "1", false, 2) ].
Proof. split; vm_compute; reflexivity. Qed.

(* ------------------------------------------------------------------ the VRO of a line stays in force below it *)

(* Table.dependencies pushes the VRO of a line (processArgs: its recognised -t tags in front of the VRO in force,
   or the words of its --vro: any function [lvro]), resolves the line, walks the table of the product found and
   only then pops it - as Eups.setup keeps the requested VRO for everything it sets up below the line.  For
   every processArgs function, look-up function, table set, pin list, state and depth: when the walk of a
   table answers and its first line denotes a declared product that is walked (no -j, not met before), the
   table of that product is walked under the VRO OF THE LINE, one level deeper, and its entries follow the entry
   of the line. *)
Theorem line_vro_stays_in_force_below lvro lk lkp T pins fuel vro tp depth l r st es st' ls' :
  dwalk lvro lk lkp T pins (S fuel) vro tp depth (l :: r) st = Ok (es, st') ->
  nreal (dresolve lk lkp pins (lvro vro l) l) = true -> dl_just l = false ->
  mem_node (dresolve lk lkp pins (lvro vro l) l) (vis st) = false ->
  dnode_table T (dresolve lk lkp pins (lvro vro l) l) = Some ls' ->
  exists l1 st2 l2,
    dwalk lvro lk lkp T pins fuel (lvro vro l) (dresolve lk lkp pins (lvro vro l) l) (S depth) ls'
          (pd_ensure (dresolve lk lkp pins (lvro vro l) l) (mark (dresolve lk lkp pins (lvro vro l) l) st)) = Ok (l1, st2) /\
    es = (dresolve lk lkp pins (lvro vro l) l, dl_optional l, depth) :: l1 ++ l2.
Proof. exact (dwalk_line_below lvro lk lkp T pins fuel vro tp depth l r st es st' ls'). Qed.
Print Assumptions line_vro_stays_in_force_below.

(* two levels: top's first line l denotes t, the table of t starts with l2.  The listing of top starts with t
   and then the product l2 denotes under the VRO of l with that of l2 in front - not under the VRO of the
   command: with line_vro, the tags of l2, then the tags of l, then the VRO of the command. *)
Theorem inherited_tag_resolves_below lvro lk lkp T fuel vro top l r l2 r2 es st :
  dnode_table T top = Some (l :: r) ->
  nreal (tgt_of l (lk (lvro vro l) l)) = true -> dl_just l = false ->
  dnode_table T (tgt_of l (lk (lvro vro l) l)) = Some (l2 :: r2) ->
  dwalk_top lvro lk lkp T [] (S (S fuel)) vro top = Ok (es, st) ->
  exists rest, es = (tgt_of l (lk (lvro vro l) l), dl_optional l, 1)
                    :: (tgt_of l2 (lk (lvro (lvro vro l) l2) l2), dl_optional l2, 2) :: rest.
Proof. exact (inherit_two_levels lvro lk lkp T fuel vro top l r l2 r2 es st). Qed.
Print Assumptions inherited_tag_resolves_below.

(* three levels: the VROs of the two lines on the way down are both in force for the third *)
Theorem inherited_tag_resolves_three_levels_below lvro lk lkp T fuel vro top l r l2 r2 l3 r3 es st :
  let lv1 := lvro vro l in let t1 := tgt_of l (lk lv1 l) in
  let lv2 := lvro lv1 l2 in let t2 := tgt_of l2 (lk lv2 l2) in
  dnode_table T top = Some (l :: r) ->
  nreal t1 = true -> dl_just l = false -> dnode_table T t1 = Some (l2 :: r2) ->
  nreal t2 = true -> dl_just l2 = false -> node_eqb t2 t1 = false -> dnode_table T t2 = Some (l3 :: r3) ->
  dwalk_top lvro lk lkp T [] (S (S (S fuel))) vro top = Ok (es, st) ->
  exists rest, es = (t1, dl_optional l, 1) :: (t2, dl_optional l2, 2)
                    :: (tgt_of l3 (lk (lvro lv2 l3) l3), dl_optional l3, 3) :: rest.
Proof. exact (inherit_three_levels lvro lk lkp T fuel vro top l r l2 r2 l3 r3 es st). Qed.
Print Assumptions inherited_tag_resolves_three_levels_below.

(* the hypotheses are inhabited, and the versions are distinguished by the tag: a needs b through a line carrying
   -t beta, b needs c, c needs d - bare lines; current names d 1, beta names d 2; e needs c without a tag.  The
   listing of a holds d 2 three levels below the line, that of e (and of b itself) d 1 *)
Definition db_inherit : dbv :=
  [ mkStack (lit "s")
      [ decl "a" "1" "Linux64"; decl "b" "1" "Linux64"; decl "c" "1" "Linux64"; decl "d" "1" "Linux64";
        decl "d" "2" "Linux64"; decl "e" "1" "Linux64" ]
      [ cur "a" "Linux64" "1"; cur "b" "Linux64" "1"; cur "c" "Linux64" "1"; cur "d" "Linux64" "1"; cur "e" "Linux64" "1";
        (lit "d", lit "Linux64", lit "beta", lit "2") ] ].
Definition T_inherit : dtables :=
  [ dt "a" "1" [mkDline (lit "b") None None [lit "beta"] false false false];
    dt "b" "1" [dl "c" None false]; dt "c" "1" [dl "d" None false]; dt "d" "1" []; dt "d" "2" [];
    dt "e" "1" [dl "c" None false] ].

Example inherited_tag_three_levels_down :
  dep_products vcmp_simple vmatch_simple cfg_beta two_flavors two_flavors (mkDworld db_inherit T_inherit T_inherit)
               vro_default true 7 (nd "a" "1") false false
  = Ok [ (nd "b" "1", false, 1); (nd "c" "1", false, 2); (nd "d" "2", false, 3) ] /\
  dep_products vcmp_simple vmatch_simple cfg_beta two_flavors two_flavors (mkDworld db_inherit T_inherit T_inherit)
               vro_default true 7 (nd "e" "1") false false
  = Ok [ (nd "c" "1", false, 1); (nd "d" "1", false, 2) ] /\
  dep_products vcmp_simple vmatch_simple cfg_beta two_flavors two_flavors (mkDworld db_inherit T_inherit T_inherit)
               vro_default true 7 (nd "b" "1") false false
  = Ok [ (nd "c" "1", false, 1); (nd "d" "1", false, 2) ].
Proof. split; [|split]; vm_compute; reflexivity. Qed.

(* from the TEXT of a table file to the lines the walk reads (Model/DepWalkText.v: the parser of C11, then
   Action.processArgs): version and bracketed expression, a relational version, -j, -t, the branch of the exact
   type, a line passed over (--external), and the implicit product line at the end *)
Definition sample_table : str :=
  lit "setupRequired(b 1.0 [>= 1.0])
setupOptional(c >= 2)
if (type == exact) {
   setupRequired(d -j 1.1)
} else {
   setupRequired(d -t beta)
}
setupRequired(x --external)
envSet(A_DIR, ${PRODUCT_DIR})
".
Definition sample_product : dtext :=
  mkDtext (lit "a") (lit "1") (lit "Linux64") (lit "/s/Linux64/a/1") (lit "/s") sample_table.

Example table_text_to_lines :
  lines_of_text (mkTconfig [lit "exact"] [lit "implicitProducts"]) (lit "Linux64") sample_product
  = Ok [ mkDline (lit "b") (Some (lit "1.0")) (Some (lit ">= 1.0")) [] false false false;
         mkDline (lit "c") (Some (lit ">= 2")) None [] false true false;
         mkDline (lit "d") (Some (lit "1.1")) None [] false false true;
         mkDline (lit "implicitProducts") None None [] false true false ] /\
  lines_of_text (mkTconfig [] [lit "implicitProducts"]) (lit "Linux64") sample_product
  = Ok [ mkDline (lit "b") (Some (lit "1.0")) (Some (lit ">= 1.0")) [] false false false;
         mkDline (lit "c") (Some (lit ">= 2")) None [] false true false;
         mkDline (lit "d") None None [lit "beta"] false false false;
         mkDline (lit "implicitProducts") None None [] false true false ] /\
  (* outside the model: refused, never guessed *)
  dline_of false [lit "q"; lit "--vro"; lit "current"] = Err Refused.
Proof. split; [vm_compute; reflexivity|]. split; vm_compute; reflexivity. Qed.

(* the pinned tree read every table for the RUNNING flavor; Eups.setup reads the table of a product for the flavor
   it was found under.  g 1 is declared under the fall-back flavor generic and its table has a block for that
   flavor: read as setup reads it (fx = true, the repaired code) the dependency on h is there, read for the
   running flavor Linux64 (fx = false, the pinned tree) it is not *)
Definition generic_product : dtext :=
  mkDtext (lit "g") (lit "1") (lit "generic") (lit "/s/generic/g/1") (lit "/s")
          (lit "if (flavor == generic) {
   setupRequired(h)
}
").

Example table_flavor_refuted_pinned :
  dtables_of_text (mkTconfig [] []) true (lit "Linux64") [generic_product]
  = Ok [ ((lit "g", lit "1"), [mkDline (lit "h") None None [] false false false]) ] /\
  dtables_of_text (mkTconfig [] []) false (lit "Linux64") [generic_product] = Ok [ ((lit "g", lit "1"), []) ].
Proof. split; vm_compute; reflexivity. Qed.


(* ------------------------------------------------------------------ the build order of eups distrib *)

(* Model/BuildOrder.v: [create_dependencies fuel w n v] is Distrib.createDependencies(n, v) - the topological
   listing sorted by descending depth (stable), every listed product looked up again, the product itself
   last - as the ordered list of manifest entries (product, optional); [manifest_nodes m] are the products.
   Hypotheses, exactly: the fuel exceeds the number of declared products; the resolved edges agree with the
   declarations (wf_world, established by the correspondence check for every world); for the order, no
   cycle in the closure (or, edge by edge, the two products do not need each other). *)

(* the entries are exactly the product itself and the DECLARED products of its listing, each once: an
   undeclared (unresolved) dependency has nothing to install and is left out when optional *)
Theorem manifest_entries_complete fuel w n v m :
  length w < fuel -> wf_world w ->
  create_dependencies fuel w n v = Ok m ->
  NoDup (manifest_nodes m) /\
  forall q, In q (manifest_nodes m) <->
            q = pnode (n, v) \/ (q <> pnode (n, v) /\ reach_plus w (pnode (n, v)) q /\ nreal q = true).
Proof. exact (manifest_entries fuel w n v m). Qed.
Print Assumptions manifest_entries_complete.

(* the product itself is the last entry, required *)
Theorem manifest_ends_with_the_product fuel w n v m :
  create_dependencies fuel w n v = Ok m -> exists mm, m = mm ++ [(pnode (n, v), false)].
Proof. intros C. destruct (create_dependencies_inv _ _ _ _ _ C) as [_ [l [mm [_ [_ E]]]]]. exists mm. exact E. Qed.
Print Assumptions manifest_ends_with_the_product.

(* every other entry carries the optional flag of the listing (required beats optional) *)
Theorem manifest_entry_flags fuel w n v m q o :
  length w < fuel -> wf_world w ->
  create_dependencies fuel w n v = Ok m -> In (q, o) m ->
  (q = pnode (n, v) /\ o = false) \/
  exists l x, dependent_products fuel w (pnode (n, v)) true = Ok l /\ In x l /\ enode x = q /\ eoptional x = o.
Proof. exact (manifest_flags fuel w n v m q o). Qed.
Print Assumptions manifest_entry_flags.

(* createDependencies of a declared product answers exactly when every unresolved dependency of the listing is
   optional; a required one raises ProductNotFound - never a manifest that silently lacks a required product *)
Theorem manifest_answers_exactly fuel w n v :
  length w < fuel -> wf_world w -> declared w n v = true ->
  exists l, dependent_products fuel w (pnode (n, v)) true = Ok l /\
    ((exists m, create_dependencies fuel w n v = Ok m) <->
     (forall x, In x l -> nreal (enode x) = false -> eoptional x = true)) /\
    ((exists x, In x l /\ nreal (enode x) = false /\ eoptional x = false) ->
     create_dependencies fuel w n v = Err NotFound).
Proof. exact (manifest_answers fuel w n v). Qed.
Print Assumptions manifest_answers_exactly.

(* in the manifest every product comes after all the products of the manifest that its table asks for, unless
   the two need each other (no order exists on a cycle): whatever the closure holds - two versions of one name,
   unresolved stubs, cycles elsewhere *)
Theorem manifest_order_safe_outside_cycles fuel w n v m m1 x m2 y :
  length w < fuel -> wf_world w ->
  create_dependencies fuel w n v = Ok m ->
  m = m1 ++ x :: m2 -> step w (fst x) y -> In y (manifest_nodes m) -> ~ reach_plus w y (fst x) ->
  In y (manifest_nodes m1).
Proof.
  intros Hf Hwf C -> S Iy Nc.
  apply (manifest_order_core fuel w n v _ (manifest_nodes m1) (fst x) (manifest_nodes m2) y Hf Hwf C); auto.
  rewrite manifest_nodes_app. reflexivity.
Qed.
Print Assumptions manifest_order_safe_outside_cycles.

(* on a closure without cycles: every product after ALL of its listed dependencies *)
Theorem manifest_order_safe fuel w n v m m1 x m2 y :
  length w < fuel -> wf_world w -> acyclic_from w (pnode (n, v)) ->
  create_dependencies fuel w n v = Ok m ->
  m = m1 ++ x :: m2 -> step w (fst x) y -> In y (manifest_nodes m) -> In y (manifest_nodes m1).
Proof.
  intros Hf Hwf Ha C E S Iy.
  apply (manifest_order_safe_outside_cycles fuel w n v m m1 x m2 y Hf Hwf C E S Iy).
  apply (acyclic_no_back w (pnode (n, v))); [exact Ha | | exact S].
  apply (manifest_node_in_closure fuel w n v m (fst x) Hf Hwf C).
  rewrite E, manifest_nodes_app. apply in_or_app. right. left. reflexivity.
Qed.
Print Assumptions manifest_order_safe.

(* the install loop: [install_loop w manifest installed todo] installs the products of todo one after the other
   and fails ([Err Refused]) on meeting a product one of whose dependencies is to be installed (is in the manifest)
   and is not in the installed set yet.  Over the manifest, in manifest order, starting from nothing, it never
   fails, and ends with exactly the manifest installed *)
Theorem install_in_manifest_order_succeeds fuel w n v m :
  length w < fuel -> wf_world w -> acyclic_from w (pnode (n, v)) ->
  create_dependencies fuel w n v = Ok m ->
  exists out, install_manifest w m = Ok out /\ forall q, In q out <-> In q (manifest_nodes m).
Proof.
  intros Hf Hwf Ha C. unfold install_manifest.
  apply (install_loop_ok w (manifest_nodes m)) with (pre := []); [|reflexivity|tauto].
  intros M1 p M2 y EM S Iy.
  apply (manifest_order_core fuel w n v m M1 p M2 y Hf Hwf C EM S Iy).
  apply (acyclic_no_back w (pnode (n, v))); [exact Ha | | exact S].
  apply (manifest_node_in_closure fuel w n v m p Hf Hwf C). rewrite EM. apply in_or_app. right. left. reflexivity.
Qed.
Print Assumptions install_in_manifest_order_succeeds.

(* the hypotheses are inhabited: the diamond with a shared sub-tree, an optional edge and an unresolved optional
   dependency (left out of the manifest); d before b and c, e before d, a last *)
Example manifest_of_the_diamond :
  create_dependencies 6 w_diamond (lit "a") (lit "1")
  = Ok [ (nd "e" "1", false); (nd "d" "1", false); (nd "b" "1", false); (nd "c" "2", true); (nd "a" "1", false) ]
  /\ install_manifest w_diamond
       [ (nd "e" "1", false); (nd "d" "1", false); (nd "b" "1", false); (nd "c" "2", true); (nd "a" "1", false) ]
     = Ok [nd "e" "1"; nd "d" "1"; nd "b" "1"; nd "c" "2"; nd "a" "1"]
  /\ install_manifest w_diamond [ (nd "b" "1", false); (nd "d" "1", false) ] = Err Refused.
Proof. vm_compute. auto. Qed.

(* two versions of one name in the closure (D16 on the pinned tree): both are entries, each after its own
   dependencies *)
Example manifest_two_versions :
  create_dependencies 7 w_d16 (lit "p5") (lit "1")
  = Ok [ (nd "p2" "3", false); (nd "p3" "1", false); (nd "p3" "3", false); (nd "p4" "2", false); (nd "p5" "1", false) ].
Proof. vm_compute. reflexivity. Qed.

(* a required dependency that is not declared: ProductNotFound *)
Example manifest_required_stub_refused :
  create_dependencies 3 [ pr "a" "1" [ed "ghost" (Some "1") None false] ] (lit "a") (lit "1") = Err NotFound.
Proof. vm_compute. reflexivity. Qed.

(* ------------------------------------------------------------------ eups list --dependencies *)

(* [cli_lines fuel w top topological check f] are the products eups list --dependencies [--topological]
   [--checkCycles] [--depth f] prints, in order (app.printProducts with the repair of
   proposed_fixes/C13-list-prints-every-version: a product is printed once, keyed by name and version).
   Every line is the product itself or a product of the listing that passes the depth test ... *)
Theorem cli_listing_sound fuel w top topological f L :
  cli_lines fuel w top topological false f = Ok L ->
  exists l, dependent_products fuel w top topological = Ok l /\
    forall q, In q L -> (q = top /\ depth_ok f 0 = true) \/
                        exists x, In x l /\ enode x = q /\ depth_ok f (edepth x) = true.
Proof.
  intros C. destruct (cli_lines_inv _ _ _ _ _ _ C) as [l [D ->]]. exists l. split; [exact D|].
  intros q I. apply in_app_iff in I as [I | I].
  - destruct (depth_ok f 0); [|destruct I]. destruct I as [<- | []]. left. auto.
  - right. apply in_map_iff in I as [x [E I]]. unfold cli_entries, cli_entries_with in I. apply first_of_product_sub in I.
    apply filter_In in I as [I K]. exists x. auto.
Qed.
Print Assumptions cli_listing_sound.

(* ... and without --depth the lines are exactly the product and the products reachable through the table files -
   in both modes, whatever the closure holds (two versions of one name, stubs, cycles) *)
Theorem cli_listing_is_the_closure fuel w top topological L :
  length w < fuel -> wf_world w ->
  cli_lines fuel w top topological false DAll = Ok L ->
  forall q, In q L <-> q = top \/ reach_plus w top q.
Proof.
  intros Hf Hwf C. destruct (cli_lines_inv _ _ _ _ _ _ C) as [l [D ->]]. cbn [depth_ok].
  assert (HL : forall q, In q (map enode l) <-> q <> top /\ reach_plus w top q).
  { destruct topological.
    - apply (walk_complete_topological w top fuel l Hf D).
    - destruct (walk_complete w top fuel Hf) as [l' [D' H']]. rewrite D in D'. inversion D'. subst l'. exact H'. }
  intros q. split.
  - intros [<- | I]; [left; reflexivity|]. right. apply in_map_iff in I as [x [<- I]].
    unfold cli_entries, cli_entries_with in I. apply first_of_product_sub in I. rewrite filter_all in I.
    apply (HL (enode x)). apply in_map, I.
  - intros [-> | R]; [left; reflexivity|].
    destruct (node_eq_dec q top) as [-> | Ne]; [left; reflexivity|]. right.
    assert (I : In q (map enode l)) by (apply HL; auto). apply in_map_iff in I as [x [<- I]].
    unfold cli_entries, cli_entries_with. rewrite filter_all.
    destruct (first_of_product_keys l [] x I) as [[] | [x' [I' E]]].
    assert (Rx' : reach_plus w top (enode x')).
    { apply (HL (enode x')). apply in_map. eapply first_of_product_sub, I'. }
    rewrite <- (listed_key_inj w top _ _ Hwf Rx' R E). apply in_map, I'.
Qed.
Print Assumptions cli_listing_is_the_closure.

(* with --topological the lines are EXACTLY the product followed by the listing, in the order of the listing,
   restricted to the depths that pass the test (the topological listing names every product once already) *)
Theorem cli_listing_exact fuel w top f l :
  length w < fuel -> wf_world w ->
  dependent_products fuel w top true = Ok l ->
  cli_lines fuel w top true false f
  = Ok ((if depth_ok f 0 then [top] else []) ++ map enode (filter (fun x => depth_ok f (edepth x)) l)).
Proof.
  intros Hf Hwf D. unfold cli_lines, cli_lines_with. rewrite D. cbn [andb].
  fold (cli_entries f l). rewrite (cli_entries_exact f l (listing_keys_nodup fuel w top l Hf Hwf D)). reflexivity.
Qed.
Print Assumptions cli_listing_exact.

(* so eups list --dependencies --topological prints, after the product, exactly the products reachable through
   the table files, each once, every product after all the listed products that depend on it (outside cycles) *)
Corollary cli_topological_listing_complete_and_ordered fuel w top l :
  length w < fuel -> wf_world w ->
  dependent_products fuel w top true = Ok l ->
  cli_lines fuel w top true false DAll = Ok (top :: map enode l) /\
  (forall q, In q (map enode l) <-> q <> top /\ reach_plus w top q) /\
  NoDup (map enode l) /\
  (forall l1 y l2 x, l = l1 ++ y :: l2 -> In x l2 -> ~ reach_plus w (enode y) (enode x) -> ~ step w (enode x) (enode y)).
Proof.
  intros Hf Hwf D. split.
  - rewrite (cli_listing_exact fuel w top DAll l Hf Hwf D). cbn [depth_ok app]. rewrite filter_all. reflexivity.
  - destruct (walk_complete_topological w top fuel l Hf D) as [H1 H2]. split; [exact H1|]. split; [exact H2|].
    intros l1 y l2 x El Ix Nc. exact (listed_after_its_users w top fuel l l1 y l2 x Hf Hwf D El Ix Nc).
Qed.
Print Assumptions cli_topological_listing_complete_and_ordered.

(* --checkCycles: a cycle among the products of the closure is refused, nothing is printed *)
Theorem cli_cycle_refused fuel w top topological f g :
  length w < fuel -> wf_world w -> topo_graph fuel w top = Ok g -> proper_cycle w top ->
  cli_lines fuel w top topological true f = Err Refused.
Proof.
  intros Hf Hwf Hg Hc. unfold cli_lines, cli_lines_with. rewrite Hg.
  rewrite (cycle_reported_exactly w top fuel g Hf Hwf Hg Hc). reflexivity.
Qed.
Print Assumptions cli_cycle_refused.

(* The pinned tree keyed its table of printed products by the NAME: of p3 3 and p3 1, both reachable and both in
   the API listing (build_order_two_versions_inhabited), only the first was printed - cli_listing_is_the_closure is
   false of it.  The repaired command prints both. *)
Example cli_one_line_per_name_refuted_pinned :
  cli_lines_pinned 7 w_d16 (nd "p5" "1") true false DAll
  = Ok [nd "p5" "1"; nd "p3" "3"; nd "p4" "2"; nd "p2" "3"] /\
  reach_plus w_d16 (nd "p5" "1") (nd "p3" "1") /\
  cli_lines 7 w_d16 (nd "p5" "1") true false DAll
  = Ok [nd "p5" "1"; nd "p3" "3"; nd "p4" "2"; nd "p2" "3"; nd "p3" "1"].
Proof.
  split; [vm_compute; reflexivity|]. split; [|vm_compute; reflexivity].
  eapply rp_more; [eexists _, (ed "p4" (Some "2") (Some "2") false); split; [reflexivity|]; split; [right; left; reflexivity | reflexivity]|].
  apply rp_one. eexists _, (ed "p3" (Some "1") (Some "1") false). split; [reflexivity|]. split; [left; reflexivity | reflexivity].
Qed.

(* --depth on the diamond: depth <= 2 keeps the product and its direct dependencies of the topological listing *)
Example cli_depth_on_the_diamond :
  cli_lines 6 w_diamond (nd "a" "1") true false (DLe 2) = Ok [nd "a" "1"; nd "b" "1"; nd "c" "2"] /\
  cli_lines 6 w_diamond (nd "a" "1") true false (DGt 2) = Ok [nd "d" "1"; nd "e" "1"; stub "ghost" None].
Proof. vm_compute. auto. Qed.

(* ================================================================== sessions: one long-lived instance *)
(* The database changes between two queries put to ONE Eups instance, and it changes through that instance:
   Eups.assignTag / unassignTag / declare (a new version, or only a tag) / undeclare (Model/UsesSeq.v gives their
   effect on a database of declared products, table lines as written and the chain file current, and the world of
   resolved edges that database denotes).  The property speaks of the listings and of the users for the database as
   it is when the question is asked: whatever an instance remembers from earlier calls (the product cache, Product
   and Table objects, an index of users) must be invisible.  In the model that is a triviality - the listings and
   the index of users have no other argument than the world - and that is the point: the correspondence check puts
   sessions query / change / query to one real instance (and to a fresh one at every step) and compares every answer
   with the model run on the world current at that step, so anything the code keeps across a change shows as a
   difference, and the inverse-relation oracle is evaluated on the real answers of every step. *)

From Eupsv Require Import Model.UsesSeq Proofs.UsesSeq.

(* the listings and the users depend on nothing but the world the database denotes now: two sessions (from any two
   initial databases, through any changes) that lead to the same world get the same answer to every question *)
Theorem uses_is_a_function_of_the_world extra db1 ops1 db2 ops2 q :
  world_after extra db1 ops1 = world_after extra db2 ops2 ->
  answer_on (world_after extra db1 ops1) q = answer_on (world_after extra db2 ops2) q.
Proof. intros E. now rewrite E. Qed.
Print Assumptions uses_is_a_function_of_the_world.

(* the answer an instance gives after a session of questions and changes is the answer on the world the changes lead
   to; the questions asked before leave no trace *)
Theorem session_answer_is_on_the_current_world extra db h q :
  run_session extra db (h ++ [SAsk q]) =
  run_session extra db h ++ [answer_on (world_after extra db (changes_of h)) q].
Proof. apply session_last_answer. Qed.
Print Assumptions session_answer_is_on_the_current_world.

(* every question of every session is answered: no listing and no uses query raises, whatever the changes made the
   database into (two versions of one product reached by one user, cycles, lines that no longer resolve) *)
Theorem session_never_raises extra db h a :
  In a (run_session extra db h) ->
  match a with AUses r => exists us, r = Ok us | ADeps r => exists l, r = Ok l end.
Proof.
  intros I. destruct (session_answers extra db h a I) as [h1 [q [h2 [_ ->]]]]. apply answer_on_ok.
Qed.
Print Assumptions session_never_raises.

(* after any changes, Y is reported as a user of X exactly when Y is declared NOW and a product named X [of that
   version] is in the topological listing Y has NOW ... *)
Theorem uses_inverse_after_changes extra db ops x ov us y :
  let w := world_after extra db ops in
  uses (fuel_of w) w x ov = Ok us ->
  (In y (map cuser us) <->
   In y (map fst w) /\
   exists l, dependent_products (fuel_of w) w (pnode y) true = Ok l /\ exists q, In q (map enode l) /\ matches x ov q).
Proof.
  intros w U. unfold uses in U. destruct (uses_index (fuel_of w) w) as [idx|] eqn:Ei; [|discriminate].
  exact (uses_inverse_listing (fuel_of w) w idx x ov us y Ei U).
Qed.
Print Assumptions uses_inverse_after_changes.

(* ... that is, exactly when Y reaches such a product through the table lines as they resolve NOW *)
Theorem uses_inverse_after_changes_reachability extra db ops x ov us y :
  let w := world_after extra db ops in
  uses (fuel_of w) w x ov = Ok us ->
  (In y (map cuser us) <->
   In y (map fst w) /\ exists q, q <> pnode y /\ reach_plus w (pnode y) q /\ matches x ov q).
Proof.
  intros w U. unfold uses in U. destruct (uses_index (fuel_of w) w) as [idx|] eqn:Ei; [|discriminate].
  exact (uses_inverse_reach (fuel_of w) w idx x ov us y (fuel_of_enough w) Ei U).
Qed.
Print Assumptions uses_inverse_after_changes_reachability.

(* the world of every database is well formed (a resolved edge points at a declared product, an unresolved line with a
   version names no declared one), so the ordering and cycle theorems above apply at every step of every session *)
Theorem session_worlds_wellformed extra db ops :
  extras_plain extra -> wf_world (world_after extra db ops).
Proof. intros Hx. apply world_of_wf, Hx. Qed.
Print Assumptions session_worlds_wellformed.

(* moving the tag current of n to the declared version v (assignTag, or declare with only a tag) changes what the bare
   lines for n denote - they now denote n v - and nothing else: no other line of any table resolves differently *)
Theorem retag_moves_the_bare_lines_only db n v l :
  sdeclared db n v = true ->
  apply_op db (SAssign n v) = apply_op db (SDeclareTag n v) /\
  (tl_name l = n -> tl_vers l = None ->
   resolve_line (apply_op db (SAssign n v)) l = mkEdge n None (Some v) (tl_opt l)) /\
  (tl_name l <> n \/ tl_vers l <> None ->
   resolve_line (apply_op db (SAssign n v)) l = resolve_line db l).
Proof.
  intros D. rewrite (apply_assign_declared db n v D), (apply_declare_tag_declared db n v D).
  split; [reflexivity|]. split.
  - intros Hn Hv. exact (resolve_line_retag_bare db n v l D Hn Hv).
  - intros H. exact (resolve_line_retag_other db n v l H).
Qed.
Print Assumptions retag_moves_the_bare_lines_only.

(* ... so after the move the inverse relation is that of the new edges: every other product whose table holds a bare line
   for n is reported as a user of n v, whatever version it used before *)
Theorem retag_makes_bare_dependents_users extra db n v y ls l us :
  sdeclared db n v = true ->
  lines_of (sd_decl db) (fst y) (snd y) = Some ls -> In l ls -> tl_name l = n -> tl_vers l = None ->
  y <> (n, v) ->
  let w := world_after extra db [SAssign n v] in
  uses (fuel_of w) w n (Some v) = Ok us ->
  In y (map cuser us).
Proof.
  intros D L I Hn Hv Ny w U. unfold w, world_after, db_after in U. cbn [fold_left] in U.
  rewrite (apply_assign_declared db n v D) in U.
  exact (users_after_retag extra db n v y ls l us D L I Hn Hv Ny U).
Qed.
Print Assumptions retag_makes_bare_dependents_users.

(* taking the tag away leaves the bare lines for n unresolved: they are listed as the stub n None *)
Theorem untag_leaves_the_bare_lines_unresolved db n l :
  tl_name l = n -> tl_vers l = None -> resolve_line (untag db n) l = mkEdge n None None (tl_opt l).
Proof. exact (resolve_line_untag_bare db n l). Qed.
Print Assumptions untag_leaves_the_bare_lines_unresolved.

(* a session: x 1 (current), x 2 -> base, y -> x (bare), z -> x 1 and x 2 (two versions of one product) *)
Definition tl (n : string) (v : option string) (o : bool) : tline := mkTL (lit n) (option_map lit v) o.
Definition db_session : sdb :=
  mkSdb [((lit "x", lit "1"), []); ((lit "x", lit "2"), [tl "base" None false]); ((lit "base", lit "1"), []);
         ((lit "y", lit "1"), [tl "x" None false]);
         ((lit "z", lit "1"), [tl "x" (Some "1") false; tl "x" (Some "2") true])]
        [(lit "x", lit "1"); (lit "base", lit "1"); (lit "y", lit "1"); (lit "z", lit "1")].
Definition x_implicit : list edge := [ed "implicitProducts" None None true].
Definition user_names (a : sanswer) : list (string * string) :=
  match a with
  | AUses (Ok us) => map (fun c => (String.string_of_list_ascii (fst (cuser c)), String.string_of_list_ascii (snd (cuser c)))) us
  | _ => []
  end.

(* the users of x 2 and of base before the tag moves, after it moved to x 2 (y now reaches x 2 and base), after it was
   taken away (y lists the stub x None), after x 3 -> base 1 was declared and x 2 undeclared *)
Example session_answers_follow_the_database :
  map user_names
      (run_session x_implicit db_session
         [SAsk (QUses (lit "x") (Some (lit "2"))); SAsk (QUses (lit "base") None);
          SChange (SAssign (lit "x") (lit "2"));
          SAsk (QUses (lit "x") (Some (lit "2"))); SAsk (QUses (lit "base") None);
          SChange (SUnassign (lit "x") None);
          SAsk (QUses (lit "x") (Some (lit "2"))); SAsk (QUses (lit "x") None);
          SChange (SDeclare (lit "x") (lit "3") [tl "base" (Some "1") false] true);
          SChange (SUndeclare (lit "x") (lit "2"));
          SAsk (QUses (lit "base") None); SAsk (QUses (lit "x") (Some (lit "2")))])
  = [ [("z", "1")];                          [("x", "2"); ("z", "1")];
      [("y", "1"); ("z", "1")];              [("x", "2"); ("y", "1"); ("z", "1")];
      [("z", "1")];                          [("y", "1"); ("z", "1"); ("z", "1")];
      [("x", "3"); ("y", "1")];              [("z", "1")] ]%string.
Proof. vm_compute. reflexivity. Qed.

(* an index of users computed before the tag moved is NOT the inverse relation afterwards: it lacks y as a user of x 2,
   which y reaches in the world after the move.  An instance that answered from it would violate the property. *)
Example index_of_the_old_world_refuted :
  let w0 := world_of x_implicit db_session in
  let w1 := world_after x_implicit db_session [SAssign (lit "x") (lit "2")] in
  (exists idx us, uses_index (fuel_of w0) w0 = Ok idx /\ users idx (lit "x") (Some (lit "2")) = Ok us /\
                  ~ In (lit "y", lit "1") (map cuser us)) /\
  step w1 (nd "y" "1") (nd "x" "2") /\
  (exists us, uses (fuel_of w1) w1 (lit "x") (Some (lit "2")) = Ok us /\ In (lit "y", lit "1") (map cuser us)).
Proof.
  split; [|split].
  - eexists _, _. split; [vm_compute; reflexivity|]. split; [vm_compute; reflexivity|].
    simpl. intros [H|[]]. discriminate H.
  - eexists _, (ed "x" None (Some "2") false). split; [vm_compute; reflexivity|]. split; [left; reflexivity | reflexivity].
  - eexists. split; [vm_compute; reflexivity|]. simpl. left. reflexivity.
Qed.
