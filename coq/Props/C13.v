(* C13 - placeholder while the proofs are being written *)
From Eupsv Require Import Base.Base Model.Graph.
Theorem c13_placeholder : True. Proof. exact I. Qed.
Print Assumptions c13_placeholder.
