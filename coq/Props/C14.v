(* C14 - remove deletes exactly what was asked and never something still needed.
   Property theorems only; proofs are short appeals to Proofs/Remove*.v.

   Vocabulary.  [remove_fixed fuel w c st n v recursive check] is Eups.remove(n, v, recursive, checkRecursive)
   of the code with the fixes C14-remove-skip-undeclared and C14-remove-follow-once (Model/Remove.v; the
   pinned tree is [remove_pinned]); it returns the outcome AND the state, because an exception leaves behind
   whatever was done before it.  A state [st] is the reader's view of the database [rdb st] (Model/Db.v:
   [a_decl a s n v f] = (directory, table) of product n version v flavor f in stack s, [a_tag a s n t f] = the
   version tag t names) and the set of paths [rfs st] under the stack root.  [w] is the resolved dependency
   graph of Model/Graph.v (C13): what every table line denotes in the database as it is before the command.
   [c] holds the flavor, the name of the default product and force.

   [asked w n v recursive q]: q is the product named on the command line or, with recursive, a declared
   product that its table files reach in one or more lines ([reach_plus], the relation of C13's walk_complete:
   exactly what getDependentProducts lists - see asked_is_the_listing).
   [doomed w c a n v recursive s n' v' f']: (s, n', v', f') is the declaration that is removed for the asked
   product n' v': flavor of the instance, first stack on the path that declares it ([home]).

   Standing hypotheses: [wf_world w] (C13: a line is resolved to a declared version, an unresolved line names
   no declared version), [default_undeclared w c] (the default product implicitProducts is not declared, as in
   every stack the checks build), the target is declared.  [coherent w c a]: what the world calls declared is
   found in the database.  [wf_dirs a]: installation directories of different declarations are pairwise
   non-nested; [dirs_present]: the directories of the asked products exist. *)
From Eupsv Require Import Base.Base Base.BaseLemmas Model.Graph Model.Db Model.Remove Model.RemoveExt
     Proofs.GraphLib Proofs.GraphWalk Proofs.GraphListing Proofs.GraphOrder
     Proofs.DbLib Proofs.Db Proofs.DbInv
     Proofs.RemoveLib Proofs.RemoveDestroy Proofs.RemoveCollect Proofs.RemoveMain Proofs.RemoveCheck
     Proofs.RemoveExt.
Open Scope string_scope.

(* ------------------------------------------------------------------ exactly what was asked *)

(* When the command ends normally: the declarations that are gone are exactly the doomed ones (the target
   and, with recursive, its whole dependency closure - on every graph: cycles, shared sub-trees, several
   versions of one product, unresolved dependencies); a tag survives exactly when the version it names
   survives; with pairwise non-nested installation directories the paths that are gone are exactly those inside the
   (real) directories of the asked products (without that hypothesis a directory in which a declaration that
   stays is installed is left alone: frame_directories_multi). *)
Theorem removes_exactly fuel w c st n v recursive check st' :
  wf_world w -> default_undeclared w c -> declared w n v = true ->
  remove_fixed fuel w c st n v recursive check = (Ok tt, st') ->
  (forall s n' v' f', doomed w c (rdb st) n v recursive s n' v' f' -> a_decl (rdb st') s n' v' f' = None) /\
  (forall s n' v' f', ~ doomed w c (rdb st) n v recursive s n' v' f' ->
     a_decl (rdb st') s n' v' f' = a_decl (rdb st) s n' v' f') /\
  (forall s n' t f' v', a_tag (rdb st) s n' t f' = Some v' -> doomed w c (rdb st) n v recursive s n' v' f' ->
     a_tag (rdb st') s n' t f' = None) /\
  (forall s n' t f', (forall v', a_tag (rdb st) s n' t f' = Some v' -> ~ doomed w c (rdb st) n v recursive s n' v' f') ->
     a_tag (rdb st') s n' t f' = a_tag (rdb st) s n' t f') /\
  (wf_dirs (rdb st) ->
   forall x, In x (rfs st') <->
     In x (rfs st) /\
     ~ exists q dir, asked w n v recursive q /\ product_dir c (rdb st) q = Some dir /\ placeholder dir = false /\
                     under dir x = true).
Proof.
  intros Hwf Hdef D H. destruct (remove_exact true fuel w c st n v recursive check st' Hwf Hdef D H) as [A [B [C [E F]]]].
  repeat split; auto; apply F; auto.
Qed.
Print Assumptions removes_exactly.

(* the asked set is the target plus what C13's listing (getDependentProducts) holds, restricted to declared
   products: the dependency closure as listed *)
Theorem asked_is_the_listing fuel w n v l q :
  length w < fuel -> dependent_products fuel w (n, Some v, true) false = Ok l ->
  (asked w n v true q <-> q = (n, Some v, true) \/ (In q (map enode l) /\ dnode w q)).
Proof.
  intros Hf Hl. destruct (listing_plain w (n, Some v, true) fuel Hf) as [l' [E HL]].
  rewrite Hl in E. inversion E. subst l'. unfold asked. split.
  - intros [->|[_ [R Dq]]]; [left; reflexivity|].
    destruct (node_eq_dec q (n, Some v, true)) as [->|N]; [left; reflexivity|]. right. split; [apply HL; auto|exact Dq].
  - intros [->|[I Dq]]; [left; reflexivity|]. right. apply HL in I as [_ R]. auto.
Qed.
Print Assumptions asked_is_the_listing.

(* ------------------------------------------------------------------ never something still needed *)

(* With the in-use check and without force: if a product that would be deleted (d) is reached through the
   table files from a declared product that would remain (u), the command is refused and the state is the
   one it started from.  ([uses_index] is Eups.uses(None) of C13; its success is C13's domain.) *)
Theorem refuses_when_needed fuel w c st n v recursive idx d u :
  wf_world w -> default_undeclared w c -> declared w n v = true -> length w + 2 <= fuel ->
  uses_index fuel w = Ok idx -> rc_force c = false ->
  asked w n v recursive d ->
  In u (map fst w) -> ~ asked w n v recursive (pnode u) -> reach_plus w (pnode u) d ->
  remove_fixed fuel w c st n v recursive true = (Err Refused, st).
Proof. exact (remove_refuses_when_needed true fuel w c st n v recursive idx d u). Qed.
Print Assumptions refuses_when_needed.

(* a refusal, whenever it happens, has changed nothing *)
Theorem refusal_changes_nothing fuel w c st n v recursive check st' :
  wf_world w -> default_undeclared w c -> declared w n v = true ->
  remove_fixed fuel w c st n v recursive check = (Err Refused, st') -> st' = st.
Proof. exact (refusal_keeps_state true fuel w c st n v recursive check st'). Qed.
Print Assumptions refusal_changes_nothing.

(* the command refuses only when the in-use check is on and force is off.  (The converse of
   refuses_when_needed is NOT a theorem and not demanded by the property: the code excludes only the product
   named on the command line from the users, so it also refuses when the only other users are themselves being
   removed - over_cautious_refusal_observed below.) *)
Theorem refusal_only_with_check fuel w c st n v recursive check st' :
  wf_world w -> default_undeclared w c -> declared w n v = true -> length w + 2 <= fuel ->
  (check = true -> exists idx, uses_index fuel w = Ok idx) ->
  remove_fixed fuel w c st n v recursive check = (Err Refused, st') -> check = true /\ rc_force c = false.
Proof. exact (RemoveMain.refusal_only_with_check true fuel w c st n v recursive check st'). Qed.
Print Assumptions refusal_only_with_check.

(* every error is raised before the first write: no exception leaves a partly removed stack behind (the
   pinned tree fails this: partial_removal_refuted_pinned) *)
Theorem error_changes_nothing fuel w c st n v recursive check e st' :
  wf_world w -> default_undeclared w c -> declared w n v = true ->
  coherent w c (rdb st) -> wf_dirs (rdb st) -> dirs_present w c st n v recursive ->
  remove_fixed fuel w c st n v recursive check = (Err e, st') -> st' = st.
Proof. exact (error_keeps_state true fuel w c st n v recursive check e st'). Qed.
Print Assumptions error_changes_nothing.

(* without the in-use check, or with force, the command ends normally on every graph: the fuel |w| + 2 is
   enough whatever cycles the tables form, and removes_exactly then says what has gone *)
Theorem remove_completes fuel w c st n v recursive check :
  wf_world w -> default_undeclared w c -> declared w n v = true -> length w + 2 <= fuel ->
  (check = true -> exists idx, uses_index fuel w = Ok idx) ->
  check = false \/ rc_force c = true ->
  coherent w c (rdb st) -> wf_dirs (rdb st) -> dirs_present w c st n v recursive ->
  exists st', remove_fixed fuel w c st n v recursive check = (Ok tt, st').
Proof. exact (RemoveMain.remove_completes true fuel w c st n v recursive check). Qed.
Print Assumptions remove_completes.

(* ------------------------------------------------------------------ frame *)

(* Whatever the outcome (normal end, refusal, any error): a declaration that is not doomed is as before, a tag
   that names no doomed version is as before, no path appears, and a path that lies in none of the asked
   products' directories stays. *)
Theorem frame fuel w c st n v recursive check res st' :
  wf_world w -> default_undeclared w c -> declared w n v = true ->
  remove_fixed fuel w c st n v recursive check = (res, st') ->
  (forall s n' v' f', ~ doomed w c (rdb st) n v recursive s n' v' f' ->
     a_decl (rdb st') s n' v' f' = a_decl (rdb st) s n' v' f') /\
  (forall s n' t f', (forall v', a_tag (rdb st) s n' t f' = Some v' -> ~ doomed w c (rdb st) n v recursive s n' v' f') ->
     a_tag (rdb st') s n' t f' = a_tag (rdb st) s n' t f') /\
  (forall x, In x (rfs st') -> In x (rfs st)) /\
  (forall x, In x (rfs st) ->
     (forall q dir, asked w n v recursive q -> product_dir c (rdb st) q = Some dir -> placeholder dir = false ->
                    under dir x = false) ->
     In x (rfs st')).
Proof. exact (remove_frame true fuel w c st n v recursive check res st'). Qed.
Print Assumptions frame.

(* with pairwise non-nested installation directories: the whole directory of every surviving declaration
   is untouched, whatever the outcome *)
Theorem frame_directories fuel w c st n v recursive check res st' s0 m u f0 rs :
  wf_world w -> default_undeclared w c -> declared w n v = true -> wf_dirs (rdb st) ->
  remove_fixed fuel w c st n v recursive check = (res, st') ->
  a_decl (rdb st) s0 m u f0 = Some rs -> placeholder (fst rs) = false ->
  ~ doomed w c (rdb st) n v recursive s0 m u f0 ->
  forall x, under (fst rs) x = true -> (In x (rfs st') <-> In x (rfs st)).
Proof. exact (remove_frame_dirs true fuel w c st n v recursive check res st' s0 m u f0 rs). Qed.
Print Assumptions frame_directories.

(* ------------------------------------------------------------------ witnesses *)

Definition ed (n : string) (v r : option string) (o : bool) : edge :=
  mkEdge (lit n) (option_map lit v) (option_map lit r) o.
(* every table ends with the silent optional dependency on the undeclared default product *)
Definition imp : edge := ed "implicitProducts" None None true.
Definition pr (n v : string) (es : list edge) : (str * str) * list edge := ((lit n, lit v), es ++ [imp]).
Definition nd (n v : string) : node := (lit n, Some (lit v), true).
Definition S0 : str := lit "S".
Definition linux : str := lit "Linux64".
Definition pdir (n v : string) : str := lit "/S/" ++ lit n ++ lit "/" ++ lit v.
Definition dk (n v : string) : dkey * vrec :=
  ((S0, lit n, lit v, linux), (pdir n v, pdir n v ++ lit "/ups/" ++ lit n ++ lit ".table")).
Definition tg (n t v : string) : dkey * str := ((S0, lit n, lit t, linux), lit v).
Definition paths (n v : string) : list str :=
  [lit "/S/" ++ lit n; pdir n v; pdir n v ++ lit "/ups"; pdir n v ++ lit "/ups/" ++ lit n ++ lit ".table"].
Definition conf (force : bool) : rconf := mkRC linux (lit "implicitProducts") force.

(* a 1 needs b, c and the optional ghost (not installed); b and c both need d; the bystander x needs d too.
   d carries two tags. *)
Definition w_ex : world :=
  [ pr "a" "1" [ed "b" None (Some "1") false; ed "ghost" None None true; ed "c" (Some "1") (Some "1") false];
    pr "b" "1" [ed "d" None (Some "1") false];
    pr "c" "1" [ed "d" None (Some "1") true];
    pr "d" "1" [];
    pr "x" "1" [ed "d" (Some "1") (Some "1") false] ].
Definition st_ex : rstate :=
  mkR (mkAdb [S0] [dk "a" "1"; dk "b" "1"; dk "c" "1"; dk "d" "1"; dk "x" "1"]
             [tg "a" "current" "1"; tg "b" "current" "1"; tg "c" "current" "1"; tg "d" "current" "1";
              tg "d" "stable" "1"; tg "x" "current" "1"])
      (paths "a" "1" ++ paths "b" "1" ++ paths "c" "1" ++ paths "d" "1" ++ paths "x" "1").

(* the hypotheses of the theorems are inhabited by this state ... *)
Example hypotheses_inhabited :
  wf_world w_ex /\ default_undeclared w_ex (conf false) /\ coherent w_ex (conf false) (rdb st_ex) /\
  wf_dirs (rdb st_ex) /\ dirs_present w_ex (conf false) st_ex (lit "a") (lit "1") true /\
  declared w_ex (lit "a") (lit "1") = true /\ length w_ex + 2 <= 7 /\
  (exists idx, uses_index 7 w_ex = Ok idx) /\
  asked w_ex (lit "a") (lit "1") true (nd "d" "1") /\ ~ asked w_ex (lit "a") (lit "1") true (nd "x" "1").
Proof.
  assert (Hwf : wf_world w_ex) by (apply wf_world_by_computation; vm_compute; reflexivity).
  split; [exact Hwf|].
  split; [apply default_undeclared_by_computation; vm_compute; reflexivity|].
  split; [apply coherent_by_computation; vm_compute; reflexivity|].
  split; [apply wf_dirs_by_computation; vm_compute; reflexivity|].
  split; [apply dirs_present_by_computation; vm_compute; reflexivity|].
  split; [vm_compute; reflexivity|]. split; [vm_compute; repeat constructor|].
  split; [eexists; vm_compute; reflexivity|].
  assert (D : declared w_ex (lit "a") (lit "1") = true) by (vm_compute; reflexivity).
  split.
  - apply (proj2 (asked_dpath _ _ _ _ _ Hwf D)). right. split; [reflexivity|].
    apply dp_step with (q := nd "b" "1"); [vm_compute; auto|]. apply dp_step with (q := nd "d" "1"); [vm_compute; auto|]. apply dp_refl.
  - intro A.
    (* the completed recursive removal keeps x: were x asked, removes_exactly would have it gone *)
    destruct (removes_exactly 7 w_ex (conf false) st_ex (lit "a") (lit "1") true false
                (snd (remove_fixed 7 w_ex (conf false) st_ex (lit "a") (lit "1") true false)) Hwf) as [G _].
    + apply default_undeclared_by_computation; vm_compute; reflexivity.
    + exact D.
    + vm_compute. reflexivity.
    + specialize (G S0 (lit "x") (lit "1") linux). assert (Hd : doomed w_ex (conf false) (rdb st_ex) (lit "a") (lit "1") true S0 (lit "x") (lit "1") linux).
      { split; [reflexivity|]. split; [exact A|]. vm_compute. reflexivity. }
      specialize (G Hd). vm_compute in G. discriminate G.
Qed.

(* ... on which remove -R a 1 without the in-use check removes a, b, c, d and keeps x with its tag and tree;
   with the check it is refused because x, which stays, needs d; with the check and force it goes through *)
Example remove_recursive_example :
  (let '(r, s) := remove_fixed 7 w_ex (conf false) st_ex (lit "a") (lit "1") true false in
   (r, adecls (rdb s), atags (rdb s), rfs s))
  = (Ok tt, [dk "x" "1"], [tg "x" "current" "1"],
     [lit "/S/a"; lit "/S/b"; lit "/S/c"; lit "/S/d"] ++ paths "x" "1")
  /\ remove_fixed 7 w_ex (conf false) st_ex (lit "a") (lit "1") true true = (Err Refused, st_ex)
  /\ fst (remove_fixed 7 w_ex (conf true) st_ex (lit "a") (lit "1") true true) = Ok tt
  /\ remove_fixed 7 w_ex (conf false) st_ex (lit "d") (lit "1") false true = (Err Refused, st_ex).
Proof. split; [vm_compute; reflexivity|]. split; [vm_compute; reflexivity|]. split; vm_compute; reflexivity. Qed.

(* D12 on the pinned tree: a 1 needs b and c, both need d.  Without the check (or with force) the removal list
   is a, b, d, implicitProducts-stub, c: a, b and d are undeclared and deleted, undeclare(stub) raises
   ProductNotFound, and c - which needs the deleted d - is left behind.  With the fix all four go. *)
Definition w_diamond : world :=
  [ pr "a" "1" [ed "b" None (Some "1") false; ed "c" None (Some "1") false];
    pr "b" "1" [ed "d" None (Some "1") false];
    pr "c" "1" [ed "d" None (Some "1") false];
    pr "d" "1" [] ].
Definition st_diamond : rstate :=
  mkR (mkAdb [S0] [dk "a" "1"; dk "b" "1"; dk "c" "1"; dk "d" "1"]
             [tg "a" "current" "1"; tg "b" "current" "1"; tg "c" "current" "1"; tg "d" "current" "1"])
      (paths "a" "1" ++ paths "b" "1" ++ paths "c" "1" ++ paths "d" "1").

Example partial_removal_refuted_pinned :
  (let '(r, s) := remove_pinned 6 w_diamond (conf false) st_diamond (lit "a") (lit "1") true false in
   (r, adecls (rdb s), atags (rdb s), rfs s))
  = (Err NotFound, [dk "c" "1"], [tg "c" "current" "1"],
     [lit "/S/a"; lit "/S/b"] ++ paths "c" "1" ++ [lit "/S/d"])
  /\ (let '(r, s) := remove_fixed 6 w_diamond (conf false) st_diamond (lit "a") (lit "1") true false in
      (r, adecls (rdb s), atags (rdb s)))
     = (Ok tt, [], []).
Proof. split; vm_compute; reflexivity. Qed.

(* an optional dependency that is not installed: the pinned tree raises ProductNotFound while collecting
   (nothing can be removed recursively); with the fix the dependency is skipped *)
Example uninstalled_optional_refuted_pinned :
  remove_pinned 7 w_ex (conf false) st_ex (lit "a") (lit "1") true false = (Err NotFound, st_ex)
  /\ fst (remove_fixed 7 w_ex (conf false) st_ex (lit "a") (lit "1") true false) = Ok tt.
Proof. split; vm_compute; reflexivity. Qed.

(* a dependency cycle: the pinned tree recurses for ever (RecursionError, here any fuel runs out); a product
   that depends on another version of itself: the pinned recursion is cut by name and c stays although a 1
   reaches it ([remove true false] = only the first fix).  With both fixes everything asked goes. *)
Definition w_cycle : world :=
  [ pr "a" "1" [ed "b" None (Some "1") false]; pr "b" "1" [ed "a" None (Some "1") false; ed "c" None (Some "1") false];
    pr "c" "1" [] ].
Definition st_cycle : rstate :=
  mkR (mkAdb [S0] [dk "a" "1"; dk "b" "1"; dk "c" "1"] []) (paths "a" "1" ++ paths "b" "1" ++ paths "c" "1").
Definition w_samename : world :=
  [ pr "a" "1" [ed "a" (Some "2") (Some "2") false]; pr "a" "2" [ed "c" None (Some "1") false]; pr "c" "1" [] ].
Definition st_samename : rstate :=
  mkR (mkAdb [S0] [dk "a" "1"; dk "a" "2"; dk "c" "1"] [tg "a" "current" "2"])
      (paths "a" "1" ++ paths "a" "2" ++ paths "c" "1").

Example recursion_refuted_pinned :
  remove true false false 50 w_cycle (conf false) st_cycle (lit "a") (lit "1") true false = (Err OutOfFuel, st_cycle)
  /\ (let '(r, s) := remove_fixed 5 w_cycle (conf false) st_cycle (lit "a") (lit "1") true false in (r, adecls (rdb s)))
     = (Ok tt, [])
  /\ (let '(r, s) := remove true false false 5 w_samename (conf false) st_samename (lit "a") (lit "1") true false in
      (r, adecls (rdb s))) = (Ok tt, [dk "c" "1"])
  /\ (let '(r, s) := remove_fixed 5 w_samename (conf false) st_samename (lit "a") (lit "1") true false in
      (r, adecls (rdb s), atags (rdb s))) = (Ok tt, [], []).
Proof. split; [vm_compute; reflexivity|]. split; [vm_compute; reflexivity|]. split; vm_compute; reflexivity. Qed.

(* observed behaviour, not a defect: in the chain a -> b -> c the check finds that c is used by b and refuses
   remove -R a 1, although b is being removed too and nothing that stays needs anything; nothing changes *)
Definition w_chain : world :=
  [ pr "a" "1" [ed "b" None (Some "1") false]; pr "b" "1" [ed "c" None (Some "1") false]; pr "c" "1" [] ].
Example over_cautious_refusal_observed :
  remove_fixed 5 w_chain (conf false) st_cycle (lit "a") (lit "1") true true = (Err Refused, st_cycle)
  /\ forall u, In u (map fst w_chain) -> asked w_chain (lit "a") (lit "1") true (pnode u).
Proof.
  split; [vm_compute; reflexivity|].
  assert (Hwf : wf_world w_chain) by (apply wf_world_by_computation; vm_compute; reflexivity).
  assert (D : declared w_chain (lit "a") (lit "1") = true) by (vm_compute; reflexivity).
  intros u [<-|[<-|[<-|[]]]]; apply (proj2 (asked_dpath _ _ _ _ _ Hwf D)).
  - left. reflexivity.
  - right. split; [reflexivity|]. apply dp_step with (q := nd "b" "1"); [vm_compute; auto|]. apply dp_refl.
  - right. split; [reflexivity|]. apply dp_step with (q := nd "b" "1"); [vm_compute; auto|].
    apply dp_step with (q := nd "c" "1"); [vm_compute; auto|]. apply dp_refl.
Qed.


(* ================================================================== the whole command (extension)

   [remove_x xall keep fuel ww wu c st k answers] (Model/RemoveExt.v) is Eups.remove as the command line calls it:
   [k] holds product, version, recursive, checkRecursive and interactive; [answers] are the lines standard
   input holds; the state is keyed by stack and flavor and holds the paths of every stack.  Two resolved
   worlds: [ww] is what _remove walks (running flavor, first stack on the path, that declaration's table), [wu]
   what Eups.uses reads (every declaration in every stack, running flavor and fall-back flavors).
   [xall = true] is the code with the fix C14-remove-other-declarations, [false] the pinned tree.
   [eups_remove] puts the option handling of RemoveCmd.execute in front.
   [gone c a sel s n v f]: (s, n, v, f) is the declaration removed for a product of the list [sel]: running
   flavor, first stack on the path that declares it.  [select i order dflt answers]: the products of the
   removal list the answers say yes to, and how the questioning ends. *)

(* the front end: what the options become; fewer than two arguments touch nothing *)
Theorem front_end_exact xall keep fuel ww wu flavor dp st o p v rest answers :
  eups_remove xall keep fuel ww wu flavor dp st o (p :: v :: rest) answers =
  Some (remove_x xall keep fuel ww wu (mkRC flavor dp (ro_force o)) st
          (mkCall p v (ro_recursive o) (negb (ro_nocheck o))
                  (match ro_interactive o with Some b => b | None => false end)) answers).
Proof. exact (RemoveExt.front_end_exact xall keep fuel ww wu flavor dp st o p v rest answers). Qed.
Print Assumptions front_end_exact.

Theorem front_end_usage xall keep fuel ww wu flavor dp st o args answers :
  length args < 2 -> eups_remove xall keep fuel ww wu flavor dp st o args answers = None.
Proof. exact (RemoveExt.front_end_usage xall keep fuel ww wu flavor dp st o args answers). Qed.
Print Assumptions front_end_usage.

(* one declaration of the product named, no questions, one world: the command of the theorems above *)
Theorem whole_command_conservative xall keep fuel w c st n v recursive chk answers :
  (xall = true -> chk = true -> length (decl_places c (rdb st) n v) <= 1) ->
  remove_x xall keep fuel w w c st (mkCall n v recursive chk false) answers = remove true true keep fuel w c st n v recursive chk.
Proof. exact (remove_x_is_remove_fixed xall keep fuel w c st n v recursive chk answers). Qed.
Print Assumptions whole_command_conservative.

(* removes_exactly over the extended state: declarations of every stack and flavor, tags of every stack, paths
   of every stack and outside; without questions *)
Theorem removes_exactly_multi xall keep fuel ww wu c st k answers st' :
  wf_world ww -> default_undeclared ww c -> declared ww (k_name k) (k_version k) = true ->
  k_interactive k = false ->
  remove_x xall keep fuel ww wu c st k answers = (Ok tt, st') ->
  let n := k_name k in let v := k_version k in let recursive := k_recursive k in
  (forall s n' v' f', doomed ww c (rdb st) n v recursive s n' v' f' -> a_decl (rdb st') s n' v' f' = None) /\
  (forall s n' v' f', ~ doomed ww c (rdb st) n v recursive s n' v' f' ->
     a_decl (rdb st') s n' v' f' = a_decl (rdb st) s n' v' f') /\
  (forall s n' t f' v', a_tag (rdb st) s n' t f' = Some v' -> doomed ww c (rdb st) n v recursive s n' v' f' ->
     a_tag (rdb st') s n' t f' = None) /\
  (forall s n' t f', (forall v', a_tag (rdb st) s n' t f' = Some v' -> ~ doomed ww c (rdb st) n v recursive s n' v' f') ->
     a_tag (rdb st') s n' t f' = a_tag (rdb st) s n' t f') /\
  (keep = false \/ wf_dirs (rdb st) ->
   forall x, In x (rfs st') <->
     In x (rfs st) /\
     ~ exists q dir, asked ww n v recursive q /\ product_dir c (rdb st) q = Some dir /\ placeholder dir = false /\
                     under dir x = true).
Proof. exact (remove_x_exact_plain xall keep fuel ww wu c st k answers st'). Qed.
Print Assumptions removes_exactly_multi.

(* with questions: the set removed is a function of the answers.  There is a duplicate-free list of exactly the
   asked products (the order in which they are asked about) such that what has gone - declarations, their tags,
   their directories - is exactly what the answers select from it, whether the command ran to the end or
   was ended with q *)
Theorem removes_exactly_interactive xall keep fuel ww wu c st k answers st' :
  wf_world ww -> default_undeclared ww c -> declared ww (k_name k) (k_version k) = true ->
  remove_x xall keep fuel ww wu c st k answers = (Ok tt, st') ->
  exists order, NoDup order /\
    (forall q, In q order <-> asked ww (k_name k) (k_version k) (k_recursive k) q) /\
    let sel := fst (select (k_interactive k) order ans_y answers) in
    (forall s n' v' f', gone c (rdb st) sel s n' v' f' -> a_decl (rdb st') s n' v' f' = None) /\
    (forall s n' v' f', ~ gone c (rdb st) sel s n' v' f' -> a_decl (rdb st') s n' v' f' = a_decl (rdb st) s n' v' f') /\
    (forall s n' t f' v', a_tag (rdb st) s n' t f' = Some v' -> gone c (rdb st) sel s n' v' f' ->
       a_tag (rdb st') s n' t f' = None) /\
    (forall s n' t f', (forall v', a_tag (rdb st) s n' t f' = Some v' -> ~ gone c (rdb st) sel s n' v' f') ->
       a_tag (rdb st') s n' t f' = a_tag (rdb st) s n' t f') /\
    (keep = false \/ wf_dirs (rdb st) ->
     forall x, In x (rfs st') <->
       In x (rfs st) /\
       ~ exists q dir, In q sel /\ product_dir c (rdb st) q = Some dir /\ placeholder dir = false /\ under dir x = true).
Proof. exact (remove_x_exact xall keep fuel ww wu c st k answers st'). Qed.
Print Assumptions removes_exactly_interactive.

(* what the answers can select: only products of the list; nothing is asked after the exclamation mark, which
   selects everything that is left; without -i everything *)
Theorem answers_select_from_the_list i order dflt answers x :
  In x (fst (select i order dflt answers)) -> In x order.
Proof. exact (select_incl i order dflt answers x). Qed.
Print Assumptions answers_select_from_the_list.

Theorem answer_all_selects_the_rest order answers : select true order ans_all answers = (order, Done).
Proof. exact (select_after_all order answers). Qed.
Print Assumptions answer_all_selects_the_rest.

(* frame over the extended state, whatever the outcome and whatever the answers: a declaration of another stack
   or flavor (or any that is not doomed) is as before, so are the tags that name no doomed version, no path
   appears, and a path in none of the asked products' directories stays *)
Theorem frame_multi xall keep fuel ww wu c st k answers res st' :
  wf_world ww -> default_undeclared ww c -> declared ww (k_name k) (k_version k) = true ->
  remove_x xall keep fuel ww wu c st k answers = (res, st') ->
  (forall s n' v' f', ~ doomed ww c (rdb st) (k_name k) (k_version k) (k_recursive k) s n' v' f' ->
     a_decl (rdb st') s n' v' f' = a_decl (rdb st) s n' v' f') /\
  (forall s n' t f', (forall v', a_tag (rdb st) s n' t f' = Some v' ->
                                 ~ doomed ww c (rdb st) (k_name k) (k_version k) (k_recursive k) s n' v' f') ->
     a_tag (rdb st') s n' t f' = a_tag (rdb st) s n' t f') /\
  (forall x, In x (rfs st') -> In x (rfs st)) /\
  (forall x, In x (rfs st) ->
     (forall q dir, asked ww (k_name k) (k_version k) (k_recursive k) q -> product_dir c (rdb st) q = Some dir ->
                    placeholder dir = false -> under dir x = false) ->
     In x (rfs st')).
Proof. exact (remove_x_frame xall keep fuel ww wu c st k answers res st'). Qed.
Print Assumptions frame_multi.

(* a declaration is doomed only under the running flavor and only in the first stack that declares the
   version: every declaration for another flavor, and every declaration a nearer stack shadows, is in the frame *)
Theorem other_flavor_and_shadowed_not_doomed ww c a n v recursive s n' v' f' :
  doomed ww c a n v recursive s n' v' f' -> f' = rc_flavor c /\ home c a n' v' = Some s.
Proof. intros [Hf [_ Hh]]. auto. Qed.
Print Assumptions other_flavor_and_shadowed_not_doomed.

(* the installation directory of a declaration that stays, with the fix C14-remove-keeps-shared-directory and
   with NO hypothesis about nesting or sharing: a path is as before unless it lies in the own directory of an asked
   product that does not hold the survivor's directory - a directory that was asked to be deleted and sits
   strictly inside the survivor's.  (The survivor is one that Eups._findDeclarations sees: a stack of the path, the
   running flavor or a fall-back flavor.) *)
Theorem frame_directories_multi xall fuel ww wu c st k answers res st' s0 m u f0 rs :
  wf_world ww -> default_undeclared ww c -> declared ww (k_name k) (k_version k) = true ->
  remove_x xall true fuel ww wu c st k answers = (res, st') ->
  a_decl (rdb st) s0 m u f0 = Some rs -> In s0 (apath (rdb st)) -> In f0 (fallbacks (rc_flavor c)) ->
  placeholder (fst rs) = false ->
  ~ doomed ww c (rdb st) (k_name k) (k_version k) (k_recursive k) s0 m u f0 ->
  forall x,
    (forall q dir, asked ww (k_name k) (k_version k) (k_recursive k) q -> product_dir c (rdb st) q = Some dir ->
                   placeholder dir = false -> under dir x = true -> under dir (fst rs) = true) ->
    (In x (rfs st') <-> In x (rfs st)).
Proof. exact (remove_x_frame_dirs_kept xall fuel ww wu c st k answers res st' s0 m u f0 rs). Qed.
Print Assumptions frame_directories_multi.

(* when no asked product is installed strictly inside it, the survivor's whole directory is as before - be it shared
   with a removed product, or inside a removed product's directory *)
Theorem frame_directories_multi_whole xall fuel ww wu c st k answers res st' s0 m u f0 rs :
  wf_world ww -> default_undeclared ww c -> declared ww (k_name k) (k_version k) = true ->
  remove_x xall true fuel ww wu c st k answers = (res, st') ->
  a_decl (rdb st) s0 m u f0 = Some rs -> In s0 (apath (rdb st)) -> In f0 (fallbacks (rc_flavor c)) ->
  placeholder (fst rs) = false ->
  ~ doomed ww c (rdb st) (k_name k) (k_version k) (k_recursive k) s0 m u f0 ->
  (forall q dir, asked ww (k_name k) (k_version k) (k_recursive k) q -> product_dir c (rdb st) q = Some dir ->
                 placeholder dir = false -> under (fst rs) dir = true -> under dir (fst rs) = true) ->
  forall x, under (fst rs) x = true -> (In x (rfs st') <-> In x (rfs st)).
Proof. exact (remove_x_survivor_dir_whole xall fuel ww wu c st k answers res st' s0 m u f0 rs). Qed.
Print Assumptions frame_directories_multi_whole.

(* the SAME name, version and flavor declared in another stack of the path with the same installation (eups declare
   -r dir in a team stack and in a personal stack): the command removes the declaration of the first stack that has
   the version ([home]); the declaration of stack s0 stays, and when it is installed in the very directory of the
   removed one, or inside it, its whole directory is as before.  The model tells declarations apart by stack:
   [in_use] looks every (stack, name, version, flavor) up in the database as it is after the undeclare, so the twin of
   the product that has just gone still counts (Product equality of the code sees name, version and flavor only). *)
Theorem same_product_other_stack_keeps_directory xall fuel ww wu c st k answers res st' s0 rs hd :
  wf_world ww -> default_undeclared ww c -> declared ww (k_name k) (k_version k) = true ->
  remove_x xall true fuel ww wu c st k answers = (res, st') ->
  k_recursive k = false ->
  a_decl (rdb st) s0 (k_name k) (k_version k) (rc_flavor c) = Some rs -> In s0 (apath (rdb st)) ->
  home c (rdb st) (k_name k) (k_version k) <> Some s0 ->
  placeholder (fst rs) = false ->
  product_dir c (rdb st) (k_name k, Some (k_version k), true) = Some hd -> under hd (fst rs) = true ->
  a_decl (rdb st') s0 (k_name k) (k_version k) (rc_flavor c) = Some rs /\
  forall x, under (fst rs) x = true -> (In x (rfs st') <-> In x (rfs st)).
Proof.
  intros Hwf Hdu Hd Hrun Hrec Hs0 Hin Hhome Hph Hhd Hu.
  assert (ND : ~ doomed ww c (rdb st) (k_name k) (k_version k) (k_recursive k) s0 (k_name k) (k_version k) (rc_flavor c)).
  { intros [_ [_ Hh]]. exact (Hhome Hh). }
  split.
  - rewrite <- Hs0. exact (proj1 (remove_x_frame xall true fuel ww wu c st k answers res st' Hwf Hdu Hd Hrun) _ _ _ _ ND).
  - apply (remove_x_survivor_dir_whole xall fuel ww wu c st k answers res st' s0 (k_name k) (k_version k) (rc_flavor c) rs
             Hwf Hdu Hd Hrun Hs0 Hin (or_introl eq_refl) Hph ND).
    intros q dir [->|[R _]] PD _ _; [|rewrite Hrec in R; discriminate R].
    rewrite Hhd in PD. injection PD as <-. exact Hu.
Qed.
Print Assumptions same_product_other_stack_keeps_directory.

(* recursive or not: the twin in stack s0 of ANY asked product (the one named, or a dependency that goes with -R)
   keeps its whole directory, provided no asked product is installed strictly inside it (that one was asked to go) *)
Theorem same_product_other_stack_keeps_directory_recursive xall fuel ww wu c st k answers res st' s0 n' v' rs :
  wf_world ww -> default_undeclared ww c -> declared ww (k_name k) (k_version k) = true ->
  remove_x xall true fuel ww wu c st k answers = (res, st') ->
  asked ww (k_name k) (k_version k) (k_recursive k) (n', Some v', true) ->
  a_decl (rdb st) s0 n' v' (rc_flavor c) = Some rs -> In s0 (apath (rdb st)) ->
  home c (rdb st) n' v' <> Some s0 ->
  placeholder (fst rs) = false ->
  (forall q dir, asked ww (k_name k) (k_version k) (k_recursive k) q -> product_dir c (rdb st) q = Some dir ->
                 placeholder dir = false -> under (fst rs) dir = true -> under dir (fst rs) = true) ->
  a_decl (rdb st') s0 n' v' (rc_flavor c) = Some rs /\
  forall x, under (fst rs) x = true -> (In x (rfs st') <-> In x (rfs st)).
Proof.
  intros Hwf Hdu Hd Hrun _ Hs0 Hin Hhome Hph Hins.
  assert (ND : ~ doomed ww c (rdb st) (k_name k) (k_version k) (k_recursive k) s0 n' v' (rc_flavor c)).
  { intros [_ [_ Hh]]. exact (Hhome Hh). }
  split.
  - rewrite <- Hs0. exact (proj1 (remove_x_frame xall true fuel ww wu c st k answers res st' Hwf Hdu Hd Hrun) _ _ _ _ ND).
  - exact (remove_x_survivor_dir_whole xall fuel ww wu c st k answers res st' s0 n' v' (rc_flavor c) rs
             Hwf Hdu Hd Hrun Hs0 Hin (or_introl eq_refl) Hph ND Hins).
Qed.
Print Assumptions same_product_other_stack_keeps_directory_recursive.

(* the statement under pairwise non-nested directories holds for the tree before that fix too *)
Theorem frame_directories_multi_nonnested xall keep fuel ww wu c st k answers res st' s0 m u f0 rs :
  wf_world ww -> default_undeclared ww c -> declared ww (k_name k) (k_version k) = true -> wf_dirs (rdb st) ->
  remove_x xall keep fuel ww wu c st k answers = (res, st') ->
  a_decl (rdb st) s0 m u f0 = Some rs -> placeholder (fst rs) = false ->
  ~ doomed ww c (rdb st) (k_name k) (k_version k) (k_recursive k) s0 m u f0 ->
  forall x, under (fst rs) x = true -> (In x (rfs st') <-> In x (rfs st)).
Proof. exact (remove_x_frame_dirs xall keep fuel ww wu c st k answers res st' s0 m u f0 rs). Qed.
Print Assumptions frame_directories_multi_nonnested.

Theorem refusal_changes_nothing_multi xall keep fuel ww wu c st k answers st' :
  wf_world ww -> default_undeclared ww c -> declared ww (k_name k) (k_version k) = true ->
  remove_x xall keep fuel ww wu c st k answers = (Err Refused, st') -> st' = st.
Proof. exact (remove_x_refusal_keeps_state xall keep fuel ww wu c st k answers st'). Qed.
Print Assumptions refusal_changes_nothing_multi.

(* never something still needed, over the extended state (code with the fix): d would be deleted; the
   declaration of un uv in stack s for flavor f - any stack of the path, the running flavor or a fall-back
   flavor, possibly a second declaration of the product named on the command line itself - would remain, and its
   table files reach d: the command is refused and nothing changes *)
Theorem refuses_when_needed_multi keep fuel ww wu c st k answers idx d un uv s f :
  wf_world ww -> default_undeclared ww c -> declared ww (k_name k) (k_version k) = true ->
  coherent ww c (rdb st) ->
  length ww + 2 <= fuel -> length wu < fuel ->
  uses_index fuel wu = Ok idx -> rc_force c = false -> k_check k = true ->
  asked ww (k_name k) (k_version k) (k_recursive k) d ->
  In (un, uv) (map fst wu) -> reach_plus wu (pnode (un, uv)) d -> d <> pnode (un, uv) ->
  In (s, f) (decl_places c (rdb st) un uv) ->
  ~ doomed ww c (rdb st) (k_name k) (k_version k) (k_recursive k) s un uv f ->
  remove_x true keep fuel ww wu c st k answers = (Err Refused, st).
Proof. exact (remove_x_refuses_when_needed keep fuel ww wu c st k answers idx d un uv s f). Qed.
Print Assumptions refuses_when_needed_multi.

(* ------------------------------------------------------------------ witnesses over two stacks and two flavors *)

Definition S1 : str := lit "/S1".
Definition S2 : str := lit "/S2".
Definition gen : str := lit "generic".
Definition mdir (s : str) (n v : string) : str := s ++ lit "/" ++ lit n ++ lit "/" ++ lit v.
Definition mdk (s f : str) (n v : string) : dkey * vrec :=
  ((s, lit n, lit v, f), (mdir s n v, mdir s n v ++ lit "/ups/" ++ lit n ++ lit ".table")).
Definition mtg (s f : str) (n t v : string) : dkey * str := ((s, lit n, lit t, f), lit v).
Definition mpaths (s : str) (n v : string) : list str :=
  [s ++ lit "/" ++ lit n; mdir s n v; mdir s n v ++ lit "/ups"; mdir s n v ++ lit "/ups/" ++ lit n ++ lit ".table"].

(* stack S1 (private): t 1 -> d 1, and d 1.   stack S2 (shared): t 1 -> d 1 once more (shadowed by S1), x 1, and
   for the fall-back flavor generic g 1 -> x 1.  d carries current in S1 and x carries current and stable in S2. *)
Definition ww_ms : world :=
  [ pr "t" "1" [ed "d" (Some "1") (Some "1") false]; pr "d" "1" []; pr "x" "1" [] ].
Definition wu_ms : world :=
  [ ((lit "t", lit "1"), [ed "d" (Some "1") (Some "1") false; imp; ed "d" (Some "1") (Some "1") false; imp]);
    pr "d" "1" []; pr "x" "1" []; pr "g" "1" [ed "x" None (Some "1") false] ].
(* what findProducts() of the pinned tree shows Eups.uses: t 1 once *)
Definition wu_ms_pinned : world :=
  [ pr "t" "1" [ed "d" (Some "1") (Some "1") false]; pr "d" "1" []; pr "x" "1" []; pr "g" "1" [ed "x" None (Some "1") false] ].
Definition st_ms : rstate :=
  mkR (mkAdb [S1; S2]
             [mdk S1 linux "t" "1"; mdk S1 linux "d" "1"; mdk S2 linux "t" "1"; mdk S2 linux "x" "1"; mdk S2 gen "g" "1"]
             [mtg S1 linux "t" "current" "1"; mtg S1 linux "d" "current" "1"; mtg S2 linux "t" "current" "1";
              mtg S2 linux "x" "current" "1"; mtg S2 linux "x" "stable" "1"; mtg S2 gen "g" "current" "1"])
      (mpaths S1 "t" "1" ++ mpaths S1 "d" "1" ++ mpaths S2 "t" "1" ++ mpaths S2 "x" "1" ++ mpaths S2 "g" "1").
Definition call (n v : string) (recursive chk interactive : bool) : rcall := mkCall (lit n) (lit v) recursive chk interactive.

Example hypotheses_inhabited_multi :
  wf_world ww_ms /\ default_undeclared ww_ms (conf false) /\ coherent ww_ms (conf false) (rdb st_ms) /\
  wf_dirs (rdb st_ms) /\ declared ww_ms (lit "t") (lit "1") = true /\ length ww_ms + 2 <= 6 /\ length wu_ms < 6 /\
  (exists idx, uses_index 6 wu_ms = Ok idx) /\
  asked ww_ms (lit "t") (lit "1") true (nd "d" "1") /\
  In (lit "t", lit "1") (map fst wu_ms) /\ reach_plus wu_ms (pnode (lit "t", lit "1")) (nd "d" "1") /\
  In (S2, linux) (decl_places (conf false) (rdb st_ms) (lit "t") (lit "1")) /\
  ~ doomed ww_ms (conf false) (rdb st_ms) (lit "t") (lit "1") true S2 (lit "t") (lit "1") linux.
Proof.
  assert (Hwf : wf_world ww_ms) by (apply wf_world_by_computation; vm_compute; reflexivity).
  assert (D : declared ww_ms (lit "t") (lit "1") = true) by (vm_compute; reflexivity).
  split; [exact Hwf|].
  split; [apply default_undeclared_by_computation; vm_compute; reflexivity|].
  split; [apply coherent_by_computation; vm_compute; reflexivity|].
  split; [apply wf_dirs_by_computation; vm_compute; reflexivity|].
  split; [exact D|]. split; [vm_compute; repeat constructor|]. split; [vm_compute; repeat constructor|].
  split; [eexists; vm_compute; reflexivity|].
  split.
  { apply (proj2 (asked_dpath _ _ _ _ _ Hwf D)). right. split; [reflexivity|].
    apply dp_step with (q := nd "d" "1"); [vm_compute; auto|]. apply dp_refl. }
  split; [vm_compute; auto|].
  split.
  { apply rp_one. exists [ed "d" (Some "1") (Some "1") false; imp; ed "d" (Some "1") (Some "1") false; imp], (ed "d" (Some "1") (Some "1") false).
    vm_compute. auto. }
  split; [vm_compute; auto|].
  intros [_ [_ Hh]]. vm_compute in Hh. discriminate Hh.
Qed.

(* remove -R t 1 (private t 1 and d 1 would go; the shared t 1 stays and needs d 1): refused with the fix;
   the pinned tree deletes d 1 and leaves the shared t 1 declared without it.  remove x 1: refused in both,
   because g 1, declared for the fall-back flavor in the other stack, needs it. *)
Example other_declaration_refuted_pinned :
  remove_x true true 6 ww_ms wu_ms (conf false) st_ms (call "t" "1" true true false) [] = (Err Refused, st_ms)
  /\ (let '(r, s) := remove_x false false 6 ww_ms wu_ms_pinned (conf false) st_ms (call "t" "1" true true false) [] in
      (r, adecls (rdb s)))
     = (Ok tt, [mdk S2 linux "t" "1"; mdk S2 linux "x" "1"; mdk S2 gen "g" "1"])
  /\ remove_x true true 6 ww_ms wu_ms (conf false) st_ms (call "x" "1" false true false) [] = (Err Refused, st_ms)
  /\ remove_x false false 6 ww_ms wu_ms_pinned (conf false) st_ms (call "x" "1" false true false) [] = (Err Refused, st_ms).
Proof. split; [vm_compute; reflexivity|]. split; [vm_compute; reflexivity|]. split; vm_compute; reflexivity. Qed.

(* with --force the private t 1 and d 1 go: the shared stack, the other flavor, their tags and trees are as before *)
Example remove_multi_example :
  (let '(r, s) := remove_x true true 6 ww_ms wu_ms (conf true) st_ms (call "t" "1" true true false) [] in
   (r, adecls (rdb s), atags (rdb s), rfs s))
  = (Ok tt, [mdk S2 linux "t" "1"; mdk S2 linux "x" "1"; mdk S2 gen "g" "1"],
     [mtg S2 linux "t" "current" "1"; mtg S2 linux "x" "current" "1"; mtg S2 linux "x" "stable" "1"; mtg S2 gen "g" "current" "1"],
     [lit "/S1/t"; lit "/S1/d"] ++ mpaths S2 "t" "1" ++ mpaths S2 "x" "1" ++ mpaths S2 "g" "1").
Proof. vm_compute. reflexivity. Qed.

(* the questions of remove -R -i t 1 (no in-use check): t 1 is asked about first, then d 1.
   n, y: only d 1 goes.   q: nothing goes, status 0.   empty line (default y), then n: only t 1.
   garbage is asked again.   the exclamation mark: both, nothing more is read.   no answer left: EOFError after t 1. *)
Example interactive_example :
  let run answers := let '(r, s) := remove_x true true 6 ww_ms wu_ms (conf false) st_ms (call "t" "1" true false true) answers in
                     (r, map (fun e => snd (fst (fst (fst e)))) (filter (fun e => str_eqb (fst (fst (fst (fst e)))) S1) (adecls (rdb s)))) in
  run [lit "n"; lit "y"] = (Ok tt, [lit "t"])
  /\ run [lit "q"] = (Ok tt, [lit "t"; lit "d"])
  /\ run [lit ""; lit "n"] = (Ok tt, [lit "d"])
  /\ run [lit "what"; lit "y"; lit "maybe"; lit "n"] = (Ok tt, [lit "d"])
  /\ run [lit "!"] = (Ok tt, [])
  /\ run [lit "y"] = (Err Undefined, [lit "d"])
  /\ select true [nd "t" "1"; nd "d" "1"] ans_y [lit "n"; lit "y"] = ([nd "d" "1"], Done).
Proof. cbv zeta. repeat split; vm_compute; reflexivity. Qed.

(* the front end: eups remove -R -N -i t 1 with the answer n, y; one argument only is the usage error *)
Example front_end_example :
  (match eups_remove true true 6 ww_ms wu_ms linux (lit "implicitProducts") st_ms (mkRO true true false (Some true))
                     [lit "t"; lit "1"] [lit "n"; lit "y"] with
   | Some (r, s) => Some (r, length (adecls (rdb s)))
   | None => None
   end) = Some (Ok tt, 4)
  /\ eups_remove true true 6 ww_ms wu_ms linux (lit "implicitProducts") st_ms (mkRO true true false None) [lit "t"] [] = None.
Proof. split; vm_compute; reflexivity. Qed.

(* defect, fixed by C14-remove-keeps-shared-directory: b 1 (stack S1) and y 1 (stack S2) are installed in the same
   directory /out/b.  The tree before the fix ([keep = false]): remove b 1 undeclares b 1 and deletes /out/b with
   everything below, although y 1 stays declared with that installation directory - the clause every other
   installation directory is untouched fails (the code knew about shared directories only when both products
   went: removedDirs).  With the fix the directory is left alone; it goes when y 1 is removed as well. *)
Definition st_shared : rstate :=
  mkR (mkAdb [S1; S2]
             [((S1, lit "b", lit "1", linux), (lit "/out/b", lit "/out/b/ups/b.table"));
              ((S2, lit "y", lit "1", linux), (lit "/out/b", lit "/S2/_tables/y.table"))] [])
      [lit "/out/b"; lit "/out/b/ups"; lit "/out/b/ups/b.table"; lit "/S2/_tables/y.table"].
Definition w_shared : world := [ pr "b" "1" []; pr "y" "1" [] ].

Example shared_directory_refuted_pinned :
  (let '(r, s) := remove_x true false 5 w_shared w_shared (conf false) st_shared (call "b" "1" false true false) [] in
   (r, adecls (rdb s), rfs s))
  = (Ok tt, [((S2, lit "y", lit "1", linux), (lit "/out/b", lit "/S2/_tables/y.table"))], [lit "/S2/_tables/y.table"])
  /\ (let '(r, s) := remove_x true true 5 w_shared w_shared (conf false) st_shared (call "b" "1" false true false) [] in
      (r, adecls (rdb s), rfs s))
     = (Ok tt, [((S2, lit "y", lit "1", linux), (lit "/out/b", lit "/S2/_tables/y.table"))], rfs st_shared)
  /\ ~ wf_dirs (rdb st_shared).
Proof.
  split; [vm_compute; reflexivity|]. split; [vm_compute; reflexivity|]. intro H.
  specialize (H S1 (lit "b") (lit "1") linux (lit "/out/b", lit "/out/b/ups/b.table")
                S2 (lit "y") (lit "1") linux (lit "/out/b", lit "/S2/_tables/y.table")).
  assert (X : under (lit "/out/b") (lit "/out/b") = false).
  { apply H; try (vm_compute; reflexivity). intro E. inversion E. }
  vm_compute in X. discriminate X.
Qed.

(* ... and when both products that live in the directory go (b 1, then y 1), it goes with the last of them *)
Example shared_directory_goes_with_the_last :
  (let '(r, s) := remove_x true true 5 w_shared w_shared (conf false)
                    (snd (remove_x true true 5 w_shared w_shared (conf false) st_shared (call "b" "1" false true false) []))
                    (call "y" "1" false true false) [] in
   (r, adecls (rdb s), rfs s))
  = (Ok tt, [], [lit "/S2/_tables/y.table"]).
Proof. vm_compute. reflexivity. Qed.

(* t 1 is declared in S1 and in S2 with the one installation /out/t (seed C14-13): remove t 1 takes the declaration of
   S1 away and leaves the directory to the declaration of S2; the same command once more removes that one and the
   directory with it.  Nested: the declaration of S2 lives in /out/t/sub - the whole of /out/t is left alone. *)
Definition tw (s : str) (dir : string) : dkey * vrec := ((s, lit "t", lit "1", linux), (lit dir, s ++ lit "/_tables/t.table")).
Definition fs_twin : list str :=
  [lit "/out/t"; lit "/out/t/README"; lit "/out/t/sub"; lit "/out/t/sub/README"; lit "/S1/_tables/t.table"; lit "/S2/_tables/t.table"].
Definition st_twin (d2 : string) : rstate := mkR (mkAdb [S1; S2] [tw S1 "/out/t"; tw S2 d2] []) fs_twin.
Definition w_twin : world := [ pr "t" "1" [] ].

Example same_product_other_stack_example :
  (let '(r, s) := remove_x true true 4 w_twin w_twin (conf false) (st_twin "/out/t") (call "t" "1" false true false) [] in
   (r, adecls (rdb s), rfs s)) = (Ok tt, [tw S2 "/out/t"], fs_twin)
  /\ (let '(r, s) := remove_x true true 4 w_twin w_twin (conf false)
                       (snd (remove_x true true 4 w_twin w_twin (conf false) (st_twin "/out/t") (call "t" "1" false true false) []))
                       (call "t" "1" false true false) [] in
      (r, adecls (rdb s), rfs s)) = (Ok tt, [], [lit "/S1/_tables/t.table"; lit "/S2/_tables/t.table"])
  /\ (let '(r, s) := remove_x true true 4 w_twin w_twin (conf false) (st_twin "/out/t/sub") (call "t" "1" true false false) [] in
      (r, adecls (rdb s), rfs s)) = (Ok tt, [tw S2 "/out/t/sub"], fs_twin)
  /\ home (conf false) (rdb (st_twin "/out/t")) (lit "t") (lit "1") = Some S1
  /\ product_dir (conf false) (rdb (st_twin "/out/t")) (nd "t" "1") = Some (lit "/out/t").
Proof. repeat split; vm_compute; reflexivity. Qed.

(* the tree before the fix C14-remove-keeps-shared-directory deletes the installation of the twin *)
Example same_product_other_stack_refuted_pinned :
  (let '(r, s) := remove_x true false 4 w_twin w_twin (conf false) (st_twin "/out/t") (call "t" "1" false true false) [] in
   (r, adecls (rdb s), rfs s)) = (Ok tt, [tw S2 "/out/t"], [lit "/S1/_tables/t.table"; lit "/S2/_tables/t.table"]).
Proof. vm_compute. reflexivity. Qed.
