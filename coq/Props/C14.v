(* placeholder while the correspondence check is being brought up *)
From Eupsv Require Import Base.Base Model.Graph Model.Db Model.Remove.
