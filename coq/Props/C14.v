(* C14 - remove deletes exactly what was asked and never something still needed.
   Property theorems only; proofs are short appeals to Proofs/Remove*.v.

   Vocabulary.  [remove_fixed fuel w c st n v recursive check] is Eups.remove(n, v, recursive, checkRecursive)
   of the code with the fixes C14-remove-skip-undeclared and C14-remove-follow-once (Model/Remove.v; the
   pinned tree is [remove_pinned]); it returns the outcome AND the state, because an exception leaves behind
   whatever was done before it.  A state [st] is the reader's view of the database [rdb st] (Model/Db.v:
   [a_decl a s n v f] = (directory, table) of product n version v flavor f in stack s, [a_tag a s n t f] = the
   version tag t names) and the set of paths [rfs st] under the stack root.  [w] is the resolved dependency
   graph of Model/Graph.v (C13): what every table line denotes in the database as it is before the command.
   [c] holds the flavor, the name of the default product and force.

   [asked w n v recursive q]: q is the product named on the command line or, with recursive, a declared
   product that its table files reach in one or more lines ([reach_plus], the relation of C13's walk_complete:
   exactly what getDependentProducts lists - see asked_is_the_listing).
   [doomed w c a n v recursive s n' v' f']: (s, n', v', f') is the declaration that is removed for the asked
   product n' v': flavor of the instance, first stack on the path that declares it ([home]).

   Standing hypotheses: [wf_world w] (C13: a line is resolved to a declared version, an unresolved line names
   no declared version), [default_undeclared w c] (the default product implicitProducts is not declared, as in
   every stack the checks build), the target is declared.  [coherent w c a]: what the world calls declared is
   found in the database.  [wf_dirs a]: installation directories of different declarations are pairwise
   non-nested; [dirs_present]: the directories of the asked products exist. *)
From Eupsv Require Import Base.Base Base.BaseLemmas Model.Graph Model.Db Model.Remove
     Proofs.GraphLib Proofs.GraphWalk Proofs.GraphListing Proofs.GraphOrder
     Proofs.DbLib Proofs.Db Proofs.DbInv
     Proofs.RemoveLib Proofs.RemoveDestroy Proofs.RemoveCollect Proofs.RemoveMain Proofs.RemoveCheck.
Open Scope string_scope.

(* ------------------------------------------------------------------ exactly what was asked *)

(* When the command ends normally: the declarations that are gone are exactly the doomed ones (the target
   and, with recursive, its whole dependency closure - on every graph: cycles, shared sub-trees, several
   versions of one product, unresolved dependencies); a tag survives exactly when the version it names
   survives; the paths that are gone are exactly those inside the (real) directories of the asked products. *)
Theorem removes_exactly fuel w c st n v recursive check st' :
  wf_world w -> default_undeclared w c -> declared w n v = true ->
  remove_fixed fuel w c st n v recursive check = (Ok tt, st') ->
  (forall s n' v' f', doomed w c (rdb st) n v recursive s n' v' f' -> a_decl (rdb st') s n' v' f' = None) /\
  (forall s n' v' f', ~ doomed w c (rdb st) n v recursive s n' v' f' ->
     a_decl (rdb st') s n' v' f' = a_decl (rdb st) s n' v' f') /\
  (forall s n' t f' v', a_tag (rdb st) s n' t f' = Some v' -> doomed w c (rdb st) n v recursive s n' v' f' ->
     a_tag (rdb st') s n' t f' = None) /\
  (forall s n' t f', (forall v', a_tag (rdb st) s n' t f' = Some v' -> ~ doomed w c (rdb st) n v recursive s n' v' f') ->
     a_tag (rdb st') s n' t f' = a_tag (rdb st) s n' t f') /\
  (forall x, In x (rfs st') <->
     In x (rfs st) /\
     ~ exists q dir, asked w n v recursive q /\ product_dir c (rdb st) q = Some dir /\ placeholder dir = false /\
                     under dir x = true).
Proof. exact (remove_exact fuel w c st n v recursive check st'). Qed.
Print Assumptions removes_exactly.

(* the asked set is the target plus what C13's listing (getDependentProducts) holds, restricted to declared
   products: the dependency closure as listed *)
Theorem asked_is_the_listing fuel w n v l q :
  length w < fuel -> dependent_products fuel w (n, Some v, true) false = Ok l ->
  (asked w n v true q <-> q = (n, Some v, true) \/ (In q (map enode l) /\ dnode w q)).
Proof.
  intros Hf Hl. destruct (listing_plain w (n, Some v, true) fuel Hf) as [l' [E HL]].
  rewrite Hl in E. inversion E. subst l'. unfold asked. split.
  - intros [->|[_ [R Dq]]]; [left; reflexivity|].
    destruct (node_eq_dec q (n, Some v, true)) as [->|N]; [left; reflexivity|]. right. split; [apply HL; auto|exact Dq].
  - intros [->|[I Dq]]; [left; reflexivity|]. right. apply HL in I as [_ R]. auto.
Qed.
Print Assumptions asked_is_the_listing.

(* ------------------------------------------------------------------ never something still needed *)

(* With the in-use check and without force: if a product that would be deleted (d) is reached through the
   table files from a declared product that would remain (u), the command is refused and the state is the
   one it started from.  ([uses_index] is Eups.uses(None) of C13; its success is C13's domain.) *)
Theorem refuses_when_needed fuel w c st n v recursive idx d u :
  wf_world w -> default_undeclared w c -> declared w n v = true -> length w + 2 <= fuel ->
  uses_index fuel w = Ok idx -> rc_force c = false ->
  asked w n v recursive d ->
  In u (map fst w) -> ~ asked w n v recursive (pnode u) -> reach_plus w (pnode u) d ->
  remove_fixed fuel w c st n v recursive true = (Err Refused, st).
Proof. exact (remove_refuses_when_needed fuel w c st n v recursive idx d u). Qed.
Print Assumptions refuses_when_needed.

(* a refusal, whenever it happens, has changed nothing *)
Theorem refusal_changes_nothing fuel w c st n v recursive check st' :
  wf_world w -> default_undeclared w c -> declared w n v = true ->
  remove_fixed fuel w c st n v recursive check = (Err Refused, st') -> st' = st.
Proof. exact (refusal_keeps_state fuel w c st n v recursive check st'). Qed.
Print Assumptions refusal_changes_nothing.

(* the command refuses only when the in-use check is on and force is off.  (The converse of
   refuses_when_needed is NOT a theorem and not demanded by the property: the code excludes only the product
   named on the command line from the users, so it also refuses when the only other users are themselves being
   removed - over_cautious_refusal_observed below.) *)
Theorem refusal_only_with_check fuel w c st n v recursive check st' :
  wf_world w -> default_undeclared w c -> declared w n v = true -> length w + 2 <= fuel ->
  (check = true -> exists idx, uses_index fuel w = Ok idx) ->
  remove_fixed fuel w c st n v recursive check = (Err Refused, st') -> check = true /\ rc_force c = false.
Proof. exact (RemoveMain.refusal_only_with_check fuel w c st n v recursive check st'). Qed.
Print Assumptions refusal_only_with_check.

(* every error is raised before the first write: no exception leaves a partly removed stack behind (the
   pinned tree fails this: partial_removal_refuted_pinned) *)
Theorem error_changes_nothing fuel w c st n v recursive check e st' :
  wf_world w -> default_undeclared w c -> declared w n v = true ->
  coherent w c (rdb st) -> wf_dirs (rdb st) -> dirs_present w c st n v recursive ->
  remove_fixed fuel w c st n v recursive check = (Err e, st') -> st' = st.
Proof. exact (error_keeps_state fuel w c st n v recursive check e st'). Qed.
Print Assumptions error_changes_nothing.

(* without the in-use check, or with force, the command ends normally on every graph: the fuel |w| + 2 is
   enough whatever cycles the tables form, and removes_exactly then says what has gone *)
Theorem remove_completes fuel w c st n v recursive check :
  wf_world w -> default_undeclared w c -> declared w n v = true -> length w + 2 <= fuel ->
  (check = true -> exists idx, uses_index fuel w = Ok idx) ->
  check = false \/ rc_force c = true ->
  coherent w c (rdb st) -> wf_dirs (rdb st) -> dirs_present w c st n v recursive ->
  exists st', remove_fixed fuel w c st n v recursive check = (Ok tt, st').
Proof. exact (RemoveMain.remove_completes fuel w c st n v recursive check). Qed.
Print Assumptions remove_completes.

(* ------------------------------------------------------------------ frame *)

(* Whatever the outcome (normal end, refusal, any error): a declaration that is not doomed is as before, a tag
   that names no doomed version is as before, no path appears, and a path that lies in none of the asked
   products' directories stays. *)
Theorem frame fuel w c st n v recursive check res st' :
  wf_world w -> default_undeclared w c -> declared w n v = true ->
  remove_fixed fuel w c st n v recursive check = (res, st') ->
  (forall s n' v' f', ~ doomed w c (rdb st) n v recursive s n' v' f' ->
     a_decl (rdb st') s n' v' f' = a_decl (rdb st) s n' v' f') /\
  (forall s n' t f', (forall v', a_tag (rdb st) s n' t f' = Some v' -> ~ doomed w c (rdb st) n v recursive s n' v' f') ->
     a_tag (rdb st') s n' t f' = a_tag (rdb st) s n' t f') /\
  (forall x, In x (rfs st') -> In x (rfs st)) /\
  (forall x, In x (rfs st) ->
     (forall q dir, asked w n v recursive q -> product_dir c (rdb st) q = Some dir -> placeholder dir = false ->
                    under dir x = false) ->
     In x (rfs st')).
Proof. exact (remove_frame fuel w c st n v recursive check res st'). Qed.
Print Assumptions frame.

(* with pairwise non-nested installation directories: the whole directory of every surviving declaration
   is untouched, whatever the outcome *)
Theorem frame_directories fuel w c st n v recursive check res st' s0 m u f0 rs :
  wf_world w -> default_undeclared w c -> declared w n v = true -> wf_dirs (rdb st) ->
  remove_fixed fuel w c st n v recursive check = (res, st') ->
  a_decl (rdb st) s0 m u f0 = Some rs -> placeholder (fst rs) = false ->
  ~ doomed w c (rdb st) n v recursive s0 m u f0 ->
  forall x, under (fst rs) x = true -> (In x (rfs st') <-> In x (rfs st)).
Proof. exact (remove_frame_dirs fuel w c st n v recursive check res st' s0 m u f0 rs). Qed.
Print Assumptions frame_directories.

(* ------------------------------------------------------------------ witnesses *)

Definition ed (n : string) (v r : option string) (o : bool) : edge :=
  mkEdge (lit n) (option_map lit v) (option_map lit r) o.
(* every table ends with the silent optional dependency on the undeclared default product *)
Definition imp : edge := ed "implicitProducts" None None true.
Definition pr (n v : string) (es : list edge) : (str * str) * list edge := ((lit n, lit v), es ++ [imp]).
Definition nd (n v : string) : node := (lit n, Some (lit v), true).
Definition S0 : str := lit "S".
Definition linux : str := lit "Linux64".
Definition pdir (n v : string) : str := lit "/S/" ++ lit n ++ lit "/" ++ lit v.
Definition dk (n v : string) : dkey * vrec :=
  ((S0, lit n, lit v, linux), (pdir n v, pdir n v ++ lit "/ups/" ++ lit n ++ lit ".table")).
Definition tg (n t v : string) : dkey * str := ((S0, lit n, lit t, linux), lit v).
Definition paths (n v : string) : list str :=
  [lit "/S/" ++ lit n; pdir n v; pdir n v ++ lit "/ups"; pdir n v ++ lit "/ups/" ++ lit n ++ lit ".table"].
Definition conf (force : bool) : rconf := mkRC linux (lit "implicitProducts") force.

(* a 1 needs b, c and the optional ghost (not installed); b and c both need d; the bystander x needs d too.
   d carries two tags. *)
Definition w_ex : world :=
  [ pr "a" "1" [ed "b" None (Some "1") false; ed "ghost" None None true; ed "c" (Some "1") (Some "1") false];
    pr "b" "1" [ed "d" None (Some "1") false];
    pr "c" "1" [ed "d" None (Some "1") true];
    pr "d" "1" [];
    pr "x" "1" [ed "d" (Some "1") (Some "1") false] ].
Definition st_ex : rstate :=
  mkR (mkAdb [S0] [dk "a" "1"; dk "b" "1"; dk "c" "1"; dk "d" "1"; dk "x" "1"]
             [tg "a" "current" "1"; tg "b" "current" "1"; tg "c" "current" "1"; tg "d" "current" "1";
              tg "d" "stable" "1"; tg "x" "current" "1"])
      (paths "a" "1" ++ paths "b" "1" ++ paths "c" "1" ++ paths "d" "1" ++ paths "x" "1").

(* the hypotheses of the theorems are inhabited by this state ... *)
Example hypotheses_inhabited :
  wf_world w_ex /\ default_undeclared w_ex (conf false) /\ coherent w_ex (conf false) (rdb st_ex) /\
  wf_dirs (rdb st_ex) /\ dirs_present w_ex (conf false) st_ex (lit "a") (lit "1") true /\
  declared w_ex (lit "a") (lit "1") = true /\ length w_ex + 2 <= 7 /\
  (exists idx, uses_index 7 w_ex = Ok idx) /\
  asked w_ex (lit "a") (lit "1") true (nd "d" "1") /\ ~ asked w_ex (lit "a") (lit "1") true (nd "x" "1").
Proof.
  assert (Hwf : wf_world w_ex) by (apply wf_world_by_computation; vm_compute; reflexivity).
  split; [exact Hwf|].
  split; [apply default_undeclared_by_computation; vm_compute; reflexivity|].
  split; [apply coherent_by_computation; vm_compute; reflexivity|].
  split; [apply wf_dirs_by_computation; vm_compute; reflexivity|].
  split; [apply dirs_present_by_computation; vm_compute; reflexivity|].
  split; [vm_compute; reflexivity|]. split; [vm_compute; repeat constructor|].
  split; [eexists; vm_compute; reflexivity|].
  assert (D : declared w_ex (lit "a") (lit "1") = true) by (vm_compute; reflexivity).
  split.
  - apply (proj2 (asked_dpath _ _ _ _ _ Hwf D)). right. split; [reflexivity|].
    apply dp_step with (q := nd "b" "1"); [vm_compute; auto|]. apply dp_step with (q := nd "d" "1"); [vm_compute; auto|]. apply dp_refl.
  - intro A.
    (* the completed recursive removal keeps x: were x asked, removes_exactly would have it gone *)
    destruct (removes_exactly 7 w_ex (conf false) st_ex (lit "a") (lit "1") true false
                (snd (remove_fixed 7 w_ex (conf false) st_ex (lit "a") (lit "1") true false)) Hwf) as [G _].
    + apply default_undeclared_by_computation; vm_compute; reflexivity.
    + exact D.
    + vm_compute. reflexivity.
    + specialize (G S0 (lit "x") (lit "1") linux). assert (Hd : doomed w_ex (conf false) (rdb st_ex) (lit "a") (lit "1") true S0 (lit "x") (lit "1") linux).
      { split; [reflexivity|]. split; [exact A|]. vm_compute. reflexivity. }
      specialize (G Hd). vm_compute in G. discriminate G.
Qed.

(* ... on which remove -R a 1 without the in-use check removes a, b, c, d and keeps x with its tag and tree;
   with the check it is refused because x, which stays, needs d; with the check and force it goes through *)
Example remove_recursive_example :
  (let '(r, s) := remove_fixed 7 w_ex (conf false) st_ex (lit "a") (lit "1") true false in
   (r, adecls (rdb s), atags (rdb s), rfs s))
  = (Ok tt, [dk "x" "1"], [tg "x" "current" "1"],
     [lit "/S/a"; lit "/S/b"; lit "/S/c"; lit "/S/d"] ++ paths "x" "1")
  /\ remove_fixed 7 w_ex (conf false) st_ex (lit "a") (lit "1") true true = (Err Refused, st_ex)
  /\ fst (remove_fixed 7 w_ex (conf true) st_ex (lit "a") (lit "1") true true) = Ok tt
  /\ remove_fixed 7 w_ex (conf false) st_ex (lit "d") (lit "1") false true = (Err Refused, st_ex).
Proof. split; [vm_compute; reflexivity|]. split; [vm_compute; reflexivity|]. split; vm_compute; reflexivity. Qed.

(* D12 on the pinned tree: a 1 needs b and c, both need d.  Without the check (or with force) the removal list
   is a, b, d, implicitProducts-stub, c: a, b and d are undeclared and deleted, undeclare(stub) raises
   ProductNotFound, and c - which needs the deleted d - is left behind.  With the fix all four go. *)
Definition w_diamond : world :=
  [ pr "a" "1" [ed "b" None (Some "1") false; ed "c" None (Some "1") false];
    pr "b" "1" [ed "d" None (Some "1") false];
    pr "c" "1" [ed "d" None (Some "1") false];
    pr "d" "1" [] ].
Definition st_diamond : rstate :=
  mkR (mkAdb [S0] [dk "a" "1"; dk "b" "1"; dk "c" "1"; dk "d" "1"]
             [tg "a" "current" "1"; tg "b" "current" "1"; tg "c" "current" "1"; tg "d" "current" "1"])
      (paths "a" "1" ++ paths "b" "1" ++ paths "c" "1" ++ paths "d" "1").

Example partial_removal_refuted_pinned :
  (let '(r, s) := remove_pinned 6 w_diamond (conf false) st_diamond (lit "a") (lit "1") true false in
   (r, adecls (rdb s), atags (rdb s), rfs s))
  = (Err NotFound, [dk "c" "1"], [tg "c" "current" "1"],
     [lit "/S/a"; lit "/S/b"] ++ paths "c" "1" ++ [lit "/S/d"])
  /\ (let '(r, s) := remove_fixed 6 w_diamond (conf false) st_diamond (lit "a") (lit "1") true false in
      (r, adecls (rdb s), atags (rdb s)))
     = (Ok tt, [], []).
Proof. split; vm_compute; reflexivity. Qed.

(* an optional dependency that is not installed: the pinned tree raises ProductNotFound while collecting
   (nothing can be removed recursively); with the fix the dependency is skipped *)
Example uninstalled_optional_refuted_pinned :
  remove_pinned 7 w_ex (conf false) st_ex (lit "a") (lit "1") true false = (Err NotFound, st_ex)
  /\ fst (remove_fixed 7 w_ex (conf false) st_ex (lit "a") (lit "1") true false) = Ok tt.
Proof. split; vm_compute; reflexivity. Qed.

(* a dependency cycle: the pinned tree recurses for ever (RecursionError, here any fuel runs out); a product
   that depends on another version of itself: the pinned recursion is cut by name and c stays although a 1
   reaches it ([remove true false] = only the first fix).  With both fixes everything asked goes. *)
Definition w_cycle : world :=
  [ pr "a" "1" [ed "b" None (Some "1") false]; pr "b" "1" [ed "a" None (Some "1") false; ed "c" None (Some "1") false];
    pr "c" "1" [] ].
Definition st_cycle : rstate :=
  mkR (mkAdb [S0] [dk "a" "1"; dk "b" "1"; dk "c" "1"] []) (paths "a" "1" ++ paths "b" "1" ++ paths "c" "1").
Definition w_samename : world :=
  [ pr "a" "1" [ed "a" (Some "2") (Some "2") false]; pr "a" "2" [ed "c" None (Some "1") false]; pr "c" "1" [] ].
Definition st_samename : rstate :=
  mkR (mkAdb [S0] [dk "a" "1"; dk "a" "2"; dk "c" "1"] [tg "a" "current" "2"])
      (paths "a" "1" ++ paths "a" "2" ++ paths "c" "1").

Example recursion_refuted_pinned :
  remove true false 50 w_cycle (conf false) st_cycle (lit "a") (lit "1") true false = (Err OutOfFuel, st_cycle)
  /\ (let '(r, s) := remove_fixed 5 w_cycle (conf false) st_cycle (lit "a") (lit "1") true false in (r, adecls (rdb s)))
     = (Ok tt, [])
  /\ (let '(r, s) := remove true false 5 w_samename (conf false) st_samename (lit "a") (lit "1") true false in
      (r, adecls (rdb s))) = (Ok tt, [dk "c" "1"])
  /\ (let '(r, s) := remove_fixed 5 w_samename (conf false) st_samename (lit "a") (lit "1") true false in
      (r, adecls (rdb s), atags (rdb s))) = (Ok tt, [], []).
Proof. split; [vm_compute; reflexivity|]. split; [vm_compute; reflexivity|]. split; vm_compute; reflexivity. Qed.

(* observed behaviour, not a defect: in the chain a -> b -> c the check finds that c is used by b and refuses
   remove -R a 1, although b is being removed too and nothing that stays needs anything; nothing changes *)
Definition w_chain : world :=
  [ pr "a" "1" [ed "b" None (Some "1") false]; pr "b" "1" [ed "c" None (Some "1") false]; pr "c" "1" [] ].
Example over_cautious_refusal_observed :
  remove_fixed 5 w_chain (conf false) st_cycle (lit "a") (lit "1") true true = (Err Refused, st_cycle)
  /\ forall u, In u (map fst w_chain) -> asked w_chain (lit "a") (lit "1") true (pnode u).
Proof.
  split; [vm_compute; reflexivity|].
  assert (Hwf : wf_world w_chain) by (apply wf_world_by_computation; vm_compute; reflexivity).
  assert (D : declared w_chain (lit "a") (lit "1") = true) by (vm_compute; reflexivity).
  intros u [<-|[<-|[<-|[]]]]; apply (proj2 (asked_dpath _ _ _ _ _ Hwf D)).
  - left. reflexivity.
  - right. split; [reflexivity|]. apply dp_step with (q := nd "b" "1"); [vm_compute; auto|]. apply dp_refl.
  - right. split; [reflexivity|]. apply dp_step with (q := nd "b" "1"); [vm_compute; auto|].
    apply dp_step with (q := nd "c" "1"); [vm_compute; auto|]. apply dp_refl.
Qed.
