(* C15 - Dry-run (-n) commands change nothing.
   Generated/Guards.v is the guard structure of Eups.declare / undeclare / unassignTag / remove (and of the
   methods they call), and of the command classes of cmd.py that drive them, regenerated from
   python/eups/Eups.py, cmd.py and app.py on every run.  The theorems say: with
   self.noaction = True no call that the translator classifies as writing (database record, product cache,
   file system, or any callee it does not know) is reachable from an entry point - on any path through the
   opaque conditions, any number of loop iterations, any exception. *)
From Coq Require Import List Bool Arith.
Import ListNotations.
From Eupsv Require Import Model.Guards Proofs.Guards Generated.Guards.

(* the analyser is sound for every program and every assumption table *)
Theorem safe_sound prog oks na :
  table_justified prog oks na = true ->
  forall s o w, exec (body_in prog) na s o w -> safe (ok_in oks) na s = true -> w = [].
Proof. exact (safe_sound_gen prog oks na). Qed.
Print Assumptions safe_sound.

(* the table generated for the current source is justified *)
Theorem generated_table_justified : table_justified prog oks true = true.
Proof. vm_compute. reflexivity. Qed.
Print Assumptions generated_table_justified.

(* every mutating entry point performs no write under noaction *)
Theorem dryrun_changes_nothing :
  forall f, In f entry_points ->
  forall o w, exec (body_in prog) true (SCall f) o w -> w = [].
Proof.
  assert (Hok : forall f, In f entry_points -> ok_in oks f = true).
  { apply Forall_forall. vm_compute. repeat constructor. }
  intros f Hf o w He.
  apply (safe_sound prog oks true generated_table_justified (SCall f) o w He).
  cbn [safe]. now apply Hok.
Qed.
Print Assumptions dryrun_changes_nothing.

Theorem dryrun_declare o w : exec (body_in prog) true (SCall f_declare) o w -> w = [].
Proof. apply dryrun_changes_nothing. vm_compute. tauto. Qed.
Print Assumptions dryrun_declare.

Theorem dryrun_undeclare o w : exec (body_in prog) true (SCall f_undeclare) o w -> w = [].
Proof. apply dryrun_changes_nothing. vm_compute. tauto. Qed.
Print Assumptions dryrun_undeclare.

Theorem dryrun_unassignTag o w : exec (body_in prog) true (SCall f_unassignTag) o w -> w = [].
Proof. apply dryrun_changes_nothing. vm_compute. tauto. Qed.
Print Assumptions dryrun_unassignTag.

Theorem dryrun_remove o w : exec (body_in prog) true (SCall f_remove) o w -> w = [].
Proof. apply dryrun_changes_nothing. vm_compute. tauto. Qed.
Print Assumptions dryrun_remove.

(* the command-line front end (eups declare / undeclare / remove with -n): DeclareCmd, UndeclareCmd and
   RemoveCmd.execute of cmd.py and the wrappers declare / undeclare of app.py are translated as well; a call
   of an Eups method on the instance built by createEups (which hands opts.noaction to the constructor: the
   translator checks this textually and fails closed) is a call of the translated method.  No write site is
   reachable from a command either - this covers the loop of eups remove -t TAG, which removes the tag from
   every product through Eups.unassignTag, and anything the commands do themselves. *)
Theorem dryrun_commands_change_nothing :
  forall f, In f command_entry_points ->
  forall o w, exec (body_in prog) true (SCall f) o w -> w = [].
Proof.
  assert (Hok : forall f, In f command_entry_points -> ok_in oks f = true).
  { apply Forall_forall. vm_compute. repeat constructor. }
  intros f Hf o w He.
  apply (safe_sound prog oks true generated_table_justified (SCall f) o w He).
  cbn [safe]. now apply Hok.
Qed.
Print Assumptions dryrun_commands_change_nothing.

Theorem dryrun_cmd_declare o w : exec (body_in prog) true (SCall f_cmd_declare) o w -> w = [].
Proof. apply dryrun_commands_change_nothing. vm_compute. tauto. Qed.
Print Assumptions dryrun_cmd_declare.

Theorem dryrun_cmd_undeclare o w : exec (body_in prog) true (SCall f_cmd_undeclare) o w -> w = [].
Proof. apply dryrun_commands_change_nothing. vm_compute. tauto. Qed.
Print Assumptions dryrun_cmd_undeclare.

Theorem dryrun_cmd_remove o w : exec (body_in prog) true (SCall f_cmd_remove) o w -> w = [].
Proof. apply dryrun_commands_change_nothing. vm_compute. tauto. Qed.
Print Assumptions dryrun_cmd_remove.

(* non-vacuity of the command theorems: the commands do reach the mutating methods (declare through the
   wrapper of app.py, remove both Eups.remove and - in the tag loop - Eups.unassignTag), and with noaction
   off the same analysis finds no command, wrapper or mutating method free of writes *)
Example commands_reach_the_mutating_methods :
  In f_app_declare (calls body_cmd_declare) /\ In f_declare (calls body_app_declare) /\
  In f_app_undeclare (calls body_cmd_undeclare) /\ In f_undeclare (calls body_app_undeclare) /\
  In f_remove (calls body_cmd_remove) /\ In f_unassignTag (calls body_cmd_remove).
Proof. vm_compute. tauto. Qed.

Example commands_not_write_free_when_not_dry :
  table_justified prog oks_wet false = true /\
  forallb (fun f => negb (ok_in oks_wet f)) (entry_points ++ command_entry_points) = true /\
  forallb (fun f => negb (safe (ok_in oks_wet) false (body_in prog f))) (entry_points ++ command_entry_points) = true.
Proof. vm_compute. repeat split. Qed.

(* non-vacuity: the generated bodies do contain write sites, the analyser rejects the same bodies when
   noaction is off, and a write is really reachable then *)
Example bodies_have_write_sites :
  (3 <=? length (sites body_declare)) && (1 <=? length (sites body_undeclare)) &&
  (1 <=? length (sites body_unassignTag)) && (1 <=? length (sites body_remove)) = true.
Proof. vm_compute. reflexivity. Qed.

Example analyser_rejects_when_not_dry :
  safe (ok_in oks) false body_declare = false /\ safe (ok_in oks) false body_undeclare = false /\
  safe (ok_in oks) false body_unassignTag = false /\ safe (ok_in oks) false body_remove = false.
Proof. vm_compute. repeat split. Qed.

Example write_reachable_when_not_dry : exists o w, exec (body_in prog) false (SSeq (SIf CNoaction SReturn SSkip) (SWrite 0)) o w /\ w <> [].
Proof.
  exists ONormal, ([] ++ [0]). split; [|discriminate].
  apply e_seq_n; [apply e_if_na_e; [reflexivity|constructor]|constructor].
Qed.

From Eupsv Require Import Base.Base Model.Db Proofs.DbCor.

(* the same guarantee on the database model of C06 (Model/Db.v, hand-written and tied to the code by C06's
   correspondence check): with noaction every command of the model except Eups.assignTag - which the code
   never guards and which is only reached through a guarded call in declare, as dryrun_declare shows -
   computes the empty list of file effects and leaves the database unchanged *)
Theorem dryrun_database_model_unchanged p d o d' :
  o_noaction (op_opts o) = true -> is_assign o = false ->
  step_gen p d o = Ok d' -> effects_gen p d o = Ok [] /\ d' = d.
Proof. exact (noaction_step p d o d'). Qed.
Print Assumptions dryrun_database_model_unchanged.
