(* C16 - Database records round-trip and stacks are relocatable.
   Property theorems only; every proof is a short appeal to Proofs/Records.v, Proofs/Paths.v and
   Proofs/Declare.v.

   Vocabulary (Model/Records.v, Model/Paths.v unless stated):
     vf_lines r / vf_read n v lines     what VersionFile.write prints / what VersionFile._read makes of it
     cf_lines c / cf_read n t lines     the same for ChainFile
     add_flavor, declare_rec, db_declare, make_product, db_find
                                        VersionFile.addFlavor, Database.declare (on records / on the text
                                        of the version file), VersionFile.makeProduct, Database.findProduct
     ex : str -> bool                   the file-existence oracle (os.path.exists / isfile / isdir), asked by
                                        the name a path is spelt with
     pe : penv                          (Model/Paths.v) the table of symbolic links (name of the link, the
                                        name it resolves to; realpath follows it) and the current directory
     link_view lk root rroot            (Proofs/Links.v) the stack named root is the directory rroot: root and
                                        every name below it resolve to the same place below rroot
     out_real pe rroot dk tk            (Proofs/Declare.v) directories and table files outside the stack
                                        resolve to places outside rroot
     norm, norm_info, cnorm             (Proofs/Records.v) a record as it is read back: printed fields in
                                        file order, an absent PROD_DIR as None, an absent TABLE_FILE as the
                                        word none, an absent UPS_DIR as none when there is a table file
     wf_vfile, wf_cfile, wf_value       (Proofs/Records.v, RecordsLib.v) the alphabet of the claim: values not
                                        empty, no hash, no line break, neither blank nor double quote at
                                        either end; flavors without colon and pairwise different
     dirk = DIn d | DOut o | DNone      (Proofs/Paths.v) product directory inside the stack (root/d),
                                        at the absolute path o outside it, or none
     tabk = TUps tn | TAbsIn t | TAbsOut T | TInterned e tn | TNone
                                        (Proofs/Declare.v) table file dir/ups/tn, root/t, the absolute path T
                                        outside, UPS_DB/e/ups/tn held in the database, or none
     dir_given, table_given             what Eups.declare hands to Database.declare for a stack at root
     dir_at root dk, table_at root dk tk   where directory and table file are for a stack at root
     tab_ok, decl_ok, find_ok           side conditions, spelt out in Proofs/Declare.v: the placement is what
                                        its kind says and nothing more specific; when declaring, the stack
                                        root and an inside table file exist (nothing is assumed about the
                                        current directory or the relative names that exist in it);
                                        when looking up, the table file exists where it belongs and is not
                                        shadowed by a file of the same relative name *)
From Eupsv Require Import Base.Base Base.BaseLemmas Model.Paths Model.Records Model.RecordsExt
  Proofs.RecordsLib Proofs.PathsLib Proofs.Records Proofs.Paths Proofs.Links Proofs.Declare
  Proofs.RecordsFlavors.

(* ------------------------------------------------------------------ records round-trip *)

(* Writing a version record and reading it back yields the same product name, version, flavors
   (in order) and, per flavor, the printed fields; absent directory / table file come back as
   None / none (norm). *)
Theorem vf_roundtrip r :
  wf_vfile r = true -> vf_info r <> [] ->
  exists lines, vf_lines r = Ok lines /\
    vf_read (vf_name r) (vf_version r) lines = Ok (norm r) /\
    vf_read None None lines = Ok (norm r).
Proof.
  intros H N. destruct (vf_read_lines r H N) as [l [E R]]. exists l. auto.
Qed.
Print Assumptions vf_roundtrip.

(* in particular flavors, directories, ups directories and table files of a record whose
   fields are all present come back unchanged *)
Theorem vf_roundtrip_fields r f i k s :
  wf_vfile r = true -> alookup f (vf_info r) = Some i ->
  In k [k_productDir; k_ups_dir; k_table_file] -> alookup k i = Some (Some s) -> s <> [] ->
  akeys (vf_info (norm r)) = akeys (vf_info r) /\
  exists i', alookup f (vf_info (norm r)) = Some i' /\ alookup k i' = Some (Some s).
Proof.
  intros H Ef Hk Ek Ns. split.
  - unfold norm, akeys. cbn [vf_info]. rewrite map_map. reflexivity.
  - exists (norm_info i). split.
    + unfold norm. cbn [vf_info]. now rewrite alookup_map_snd, Ef.
    + assert (P : printed_val i k = Some (Some s)).
      { unfold printed_val. rewrite Ek. destruct s; [congruence|reflexivity]. }
      rewrite alookup_norm_info.
      destruct Hk as [<-|[<-|[<-|[]]]].
      * change (str_eqb k_productDir k_productDir) with true. cbv iota. now rewrite P.
      * change (str_eqb k_ups_dir k_productDir) with false.
        change (str_eqb k_ups_dir k_table_file) with false.
        change (str_eqb k_ups_dir k_ups_dir) with true. cbv iota. now rewrite P.
      * change (str_eqb k_table_file k_productDir) with false.
        change (str_eqb k_table_file k_table_file) with true. cbv iota. now rewrite P.
Qed.
Print Assumptions vf_roundtrip_fields.

Theorem cf_roundtrip c :
  wf_cfile c = true -> cf_info c <> [] ->
  exists lines, cf_lines c = Ok lines /\
    cf_read (cf_name c) (cf_tag c) lines = Ok (cnorm c) /\
    cf_read None None lines = Ok (cnorm c).
Proof.
  intros H N. destruct (cf_read_lines c H N) as [l [E R]]. exists l. auto.
Qed.
Print Assumptions cf_roundtrip.

(* the tagged version of every flavor survives the round trip *)
Theorem cf_versions_kept c f :
  wf_cfile c = true -> cf_get_version f (cnorm c) = cf_get_version f c.
Proof.
  intro H. unfold wf_cfile in H. repeat (apply andb_true_iff in H; destruct H as [H ?]).
  unfold cf_get_version, cnorm. cbn [cf_info]. rewrite alookup_map_snd.
  destruct (alookup f (cf_info c)) as [i|] eqn:E; [|reflexivity]. cbn [option_map].
  assert (W : wf_cinfo i = true).
  { assert (In i (map snd (cf_info c))).
    { clear -E. induction (cf_info c) as [|[k v] m IH]; [discriminate|]. cbn in *.
      destruct (str_eqb f k); [injection E as ->; now left|right; auto]. }
    match goal with Hi : forallb wf_cinfo _ = true |- _ => exact (proj1 (forallb_forall _ _) Hi _ H4) end. }
  unfold wf_cinfo in W. apply andb_true_iff in W. destruct W as [W _].
  unfold cnorm_info, cversion. cbn [alookup]. change (str_eqb k_version k_version) with true.
  cbv iota. destruct (alookup k_version i); [reflexivity|discriminate].
Qed.
Print Assumptions cf_versions_kept.

(* ------------------------------------------------------------------ rewriting one flavor *)

(* A record is written and read, a flavor g is added or redeclared (addFlavor), the record is
   written with trimDir and read again: every other flavor f whose block has a PROD_DIR entry
   reads back exactly as before (as a map).  The hypotheses say that the rewritten record is
   inside the alphabet and that block f holds no existing absolute path that write would trim
   (true of every block that was itself written with trimDir, whose paths are relative; which
   relative names exist in the current directory does not matter). *)
Theorem rewrite_one_flavor_keeps_others r who now g d t u f i pe ex td m' :
  wf_vfile r = true -> vf_info r <> [] ->
  f <> g -> alookup f (vf_info r) = Some i -> amem k_productDir i = true ->
  (forall k s, alookup k (norm_info i) = Some (Some s) -> isabs s = true -> ex s = false) ->
  let x := add_flavor who now g d t u (norm r) in
  trim_all true pe ex td (vf_info x) = Ok m' ->
  let x' := {| vf_name := vf_name x; vf_version := vf_version x; vf_info := m' |} in
  wf_vfile x' = true ->
  exists l1 l2 r2 i2,
    vf_lines r = Ok l1 /\ vf_read (vf_name r) (vf_version r) l1 = Ok (norm r) /\
    vf_write pe ex td x = Ok l2 /\ vf_read (vf_name r) (vf_version r) l2 = Ok r2 /\
    alookup f (vf_info r2) = Some i2 /\
    forall k, alookup k i2 = alookup k (norm_info i).
Proof.
  intros Hwf Hne Nfg Ef Hdir Hex x Htrim x' Hwf'.
  destruct (vf_read_lines r Hwf Hne) as [l1 [E1 R1]].
  assert (Ex : alookup f (vf_info x) = Some (norm_info i)).
  { unfold x. rewrite add_flavor_other by assumption. unfold norm. cbn [vf_info].
    now rewrite alookup_map_snd, Ef. }
  assert (Em : alookup f m' = Some (norm_info i)).
  { eapply trim_all_lookup; [exact Htrim|exact Ex|]. now apply trim_info_noex. }
  assert (Ne' : vf_info x' <> []).
  { cbn [x' vf_info]. intro Z. rewrite Z in Em. discriminate. }
  destruct (vf_read_lines x' Hwf' Ne') as [l2 [E2 R2]].
  destruct (add_flavor_names who now g d t u (norm r)) as [Nn Nv].
  exists l1, l2, (norm x'), (norm_info (norm_info i)). repeat split.
  - exact E1.
  - apply R1; now right.
  - unfold vf_write, vf_write_gen. fold x. rewrite Htrim. cbn [bind]. exact E2.
  - apply R2; right; cbn [x' vf_name vf_version]; unfold x; [rewrite Nn|rewrite Nv]; reflexivity.
  - unfold norm. cbn [x' vf_info]. now rewrite alookup_map_snd, Em.
  - intro k. now apply norm_info_twice.
Qed.
Print Assumptions rewrite_one_flavor_keeps_others.

(* Without a PROD_DIR entry the block is not literally unchanged: the directory is read as
   None the first time and, printed as the word none, as none the second time -- neither is a
   real file name; every other key is unchanged. *)
Theorem rewrite_absent_dir_becomes_none i :
  amem k_productDir i = false ->
  alookup k_productDir (norm_info i) = Some None /\
  alookup k_productDir (norm_info (norm_info i)) = Some (Some s_none) /\
  is_real None = false /\ is_real (Some s_none) = false /\
  forall k, k <> k_productDir -> alookup k (norm_info (norm_info i)) = alookup k (norm_info i).
Proof.
  intro H. destruct (norm_info_twice_dir_absent i H) as [H1 H2].
  repeat split; auto. intros k N. now apply norm_info_twice_other.
Qed.
Print Assumptions rewrite_absent_dir_becomes_none.

(* The chain-file analogue.  A chain record is written and read, the tag is set for flavor g
   (ChainFile.setVersion, what assignTag and a tagged declare do) or removed for it
   (removeVersion, what unassignTag and undeclare do), the record is written and read again:
   every other flavor keeps its tagged version. *)
Lemma cf_get_version_cnorm c f : wf_cfile c = true -> cf_get_version f (cnorm c) = cf_get_version f c.
Proof. apply cf_versions_kept. Qed.

Theorem chain_rewrite_keeps_others c f g (change : cfile -> cfile) :
  wf_cfile c = true -> cf_info c <> [] -> f <> g ->
  (exists who now v, change = cf_set_version who now v g) \/ change = cf_remove_version g ->
  let x := change (cnorm c) in
  wf_cfile x = true -> cf_info x <> [] ->
  exists l1 l2 c2,
    cf_lines c = Ok l1 /\ cf_read (cf_name c) (cf_tag c) l1 = Ok (cnorm c) /\
    cf_lines x = Ok l2 /\ cf_read (cf_name c) (cf_tag c) l2 = Ok c2 /\
    cf_get_version f c2 = cf_get_version f c.
Proof.
  intros Hwf Hne Nfg Hch x Hwx Hnx.
  destruct (cf_read_lines c Hwf Hne) as [l1 [E1 R1]].
  destruct (cf_read_lines x Hwx Hnx) as [l2 [E2 R2]].
  assert (Names : cf_name x = cf_name c /\ cf_tag x = cf_tag c).
  { unfold x. destruct Hch as [[who [now [v ->]]] | ->]; split; reflexivity. }
  destruct Names as [Nn Nt].
  exists l1, l2, (cnorm x). repeat split; try assumption.
  - apply R1; now right.
  - apply R2; right; congruence.
  - rewrite cf_get_version_cnorm by assumption. rewrite <- (cf_get_version_cnorm c f Hwf).
    unfold x, cf_get_version.
    destruct Hch as [[who [now [v ->]]] | ->]; cbn [cf_info cf_set_version cf_remove_version].
    + now rewrite alookup_aset_other.
    + now rewrite alookup_aremove_other.
Qed.
Print Assumptions chain_rewrite_keeps_others.

(* ------------------------------------------------------------------ relocation *)

(* The general statement.  A stack is named root on EUPS_PATH; that name may reach the stack
   directory rroot through symbolic links (the stack directory itself, or a directory above
   it, is a link: link_view).  A product with directory placement dk and table placement tk,
   its paths spelt with the name root, is declared as a new flavor f of a record r.  Then, for
   every stack root root' - the link, the resolved directory, or wherever the stack is moved or
   copied to afterwards - and every state ex' of the file system there in which the table file
   is where it belongs, looking the flavor up resolves the directory to dir_at root' dk and the
   table file to table_at root' dk tk: inside locations follow the root, outside ones and none
   do not mention it.  The current directory of the declaring process (pe_cwd pe) and the
   relative names that exist in it (ex on relative names) are not constrained. *)
Theorem relocate_linked pe ex who now n v f root rroot dk tk r :
  wf_abs root = true -> wf_abs rroot = true -> link_view (pe_links pe) root rroot ->
  wf_dirk dk = true -> wf_place root dk = true -> tab_ok root dk tk = true -> out_real pe rroot dk tk ->
  decl_ok ex root dk tk -> ex who = false -> ex now = false ->
  vf_name r = Some n -> vf_version r = Some v ->
  alookup f (vf_info r) = None -> blocks_inert pe ex rroot (vf_info r) ->
  exists r',
    declare_rec true pe ex who now
      (prod_of n v f (Some (dir_given root dk)) (Some (fst (table_given root dk tk)))
               (Some (db_of root)) (snd (table_given root dk tk))) r = Ok r' /\
    akeys (vf_info r') = akeys (vf_info r) ++ [f] /\
    forall root' ex', wf_abs root' = true -> find_ok ex' root' dk tk ->
      exists q, make_product ex' r' f (Some root') (Some (db_of root')) = Some q /\
                p_dir q = Some (dir_at root' dk) /\ p_table q = Some (table_at root' dk tk) /\
                p_db q = Some (db_of root').
Proof.
  intros HR HRR LV Hd Hp Ht Ho Hdecl Hw Hn En Ev Hf Hin.
  eexists. split; [now apply (declare_stores pe ex who now n v f root rroot)|]. split.
  - cbn [vf_info]. rewrite akeys_app. reflexivity.
  - intros root' ex' HR' Hfind. eexists. split.
    + eapply (find_resolves ex' n v f root' dk tk); try eassumption.
      * eapply tab_ok_wf; eassumption.
      * cbn [vf_info]. apply alookup_last. now apply alookup_None_notin.
      * apply block_of_holds.
    + repeat split.
Qed.
Print Assumptions relocate_linked.

(* Without symbolic links: the name of the stack is the stack, and the outside conditions are
   those of the placement. *)
Theorem relocate pe ex who now n v f root dk tk r :
  pe_links pe = [] ->
  wf_abs root = true -> wf_dirk dk = true -> wf_place root dk = true -> tab_ok root dk tk = true ->
  decl_ok ex root dk tk -> ex who = false -> ex now = false ->
  vf_name r = Some n -> vf_version r = Some v ->
  alookup f (vf_info r) = None -> blocks_inert pe ex root (vf_info r) ->
  exists r',
    declare_rec true pe ex who now
      (prod_of n v f (Some (dir_given root dk)) (Some (fst (table_given root dk tk)))
               (Some (db_of root)) (snd (table_given root dk tk))) r = Ok r' /\
    akeys (vf_info r') = akeys (vf_info r) ++ [f] /\
    forall root' ex', wf_abs root' = true -> find_ok ex' root' dk tk ->
      exists q, make_product ex' r' f (Some root') (Some (db_of root')) = Some q /\
                p_dir q = Some (dir_at root' dk) /\ p_table q = Some (table_at root' dk tk) /\
                p_db q = Some (db_of root').
Proof.
  intros E HR Hd Hp Ht. apply relocate_linked; auto.
  - rewrite E. apply link_view_nil.
  - now apply out_real_nolinks.
Qed.
Print Assumptions relocate.

(* The same through the text of a freshly created version file: Database.declare writes it
   (the stack possibly reached through links), the stack is moved, Database.findProduct reads
   it. *)
Theorem relocate_through_text pe ex who now n v f root rroot dk tk :
  wf_abs root = true -> wf_abs rroot = true -> link_view (pe_links pe) root rroot ->
  wf_dirk dk = true -> wf_place root dk = true -> tab_ok root dk tk = true -> out_real pe rroot dk tk ->
  decl_ok ex root dk tk -> ex who = false -> ex now = false ->
  wf_value n = true -> wf_value v = true -> wf_flavor f = true ->
  wf_value who = true -> wf_value now = true -> wf_value (dir_stored dk) = true ->
  wf_value (fst (table_stored tk)) = true -> wf_value (snd (table_stored tk)) = true ->
  exists lines,
    db_declare pe ex who now
      (prod_of n v f (Some (dir_given root dk)) (Some (fst (table_given root dk tk)))
               (Some (db_of root)) (snd (table_given root dk tk))) None = Ok lines /\
    forall root' ex', wf_abs root' = true -> find_ok ex' root' dk tk ->
      exists q, db_find ex' (Some n) (Some v) f (Some root') (Some (db_of root')) lines = Ok (Some q) /\
                p_dir q = Some (dir_at root' dk) /\ p_table q = Some (table_at root' dk tk).
Proof.
  intros HR HRR LV Hd Hp Ht Ho Hdecl Hw Hn Wn Wv Wf Wwho Wnow Wd Wt Wu.
  set (r0 := {| vf_name := Some n; vf_version := Some v; vf_info := [] |}).
  pose proof (declare_stores pe ex who now n v f root rroot dk tk r0 HR HRR LV Hd Hp Ht Ho Hdecl Hw Hn eq_refl) as D.
  assert (Hin : blocks_inert pe ex rroot (vf_info r0)) by (intros g j []).
  specialize (D Hin). cbn [r0 vf_name vf_version vf_info app] in D.
  set (B := block_of who now (dir_stored dk) (fst (table_stored tk)) (snd (table_stored tk))) in *.
  set (r' := {| vf_name := Some n; vf_version := Some v; vf_info := [(f, B)] |}) in *.
  assert (Wr : wf_vfile r' = true).
  { unfold wf_vfile, r'. cbn [vf_name vf_version vf_info wf_val akeys map fst snd forallb nodupb mem_str].
    rewrite Wn, Wv, Wf. cbn [andb negb].
    assert (WB : wf_info B = true).
    { unfold wf_info, B, printed, block_of. cbn [vf_fields flat_map printed_of].
      change (alookup k_declarer _) with (Some (Some who)).
      change (alookup k_declared _) with (Some (Some now)).
      change (alookup k_modifier _) with (@None val).
      change (alookup k_modified _) with (@None val).
      change (alookup k_productDir _) with (Some (Some (dir_stored dk))).
      change (alookup k_ups_dir _) with (Some (Some (snd (table_stored tk)))).
      change (alookup k_table_file _) with (Some (Some (fst (table_stored tk)))).
      cbv beta iota.
      destruct (wf_value_nonempty _ Wwho) as [? [? ->]]. destruct (wf_value_nonempty _ Wnow) as [? [? ->]].
      destruct (wf_value_nonempty _ Wd) as [? [? Ed]]. destruct (wf_value_nonempty _ Wt) as [? [? Et]].
      destruct (wf_value_nonempty _ Wu) as [? [? Eu]].
      rewrite Ed, Et, Eu in *. cbn [truthy val_str app forallb snd].
      rewrite Wwho, Wnow, Wd, Wt, Wu. reflexivity. }
    now rewrite WB. }
  assert (Nr : vf_info r' <> []) by discriminate.
  destruct (vf_read_lines r' Wr Nr) as [lines [EL RL]].
  exists lines. split.
  - destruct (wf_value_nonempty _ Wn) as [? [? En]]. destruct (wf_value_nonempty _ Wv) as [? [? Ev]].
    assert (Wf' : wf_value f = true) by (unfold wf_flavor in Wf; apply andb_true_iff in Wf; tauto).
    destruct (wf_value_nonempty _ Wf') as [? [? Ef]].
    rewrite (db_declare_fresh pe ex who now _ r'); [exact EL| | | |exact D];
      cbn [prod_of p_name p_version p_flavor]; [rewrite En|rewrite Ev|rewrite Ef]; reflexivity.
  - intros root' ex' HR' Hfind. unfold db_find.
    rewrite (RL (Some n) (Some v)) by (right; reflexivity). cbn [bind].
    destruct (dir_stored_props dk Hd) as [D1 _].
    destruct (table_stored_nonempty root dk tk Ht) as [T1 T2].
    eexists. split.
    + f_equal. eapply (find_resolves ex' n v f root' dk tk); try eassumption; try reflexivity.
      * eapply tab_ok_wf; eassumption.
      * unfold norm, r'. cbn [vf_info map fst snd alookup]. now rewrite str_eqb_refl.
      * apply block_holds_norm; try assumption. apply block_of_holds.
    + split; reflexivity.
Qed.
Print Assumptions relocate_through_text.

(* What write(trimDir) prints does not depend on the directory the process is in, nor on which
   relative names exist there: two runs that agree on the links and on the existence of
   absolute names print the same record. *)
Theorem write_independent_of_cwd pe pe' ex ex' td r :
  isabs td = true -> pe_links pe = pe_links pe' -> (forall s, isabs s = true -> ex s = ex' s) ->
  vf_write pe ex (Some td) r = vf_write pe' ex' (Some td) r.
Proof.
  intros HA HL HE. unfold vf_write, vf_write_gen. now rewrite (trim_all_cwd pe pe' ex ex').
Qed.
Print Assumptions write_independent_of_cwd.

(* The three clauses of the property read off [relocate]. *)

(* inside the stack: directory, own table file, a table file elsewhere in the stack and a table
   file held in the database all resolve to the same place relative to the new root *)
Corollary relocate_inside root' d tn t e :
  dir_at root' (DIn d) = root' ++ c_slash :: d /\
  table_at root' (DIn d) (TUps tn) = (root' ++ c_slash :: d) ++ c_slash :: s_ups ++ c_slash :: tn /\
  (forall dk, table_at root' dk (TAbsIn t) = root' ++ c_slash :: t) /\
  (forall dk, table_at root' dk (TInterned e tn)
              = db_of root' ++ c_slash :: e ++ c_slash :: s_ups ++ c_slash :: tn).
Proof. repeat split. Qed.
Print Assumptions relocate_inside.

(* outside the stack: absolute locations are kept whatever the new root is *)
Corollary relocate_outside root' root'' o tn T :
  dir_at root' (DOut o) = o /\ dir_at root' (DOut o) = dir_at root'' (DOut o) /\
  table_at root' (DOut o) (TUps tn) = o ++ c_slash :: s_ups ++ c_slash :: tn /\
  (forall dk, table_at root' dk (TAbsOut T) = T).
Proof. repeat split. Qed.
Print Assumptions relocate_outside.

Corollary none_stays_none root' :
  dir_at root' DNone = s_none /\ (forall dk, table_at root' dk TNone = s_none) /\
  is_real (Some s_none) = false.
Proof. repeat split. Qed.
Print Assumptions none_stays_none.

(* ------------------------------------------------------------------ the hypotheses are inhabited *)

Definition ex_info : info :=
  [(k_productDir, Some (lit "Linux64/my prod/1.0")); (k_table_file, Some (lit "prod.table"));
   (k_ups_dir, Some (lit "ups")); (k_declarer, Some (lit "alice")); (k_declared, Some (lit "2026/09/29 10:17:51 UTC"))].
Definition ex_vfile : vfile :=
  {| vf_name := Some (lit "prod"); vf_version := Some (lit "1.0");
     vf_info := [(lit "Linux64", ex_info);
                 (lit "Darwin", [(k_productDir, Some (lit "/opt/else where/prod")); (k_ups_dir, None)])] |}.

Example wf_vfile_inhabited : wf_vfile ex_vfile = true /\ vf_info ex_vfile <> [].
Proof. split; [vm_compute; reflexivity|discriminate]. Qed.

Example roundtrip_computed :
  exists lines, vf_lines ex_vfile = Ok lines /\ vf_read None None lines = Ok (norm ex_vfile) /\
                alookup (lit "Darwin") (vf_info (norm ex_vfile))
                = Some [(k_productDir, Some (lit "/opt/else where/prod")); (k_table_file, Some s_none)].
Proof. eexists. split; [vm_compute; reflexivity|]. split; vm_compute; reflexivity. Qed.

Definition ex_cfile : cfile :=
  {| cf_name := Some (lit "prod"); cf_tag := Some (lit "current");
     cf_info := [(lit "Linux64", [(k_version, lit "1.0"); (k_declarer, lit "alice")]);
                 (lit "Darwin", [(k_declarer, lit "bob"); (k_version, lit "2.1 rc")])] |}.
Example wf_cfile_inhabited : wf_cfile ex_cfile = true /\ cf_info ex_cfile <> [].
Proof. split; [vm_compute; reflexivity|discriminate]. Qed.

(* a stack with a space in its name; the product inside with its own table, a second flavor
   outside with a table elsewhere in the stack.  The declaring process sits in the product
   directory, where the relative names ups, prod.table and Linux64/prod/1.0 exist too. *)
Definition ex_root : str := lit "/data/my stack".
Definition ex_files : list str :=
  [ex_root; lit "/data/my stack/Linux64/prod/1.0"; lit "/data/my stack/Linux64/prod/1.0/ups";
   lit "/data/my stack/Linux64/prod/1.0/ups/prod.table"; lit "/data/my stack/site/prod.table";
   lit "ups"; lit "prod.table"; lit "Linux64/prod/1.0"; lit "alice-elsewhere"].
Definition ex_ex (s : str) : bool := mem_str s ex_files.
Definition ex_pe : penv := {| pe_links := []; pe_cwd := lit "/data/my stack/Linux64/prod/1.0" |}.

Example relocate_hypotheses_inhabited :
  wf_abs ex_root = true /\
  wf_dirk (DIn (lit "Linux64/prod/1.0")) = true /\ wf_place ex_root (DOut (lit "/opt/else where/prod")) = true /\
  tab_ok ex_root (DIn (lit "Linux64/prod/1.0")) (TUps (lit "prod.table")) = true /\
  tab_ok ex_root (DOut (lit "/opt/else where/prod")) (TAbsIn (lit "site/prod.table")) = true /\
  tab_ok ex_root DNone (TInterned (lit "Linux64/prod/1.0") (lit "prod.table")) = true /\
  tab_ok ex_root (DIn (lit "Linux64/prod/1.0")) (TAbsOut (lit "/opt/else where/t/prod.table")) = true /\
  decl_ok ex_ex ex_root (DIn (lit "Linux64/prod/1.0")) (TUps (lit "prod.table")) /\
  decl_ok ex_ex ex_root (DOut (lit "/opt/else where/prod")) (TAbsIn (lit "site/prod.table")) /\
  ex_ex (lit "alice") = false /\ ex_ex (lit "ups") = true /\ pe_links ex_pe = [].
Proof. repeat split; vm_compute; reflexivity. Qed.

(* the whole pipeline on that example, computed: declare at the old root from inside the
   product directory, look up at a new one *)
Example relocate_computed :
  let p := prod_of (lit "prod") (lit "1.0") (lit "Linux64")
             (Some (lit "/data/my stack/Linux64/prod/1.0"))
             (Some (lit "/data/my stack/Linux64/prod/1.0/ups/prod.table"))
             (Some (db_of ex_root)) (Some s_ups) in
  exists lines,
    db_declare ex_pe ex_ex (lit "alice") (lit "today") p None = Ok lines /\
    In (lit "   PROD_DIR = Linux64/prod/1.0") lines /\ In (lit "   UPS_DIR = ups") lines /\
    In (lit "   TABLE_FILE = prod.table") lines /\
    exists q,
      db_find (fun s => str_eqb s (lit "/new/place/Linux64/prod/1.0/ups/prod.table"))
              (Some (lit "prod")) (Some (lit "1.0")) (lit "Linux64")
              (Some (lit "/new/place")) (Some (lit "/new/place/ups_db")) lines = Ok (Some q) /\
      p_dir q = Some (lit "/new/place/Linux64/prod/1.0") /\
      p_table q = Some (lit "/new/place/Linux64/prod/1.0/ups/prod.table").
Proof.
  eexists. split; [vm_compute; reflexivity|]. split; [vm_compute; tauto|]. split; [vm_compute; tauto|].
  split; [vm_compute; tauto|].
  eexists. split; [vm_compute; reflexivity|]. split; reflexivity.
Qed.

(* ---- the same stack reached through symbolic links *)

(* /data/lnk is a link to the stack directory; /data/lp is a link to the directory above a
   second stack *)
Definition ex_lk : links := [(lit "/data/lnk", lit "/data/my stack"); (lit "/data/lp", lit "/srv/par ent")].
Definition ex_pe_lnk : penv := {| pe_links := ex_lk; pe_cwd := lit "/data/lnk/Linux64/prod/1.0" |}.
(* what exists, by resolved name; a path is looked up by the name it resolves to *)
Definition ex_real : list str :=
  [ex_root; lit "/data/my stack/Linux64/prod/1.0"; lit "/data/my stack/Linux64/prod/1.0/ups";
   lit "/data/my stack/Linux64/prod/1.0/ups/prod.table"; lit "/data/my stack/site/prod.table";
   lit "/srv/par ent/stack"; lit "/srv/par ent/stack/site/prod.table"].
Definition ex_ex_lnk : str -> bool := ex_via ex_lk (fun s => mem_str s ex_real).

Lemma ex_link_view_stack : link_view [(lit "/data/lnk", lit "/data/my stack")] (lit "/data/lnk") ex_root.
Proof.
  pose proof (link_view_single (lit "/data/lnk") (lit "/data/my stack") [] eq_refl eq_refl) as H.
  now rewrite !app_nil_r in H.
Qed.

Lemma ex_link_view_parent :
  link_view [(lit "/data/lp", lit "/srv/par ent")] (lit "/data/lp/stack") (lit "/srv/par ent/stack").
Proof. exact (link_view_single (lit "/data/lp") (lit "/srv/par ent") (lit "/stack") eq_refl eq_refl). Qed.

Example relocate_linked_hypotheses_inhabited :
  let pe1 := {| pe_links := [(lit "/data/lnk", lit "/data/my stack")]; pe_cwd := lit "/data/lnk/Linux64/prod/1.0" |} in
  let pe2 := {| pe_links := [(lit "/data/lp", lit "/srv/par ent")]; pe_cwd := lit "/" |} in
  let ex1 := ex_via (pe_links pe1) (fun s => mem_str s ex_real) in
  let ex2 := ex_via (pe_links pe2) (fun s => mem_str s ex_real) in
  (* the stack directory is a link *)
  link_view (pe_links pe1) (lit "/data/lnk") ex_root /\ lit "/data/lnk" <> ex_root /\
  wf_abs (lit "/data/lnk") = true /\ wf_abs ex_root = true /\
  tab_ok (lit "/data/lnk") (DIn (lit "Linux64/prod/1.0")) (TUps (lit "prod.table")) = true /\
  out_real pe1 ex_root (DIn (lit "Linux64/prod/1.0")) (TUps (lit "prod.table")) /\
  decl_ok ex1 (lit "/data/lnk") (DIn (lit "Linux64/prod/1.0")) (TUps (lit "prod.table")) /\
  (* a directory above the stack is a link; product outside, table elsewhere in the stack *)
  link_view (pe_links pe2) (lit "/data/lp/stack") (lit "/srv/par ent/stack") /\
  wf_place (lit "/data/lp/stack") (DOut (lit "/opt/else where/prod")) = true /\
  tab_ok (lit "/data/lp/stack") (DOut (lit "/opt/else where/prod")) (TAbsIn (lit "site/prod.table")) = true /\
  out_real pe2 (lit "/srv/par ent/stack") (DOut (lit "/opt/else where/prod")) (TAbsIn (lit "site/prod.table")) /\
  out_real pe2 (lit "/srv/par ent/stack") DNone (TAbsOut (lit "/opt/else where/t/prod.table")) /\
  decl_ok ex2 (lit "/data/lp/stack") (DOut (lit "/opt/else where/prod")) (TAbsIn (lit "site/prod.table")).
Proof.
  cbv zeta. split; [exact ex_link_view_stack|]. split; [discriminate|].
  do 5 (split; [vm_compute; auto|]).
  split; [exact ex_link_view_parent|].
  repeat split; vm_compute; reflexivity.
Qed.

(* computed: the product is declared while EUPS_PATH names the stack by the link (and the
   process sits in the product directory, reached by the link); the record is relative to
   the stack; it is then looked up through the link, through the resolved name, and after
   the stack has been moved *)
Example relocate_linked_computed :
  let p := prod_of (lit "prod") (lit "1.0") (lit "Linux64")
             (Some (lit "/data/lnk/Linux64/prod/1.0"))
             (Some (lit "/data/lnk/Linux64/prod/1.0/ups/prod.table"))
             (Some (db_of (lit "/data/lnk"))) (Some s_ups) in
  exists lines,
    db_declare ex_pe_lnk ex_ex_lnk (lit "alice") (lit "today") p None = Ok lines /\
    In (lit "   PROD_DIR = Linux64/prod/1.0") lines /\ In (lit "   UPS_DIR = ups") lines /\
    In (lit "   TABLE_FILE = prod.table") lines /\
    forall root', In root' [lit "/data/lnk"; ex_root; lit "/new/place"] ->
      exists q,
        db_find (fun s => str_eqb s (root' ++ lit "/Linux64/prod/1.0/ups/prod.table"))
                (Some (lit "prod")) (Some (lit "1.0")) (lit "Linux64")
                (Some root') (Some (db_of root')) lines = Ok (Some q) /\
        p_dir q = Some (root' ++ lit "/Linux64/prod/1.0") /\
        p_table q = Some (root' ++ lit "/Linux64/prod/1.0/ups/prod.table").
Proof.
  eexists. split; [vm_compute; reflexivity|]. split; [vm_compute; tauto|]. split; [vm_compute; tauto|].
  split; [vm_compute; tauto|].
  intros root' [<-|[<-|[<-|[]]]]; (eexists; split; [vm_compute; reflexivity|]; split; reflexivity).
Qed.

(* a second flavor added through the link to a version file that was written through the
   resolved name: the first flavor's block is printed as it was *)
Example second_flavor_through_link_computed :
  let p1 := prod_of (lit "prod") (lit "1.0") (lit "Linux64")
             (Some (lit "/data/my stack/Linux64/prod/1.0"))
             (Some (lit "/data/my stack/Linux64/prod/1.0/ups/prod.table"))
             (Some (db_of ex_root)) (Some s_ups) in
  let p2 := prod_of (lit "prod") (lit "1.0") (lit "Darwin") (Some (lit "/opt/else where/prod"))
             (Some (lit "/data/lnk/site/prod.table")) (Some (db_of (lit "/data/lnk"))) (Some s_ups) in
  exists l1 l2,
    db_declare ex_pe ex_ex (lit "alice") (lit "today") p1 None = Ok l1 /\
    db_declare ex_pe_lnk ex_ex_lnk (lit "bob") (lit "later") p2 (Some l1) = Ok l2 /\
    (forall x, In x l1 -> x <> lit "End:" -> In x l2) /\
    In (lit "   PROD_DIR = /opt/else where/prod") l2 /\ In (lit "   TABLE_FILE = site/prod.table") l2.
Proof.
  eexists. eexists. split; [vm_compute; reflexivity|]. split; [vm_compute; reflexivity|].
  split; [|split; vm_compute; tauto].
  intros x Hx N. vm_compute in Hx. vm_compute.
  repeat (destruct Hx as [<-|Hx]; [tauto|]). destruct Hx.
Qed.

(* ------------------------------------------------------------------ the pinned code (before the three fix: commits) *)

(* D22: canonicalizePaths tested startswith(db) without a separator: a product directory
   whose path begins like the database directory had its own table file recorded as UPS_DB/ *)
Example canon_db_prefix_refuted_pinned :
  let p := prod_of (lit "a") (lit "1") (lit "L") (Some (lit "/s/ups_dbx/a/1"))
             (Some (lit "/s/ups_dbx/a/1/ups/a.table")) (Some (lit "/s/ups_db")) (Some s_ups) in
  p_table (canon_gen false p) = Some (lit "$UPS_DB/") /\
  p_table (canon_gen true p) = Some (lit "/s/ups_dbx/a/1/ups/a.table").
Proof. split; vm_compute; reflexivity. Qed.

(* D23: a block read from a file without PROD_DIR holds productDir = None, on which the pinned
   write raised TypeError; the repaired write prints the word none *)
Example write_none_value_refuted_pinned :
  let r := {| vf_name := Some (lit "p"); vf_version := Some (lit "1");
              vf_info := [(lit "A", [(k_ups_dir, Some s_none); (k_productDir, None); (k_table_file, Some s_none)])] |} in
  vf_write_gen false env0 (fun _ => false) None r = Err Crash /\
  exists lines, vf_write_gen true env0 (fun _ => false) None r = Ok lines /\ In (lit "   PROD_DIR = none") lines.
Proof. split; [vm_compute; reflexivity|]. eexists. split; [vm_compute; reflexivity|]. vm_compute. tauto. Qed.

(* The pinned write looked relative values up in the current directory.  Declared from inside
   the product directory (which has a ups subdirectory) the relative UPS_DIR value ups was
   found to exist below the stack and was rewritten relative to the stack; the product then
   read back with a table file that does not exist.  From any other directory, and with the
   repaired write from every directory, the record is UPS_DIR = ups. *)
Example write_relative_values_refuted_pinned :
  let r := {| vf_name := Some (lit "p"); vf_version := Some (lit "1.0");
              vf_info := [(lit "Linux64", [(k_productDir, Some (lit "Linux64/p/1.0"));
                                           (k_table_file, Some (lit "/s/Linux64/p/1.0/ups/p.table"));
                                           (k_ups_dir, Some s_ups)])] |} in
  let files := [lit "/s"; lit "/s/Linux64/p/1.0"; lit "/s/Linux64/p/1.0/ups"; lit "/s/Linux64/p/1.0/ups/p.table"] in
  let ex := fun s => mem_str s files in
  let inside := {| pe_links := []; pe_cwd := lit "/s/Linux64/p/1.0" |} in
  let elsewhere := {| pe_links := []; pe_cwd := lit "/home/alice" |} in
  (exists lines, vf_write_gen false inside ex (Some (lit "/s")) r = Ok lines /\
     In (lit "   UPS_DIR = Linux64/p/1.0/ups") lines /\
     exists q, db_find ex None None (lit "Linux64") (Some (lit "/s")) (Some (lit "/s/ups_db")) lines = Ok (Some q) /\
               p_table q = Some (lit "/s/Linux64/p/1.0/Linux64/p/1.0/ups/p.table") /\
               ex (lit "/s/Linux64/p/1.0/Linux64/p/1.0/ups/p.table") = false) /\
  (exists lines, vf_write_gen false elsewhere ex (Some (lit "/s")) r = Ok lines /\ In (lit "   UPS_DIR = ups") lines) /\
  (exists lines, vf_write_gen true inside ex (Some (lit "/s")) r = Ok lines /\
     vf_write_gen true elsewhere ex (Some (lit "/s")) r = Ok lines /\
     In (lit "   UPS_DIR = ups") lines /\
     exists q, db_find ex None None (lit "Linux64") (Some (lit "/s")) (Some (lit "/s/ups_db")) lines = Ok (Some q) /\
               p_table q = Some (lit "/s/Linux64/p/1.0/ups/p.table")).
Proof.
  cbv zeta. split; [|split].
  - eexists. split; [vm_compute; reflexivity|]. split; [vm_compute; tauto|].
    eexists. split; [vm_compute; reflexivity|]. split; vm_compute; reflexivity.
  - eexists. split; [vm_compute; reflexivity|]. vm_compute; tauto.
  - eexists. split; [vm_compute; reflexivity|]. split; [vm_compute; reflexivity|]. split; [vm_compute; tauto|].
    eexists. split; [vm_compute; reflexivity|]. vm_compute; reflexivity.
Qed.

(* What a write that resolves the values but not trimDir would do (seeded change C16-5): the
   resolved table file is cut at the length of the link name. *)
Example realpath_of_both_sides_matters :
  realpath ex_lk (lit "/data/lnk/Linux64/prod/1.0/ups/prod.table")
    = lit "/data/my stack/Linux64/prod/1.0/ups/prod.table" /\
  realpath ex_lk (lit "/data/lnk") = ex_root /\
  after (length (lit "/data/lnk")) (lit "/data/my stack/Linux64/prod/1.0/ups/prod.table")
    = lit "tack/Linux64/prod/1.0/ups/prod.table" /\
  after (length ex_root) (lit "/data/my stack/Linux64/prod/1.0/ups/prod.table")
    = lit "Linux64/prod/1.0/ups/prod.table".
Proof. repeat split; vm_compute; reflexivity. Qed.

(* ------------------------------------------------------------------ chain records over several flavors *)

(* Vocabulary (Model/RecordsExt.v):
     cf_set_versions who now v fls c    ChainFile.setVersion(v, fls) for a LIST of flavors: the loop
     cf_remove_versions fls c           ChainFile.removeVersion(fls)
     assign_flavors req declared        the list Database.assignTag hands to setVersion: the requested
                                        flavors (None and the empty list: all declared ones) that are
                                        declared in the version file, each once
     requested req declared             (Proofs/RecordsFlavors.v) the list assignTag starts from
     db_assign_tag                      Database.assignTag on the texts of the version file and of the
                                        chain file: the new text of the chain file
     db_find1, db_find_seq              one Database.findProduct on a database of record texts; a
                                        process asking one query after the other *)

(* ChainFile.setVersion over a list of flavors, whatever the chain record held before (some of the
   flavors may already carry the tag, for this version or another one): every flavor of the list
   has the version afterwards, every other flavor what it had. *)
Theorem set_version_list_sets_every_flavor who now v fls c f :
  In f fls -> cf_get_version f (cf_set_versions who now v fls c) = Some v.
Proof. apply cf_set_versions_in. Qed.
Print Assumptions set_version_list_sets_every_flavor.

Theorem set_version_list_keeps_others who now v fls c f :
  ~ In f fls -> cf_get_version f (cf_set_versions who now v fls c) = cf_get_version f c.
Proof. apply cf_set_versions_other. Qed.
Print Assumptions set_version_list_keeps_others.

(* the same through the file: setVersion over the list, write, read (with or without the names
   given to the reader) *)
Theorem set_version_list_reads_back who now v fls c :
  fls <> [] ->
  let x := cf_set_versions who now v fls c in
  wf_cfile x = true ->
  exists lines c2,
    cf_lines x = Ok lines /\
    cf_read (cf_name c) (cf_tag c) lines = Ok c2 /\ cf_read None None lines = Ok c2 /\
    (forall f, In f fls -> cf_get_version f c2 = Some v) /\
    (forall f, ~ In f fls -> cf_get_version f c2 = cf_get_version f c).
Proof. apply cf_set_versions_text. Qed.
Print Assumptions set_version_list_reads_back.

Theorem remove_version_list who now fls c f :
  (In f fls -> cf_get_version f (cf_remove_versions fls c) = None) /\
  (~ In f fls -> cf_get_version f (cf_remove_versions fls c) = cf_get_version f c) /\
  (* setVersion(version, None) does not return *)
  (forall v, cf_set_versions_opt who now v None c = Err Crash).
Proof.
  split; [apply cf_remove_versions_in|]. split; [apply cf_remove_versions_other|reflexivity].
Qed.
Print Assumptions remove_version_list.

(* the flavors Database.assignTag tags: exactly the requested ones that are declared, each once
   (so a flavor named twice, or one that is not declared, changes nothing for the others) *)
Theorem assign_tag_flavors req declared :
  (forall f, In f (assign_flavors req declared) <-> In f (requested req declared) /\ In f declared) /\
  NoDup (assign_flavors req declared) /\
  requested None declared = declared /\ requested (Some []) declared = declared /\
  (forall f r, requested (Some (f :: r)) declared = f :: r).
Proof.
  split; [intro f; apply assign_flavors_spec|]. split; [apply assign_flavors_nodup|]. repeat split.
Qed.
Print Assumptions assign_tag_flavors.

(* Database.assignTag(tag, name, v, req) then reading the chain file: every requested flavor that
   is declared for the version reads back v, every other flavor what the chain file said before
   (c: the chain record as read before the call; empty when there was no chain file). *)
Theorem assign_tag_reads_back who now name tag v req vls r cls c :
  vf_read None None vls = Ok r ->
  let declared := akeys (vf_info r) in
  (cls = None /\ c = {| cf_name := Some name; cf_tag := Some tag; cf_info := [] |}) \/
  (exists ls, cls = Some ls /\ cf_read (Some name) (Some tag) ls = Ok c) ->
  assign_flavors req declared <> [] ->
  wf_cfile (cf_set_versions who now v (assign_flavors req declared) c) = true ->
  exists lines c2,
    db_assign_tag who now name tag v req (Some vls) cls = Ok lines /\
    cf_read None None lines = Ok c2 /\
    (forall f, In f (requested req declared) -> In f declared -> cf_get_version f c2 = Some v) /\
    (forall f, ~ (In f (requested req declared) /\ In f declared) ->
               cf_get_version f c2 = cf_get_version f c).
Proof. apply db_assign_tag_text. Qed.
Print Assumptions assign_tag_reads_back.

(* ------------------------------------------------------------------ several look-ups in one process *)

(* What a look-up answers does not depend on which look-ups went before it: in two processes that
   ask their queries in any two orders (repetitions allowed), the same query gets the same answer,
   which is the answer it gets when asked alone. *)
Theorem lookups_do_not_interfere ex root d qs qs' k k' q :
  nth_error qs k = Some q -> nth_error qs' k' = Some q ->
  nth_error (db_find_seq ex root d qs) k = Some (db_find1 ex root d q) /\
  nth_error (db_find_seq ex root d qs') k' = Some (db_find1 ex root d q) /\
  db_find_seq ex root d [q] = [db_find1 ex root d q].
Proof.
  intros H H'. rewrite !db_find_seq_nth, H, H'. repeat split.
Qed.
Print Assumptions lookups_do_not_interfere.

(* one record, three flavors whose blocks have the same text and use the FLAVOR macro (directory
   below the stack, table file held in the database): each flavor resolves with its own name, in
   either order of asking, at the place where the stack is and at the place it is moved to *)
Definition ex_macro_block : list str :=
  [ lit "   QUALIFIERS = "; lit "   PROD_DIR = $FLAVOR/bar/2.0";
    lit "   UPS_DIR = $UPS_DB/$FLAVOR/bar/2.0/ups"; lit "   TABLE_FILE = bar.table" ].
Definition ex_macro_text : list str :=
  [ lit "FILE = version"; lit "PRODUCT = bar"; lit "VERSION = 2.0" ]
  ++ [lit "Group:"; lit "   FLAVOR = Linux"] ++ ex_macro_block
  ++ [lit "Group:"; lit "   FLAVOR = Linux64"] ++ ex_macro_block
  ++ [lit "Group:"; lit "   FLAVOR = Darwin"] ++ ex_macro_block ++ [lit "End:"].

Example flavor_macro_resolved_per_flavor :
  let d := [(lit "bar", lit "2.0", ex_macro_text)] in
  let q f := (lit "bar", lit "2.0", f) in
  let dirs root qs := map (fun a => match a with
                                    | Ok (Some p) => (p_dir p, p_table p)
                                    | _ => (None, None)
                                    end) (db_find_seq (fun _ => false) root d qs) in
  dirs (lit "/s") [q (lit "Linux"); q (lit "Linux64"); q (lit "Linux")]
  = [ (Some (lit "/s/Linux/bar/2.0"), Some (lit "/s/ups_db/Linux/bar/2.0/ups/bar.table"));
      (Some (lit "/s/Linux64/bar/2.0"), Some (lit "/s/ups_db/Linux64/bar/2.0/ups/bar.table"));
      (Some (lit "/s/Linux/bar/2.0"), Some (lit "/s/ups_db/Linux/bar/2.0/ups/bar.table")) ] /\
  dirs (lit "/moved to") [q (lit "Darwin"); q (lit "Linux")]
  = [ (Some (lit "/moved to/Darwin/bar/2.0"), Some (lit "/moved to/ups_db/Darwin/bar/2.0/ups/bar.table"));
      (Some (lit "/moved to/Linux/bar/2.0"), Some (lit "/moved to/ups_db/Linux/bar/2.0/ups/bar.table")) ].
Proof. split; vm_compute; reflexivity. Qed.

(* a chain record in which one flavor already carries the tag for the version: setVersion over
   the list of all three still sets the two others *)
Example set_version_list_computed :
  let c := cf_set_version (lit "alice") (lit "t0") (lit "1.0") (lit "Linux")
             {| cf_name := Some (lit "foo"); cf_tag := Some (lit "stable"); cf_info := [] |} in
  let x := cf_set_versions (lit "bob") (lit "t1") (lit "1.0") [lit "Linux"; lit "Linux64"; lit "Darwin"] c in
  wf_cfile x = true /\
  map (fun f => cf_get_version f x) [lit "Linux"; lit "Linux64"; lit "Darwin"; lit "generic"]
  = [Some (lit "1.0"); Some (lit "1.0"); Some (lit "1.0"); None] /\
  assign_flavors (Some [lit "Darwin"; lit "Linux"; lit "sparc"; lit "Darwin"]) [lit "Linux"; lit "Linux64"; lit "Darwin"]
  = [lit "Linux"; lit "Darwin"].
Proof. repeat split; vm_compute; reflexivity. Qed.

(* ------------------------------------------------------------------ tag assignments kept outside the
   product's own database, and directories beside the stack *)
From Eupsv Require Import Model.RecordsDirs Proofs.RecordsDirs Proofs.PathsSibling.

(* Database.assignTag when the chain file is kept in ANY directory d (the product's own database, the
   user's tag directory for a user tag, the database of another stack named by writeableDB): the
   chain file of d afterwards reads back the version for every requested declared flavor and, for
   every other flavor, what the chain file of d said before the call (c: that record as read before
   the call; empty when d held no chain file) - so flavors tagged one after the other all keep
   their entries; the chain files of all other directories are untouched. *)
Theorem assign_tag_elsewhere_keeps_other_flavors who now name tag v req vls r own ut ud wr d cs c :
  vf_read None None vls = Ok r ->
  let declared := akeys (vf_info r) in
  tag_target own ut ud wr = Ok d ->
  (alookup d cs = None /\ c = {| cf_name := Some name; cf_tag := Some tag; cf_info := [] |}) \/
  (exists ls, alookup d cs = Some ls /\ cf_read (Some name) (Some tag) ls = Ok c) ->
  assign_flavors req declared <> [] ->
  wf_cfile (cf_set_versions who now v (assign_flavors req declared) c) = true ->
  exists cs' lines c2,
    db_assign_tag_in who now name tag v req (Some vls) own ut ud wr cs = Ok cs' /\
    alookup d cs' = Some lines /\
    (forall d', d' <> d -> alookup d' cs' = alookup d' cs) /\
    cf_read None None lines = Ok c2 /\
    (forall f, In f (requested req declared) -> In f declared -> cf_get_version f c2 = Some v) /\
    (forall f, ~ (In f (requested req declared) /\ In f declared) ->
               cf_get_version f c2 = cf_get_version f c).
Proof. apply db_assign_tag_in_text. Qed.
Print Assumptions assign_tag_elsewhere_keeps_other_flavors.

(* where the assignment is kept *)
Theorem tag_target_is_one_of_three own ut ud wr d :
  tag_target own ut ud wr = Ok d ->
  (wr = Some d /\ d <> []) \/
  ((wr = None \/ wr = Some []) /\ ut = true /\ ud = Some d /\ d <> []) \/
  ((wr = None \/ wr = Some []) /\ ut = false /\ d = own).
Proof. apply tag_target_cases. Qed.
Print Assumptions tag_target_is_one_of_three.

(* A directory beside the stack whose path begins with the stack's path as a string (stack2,
   stack-extras next to stack) is outside the stack: utils.isSubpath compares whole components
   (root itself, or root followed by a slash). *)
Theorem sibling_with_common_prefix_is_outside root c s :
  root <> [] -> ends_slash root = false -> ascii_eqb c_slash c = false ->
  subpath_abs (root ++ c :: s) root = false /\
  (forall s', subpath_abs (root ++ c_slash :: s') root = true).
Proof.
  intros Hn He Hc. split; [now apply subpath_abs_sibling|]. intro s'. now apply subpath_abs_below.
Qed.
Print Assumptions sibling_with_common_prefix_is_outside.

(* hence VersionFile.write(trimDir) records a value that resolves there unchanged (absolute),
   whatever links lead to the stack or to the value, also when the block is written again because
   another flavor is added to the file (write runs the same loop over every block) *)
Theorem sibling_value_written_unchanged fixed pe ex tc tr k (info : amap val) value c s :
  alookup k info = Some (Some value) ->
  let t := realpath (pe_links pe) (abs_from (pe_cwd pe) (tc :: tr)) in
  t <> [] -> ends_slash t = false -> ascii_eqb c_slash c = false ->
  realpath (pe_links pe) (abs_from (pe_cwd pe) value) = t ++ c :: s ->
  trim_key fixed pe ex (Some (tc :: tr)) k info = Ok info.
Proof. apply trim_key_sibling. Qed.
Print Assumptions sibling_value_written_unchanged.

Definition ex_vls : list str :=
  [lit "FILE = version"; lit "PRODUCT = prod"; lit "VERSION = 1.0"; lit "Group:";
   lit "   FLAVOR = Linux64"; lit "   PROD_DIR = Linux64/prod/1.0"; lit "   UPS_DIR = ups";
   lit "   TABLE_FILE = prod.table"; lit "End:"; lit "Group:"; lit "   FLAVOR = Darwin";
   lit "   PROD_DIR = Darwin/prod/1.0"; lit "   UPS_DIR = ups"; lit "   TABLE_FILE = prod.table";
   lit "End:"].

Definition tagged_in (d : str) (cs : res chaindirs) : list (option str) :=
  match cs with
  | Ok m => match alookup d m with
            | Some ls => match cf_read None None ls with
                         | Ok c => map (fun f => cf_get_version f c) [lit "Linux64"; lit "Darwin"]
                         | Err _ => []
                         end
            | None => []
            end
  | Err _ => []
  end.

(* a user tag assigned to Linux64, then to Darwin, kept in the user's tag directory: both flavors read
   back the version; a variant of assignTag that read the chain file of the product's own database and
   wrote the result into the user's directory would lose the first flavor's entry *)
Example assign_elsewhere_computed :
  let asg f cs := db_assign_tag_in (lit "W") (lit "T") (lit "prod") (lit "mine") (lit "1.0") (Some [f])
                    (Some ex_vls) (lit "/s/ups_db/prod") true (Some (lit "/u/tags/prod")) None cs in
  let bad f cs := db_assign_tag_at (lit "W") (lit "T") (lit "prod") (lit "mine") (lit "1.0") (Some [f])
                    (Some ex_vls) (lit "/s/ups_db/prod") (lit "/u/tags/prod") cs in
  tagged_in (lit "/u/tags/prod") (bind (asg (lit "Linux64") []) (asg (lit "Darwin")))
    = [Some (lit "1.0"); Some (lit "1.0")] /\
  tagged_in (lit "/s/ups_db/prod") (bind (asg (lit "Linux64") []) (asg (lit "Darwin"))) = [] /\
  tagged_in (lit "/u/tags/prod") (bind (bad (lit "Linux64") []) (bad (lit "Darwin")))
    = [None; Some (lit "1.0")].
Proof. repeat split; vm_compute; reflexivity. Qed.

Example sibling_computed :
  subpath_abs (lit "/x/stack2/Linux64/p/1.0") (lit "/x/stack") = false /\
  subpath_abs (lit "/x/stack-extras/p/1.0") (lit "/x/stack") = false /\
  subpath_abs (lit "/x/stack/Linux64/p/1.0") (lit "/x/stack") = true.
Proof. repeat split; vm_compute; reflexivity. Qed.
