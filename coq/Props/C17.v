From Eupsv Require Import Base.Base Model.Expand.
Theorem stub : True. Proof. exact I. Qed.
Print Assumptions stub.
