(* C17 - An expanded table file reproduces the build-time versions exactly.
   Property theorems only.  Model: Model/Expand.v (table.expandTableFile and the set-up closure it asks
   for, on classified lines) composed with Model/Setup.v (Eups.setup) for the exact-mode replay; and
   Model/ExpandText.v (level A: the TEXT of the table file to the classified lines, the expanded lines to the
   text that is written) - the clauses restated on text are at the end of this file.
   Lines naming the product eups (LEups / OEups) are passed, unchanged, to the end of the output and are seen by
   both readings; they are not setup lines of the model ([setups_of], [pins_of] do not count them).

   Notation.  [expand_gen jfix sfix cfix w e top plist force rd ls]: the expansion of the table lines ls of
   product top in world w and environment e, productList plist, raw dependency lists rd; jfix / sfix / cfix
   select the repaired (true) or the pinned (false) treatment of -j lines / of the dependencies of an optional
   product that is not set up / of a line whose closure cannot be collected while the error is passed over.
   [expand] is the repaired code, [expand_pinned] the pinned tree.  The first
   theorems hold for every variant, every graph (rd is arbitrary: conflicts, diamonds, cycles) and
   every environment.
   [recorded e n v]: SETUP_<N> in e names version v.  [exact_view out] / [inexact_view out]: the lines a
   reader of the expanded table sees with / without type == exact.  [pins_of out]: the lines
   setupRequired/Optional(n -j v) of the exact block, as (n, v, optional). *)
From Eupsv Require Import Base.Base Base.BaseLemmas Model.PathAlg Model.Setup Model.Expand.
From Eupsv Require Import Proofs.PathAlg Proofs.Expand Proofs.ExpandSetup.
From Eupsv Require Model.Cond Model.Args Model.Blocks.

(* every version pinned in the exact block was set up when the table was written, or was given
   explicitly in the productList - whatever the graph, conflicts included *)
Theorem pins_only_setup_versions jf sf cf w e top plist force rd ls out o n v :
  expand_gen jf sf cf w e top plist force rd ls = Ok out ->
  In (OPin o n v) out ->
  recorded e n v \/ alookup n plist = Some v.
Proof. apply pins_sound. Qed.
Print Assumptions pins_only_setup_versions.

(* The same over the environment a build leaves behind.  [setup w cfg fuel st0 ds req true 0 just] is
   Eups.setup of Model/Setup.v for an arbitrary request, world and stream of version decisions.  Its run
   may have started optional dependencies - found, recorded in their SETUP_ variables - whose tables
   could not be executed to the end (a variable that is not defined, a required product that does not
   exist) and rolled them back (failed_optional_is_rolled_back below).  No hypothesis excludes that:
   whatever happened on the way, an expansion that reads the final environment pins only versions
   recorded in it (or given in the productList), and pins no product that has no SETUP_ variable in it.
   What the instance remembers having started does not count (remembered_is_not_set_up_refuted below). *)
Theorem pins_only_what_setup_left_set_up jf sf cf w cfg fuel st0 ds req just ok st' ds' top plist force rd ls out o n v :
  setup w cfg fuel st0 ds req true 0 just = RDone ok st' ds' ->
  expand_gen jf sf cf w (s_env st') top plist force rd ls = Ok out ->
  In (OPin o n v) out ->
  (recorded (s_env st') n v \/ alookup n plist = Some v) /\
  (alookup (setup_var n) (s_env st') = None -> alookup n plist = Some v).
Proof.
  intros _ E I. split; [eapply pins_sound; eauto|eapply pins_need_a_record; eauto].
Qed.
Print Assumptions pins_only_what_setup_left_set_up.

(* the roll-back itself, in the loop over the actions of a table (Eups.setup 2065-2072, pushStack /
   popStack env around a dependency): when the setup of an optional dependency fails - with whatever
   state st1, in which the dependency and everything below it may be recorded - the loop goes on from
   the state st it had before the dependency was started; a required one makes the table fail from st *)
Theorem failed_optional_is_rolled_back cfg rec depth just optional nm jst acts st ds st1 ds1 :
  cut_off cfg just (S depth) = false ->
  rec st ds nm true (S depth) jst = RDone false st1 ds1 \/ rec st ds nm true (S depth) jst = RRaise st1 ds1 ->
  run_actions cfg rec true depth just (ASetup optional nm jst :: acts) st ds
  = if optional then run_actions cfg rec true depth just acts st ds1 else RRaise st ds1.
Proof.
  intros C R. destruct optional; [now apply failed_optional_rolled_back with st1|now apply failed_required_raises with st1].
Qed.
Print Assumptions failed_optional_is_rolled_back.

(* the exact reading holds no setup line other than the pins: every setup line it runs is -j with an
   explicit version *)
Theorem exact_block_is_pins_only jf sf cf w e top plist force rd ls out :
  expand_gen jf sf cf w e top plist force rd ls = Ok out ->
  setups_of (exact_view out) = [] /\ pins_of (exact_view out) = pins_of out.
Proof.
  intro E. split; [eapply exact_no_setup_line; eauto|eapply exact_view_pins; eauto].
Qed.
Print Assumptions exact_block_is_pins_only.

(* the non-exact reading carries every setup line of the input, in order, each either unchanged or with
   the same command, product and flags, its original expression (bracketed or relative) and, unless the
   productList overrides it, its original explicit version; the version written is the productList's, the
   original one, or the one that is set up *)
Theorem keeps_inexact_constraints jf sf cf w e top plist force rd ls out :
  expand_gen jf sf cf w e top plist force rd ls = Ok out ->
  Forall2 (carries w e plist) (setups_in ls) (setups_of (inexact_view out)).
Proof.
  intro E. unfold inexact_view. rewrite (inexact_setup_lines jf sf cf w e top plist force rd ls out E).
  apply Forall2_map_r. apply rewrite_carries.
Qed.
Print Assumptions keeps_inexact_constraints.

(* lines other than setup commands pass unchanged and in order: the commands in both readings, the
   comment lines in the non-exact reading (a comment inside a run of setup lines stays with them) *)
Theorem passes_other_lines jf sf cf w e top plist force rd ls out :
  expand_gen jf sf cf w e top plist force rd ls = Ok out ->
  others_of (exact_view out) = others_in ls /\
  others_of (inexact_view out) = others_in ls /\
  comments_of (inexact_view out) = comments_in ls.
Proof.
  intro E. repeat split.
  - eapply others_pass; eauto.
  - eapply others_pass; eauto.
  - eapply comments_pass; eauto.
Qed.
Print Assumptions passes_other_lines.

(* Replay.  A later database w' still declares every pinned version (newer versions and tags are
   arbitrary: the resolver does not appear, the decisions are the explicit versions of the exact block);
   the top product's table in w' is the exact reading of the expanded table, followed by optional
   dependencies that do not resolve (the implicit product); the other lines mean commands that cannot
   fail and set no SETUP_ variable; the pinned products' own commands likewise (their setup lines are not
   followed: -j).  Starting where none of these products is set up, Eups.setup succeeds, consumes exactly
   the forced decisions, records the top product and every pin at its explicit version - each of which was
   recorded when the table was written or given in the productList - and touches no other SETUP_
   variable. *)
Theorem exact_replay_records_pins jf sf cf w e top plist force rd ls out w' cfg interp ptop topv absent fuel st0 :
  expand_gen jf sf cf w e top plist force rd ls = Ok out ->
  c_max_depth cfg = None ->
  find_pv w' top topv = Some ptop ->
  p_actions ptop = exact_actions interp (exact_view out) ++ map absent_action absent ->
  (forall t, Forall simple_action (interp t)) ->
  (forall n v o, In (n, v, o) (pins_of out) ->
     exists p, find_pv w' n v = Some p /\ Forall quiet_action (p_actions p)) ->
  sane top -> (forall x, In x (pins_of out) -> sane (pin_name x)) ->
  NoDup (upper_str top :: map (fun x => upper_str (pin_name x)) (pins_of out)) ->
  alookup (setup_var top) (s_env st0) = None ->
  (forall x, In x (pins_of out) -> alookup (setup_var (pin_name x)) (s_env st0) = None) ->
  2 <= fuel ->
  exists st',
    setup w' cfg fuel st0 (forced_decisions topv (pins_of out) absent) top true 0 false = RDone true st' [] /\
    alookup (setup_var top) (s_env st') = Some (setup_string cfg top topv) /\
    (forall n v o, In (n, v, o) (pins_of out) ->
       alookup (setup_var n) (s_env st') = Some (setup_string cfg n v) /\
       (recorded e n v \/ alookup n plist = Some v)) /\
    (forall m, upper_str m <> upper_str top ->
       (forall x, In x (pins_of out) -> upper_str (pin_name x) <> upper_str m) ->
       alookup (setup_var m) (s_env st') = alookup (setup_var m) (s_env st0)).
Proof. apply replay_records. Qed.
Print Assumptions exact_replay_records_pins.

(* (The full statement is proved at the end of this file: exact_reproduces, where [covered] is derived from C01's
   closure theorem for a conflict-free build by the composed model; this theorem is kept because it asks nothing of
   the build.)
   FULL STATEMENT (DESIGN C17):
     conflict_free w r -> w included in w' (recorded versions still declared, tags and newer versions
     arbitrary) -> recorded (request exact w' (expand ...)) = recorded env
   where env is the environment the build request r produced.
   PROVED HERE: the same conclusion with the build summarised by two hypotheses on the expansion-time
   environment e instead of being derived from a model of the build:
     [covered]  every product recorded in e, other than top, is pinned by the exact block at the recorded
                version (SETUP_ variables are named after the upper-cased product, hence the comparison of
                upper-cased names; that the block
                is complete for the products the table's lines and their dependency lists name and that are
                set up is [exact_block_complete] below; that a conflict-free build sets up nothing outside
                those lists is C01's closure theorem, which does not exist yet, and is tied by the
                correspondence check: real build, real expansion, real replay after the database evolved);
     the productList is empty.
   Conclusion: after the replay from a shell where nothing is set up, (a) every version recorded at build
   time is recorded again, and (b) whatever is recorded, apart from top, was recorded at build time at that
   very version. *)
Theorem exact_reproduces_partial jf sf cf w e top force rd ls out w' cfg interp ptop topv absent fuel st0 :
  expand_gen jf sf cf w e top [] force rd ls = Ok out ->
  (forall n v, recorded e n v -> upper_str n <> upper_str top ->
     exists x, In x (pins_of out) /\ upper_str (pin_name x) = upper_str n /\ snd (fst x) = v) ->
  c_max_depth cfg = None ->
  find_pv w' top topv = Some ptop ->
  p_actions ptop = exact_actions interp (exact_view out) ++ map absent_action absent ->
  (forall t, Forall simple_action (interp t)) ->
  (forall n v o, In (n, v, o) (pins_of out) ->
     exists p, find_pv w' n v = Some p /\ Forall quiet_action (p_actions p)) ->
  sane top -> (forall x, In x (pins_of out) -> sane (pin_name x)) ->
  NoDup (upper_str top :: map (fun x => upper_str (pin_name x)) (pins_of out)) ->
  (forall m, alookup (setup_var m) (s_env st0) = None) ->
  2 <= fuel ->
  exists st',
    setup w' cfg fuel st0 (forced_decisions topv (pins_of out) absent) top true 0 false = RDone true st' [] /\
    alookup (setup_var top) (s_env st') = Some (setup_string cfg top topv) /\
    (forall n v, recorded e n v -> upper_str n <> upper_str top ->
       exists n', upper_str n' = upper_str n /\
                  alookup (setup_var n) (s_env st') = Some (setup_string cfg n' v)) /\
    (forall m, alookup (setup_var m) (s_env st') <> None -> upper_str m <> upper_str top ->
       exists n v, setup_var n = setup_var m /\ recorded e n v /\
                   alookup (setup_var m) (s_env st') = Some (setup_string cfg n v)).
Proof. apply reproduces. Qed.
Print Assumptions exact_reproduces_partial.

(* the exact block is complete for what the table names, whenever the table could be expanded at all: every
   set-up product named by a line of the table, and every set-up product in the dependency list of a line that
   does not carry -j, is pinned at its set-up version.  No hypothesis on the dependency lists: where a list
   demands a product that is not set up (a product below the line's was set up without its dependencies, -j),
   either the expansion fails (required line, no --force) or the line's product stays in the block with all
   that is set up below it (the repair cfix; the pinned tree dropped it: closure_error_drops_refuted_pinned) *)
Theorem exact_block_complete w e top force rd ls out s n v :
  expand w e top [] force rd ls = Ok out ->
  In (LSetup s) ls -> sl_name s <> top -> recorded e (sl_name s) v -> v <> [] ->
  (n = sl_name s \/
   (mem_str (lit "-j") (sl_flags s) = false /\ find_pv w (sl_name s) v <> None /\
    exists d p, In d (lookup_raw rd (sl_name s) v) /\ d_name d = n /\ find_setup_product w e n = Some p)) ->
  exists o v', In (OPin o n v') out /\ recorded e n v'.
Proof. apply block_complete_open. Qed.
Print Assumptions exact_block_complete.

(* ------------------------------------------------------------ examples *)

Definition sl (opt : bool) (n : string) (flags : list str) (v : option str) (lg : option str) (orig : string) : sline :=
  {| sl_optional := opt; sl_name := lit n; sl_flags := flags; sl_version := v; sl_rest := [];
     sl_logical := lg; sl_orig := lit orig |}.
Arguments sl opt n%string flags v lg orig%string.

Definition xcfg : config := {| c_flavor := lit "Linux64"; c_root := lit "/s"; c_max_depth := None; c_keep := false; c_flavors := [] |}.
Definition xprod (n v : string) (acts : list action) : product :=
  {| p_name := lit n; p_version := lit v; p_dir := lit "/s/" ++ lit n ++ lit "/" ++ lit v; p_actions := acts |}.
Arguments xprod n%string v%string acts.

(* a diamond with a version conflict: top -> b -> a 1.0, top -> c -> a 2.0; a 2.0 won *)
Definition xworld : world :=
  [ xprod "a" "1.0" [ASet (lit "A_HOME") (lit "one")];
    xprod "a" "2.0" [ASet (lit "A_HOME") (lit "two"); AAlias (lit "run_a") (lit "echo a")];
    xprod "b" "1.0" [ASetup false (lit "a") false];
    xprod "c" "1.0" [ASetup false (lit "a") false; ASetup true (lit "zz") false];
    xprod "d" "1.0" [ASetup false (lit "a") false];
    xprod "top" "1.0" [] ].
Definition xenv : amap str :=
  [ (lit "SETUP_TOP", lit "top 1.0 -f Linux64 -Z /s"); (lit "SETUP_B", lit "b 1.0 -f Linux64 -Z /s");
    (lit "SETUP_C", lit "c 1.0 -f Linux64 -Z /s"); (lit "SETUP_A", lit "a 2.0 -f Linux64 -Z /s");
    (lit "PATH", lit "/bin") ].
Definition xraw : rawdeps :=
  [ (lit "b", lit "1.0", [ {| d_name := lit "a"; d_optional := false; d_depth := 1 |} ]);
    (lit "c", lit "1.0", [ {| d_name := lit "a"; d_optional := false; d_depth := 1 |};
                           {| d_name := lit "zz"; d_optional := true; d_depth := 1 |};
                           {| d_name := lit "yy"; d_optional := false; d_depth := 2 |} ]) ].
Definition xlines : list tline :=
  [ LComment (lit "# deps");
    LSetup (sl false "b" [] None None "setupRequired(b)");
    LOther (lit "envSet(FOO, bar)");
    LSetup (sl false "c" [] (Some (lit "1.0")) (Some (lit ">= 0.5")) "setupRequired(c 1.0 [>= 0.5])");
    LSetup (sl true "d" [] (Some (lit ">=")) None "setupOptional(d >= 1.0)");
    LBlank ].

Example expansion_example :
  option_map (map (fun o => String.string_of_list_ascii (render o)))
             (match expand xworld xenv (lit "top") [] false xraw xlines with Ok out => Some out | Err _ => None end)
  = Some [ "# deps"; "if (type != exact) {"; "setupRequired(b 1.0 [>= 1.0])"; "}"; "envSet(FOO, bar)";
           "if (type == exact) {"; "setupRequired(b               -j 1.0)"; "setupRequired(a               -j 2.0)";
           "setupRequired(c               -j 1.0)";
           "} else {"; "setupRequired(c 1.0 [>= 0.5])"; "setupOptional(d >= 1.0)"; "}" ]%string.
Proof. vm_compute. reflexivity. Qed.

(* the replay of that table in a database that has since gained a 3.0 and d 2.0: the hypotheses of
   exact_replay_records_pins and exact_reproduces_partial hold, and the run gives what they say *)
Definition xout : list oline :=
  match expand xworld xenv (lit "top") [] false xraw xlines with Ok out => out | Err _ => [] end.
Definition xinterp (t : str) : list action := [ASet (lit "FOO") (lit "bar")].
Definition xworld' : world :=
  [ xprod "a" "3.0" []; xprod "d" "2.0" [];
    xprod "top" "1.0" (exact_actions xinterp (exact_view xout) ++ map absent_action [lit "implicitProducts"]) ] ++
  filter (fun p => negb (str_eqb (p_name p) (lit "top"))) xworld.
Definition xst0 : state := {| s_env := [(lit "PATH", lit "/bin")]; s_aliases := [] |}.

Definition ok_out (r : res (list oline)) : option (list oline) := match r with Ok out => Some out | Err _ => None end.
Definition shown (l : list nvo) : list (string * string * bool) :=
  map (fun x => (String.string_of_list_ascii (fst (fst x)), String.string_of_list_ascii (snd (fst x)), snd x)) l.

Example c17_hypotheses_inhabited :
  expand xworld xenv (lit "top") [] false xraw xlines = Ok xout /\
  (forall n v, recorded xenv n v -> upper_str n <> upper_str (lit "top") ->
     exists x, In x (pins_of xout) /\ upper_str (pin_name x) = upper_str n /\ snd (fst x) = v) /\
  (exists ptop, find_pv xworld' (lit "top") (lit "1.0") = Some ptop /\
     p_actions ptop = exact_actions xinterp (exact_view xout) ++ map absent_action [lit "implicitProducts"]) /\
  (forall t, Forall simple_action (xinterp t)) /\
  (forall n v o, In (n, v, o) (pins_of xout) ->
     exists p, find_pv xworld' n v = Some p /\ Forall quiet_action (p_actions p)) /\
  sane (lit "top") /\ (forall x, In x (pins_of xout) -> sane (pin_name x)) /\
  NoDup (upper_str (lit "top") :: map (fun x => upper_str (pin_name x)) (pins_of xout)) /\
  (forall m, alookup (setup_var m) (s_env xst0) = None) /\
  closed xworld xenv xraw.
Proof.
  assert (P : pins_of xout = [(lit "b", lit "1.0", false); (lit "a", lit "2.0", false); (lit "c", lit "1.0", false)])
    by (vm_compute; reflexivity).
  split; [vm_compute; reflexivity|]. split.
  { intros n v R Hn. apply recorded_in in R. destruct R as [val [I RV]]. rewrite P.
    unfold xenv in I. cbn [In] in I.
    destruct I as [I|[I|[I|[I|[I|[]]]]]];
      pose proof (f_equal fst I) as K; pose proof (f_equal snd I) as Vv; cbn [fst snd] in K, Vv; subst val;
      vm_compute in RV; inversion RV; subst v.
    - exfalso. apply Hn. change (setup_var (lit "top") = setup_var n) in K. apply setup_var_inj in K. now symmetry.
    - exists (lit "b", lit "1.0", false). split; [simpl; tauto|]. split; [|reflexivity].
      change (setup_var (lit "b") = setup_var n) in K. now apply setup_var_inj in K.
    - exists (lit "c", lit "1.0", false). split; [simpl; tauto|]. split; [|reflexivity].
      change (setup_var (lit "c") = setup_var n) in K. now apply setup_var_inj in K.
    - exists (lit "a", lit "2.0", false). split; [simpl; tauto|]. split; [|reflexivity].
      change (setup_var (lit "a") = setup_var n) in K. now apply setup_var_inj in K.
    - exfalso. unfold setup_var in K. vm_compute in K. discriminate K. }
  split. { eexists. split; vm_compute; reflexivity. }
  split. { intro t. constructor; [|constructor]. apply aset_literal_ok; reflexivity. }
  split.
  { intros n v o I. rewrite P in I. simpl in I.
    destruct I as [I|[I|[I|[]]]]; inversion I; subst; eexists; (split; [vm_compute; reflexivity|]).
    - constructor; [exact Logic.I|constructor].
    - constructor; [apply aset_literal_ok; reflexivity|]. constructor; [apply aalias_ok|constructor].
    - constructor; [exact Logic.I|]. constructor; [exact Logic.I|constructor]. }
  split; [reflexivity|]. split.
  { intros x I. rewrite P in I. simpl in I. destruct I as [<-|[<-|[<-|[]]]]; reflexivity. }
  split.
  { rewrite P. vm_compute. repeat (constructor; [simpl; intuition discriminate|]). constructor. }
  split.
  { intro m. unfold xst0. simpl. destruct (str_eqb (setup_var m) (lit "PATH")) eqn:K; [|reflexivity].
    apply str_eqb_eq in K. unfold setup_var in K. inversion K. }
  intros n v. unfold xraw. cbn [lookup_raw].
  destruct (str_eqb (lit "b") n && str_eqb (lit "1.0") v); [vm_compute; eexists; reflexivity|].
  destruct (str_eqb (lit "c") n && str_eqb (lit "1.0") v); [vm_compute; eexists; reflexivity|].
  eexists; reflexivity.
Qed.

(* and the run itself: a stays at the build-time 2.0 although 3.0 exists; d, declared since, is not set up *)
Example replay_example :
  match setup xworld' xcfg 2 xst0 (forced_decisions (lit "1.0") (pins_of xout) [lit "implicitProducts"])
              (lit "top") true 0 false with
  | RDone true st' [] =>
      map (fun n => option_map String.string_of_list_ascii (setup_version (s_env st') (lit n)))
          ["top"; "a"; "b"; "c"; "d"]%string
  | _ => []
  end = [Some "1.0"; Some "2.0"; Some "1.0"; Some "1.0"; None]%string.
Proof. vm_compute. reflexivity. Qed.

(* ------------------------------------------------------------ the pinned tree (D17 and its sibling) *)

(* b came in through a line carrying -j, so its dependency a is not set up *)
Definition jworld : world :=
  [ xprod "a" "1.0" []; xprod "b" "1.0" [ASetup false (lit "a") false]; xprod "c" "1.0" []; xprod "top" "1.0" [] ].
Definition jenv : amap str :=
  [ (lit "SETUP_TOP", lit "top 1.0 -f Linux64 -Z /s"); (lit "SETUP_B", lit "b 1.0 -f Linux64 -Z /s");
    (lit "SETUP_C", lit "c 1.0 -f Linux64 -Z /s") ].
Definition jraw : rawdeps := [ (lit "b", lit "1.0", [ {| d_name := lit "a"; d_optional := false; d_depth := 1 |} ]) ].
Definition jlines (opt : bool) : list tline :=
  [ LSetup (sl false "c" [] None None "setupRequired(c)");
    LSetup (sl opt "b" [lit "-j"] None None (if opt then "setupOptional(b -j)" else "setupRequired(b -j)")) ].

(* pinned: an optional -j product is silently left out of the exact block although it is set up *)
Example just_line_dropped_refuted_pinned :
  option_map (fun o => shown (pins_of o)) (ok_out (expand_pinned jworld jenv (lit "top") [] false jraw (jlines true)))
    = Some [("c", "1.0", false)]%string /\
  option_map (fun o => shown (pins_of o)) (ok_out (expand jworld jenv (lit "top") [] false jraw (jlines true)))
    = Some [("c", "1.0", false); ("b", "1.0", true)]%string.
Proof. split; vm_compute; reflexivity. Qed.

(* pinned: a required -j product makes the expansion abort *)
Example just_line_aborts_refuted_pinned :
  expand_pinned jworld jenv (lit "top") [] false jraw (jlines false) = Err NotFound /\
  option_map (fun o => shown (pins_of o)) (ok_out (expand jworld jenv (lit "top") [] false jraw (jlines false)))
    = Some [("c", "1.0", false); ("b", "1.0", false)]%string.
Proof. split; vm_compute; reflexivity. Qed.

(* b's optional dependency o could not be set up because o requires z, which does not exist; pinned (with
   only the -j repair): z is demanded all the same, and b, optional in the table, is left out *)
Definition oraw : rawdeps :=
  [ (lit "b", lit "1.0", [ {| d_name := lit "o"; d_optional := true; d_depth := 1 |};
                           {| d_name := lit "z"; d_optional := false; d_depth := 2 |} ]) ].
Definition olines : list tline :=
  [ LSetup (sl false "c" [] None None "setupRequired(c)"); LSetup (sl true "b" [] None None "setupOptional(b)") ].
Example optional_subtree_refuted_pinned :
  option_map (fun o => shown (pins_of o)) (ok_out (expand_gen true false false jworld jenv (lit "top") [] false oraw olines))
    = Some [("c", "1.0", false)]%string /\
  option_map (fun o => shown (pins_of o)) (ok_out (expand jworld jenv (lit "top") [] false oraw olines))
    = Some [("c", "1.0", false); ("b", "1.0", true)]%string.
Proof. split; vm_compute; reflexivity. Qed.

(* p1 requires zz, which does not exist; p2 asks for p1 optionally - that setup fails part-way and is rolled
   back - and the top table then sets p1 up without its dependencies (-j).  The closure below p2 meets p1, which
   is set up, and then zz, which is not.  Pinned (with the two earlier repairs): p2, named by an optional line
   and set up, is silently left out of the exact block; repaired: it stays *)
Definition cworld : world :=
  [ xprod "p1" "2.0" [ASetup false (lit "zz") false]; xprod "p2" "1.0" [ASetup true (lit "p1") false];
    xprod "p3" "2.0" [ASetup true (lit "p2") false; ASetup true (lit "p1") true] ].
Definition cenv : amap str :=
  [ (lit "SETUP_P3", lit "p3 2.0 -f Linux64 -Z /s"); (lit "SETUP_P2", lit "p2 1.0 -f Linux64 -Z /s");
    (lit "SETUP_P1", lit "p1 2.0 -f Linux64 -Z /s") ].
Definition craw : rawdeps :=
  [ (lit "p2", lit "1.0", [ {| d_name := lit "p1"; d_optional := true; d_depth := 1 |};
                            {| d_name := lit "zz"; d_optional := false; d_depth := 2 |} ]) ].
Definition clines : list tline :=
  [ LSetup (sl true "p2" [] None None "setupOptional(p2)");
    LSetup (sl true "p1" [lit "-j"] None None "setupOptional(p1 -j)") ].
Example closure_error_drops_refuted_pinned :
  option_map (fun o => shown (pins_of o)) (ok_out (expand_gen true true false cworld cenv (lit "p3") [] false craw clines))
    = Some [("p1", "2.0", true)]%string /\
  option_map (fun o => shown (pins_of o)) (ok_out (expand cworld cenv (lit "p3") [] false craw clines))
    = Some [("p2", "1.0", true); ("p1", "2.0", true)]%string /\
  (* the build environment is what Model/Setup.v gives for setup p3: p3, p2, p1 (fails: zz, rolled back), p1 -j *)
  match setup cworld xcfg 4 xst0 [Some (lit "2.0"); Some (lit "1.0"); Some (lit "2.0"); None; Some (lit "2.0")]
              (lit "p3") true 0 false with
  | RDone true st' [] => map (fun n => option_map String.string_of_list_ascii (setup_version (s_env st') (lit n)))
                             ["p3"; "p2"; "p1"; "zz"]%string
  | _ => []
  end = [Some "2.0"; Some "1.0"; Some "2.0"; None]%string.
Proof. repeat split; vm_compute; reflexivity. Qed.

(* Products declared under the fall-back flavor.  p3, p2, p1 are declared under generic (config c_flavors), the
   running flavor is Linux64; p4 -> p3 -> p2 -> p1.  Eups.setup finds them (it tries the fall-back flavors) and
   records them with -f generic.  The dependency lists are inputs of this model: the pinned app.getDependencies /
   Table.dependencies looked under the running flavor only and reported nothing below p3 - with that list only
   p3 is pinned and the exact replay sets up neither p2 nor p1; with the list the repaired code reports
   (proposed_fixes/C17-fallback-flavor-closure) all three are, and the replay records them again, -f generic *)
Definition gcfg : config :=
  {| c_flavor := lit "Linux64"; c_root := lit "/s"; c_max_depth := None; c_keep := false;
     c_flavors := [ (lit "p1", lit "1.0", lit "generic"); (lit "p2", lit "1.0", lit "generic");
                    (lit "p3", lit "2.0", lit "generic") ] |}.
Definition gworld : world :=
  [ xprod "p1" "1.0" []; xprod "p2" "1.0" [ASetup false (lit "p1") false];
    xprod "p3" "2.0" [ASetup false (lit "p2") false];
    xprod "p4" "1.0" [ASetup false (lit "p3") false; ASet (lit "FOO_1") (lit "bar")] ].
Definition genv : amap str :=
  match setup gworld gcfg 5 xst0 [Some (lit "1.0"); Some (lit "2.0"); Some (lit "1.0"); Some (lit "1.0")]
              (lit "p4") true 0 false with
  | RDone true st' [] => s_env st'
  | _ => []
  end.
Definition graw : rawdeps :=
  [ (lit "p3", lit "2.0", [ {| d_name := lit "p2"; d_optional := false; d_depth := 1 |};
                            {| d_name := lit "p1"; d_optional := false; d_depth := 2 |} ]) ].
Definition glines : list tline :=
  [ LSetup (sl false "p3" [] None None "setupRequired(p3)"); LOther (lit "envSet(FOO_1, bar)") ].
Definition gout : list oline :=
  match expand gworld genv (lit "p4") [] false graw glines with Ok out => out | Err _ => [] end.
Definition gworld' : world :=
  [ xprod "p1" "4.0" [];
    xprod "p4" "1.0" (exact_actions xinterp (exact_view gout) ++ map absent_action [lit "implicitProducts"]) ] ++
  filter (fun p => negb (str_eqb (p_name p) (lit "p4"))) gworld.
Example fallback_flavor_lists_refuted_pinned :
  option_map String.string_of_list_ascii (alookup (lit "SETUP_P3") genv) = Some "p3 2.0 -f generic -Z /s"%string /\
  option_map (fun o => shown (pins_of o)) (ok_out (expand gworld genv (lit "p4") [] false [] glines))
    = Some [("p3", "2.0", false)]%string /\
  shown (pins_of gout) = [("p3", "2.0", false); ("p2", "1.0", false); ("p1", "1.0", false)]%string /\
  match setup gworld' gcfg 2 xst0 (forced_decisions (lit "1.0") (pins_of gout) [lit "implicitProducts"])
              (lit "p4") true 0 false with
  | RDone true st' [] => map (fun n => option_map String.string_of_list_ascii (alookup (setup_var (lit n)) (s_env st')))
                             ["p4"; "p3"; "p2"; "p1"]%string
  | _ => []
  end = [Some "p4 1.0 -f Linux64 -Z /s"; Some "p3 2.0 -f generic -Z /s"; Some "p2 1.0 -f generic -Z /s";
         Some "p1 1.0 -f generic -Z /s"]%string.
Proof. repeat split; vm_compute; reflexivity. Qed.

(* a diamond with a conflict (a 1.0 and a 2.0 both wanted): only the version that is set up is pinned *)
Example conflict_pins_the_set_up_version :
  option_map (fun o => shown (pins_of o)) (ok_out (expand xworld xenv (lit "top") [] false xraw xlines))
    = Some [("b", "1.0", false); ("a", "2.0", false); ("c", "1.0", false)]%string.
Proof. vm_compute. reflexivity. Qed.

(* ------------------------------------------------------------ an optional dependency that fails part-way *)

(* top -> a, b;  a -> c, setupOptional(x);  b -> c;  x -> c, y, and then a line that needs a variable nobody
   defines.  Setting top up starts x two levels down: SETUP_X is recorded, c is there already, y is set up,
   the envSet fails, and a - x being optional - goes on from the environment it had before x. *)
Definition fx_actions (broken : bool) : list action :=
  [ASetup false (lit "c") false; ASetup false (lit "y") false] ++
  (if broken then [ASet (lit "X_CONF") (lit "${X_SITE_DIR}/x.conf")] else []).
Definition fworld_gen (broken : bool) : world :=
  [ xprod "c" "1.0" [ASet (lit "C_HOME") (lit "/s/c/1.0")];
    xprod "c" "2.0" [];
    xprod "y" "1.0" [];
    xprod "x" "1.0" (fx_actions broken);
    xprod "a" "1.0" [ASetup false (lit "c") false; ASetup true (lit "x") false];
    xprod "b" "1.0" [ASetup false (lit "c") false];
    xprod "top" "1.0" [ASetup false (lit "a") false; ASetup false (lit "b") false] ].
Definition fworld : world := fworld_gen true.
(* the decisions of the resolver, one per forward call: top, a, c, x, c (already set up), y, b, c *)
Definition fdecisions : list decision := map (fun _ => Some (lit "1.0")) (seq 0 8).
Definition fenv_of (w : world) : amap str :=
  match setup w xcfg 6 xst0 fdecisions (lit "top") true 0 false with
  | RDone true st' [] => s_env st'
  | _ => []
  end.
Definition fenv : amap str := fenv_of fworld.
(* what Table.dependencies lists below a 1.0 and b 1.0 *)
Definition fraw : rawdeps :=
  [ (lit "a", lit "1.0", [ {| d_name := lit "c"; d_optional := false; d_depth := 1 |};
                           {| d_name := lit "x"; d_optional := true; d_depth := 1 |};
                           {| d_name := lit "y"; d_optional := false; d_depth := 2 |} ]);
    (lit "b", lit "1.0", [ {| d_name := lit "c"; d_optional := false; d_depth := 1 |} ]) ].
Definition flines : list tline :=
  [ LSetup (sl false "a" [] None None "setupRequired(a)");
    LSetup (sl false "b" [] None (Some (lit ">= 1.0")) "setupRequired(b [>= 1.0])");
    LOther (lit "envPrepend(TOP_PATH, ${PRODUCT_DIR}/bin)") ].
Definition versions_in (e : amap str) : list (option string) :=
  map (fun n => option_map String.string_of_list_ascii (setup_version e (lit n))) ["top"; "a"; "b"; "c"; "x"; "y"]%string.

(* the build succeeds, consumes every decision, and neither x nor y is set up afterwards ... *)
Example failed_optional_build :
  (exists st', setup fworld xcfg 6 xst0 fdecisions (lit "top") true 0 false = RDone true st' [] /\ s_env st' = fenv) /\
  versions_in fenv = [Some "1.0"; Some "1.0"; Some "1.0"; Some "1.0"; None; None]%string.
Proof. split; [eexists; split|]; vm_compute; reflexivity. Qed.

(* ... although x was started: called on its own from the environment a had reached, the setup of x raises
   from a state that records both x and y (the state failed_optional_is_rolled_back calls st1) *)
Example failed_optional_was_started :
  match setup fworld xcfg 3
              {| s_env := [(lit "SETUP_C", lit "c 1.0 -f Linux64 -Z /s"); (lit "SETUP_A", lit "a 1.0 -f Linux64 -Z /s")];
                 s_aliases := [] |}
              [Some (lit "1.0"); Some (lit "1.0"); Some (lit "1.0")] (lit "x") true 2 false with
  | RRaise st1 [] => map (fun n => option_map String.string_of_list_ascii (setup_version (s_env st1) (lit n))) ["x"; "y"]%string
  | _ => []
  end = [Some "1.0"; Some "1.0"]%string.
Proof. vm_compute. reflexivity. Qed.

(* the hypotheses of pins_only_what_setup_left_set_up hold of this run, and the expansion pins a, c and b only *)
Definition fout : list oline :=
  match expand fworld fenv (lit "top") [] false fraw flines with Ok out => out | Err _ => [] end.
Example failed_optional_is_not_pinned :
  (exists st', setup fworld xcfg 6 xst0 fdecisions (lit "top") true 0 false = RDone true st' [] /\
               expand fworld (s_env st') (lit "top") [] false fraw flines = Ok fout) /\
  shown (pins_of fout) = [("a", "1.0", false); ("c", "1.0", false); ("b", "1.0", false)]%string /\
  map (fun o => String.string_of_list_ascii (render o)) fout
  = [ "if (type == exact) {"; "setupRequired(a               -j 1.0)"; "setupRequired(c               -j 1.0)";
      "setupRequired(b               -j 1.0)"; "} else {";
      "setupRequired(a 1.0 [>= 1.0])"; "setupRequired(b 1.0 [>= 1.0])"; "}";
      "envPrepend(TOP_PATH, ${PRODUCT_DIR}/bin)" ]%string.
Proof. split; [eexists; split|split]; vm_compute; reflexivity. Qed.

(* What the instance remembers is not what is set up.  [fenv_of (fworld_gen false)] records every product whose
   setup the run above started (the world without the line that fails: x and y stay).  A closure collection that
   looked there - Eups.alreadySetupProducts - instead of in the environment would pin x 1.0 and y 1.0, neither of
   which is recorded in the environment the build left: the conclusion of pins_only_what_setup_left_set_up is
   false of it. *)
Example remembered_is_not_set_up_refuted :
  let remembered := fenv_of (fworld_gen false) in
  option_map (fun o => shown (pins_of o)) (ok_out (expand fworld remembered (lit "top") [] false fraw flines))
    = Some [("a", "1.0", false); ("c", "1.0", false); ("x", "1.0", true); ("y", "1.0", false); ("b", "1.0", false)]%string /\
  ~ recorded fenv (lit "x") (lit "1.0") /\ ~ recorded fenv (lit "y") (lit "1.0") /\
  alookup (setup_var (lit "x")) fenv = None /\ alookup (setup_var (lit "y")) fenv = None.
Proof. repeat split; try (intro R; vm_compute in R; discriminate R); vm_compute; reflexivity. Qed.

(* ------------------------------------------------------------ the reader of C11 on the expanded text *)

(* exact_view / inexact_view stand for what Table._read makes of the generated if-blocks.  Running C11's model
   of the real reader (Model/Blocks.v table_actions; its second flag selects the reader with the repair of C11's
   D6, proposed_fixes/C11-empty-branch) on the rendered text agrees when the exact block is not empty ... *)
Definition nl : ascii := ascii_of_nat 10.
Definition table_text (out : list oline) : str := join nl (map render out) ++ [nl].
Definition cmds (r : res (list Args.action)) : list (string * list string) :=
  match r with
  | Ok l => map (fun a => (String.string_of_list_ascii (Args.a_cmd a), map String.string_of_list_ascii (Args.a_args a))) l
  | Err _ => []
  end.
Definition exact_env : Cond.cenv := Cond.mkCenv (lit "Linux64") [lit "exact"].
Definition inexact_env : Cond.cenv := Cond.mkCenv (lit "Linux64") [].

Example reader_agrees_when_pins_exist :
  cmds (Blocks.table_actions true true (lit "top") (table_text xout) exact_env)
    = [ ("envSet", ["FOO"; "bar"]); ("setupRequired", ["b"; "-j"; "1.0"]); ("setupRequired", ["a"; "-j"; "2.0"]);
        ("setupRequired", ["c"; "-j"; "1.0"]) ]%string /\
  cmds (Blocks.table_actions true true (lit "top") (table_text xout) inexact_env)
    = [ ("setupRequired", ["b"; "1.0"; "[>="; "1.0]"]); ("envSet", ["FOO"; "bar"]);
        ("setupRequired", ["c"; "1.0"; "[>="; "0.5]"]); ("setupRequired", ["d"; ">="; "1.0"]) ]%string.
Proof. split; vm_compute; reflexivity. Qed.

(* ... and also when nothing is pinned, the exact block being empty: exact mode sees the lines outside the
   blocks only, non-exact mode sees the original setup line as well. *)
Definition eout : list oline :=
  match expand [] [] (lit "top") [] false []
               [LOther (lit "envSet(A, c)"); LSetup (sl true "b" [] None None "setupOptional(b)")] with
  | Ok out => out
  | Err _ => []
  end.
Example reader_agrees_when_nothing_is_pinned :
  pins_of eout = [] /\
  map render (exact_view eout) = [lit "envSet(A, c)"] /\
  cmds (Blocks.table_actions true true (lit "top") (table_text eout) exact_env) = [ ("envSet", ["A"; "c"]) ]%string /\
  cmds (Blocks.table_actions true true (lit "top") (table_text eout) inexact_env)
    = [ ("envSet", ["A"; "c"]); ("setupRequired", ["b"]) ]%string.
Proof. repeat split; vm_compute; reflexivity. Qed.

(* The reader before that repair did not: C11's finding D6 (a branch without a command) made it run the else
   branch exactly in exact mode.  This was the one input class on which the hypothesis
   [p_actions ptop = exact_actions interp (exact_view out) ++ ...] of the replay theorems was not what the real
   reader delivered (known finding D6-C17, empty exact block). *)
Example empty_exact_block_refuted_pinned :
  pins_of eout = [] /\
  cmds (Blocks.table_actions true false (lit "top") (table_text eout) exact_env)
    = [ ("envSet", ["A"; "c"]); ("setupRequired", ["b"]) ]%string /\
  cmds (Blocks.table_actions true false (lit "top") (table_text eout) inexact_env) = [ ("envSet", ["A"; "c"]) ]%string.
Proof. repeat split; vm_compute; reflexivity. Qed.

(* ================================================================================================
   The exact-reproduction clause in full.
   The build is a run of the composed model of C01 (Model/SetupFull.v: Eups.setup with C03's resolver in place
   of the decision stream); C01's closure theorem (Proofs/SetupFullClosure.v closure_lemma = Props/C01.v
   closure_exact) says what a conflict-free build leaves set up; the expansion pins all of it
   (exact_block_complete); the replay records it again.  The hypothesis [covered] of exact_reproduces_partial is
   derived (Proofs/ExpandFull.v build_is_pinned).
   ================================================================================================ *)
From Eupsv Require Import Model.Resolve Model.ResolveSpec Model.SetupFull.
From Eupsv Require Import Proofs.SetupFrame Proofs.SetupInv Proofs.SetupFullClosure Proofs.ExpandFull.

(* HYPOTHESES THAT REMAIN
   the build (those of C01's closure_exact_request, and a shell in which nothing is set up):
     WF2 of the world; no --max-depth; the database view well formed and the comparator a total order on the
     declared version names; the VRO is the one selectVRO makes for the request and has no keep;
     [conflict_free ... D]: one assignment D of versions explains the request and every dependency line of every
     reachable table (no line with -j) - no product is requested in two versions;
     no path variable of the starting environment holds a dollar; no SETUP_ variable is set;
     request_full succeeds with final state stb.
   the expansion:
     [expand] (the repaired code) succeeds on the final environment of the build, empty productList;
     [lists_cover fw D top rd ls] (Proofs/ExpandFull.v): the lists rd that Table.dependencies returned for the
     products named by the table's lines name every member of C01's closure reach_ok fw D top (the dependency walk
     is not part of Model/Expand.v: rd is an input, the correspondence check feeds the lists the real walk returns).
   the later database w' (arbitrary otherwise: newer versions, moved tags - no tag appears, the decisions are the
   explicit versions of the exact block, which is what C03's explicit_version theorems give for the resolver):
     the table of top topv in w' is the exact reading of the expanded table (plus optional lines that do not
     resolve); topv is the version D assigns to top; the other lines mean commands that cannot fail and set no
     SETUP_ variable; every pinned version is still declared, its own commands likewise (its setup lines are not
     followed: -j); product names do not collide in upper case and no NAME_DIR is itself a SETUP_ variable; the
     replay starts where no SETUP_ variable is set; fuel 2.
   CONCLUSION
     (0) the build recorded top at topv, and (1) so does the replay;
     (2) every product the world knows that the build left set up is recorded by the replay at its build-time
         version - although w' may prefer other versions;
     (3) whatever the replay records, apart from top, the build had recorded at that very version. *)
Theorem exact_reproduces vcmp vmatch fw cfg rc flavors dl rank vro top version D fuel st0 stb tr
                         force rd ls out w' cfg' interp ptop topv absent fuel' st1 :
  WF2 (fw_products fw) dl rank -> c_max_depth cfg = None ->
  wf_db (db_of cfg fw) = true -> (forall n, total_order_on vcmp (names_of (db_of cfg fw) n)) ->
  select_vro rc (request_opts cfg version) = Ok vro -> mem_entry EKeep vro = false ->
  conflict_free vcmp vmatch fw cfg rc flavors vro top {| li_version := version; li_expr := None |} D ->
  nodollar_paths (fw_products fw) (s_env st0) ->
  (forall m, alookup (setup_var m) (s_env st0) = None) ->
  request_full vcmp vmatch fw cfg rc flavors fuel st0 top version true false = Ok (Some stb, tr) ->
  expand (fw_products fw) (s_env stb) top [] force rd ls = Ok out ->
  lists_cover fw D top rd ls ->
  D top = Some topv ->
  c_max_depth cfg' = None ->
  find_pv w' top topv = Some ptop ->
  p_actions ptop = exact_actions interp (exact_view out) ++ map absent_action absent ->
  (forall t, Forall simple_action (interp t)) ->
  (forall n v o, In (n, v, o) (pins_of out) ->
     exists p, find_pv w' n v = Some p /\ Forall quiet_action (p_actions p)) ->
  sane top -> (forall x, In x (pins_of out) -> sane (pin_name x)) ->
  NoDup (upper_str top :: map (fun x => upper_str (pin_name x)) (pins_of out)) ->
  (forall m, alookup (setup_var m) (s_env st1) = None) ->
  2 <= fuel' ->
  (exists q, find_pv (fw_products fw) top topv = Some q /\
             find_setup_product (fw_products fw) (s_env stb) top = Some q) /\
  exists st',
    setup w' cfg' fuel' st1 (forced_decisions topv (pins_of out) absent) top true 0 false = RDone true st' [] /\
    alookup (setup_var top) (s_env st') = Some (setup_string cfg' top topv) /\
    (forall k q, known (fw_products fw) k -> k <> top ->
       find_setup_product (fw_products fw) (s_env stb) k = Some q ->
       alookup (setup_var k) (s_env st') = Some (setup_string cfg' k (p_version q))) /\
    (forall m, alookup (setup_var m) (s_env st') <> None -> upper_str m <> upper_str top ->
       exists n v, setup_var n = setup_var m /\ recorded (s_env stb) n v /\
                   alookup (setup_var m) (s_env st') = Some (setup_string cfg' n v)).
Proof.
  intros H1 H2 H3 H4 H5 H6 H7 H8 H9 H10 H11 H12 H13 H14 H15 H16 H17 H18 H19 H20 H21 H22 H23. split.
  - exact (build_top vcmp vmatch fw cfg rc flavors dl rank vro top version D H1 H2 H3 H4 H5 H6 H7 fuel st0 stb tr
             H8 H9 H10 topv H13).
  - exact (reproduces_full vcmp vmatch fw cfg rc flavors dl rank vro top version D H1 H2 H3 H4 H5 H6 H7 fuel st0 stb tr
             H8 H9 H10 force rd ls out H11 H12 w' cfg' interp ptop topv absent fuel' st1
             H14 H15 H16 H17 H18 H19 H20 H21 H22 H23).
Qed.
Print Assumptions exact_reproduces.

(* ---- the hypotheses are inhabited ----
   Three products: app 1.0 requires lib and asks for extra optionally; extra 1.0 requires lib; every table ends with
   the implicit optional line; current: lib 1.0, extra 1.0, app 1.0.
   BUILD   setup app  from the empty environment, by the composed model (resolver included): app, lib, extra at 1.0.
   EXPAND  the table of app, with the lists Table.dependencies gives for lib 1.0 and extra 1.0.
   LATER   lib 2.0 has been declared and current moved to it; app's table is the expanded one.
   REPLAY  through Model/Setup.v with the forced decisions: lib 1.0 again. *)
From Eupsv Require Import Model.SetupWf Proofs.SetupWf Proofs.SetupExample Proofs.SetupFullExample Generated.Config.
From Eupsv Require Proofs.Resolve.

Definition rworld : world :=
  [ xprod "lib" "1.0" [ASet (lit "LIB_HOME") (lit "/s/lib/1.0"); ASetup true (lit "implicitProducts") false];
    xprod "extra" "1.0" [ASetup false (lit "lib") false; ASet (lit "EXTRA_HOME") (lit "/s/extra/1.0");
                         ASetup true (lit "implicitProducts") false];
    xprod "app" "1.0" [ASetup false (lit "lib") false; ASetup true (lit "extra") false;
                       ASet (lit "APP_HOME") (lit "/s/app/1.0"); ASetup true (lit "implicitProducts") false] ].
Definition rfw : fworld :=
  {| fw_products := rworld; fw_lines := [];
     fw_tags := [ (lit "lib", lit "current", lit "1.0"); (lit "extra", lit "current", lit "1.0");
                  (lit "app", lit "current", lit "1.0") ] |}.
Definition rorder : list str := [lit "implicitProducts"; lit "lib"; lit "extra"; lit "app"].
Definition rD (n : str) : option str :=
  if str_eqb n (lit "app") then Some (lit "1.0")
  else if str_eqb n (lit "lib") then Some (lit "1.0")
  else if str_eqb n (lit "extra") then Some (lit "1.0") else None.
Definition rbuild := request_full_simple rfw ex_cfg default_config ex_flavors 20 ex_st0 (lit "app") None true false.
Definition rstb : state := match rbuild with Ok (Some st, _) => st | _ => ex_st0 end.
Definition rtr : list decision := match rbuild with Ok (_, tr) => tr | _ => [] end.
Definition rraw : rawdeps :=
  [ (lit "lib", lit "1.0", [ {| d_name := lit "implicitProducts"; d_optional := true; d_depth := 1 |} ]);
    (lit "extra", lit "1.0", [ {| d_name := lit "lib"; d_optional := false; d_depth := 1 |};
                               {| d_name := lit "implicitProducts"; d_optional := true; d_depth := 2 |};
                               {| d_name := lit "implicitProducts"; d_optional := true; d_depth := 1 |} ]) ].
Definition rline_lib : sline := sl false "lib" [] None None "setupRequired(lib)".
Definition rline_extra : sline := sl true "extra" [] None None "setupOptional(extra)".
Definition rlines : list tline :=
  [ LSetup rline_lib; LSetup rline_extra; LOther (lit "envSet(APP_HOME, ${PRODUCT_DIR})") ].
Definition rout : list oline :=
  match expand rworld (s_env rstb) (lit "app") [] false rraw rlines with Ok out => out | Err _ => [] end.
Definition rinterp (t : str) : list action := [ASet (lit "APP_HOME") (lit "/s/app/1.0")].
Definition rtable : list action :=
  exact_actions rinterp (exact_view rout) ++ map absent_action [lit "implicitProducts"].
(* the later database: lib 2.0 declared; the table of app 1.0 replaced by the expanded one *)
Definition rworld' : world :=
  [ xprod "lib" "2.0" [ASet (lit "LIB_HOME") (lit "/s/lib/2.0"); ASetup true (lit "implicitProducts") false];
    xprod "app" "1.0" rtable ] ++ filter (fun p => negb (str_eqb (p_name p) (lit "app"))) rworld.
(* ... as a database of the composed model: current has moved to lib 2.0; the lines of the exact block carry
   their explicit versions *)
Definition rfw' : fworld :=
  {| fw_products := rworld';
     fw_lines := [ (lit "app", lit "1.0", [li_v "1.0"; li_v "1.0"; no_info; no_info]) ];
     fw_tags := [ (lit "lib", lit "current", lit "2.0"); (lit "extra", lit "current", lit "1.0");
                  (lit "app", lit "current", lit "1.0") ] |}.
(* ... and with the table as it was before the expansion, for comparison *)
Definition rfw'' : fworld :=
  {| fw_products := xprod "lib" "2.0" [ASet (lit "LIB_HOME") (lit "/s/lib/2.0"); ASetup true (lit "implicitProducts") false]
                    :: rworld;
     fw_lines := []; fw_tags := fw_tags rfw' |}.

Example exact_reproduces_inhabited :
  (* the build *)
  WF2 (fw_products rfw) (dl_of rworld) (rank_of rorder) /\ c_max_depth ex_cfg = None /\
  wf_db (db_of ex_cfg rfw) = true /\ (forall n, total_order_on vcmp_simple (names_of (db_of ex_cfg rfw) n)) /\
  select_vro default_config (request_opts ex_cfg None) = Ok ex_vro /\ mem_entry EKeep ex_vro = false /\
  conflict_free vcmp_simple vmatch_simple rfw ex_cfg default_config ex_flavors ex_vro (lit "app")
                {| li_version := None; li_expr := None |} rD /\
  nodollar_paths (fw_products rfw) (s_env ex_st0) /\ (forall m, alookup (setup_var m) (s_env ex_st0) = None) /\
  request_full vcmp_simple vmatch_simple rfw ex_cfg default_config ex_flavors 20 ex_st0 (lit "app") None true false
    = Ok (Some rstb, rtr) /\
  (* the expansion *)
  expand (fw_products rfw) (s_env rstb) (lit "app") [] false rraw rlines = Ok rout /\
  lists_cover rfw rD (lit "app") rraw rlines /\
  rD (lit "app") = Some (lit "1.0") /\
  (* the later database and the replay *)
  (exists ptop, find_pv rworld' (lit "app") (lit "1.0") = Some ptop /\
     p_actions ptop = exact_actions rinterp (exact_view rout) ++ map absent_action [lit "implicitProducts"]) /\
  (forall t, Forall simple_action (rinterp t)) /\
  (forall n v o, In (n, v, o) (pins_of rout) ->
     exists p, find_pv rworld' n v = Some p /\ Forall quiet_action (p_actions p)) /\
  sane (lit "app") /\ (forall x, In x (pins_of rout) -> sane (pin_name x)) /\
  NoDup (upper_str (lit "app") :: map (fun x => upper_str (pin_name x)) (pins_of rout)).
Proof.
  assert (P : pins_of rout = [(lit "lib", lit "1.0", false); (lit "extra", lit "1.0", true)]) by (vm_compute; reflexivity).
  assert (Slib : sets_up rfw rD (lit "lib")).
  { eapply (su_intro rfw rD (lit "lib") (lit "1.0")); [reflexivity|vm_compute; reflexivity|].
    intros x j Hin. cbn in Hin. intuition discriminate. }
  assert (Sextra : sets_up rfw rD (lit "extra")).
  { eapply (su_intro rfw rD (lit "extra") (lit "1.0")); [reflexivity|vm_compute; reflexivity|].
    intros x j Hin. cbn in Hin. destruct Hin as [E|[E|[E|[]]]]; try discriminate E. injection E as <- _. exact Slib. }
  assert (Rlib : reach_ok rfw rD (lit "app") (lit "lib")).
  { eapply (ro_dep rfw rD (lit "app") (lit "1.0") _ false (lit "lib") false (lit "lib"));
      [reflexivity|vm_compute; reflexivity|now left|exact Slib|constructor]. }
  assert (Rextra : reach_ok rfw rD (lit "app") (lit "extra")).
  { eapply (ro_dep rfw rD (lit "app") (lit "1.0") _ true (lit "extra") false (lit "extra"));
      [reflexivity|vm_compute; reflexivity|right; now left|exact Sextra|constructor]. }
  split; [apply wf2_check_sound; vm_compute; reflexivity|]. split; [reflexivity|]. split; [vm_compute; reflexivity|].
  split; [apply total_order_all; apply Proofs.Resolve.total_orderb_sound; vm_compute; reflexivity|].
  split; [reflexivity|]. split; [reflexivity|]. split.
  { split; [vm_compute; reflexivity|]. intros n v p _ Dn F. unfold rD in Dn.
    destruct (str_eqb_spec n (lit "app")) as [->|N1].
    { injection Dn as <-. vm_compute in F. injection F as <-. cbn. repeat split; vm_compute; reflexivity. }
    destruct (str_eqb_spec n (lit "lib")) as [->|N2].
    { injection Dn as <-. vm_compute in F. injection F as <-. cbn. repeat split; vm_compute; reflexivity. }
    destruct (str_eqb_spec n (lit "extra")) as [->|N3]; [|discriminate].
    injection Dn as <-. vm_compute in F. injection F as <-. cbn. repeat split; vm_compute; reflexivity. }
  split; [apply nodollar_nil|]. split; [intro m; reflexivity|]. split; [vm_compute; reflexivity|].
  split; [vm_compute; reflexivity|]. split.
  { intros k RO Nk. destruct (reach_ok_assigned rfw rD (lit "app") k RO) as [->|[v [p [Dk _]]]]; [contradiction|].
    unfold rD in Dk. destruct (str_eqb_spec k (lit "app")) as [->|N1]; [contradiction|].
    destruct (str_eqb_spec k (lit "lib")) as [->|N2].
    { exists rline_lib, (lit "1.0"). split; [now left|]. split; [discriminate|]. split; [exact Rlib|].
      split; [reflexivity|now left]. }
    destruct (str_eqb_spec k (lit "extra")) as [->|N3]; [|discriminate].
    exists rline_extra, (lit "1.0"). split; [right; now left|]. split; [discriminate|]. split; [exact Rextra|].
    split; [reflexivity|now left]. }
  split; [reflexivity|]. split; [eexists; split; vm_compute; reflexivity|].
  split. { intro t. constructor; [|constructor]. apply aset_literal_ok; reflexivity. }
  split.
  { intros n v o I. rewrite P in I. simpl in I.
    destruct I as [I|[I|[]]]; inversion I; subst; eexists; (split; [vm_compute; reflexivity|]).
    - constructor; [apply aset_literal_ok; reflexivity|]. constructor; [exact Logic.I|constructor].
    - constructor; [exact Logic.I|]. constructor; [apply aset_literal_ok; reflexivity|].
      constructor; [exact Logic.I|constructor]. }
  split; [reflexivity|]. split.
  { intros x I. rewrite P in I. simpl in I. destruct I as [<-|[<-|[]]]; reflexivity. }
  rewrite P. vm_compute. repeat (constructor; [simpl; intuition discriminate|]). constructor.
Qed.

(* the theorem applied to this instance; and the runs themselves *)
Example exact_reproduces_example :
  (* the build set up app, lib, extra at 1.0 *)
  map (fun n => option_map String.string_of_list_ascii (setup_version (s_env rstb) (lit n))) ["app"; "lib"; "extra"]%string
    = [Some "1.0"; Some "1.0"; Some "1.0"]%string /\
  shown (pins_of rout) = [("lib", "1.0", false); ("extra", "1.0", true)]%string /\
  (* the replay through Model/Setup.v, decisions forced by the exact block: lib 1.0 although 2.0 is current *)
  (exists st',
     setup rworld' ex_cfg 2 ex_st0 (forced_decisions (lit "1.0") (pins_of rout) [lit "implicitProducts"])
           (lit "app") true 0 false = RDone true st' [] /\
     map (fun n => option_map String.string_of_list_ascii (setup_version (s_env st') (lit n))) ["app"; "lib"; "extra"]%string
       = [Some "1.0"; Some "1.0"; Some "1.0"]%string /\
     (* the composed model on the later database, explicit versions on the lines of the exact block: the resolver
        takes exactly the forced decisions and ends in the same state *)
     request_full_simple rfw' ex_cfg default_config ex_flavors 20 ex_st0 (lit "app") (Some (lit "1.0")) true false
       = Ok (Some st', forced_decisions (lit "1.0") (pins_of rout) [lit "implicitProducts"])) /\
  (* the table as it was, in the later database: lib 2.0 *)
  (exists st'' tr'',
     request_full_simple rfw'' ex_cfg default_config ex_flavors 20 ex_st0 (lit "app") None true false = Ok (Some st'', tr'') /\
     option_map String.string_of_list_ascii (setup_version (s_env st'') (lit "lib")) = Some "2.0"%string).
Proof.
  split; [vm_compute; reflexivity|]. split; [vm_compute; reflexivity|]. split.
  - eexists. split; [vm_compute; reflexivity|]. split; vm_compute; reflexivity.
  - eexists. eexists. split; vm_compute; reflexivity.
Qed.

(* the theorem applied to the instance *)
Example exact_reproduces_applies :
  exists st',
    setup rworld' ex_cfg 2 ex_st0 (forced_decisions (lit "1.0") (pins_of rout) [lit "implicitProducts"])
          (lit "app") true 0 false = RDone true st' [] /\
    (forall k q, known rworld k -> k <> lit "app" -> find_setup_product rworld (s_env rstb) k = Some q ->
       alookup (setup_var k) (s_env st') = Some (setup_string ex_cfg k (p_version q))) /\
    (forall m, alookup (setup_var m) (s_env st') <> None -> upper_str m <> upper_str (lit "app") ->
       exists n v, setup_var n = setup_var m /\ recorded (s_env rstb) n v /\
                   alookup (setup_var m) (s_env st') = Some (setup_string ex_cfg n v)).
Proof.
  destruct exact_reproduces_inhabited
    as [H1 [H2 [H3 [H4 [H5 [H6 [H7 [H8 [H9 [H10 [H11 [H12 [H13 [[ptop [H15 H16]] [H17 [H18 [H19 [H20 H21]]]]]]]]]]]]]]]]]].
  destruct (exact_reproduces vcmp_simple vmatch_simple rfw ex_cfg default_config ex_flavors (dl_of rworld) (rank_of rorder)
              ex_vro (lit "app") None rD 20 ex_st0 rstb rtr false rraw rlines rout rworld' ex_cfg rinterp ptop (lit "1.0")
              [lit "implicitProducts"] 2 ex_st0
              H1 H2 H3 H4 H5 H6 H7 H8 H9 H10 H11 H12 H13 eq_refl H15 H16 H17 H18 H19 H20 H21 (fun m => eq_refl) (le_n 2))
    as [_ [st' [R [_ [A B]]]]].
  exists st'. split; [exact R|]. split; [exact A|exact B].
Qed.

(* ================================================================================================
   LEVEL A - the clauses on TEXT.
   Model/ExpandText.v: [classify_text tfix text] reads the text of a table file into the classified lines of
   Model/Expand.v (the scanner of expandTableFile and the argument loop of its subSetup) or answers [Outside why]
   for a construct it does not follow (the list is at the head of that file) or [Raises e] where the code raises;
   [expand_text_gen tfix jfix sfix cfix w e top plist force rd text] is the text expandTableFile writes, white space
   included (indentation, the pins padded to 15 columns).  tfix selects the repaired (true) or pinned (false) recognition
   of setup lines (proposed_fixes/C17-setup-line-spelling); [expand_text] is the repaired code.
   Reading a written text back: [stripped_lines t] its lines without outer white space; [exact_block_of_text t] the
   lines between  if (type == exact) {  and  } else { ; [exact_text_view t] / [inexact_text_view t] the lines a
   reader sees with / without type == exact; [other_lines ls] the lines of ls that are neither blank nor comments nor
   mention a setup command, each without trailing comment and outer blanks; [setup_texts ls] the lines that do
   mention one; [pin_text o n v] the line  setupRequired(n -j v)  as written.
   ================================================================================================ *)
From Eupsv Require Import Model.Rx Model.ExpandText Proofs.ExpandTextLib Proofs.ExpandText Proofs.ExpandTextPin.

(* the text goes through the classified lines: what is written is, line by line and indentation aside, the rendering
   of what expand_gen returns for them - every theorem above about [out] is a theorem about the written text - and
   the exact block of the written text holds exactly the pins of [out], in order *)
Theorem expansion_of_text_factors tf jf sf cf w e top plist force rd text otxt :
  expand_text_gen tf jf sf cf w e top plist force rd text = Inside otxt ->
  exists ls out,
    classify_text tf text = Inside ls /\
    expand_gen jf sf cf w e top plist force rd ls = Ok out /\
    stripped_lines otxt = map render out /\
    exact_block_of_text otxt = map pin_line (pins_of out).
Proof.
  intro H. destruct (text_lines _ _ _ _ _ _ _ _ _ _ _ _ H) as [ols [L [_ [_ S]]]].
  destruct (text_factors _ _ _ _ _ _ _ _ _ _ _ _ L) as [ls [out [C [Ok1 [E [M _]]]]]].
  exists ls, out. split; [assumption|]. split; [assumption|]. split; [now rewrite S|].
  unfold exact_block_of_text. rewrite S, M. eapply tpins_all; eauto.
Qed.
Print Assumptions expansion_of_text_factors.

(* CLAUSE "never pins a version that was not set up", on text: every line of the exact block of the written text is
   a line  setupRequired/Optional(n -j v)  whose version was recorded in the environment at expansion time or given
   in the productList - any graph, any table text inside the grammar, repaired and pinned code alike *)
Theorem pins_only_setup_versions_text tf jf sf cf w e top plist force rd text otxt p :
  expand_text_gen tf jf sf cf w e top plist force rd text = Inside otxt ->
  In p (exact_block_of_text otxt) ->
  exists o n v, p = pin_text o n v /\ (recorded e n v \/ alookup n plist = Some v).
Proof.
  intros H I. destruct (text_lines _ _ _ _ _ _ _ _ _ _ _ _ H) as [ols [L [_ [_ S]]]].
  unfold exact_block_of_text in I. rewrite S in I. eapply text_pins_sound; eauto.
Qed.
Print Assumptions pins_only_setup_versions_text.

(* ... and such a line reads back as what it pins: classifying the written pin line gives the product n, the flag
   -j and the version v (n, v: non-empty words of ASCII characters other than white space, parentheses, brackets,
   hash, comma, double quote, not starting with a dash; n is not eups).  This is what lets the replay half
   (exact_replay_records_pins, exact_reproduces: each pin is a setup action with -j for n, decided at v) speak about
   the text that was written. *)
Theorem pin_line_reads_back tf o n v :
  tokenish n -> tokenish v -> n <> lit "eups" ->
  has_sub (lit "--external") (pin_text o n v) = false ->
  classify_line tf (pin_text o n v)
  = Inside (LSetup {| sl_optional := o; sl_name := n; sl_flags := [lit "-j"]; sl_version := Some v; sl_rest := [];
                      sl_logical := None; sl_orig := pin_text o n v |}).
Proof. apply classify_pin. Qed.
Print Assumptions pin_line_reads_back.

(* CLAUSE "passes lines other than setup commands through unchanged", on text: in both readings of the written text
   the lines that are neither blank, nor comments, nor setup commands are those of the input text, in order,
   character for character once the indentation, trailing blanks and a trailing comment are removed (the code
   strips every line and deletes trailing comments of command lines; nothing else is normalised) *)
Theorem passes_other_lines_text jf sf cf w e top plist force rd text otxt :
  expand_text_gen true jf sf cf w e top plist force rd text = Inside otxt ->
  other_lines (exact_text_view otxt) = other_lines (lines_of text) /\
  other_lines (inexact_text_view otxt) = other_lines (lines_of text).
Proof.
  intro H. destruct (text_lines _ _ _ _ _ _ _ _ _ _ _ _ H) as [ols [L [_ [_ S]]]].
  unfold exact_text_view, inexact_text_view. rewrite S. split; eapply text_others_pass; eauto.
Qed.
Print Assumptions passes_other_lines_text.

(* CLAUSE "keeps the original constraints for inexact mode", on text: the setup lines of the non-exact reading of the
   written text are, in order, the renderings of rewritten lines each of which carries the constraint of the
   corresponding setup line of the input text (keeps_inexact_constraints), followed by the lines naming eups,
   unchanged *)
Theorem keeps_inexact_constraints_text jf sf cf w e top plist force rd text otxt :
  expand_text_gen true jf sf cf w e top plist force rd text = Inside otxt ->
  exists ls rs,
    classify_text true text = Inside ls /\
    setup_texts (inexact_text_view otxt) = map render_rline rs ++ eups_in ls /\
    Forall2 (carries w e plist) (setups_in ls) rs.
Proof.
  intro H. destruct (text_lines _ _ _ _ _ _ _ _ _ _ _ _ H) as [ols [L [_ [_ S]]]].
  destruct (text_keeps_inexact _ _ _ _ _ _ _ _ _ _ _ L) as [ls [C [T F]]]. exists ls, (map (rewrite w e plist) (setups_in ls)).
  unfold inexact_text_view. rewrite S. auto.
Qed.
Print Assumptions keeps_inexact_constraints_text.

(* what the classification lets through: comment lines start with a hash, other lines are neither blank nor generated
   if-lines nor mention a setup command, setup lines start with the command *)
Theorem classified_lines_are_well_formed tf text ls :
  classify_text tf text = Inside ls -> Forall (ok_tline tf) ls.
Proof. apply classify_lines_ok. Qed.
Print Assumptions classified_lines_are_well_formed.

(* CLAUSE "exact mode reproduces the build", from the TEXT of the table: exact_reproduces with the expansion given
   by the text the repaired code writes.  The text determines classified lines ls and output lines out (its stripped
   lines are the renderings of out, its exact block the pins of out); with the dependency lists covering the
   closure (lists_cover, about ls) and the later table of top being the exact reading of out, the replay records
   precisely the build-time versions. *)
Theorem exact_reproduces_text vcmp vmatch fw cfg rc flavors dl rank vro top version D fuel st0 stb tr force rd text otxt :
  WF2 (fw_products fw) dl rank -> c_max_depth cfg = None ->
  wf_db (db_of cfg fw) = true -> (forall n, total_order_on vcmp (names_of (db_of cfg fw) n)) ->
  select_vro rc (request_opts cfg version) = Ok vro -> mem_entry EKeep vro = false ->
  conflict_free vcmp vmatch fw cfg rc flavors vro top {| li_version := version; li_expr := None |} D ->
  nodollar_paths (fw_products fw) (s_env st0) ->
  (forall m, alookup (setup_var m) (s_env st0) = None) ->
  request_full vcmp vmatch fw cfg rc flavors fuel st0 top version true false = Ok (Some stb, tr) ->
  expand_text (fw_products fw) (s_env stb) top [] force rd text = Inside otxt ->
  exists ls out,
    classify_text true text = Inside ls /\
    stripped_lines otxt = map render out /\
    exact_block_of_text otxt = map pin_line (pins_of out) /\
    forall w' cfg' interp ptop topv absent fuel' st1,
      lists_cover fw D top rd ls ->
      D top = Some topv ->
      c_max_depth cfg' = None ->
      find_pv w' top topv = Some ptop ->
      p_actions ptop = exact_actions interp (exact_view out) ++ map absent_action absent ->
      (forall t, Forall simple_action (interp t)) ->
      (forall n v o, In (n, v, o) (pins_of out) ->
         exists p, find_pv w' n v = Some p /\ Forall quiet_action (p_actions p)) ->
      sane top -> (forall x, In x (pins_of out) -> sane (pin_name x)) ->
      NoDup (upper_str top :: map (fun x => upper_str (pin_name x)) (pins_of out)) ->
      (forall m, alookup (setup_var m) (s_env st1) = None) ->
      2 <= fuel' ->
      exists st',
        setup w' cfg' fuel' st1 (forced_decisions topv (pins_of out) absent) top true 0 false = RDone true st' [] /\
        alookup (setup_var top) (s_env st') = Some (setup_string cfg' top topv) /\
        (forall k q, known (fw_products fw) k -> k <> top ->
           find_setup_product (fw_products fw) (s_env stb) k = Some q ->
           alookup (setup_var k) (s_env st') = Some (setup_string cfg' k (p_version q))) /\
        (forall m, alookup (setup_var m) (s_env st') <> None -> upper_str m <> upper_str top ->
           exists n v, setup_var n = setup_var m /\ recorded (s_env stb) n v /\
                       alookup (setup_var m) (s_env st') = Some (setup_string cfg' n v)).
Proof.
  intros H1 H2 H3 H4 H5 H6 H7 H8 H9 H10 HT.
  destruct (expansion_of_text_factors _ _ _ _ _ _ _ _ _ _ _ _ HT) as [ls [out [C [E [S P]]]]].
  exists ls, out. split; [assumption|]. split; [assumption|]. split; [assumption|].
  intros w' cfg' interp ptop topv absent fuel' st1 H12 H13 H14 H15 H16 H17 H18 H19 H20 H21 H22 H23.
  exact (proj2 (exact_reproduces vcmp vmatch fw cfg rc flavors dl rank vro top version D fuel st0 stb tr
                  force rd ls out w' cfg' interp ptop topv absent fuel' st1
                  H1 H2 H3 H4 H5 H6 H7 H8 H9 H10 E H12 H13 H14 H15 H16 H17 H18 H19 H20 H21 H22 H23)).
Qed.
Print Assumptions exact_reproduces_text.

(* ---- examples on text (the world, environment and dependency lists of expansion_example) ---- *)
Definition nlc : str := [ascii_of_nat 10].
Definition xtext : str :=
  lit "# deps" ++ nlc ++ lit "SetupRequired (b)   # why" ++ nlc ++ lit "envSet(FOO, bar)" ++ nlc ++
  lit "if (flavor == Linux64) {" ++ nlc ++ lit "   setupRequired(c, 1.0 [>= 0.5])" ++ nlc ++ nlc ++ lit "}" ++ nlc ++
  lit "setupOptional(d >= 1.0)" ++ nlc ++ lit "setupRequired(eups [>= 1.0])" ++ nlc.
Definition shown_text (v : verdict str) : option string :=
  match v with Inside t => Some (String.string_of_list_ascii t) | _ => None end.

(* the text as written, white space included: the command name in another case with a blank before the parenthesis
   and a trailing comment, a comma between the arguments, a brace block (only the first line of a block of other
   lines moves the indentation level: it stays 0 here and drops below 0 at the closing brace), a blank line at the
   end of a setup block, a bare relational expression, a line naming eups (moved to the end) *)
Example text_expansion_example :
  shown_text (expand_text xworld xenv (lit "top") [] false xraw xtext)
  = Some "# deps
if (type != exact) {
   setupRequired(b 1.0 [>= 1.0])
}
envSet(FOO, bar)
if (flavor == Linux64) {
if (type != exact) {
   setupRequired(c 1.0 [>= 0.5])
}
}
if (type == exact) {
setupRequired(b               -j 1.0)
setupRequired(a               -j 2.0)
setupRequired(c               -j 1.0)
} else {
setupOptional(d >= 1.0)
}
setupRequired(eups [>= 1.0])
"%string.
Proof. vm_compute. reflexivity. Qed.

(* the pinned tree recognised setup commands by a narrower pattern than the table reader (Table._read: the name in
   any case, blanks before the parenthesis, commas between the arguments).  A line spelt SetupRequired(b) was set up
   by the build but passed over by the expansion: no exact block, b not pinned - and setup --exact from the written
   table takes whatever version of b the database prefers by then (corpus/C17/setup-line-spelling.json).  Repaired
   (proposed_fixes/C17-setup-line-spelling): the line is rewritten and b and its dependency a are pinned. *)
Definition ctext : str := lit "SetupRequired(b)" ++ nlc ++ lit "envSet(FOO, bar)" ++ nlc.
Example setup_line_spelling_refuted_pinned :
  shown_text (expand_text_pinned xworld xenv (lit "top") [] false xraw ctext)
  = Some "SetupRequired(b)
envSet(FOO, bar)
"%string /\
  shown_text (expand_text xworld xenv (lit "top") [] false xraw ctext)
  = Some "if (type == exact) {
   setupRequired(b               -j 1.0)
   setupRequired(a               -j 2.0)
} else {
   setupRequired(b 1.0 [>= 1.0])
}
envSet(FOO, bar)
"%string.
Proof. split; vm_compute; reflexivity. Qed.

(* verdicts, not guesses: text behind a command, a pre-existing exact block, a flag that lacks its argument *)
Example outside_verdicts :
  classify_text true (lit "setupRequired(b);" ++ nlc) = Outside XTextAround /\
  classify_text true (lit "unsetupRequired(b)" ++ nlc) = Outside XTextAround /\
  classify_text true (lit "if (type == exact) {" ++ nlc) = Outside XExactBlock /\
  classify_text true (lit "setupRequired(b --external)" ++ nlc) = Outside XExternal /\
  classify_text true (lit "setupRequired(-j b)" ++ nlc) = Outside XNameNotFirst /\
  classify_text true (lit "setupRequired(b -f)" ++ nlc) = Raises BadTable.
Proof. repeat split; vm_compute; reflexivity. Qed.

(* the hypotheses of pin_line_reads_back hold of the pins written above *)
Example pin_line_reads_back_inhabited :
  tokenish (lit "b") /\ tokenish (lit "1.0") /\ lit "b" <> lit "eups" /\
  has_sub (lit "--external") (pin_text false (lit "b") (lit "1.0")) = false /\
  String.string_of_list_ascii (pin_text false (lit "b") (lit "1.0")) = "setupRequired(b               -j 1.0)"%string.
Proof. repeat split; try reflexivity; discriminate. Qed.

(* ================================================================================================
   [lists_cover], the hypothesis of exact_reproduces about the dependency lists, for the lists the dependency walk
   of C13 returns (Model/DepWalk.v: Table.dependencies with C03's resolver inside, getDependentProducts without
   topological sort - the model the C13 check compares with the real listings).
   [walk_lists vcmp vmatch fw cfg rc flavors vro fuel names]: for every (product, version) of names, the listing of
   the walk from that product on the tables of the composed world fw (one dependency line per setup action, with
   the version / expression of its line information), under the VRO vro, as (name, optional, depth).
   ================================================================================================ *)
From Eupsv Require Import Proofs.ExpandWalk.

(* HYPOTHESES  about the build, those exact_reproduces has already: the database view well formed, the comparator a
   total order on the declared names, no keep in the VRO, and the second half of conflict_free (every dependency
   line of every reachable table designates what D assigns, none with -j); fuel above the number of tables.
   What ties the table TEXT of top to the composed world stays a hypothesis: the setup lines of the classified
   table ls name the dependency actions of top's table in fw (the two readers of the text - Table._read for the
   build, the scanner of expandTableFile - see the same commands), none with -j, none naming top; the lists were
   asked for each such product at the version D assigns (the harness asks for every product that is set up).
   The walk runs under the VRO of the build. *)
Theorem lists_cover_of_dependency_walk vcmp vmatch fw cfg rc flavors vro top D fuel names ls topv ptop :
  wf_db (db_of cfg fw) = true -> (forall n, total_order_on vcmp (names_of (db_of cfg fw) n)) ->
  mem_entry EKeep vro = false ->
  (forall n v p, reachN fw top n -> D n = Some v -> find_pv (fw_products fw) n v = Some p ->
     lines_ok vcmp vmatch fw cfg rc flavors vro D (p_actions p) (SetupFull.lines_of fw p)) ->
  length (dtables_of fw) < fuel ->
  D top = Some topv -> find_pv (fw_products fw) top topv = Some ptop ->
  (forall o x j, In (ASetup o x j) (p_actions ptop) ->
     x <> top /\ exists s, In (LSetup s) ls /\ sl_name s = x /\ mem_str (lit "-j") (sl_flags s) = false) ->
  (forall s va, In (LSetup s) ls -> D (sl_name s) = Some va -> In (sl_name s, va) names) ->
  lists_cover fw D top (walk_lists vcmp vmatch fw cfg rc flavors vro fuel names) ls.
Proof. intros H1 H2 H3 H4 H5 H6 H7 H8 H9. exact (lists_cover_walk vcmp vmatch fw cfg rc flavors vro top D H1 H2 H3 H4 fuel names ls topv ptop H5 H6 H7 H8 H9). Qed.
Print Assumptions lists_cover_of_dependency_walk.

(* on the instance of exact_reproduces_inhabited the walk returns the very lists that were written down there (as the
   real getDependencies reports them), the unresolved implicit product included *)
Example walk_lists_example :
  walk_lists vcmp_simple vmatch_simple rfw ex_cfg default_config ex_flavors ex_vro 20
             [(lit "lib", lit "1.0"); (lit "extra", lit "1.0")] = rraw.
Proof. vm_compute. reflexivity. Qed.

(* exact_reproduces with the dependency lists computed by the walk: no hypothesis about the lists is left *)
Theorem exact_reproduces_with_walk vcmp vmatch fw cfg rc flavors dl rank vro top version D fuel st0 stb tr
                                   force fuelw names ls out w' cfg' interp ptop0 ptop topv absent fuel' st1 :
  WF2 (fw_products fw) dl rank -> c_max_depth cfg = None ->
  wf_db (db_of cfg fw) = true -> (forall n, total_order_on vcmp (names_of (db_of cfg fw) n)) ->
  select_vro rc (request_opts cfg version) = Ok vro -> mem_entry EKeep vro = false ->
  conflict_free vcmp vmatch fw cfg rc flavors vro top {| li_version := version; li_expr := None |} D ->
  nodollar_paths (fw_products fw) (s_env st0) ->
  (forall m, alookup (setup_var m) (s_env st0) = None) ->
  request_full vcmp vmatch fw cfg rc flavors fuel st0 top version true false = Ok (Some stb, tr) ->
  expand (fw_products fw) (s_env stb) top [] force (walk_lists vcmp vmatch fw cfg rc flavors vro fuelw names) ls = Ok out ->
  length (dtables_of fw) < fuelw ->
  find_pv (fw_products fw) top topv = Some ptop0 ->
  (forall o x j, In (ASetup o x j) (p_actions ptop0) ->
     x <> top /\ exists s, In (LSetup s) ls /\ sl_name s = x /\ mem_str (lit "-j") (sl_flags s) = false) ->
  (forall s va, In (LSetup s) ls -> D (sl_name s) = Some va -> In (sl_name s, va) names) ->
  D top = Some topv ->
  c_max_depth cfg' = None ->
  find_pv w' top topv = Some ptop ->
  p_actions ptop = exact_actions interp (exact_view out) ++ map absent_action absent ->
  (forall t, Forall simple_action (interp t)) ->
  (forall n v o, In (n, v, o) (pins_of out) ->
     exists p, find_pv w' n v = Some p /\ Forall quiet_action (p_actions p)) ->
  sane top -> (forall x, In x (pins_of out) -> sane (pin_name x)) ->
  NoDup (upper_str top :: map (fun x => upper_str (pin_name x)) (pins_of out)) ->
  (forall m, alookup (setup_var m) (s_env st1) = None) ->
  2 <= fuel' ->
  exists st',
    setup w' cfg' fuel' st1 (forced_decisions topv (pins_of out) absent) top true 0 false = RDone true st' [] /\
    alookup (setup_var top) (s_env st') = Some (setup_string cfg' top topv) /\
    (forall k q, known (fw_products fw) k -> k <> top ->
       find_setup_product (fw_products fw) (s_env stb) k = Some q ->
       alookup (setup_var k) (s_env st') = Some (setup_string cfg' k (p_version q))) /\
    (forall m, alookup (setup_var m) (s_env st') <> None -> upper_str m <> upper_str top ->
       exists n v, setup_var n = setup_var m /\ recorded (s_env stb) n v /\
                   alookup (setup_var m) (s_env st') = Some (setup_string cfg' n v)).
Proof.
  intros H1 H2 H3 H4 H5 H6 H7 H8 H9 H10 H11 Hf Ft Tie Nm H13 H14 H15 H16 H17 H18 H19 H20 H21 H22 H23.
  assert (H12 : lists_cover fw D top (walk_lists vcmp vmatch fw cfg rc flavors vro fuelw names) ls).
  { eapply lists_cover_walk; eauto. exact (proj2 H7). }
  exact (proj2 (exact_reproduces vcmp vmatch fw cfg rc flavors dl rank vro top version D fuel st0 stb tr
                  force _ ls out w' cfg' interp ptop topv absent fuel' st1
                  H1 H2 H3 H4 H5 H6 H7 H8 H9 H10 H11 H12 H13 H14 H15 H16 H17 H18 H19 H20 H21 H22 H23)).
Qed.
Print Assumptions exact_reproduces_with_walk.

(* ================================================================================================
   RE-EXPANSION: the table that is expanded has been expanded before (the installed table of a product that is built
   and packaged again; eups expandtable -i run twice).  Model/ExpandRe.v: the repaired code
   (proposed_fixes/C17-reexpansion-anywhere) drops the lines the earlier expansion added while it reads the table -
   [unexpand_text] - and processes the rest as the table of a product that was never expanded:
        reexpand_text = expand_text after unexpand_text          (a definition; the driver runs reexpand_text)
   [own_lines ls] the lines of ls that are the table's own: not  if (type == exact) {  with the old pins up to
   } else { , not  if (type != exact) { , not the brace that closes the setups they guard.
   The pinned tree recognised an old exact block only at the head of a block of other lines, left its closing brace
   behind, and otherwise wrapped the OLD pins in a block on type != exact - which the table reader, not nesting
   conditions, executes in non-exact mode (corpus/C17/reexpansion-*.json).
   ================================================================================================ *)
From Eupsv Require Import Model.ExpandRe Proofs.ExpandRe.

(* the expansion depends on the text through its lines only *)
Lemma expand_text_lines_only tf jf sf cf w e top plist force rd t1 t2 :
  lines_of t1 = lines_of t2 ->
  expand_text_gen tf jf sf cf w e top plist force rd t1 = expand_text_gen tf jf sf cf w e top plist force rd t2.
Proof. intro H. unfold expand_text_gen, expand_text_lines_gen, classify_text. rewrite H. reflexivity. Qed.

(* a table without blocks on the expansion type - every table that was never expanded - is expanded as before: the
   extension is conservative *)
Theorem first_expansion_unchanged tf jf sf cf w e top plist force rd text :
  forallb (fun l => negb (opens_type_block l)) (lines_of text) = true ->
  reexpand_text_gen tf jf sf cf w e top plist force rd text = expand_text_gen tf jf sf cf w e top plist force rd text.
Proof.
  intro H. unfold reexpand_text_gen. apply expand_text_lines_only.
  rewrite lines_of_unexpand_text. now apply unexpand_plain.
Qed.
Print Assumptions first_expansion_unchanged.

(* WHAT IS DROPPED of a block the earlier expansion wrote, wherever it stands (pre: lines without such blocks):
   the if line, the old pins, the else line and the closing brace - nothing else; the guarded setups (with their
   comments and blank lines) stay, and so does everything behind the block *)
Theorem own_lines_of_an_exact_block pre ifl pins elsel body closel post :
  forallb (fun l => negb (opens_type_block l)) pre = true ->
  is_line p_if_exact ifl -> Forall pin_like pins -> is_line p_else elsel ->
  Forall guarded_like body -> is_line p_close closel ->
  own_lines (pre ++ ifl :: pins ++ elsel :: body ++ closel :: post) = pre ++ body ++ own_lines post.
Proof. apply unexpand_exact_block. Qed.
Print Assumptions own_lines_of_an_exact_block.

Theorem own_lines_of_a_guarded_block pre ifl body closel post :
  forallb (fun l => negb (opens_type_block l)) pre = true ->
  is_line p_if_not_exact ifl -> seq_full p_if_exact (before_hash ifl) = false ->
  Forall guarded_like body -> is_line p_close closel ->
  own_lines (pre ++ ifl :: body ++ closel :: post) = pre ++ body ++ own_lines post.
Proof. apply unexpand_not_exact_block. Qed.
Print Assumptions own_lines_of_a_guarded_block.

(* only lines of the table survive, in the order of the table (no line is invented) *)
Theorem own_lines_are_lines_of_the_table ls l : In l (own_lines ls) -> In l ls.
Proof. apply unexpand_in. Qed.
Print Assumptions own_lines_are_lines_of_the_table.

(* CLAUSE "passes lines other than setup commands through unchanged", for a table that was expanded before: in both
   readings of the written text the lines that are neither blank, nor comments, nor setup commands are those of the
   table's own lines, in order, character for character (indentation, trailing blanks and a trailing comment aside) *)
Theorem reexpansion_passes_other_lines jf sf cf w e top plist force rd text otxt :
  reexpand_text_gen true jf sf cf w e top plist force rd text = Inside otxt ->
  other_lines (exact_text_view otxt) = other_lines (own_lines (lines_of text)) /\
  other_lines (inexact_text_view otxt) = other_lines (own_lines (lines_of text)).
Proof.
  unfold reexpand_text_gen, own_lines. intro H.
  destruct (passes_other_lines_text _ _ _ _ _ _ _ _ _ _ _ H) as [A B].
  rewrite lines_of_unexpand_text in A, B. split; assumption.
Qed.
Print Assumptions reexpansion_passes_other_lines.

(* CLAUSE "never pins a version that was not set up", for a table that was expanded before: whatever the old exact
   block pinned, every line of the exact block of the written text pins a version the environment records at
   expansion time (or the productList gives) *)
Theorem reexpansion_pins_only_setup_versions tf jf sf cf w e top plist force rd text otxt p :
  reexpand_text_gen tf jf sf cf w e top plist force rd text = Inside otxt ->
  In p (exact_block_of_text otxt) ->
  exists o n v, p = pin_text o n v /\ (recorded e n v \/ alookup n plist = Some v).
Proof. unfold reexpand_text_gen. apply pins_only_setup_versions_text. Qed.
Print Assumptions reexpansion_pins_only_setup_versions.

(* CLAUSE "keeps the original constraints for inexact mode", for a table that was expanded before: the setup lines of
   the non-exact reading are the rewritten setup lines of the table's own lines - the old pins are not among them *)
Theorem reexpansion_keeps_inexact_constraints jf sf cf w e top plist force rd text otxt :
  reexpand_text_gen true jf sf cf w e top plist force rd text = Inside otxt ->
  exists ls rs,
    classify_lines true (own_lines (lines_of text)) = Inside ls /\
    setup_texts (inexact_text_view otxt) = map render_rline rs ++ eups_in ls /\
    Forall2 (carries w e plist) (setups_in ls) rs.
Proof.
  unfold reexpand_text_gen, own_lines. intro H.
  destruct (keeps_inexact_constraints_text _ _ _ _ _ _ _ _ _ _ _ H) as [ls [rs [C [S F]]]].
  exists ls, rs. unfold classify_text in C. rewrite lines_of_unexpand_text in C. auto.
Qed.
Print Assumptions reexpansion_keeps_inexact_constraints.

(* Every reader of the set-up state (findSetupVersion, getSetupVersion, findSetupProduct, getDependentProducts with
   setup=True, subSetup) goes through find_setup_product: the product it reports has the version the SETUP_ variable
   records - the world of the model has no tags, so this holds whatever tags exist and wherever they sit, in
   particular when the recorded version is NAMED like a tag that is assigned to another version (a build called
   stable; corpus/C17/version-named-like-a-tag.json).  With pins_only_setup_versions: that version is what is pinned. *)
Theorem setup_readers_report_the_recorded_version w e n p :
  find_setup_product w e n = Some p -> p_name p = n /\ recorded e n (p_version p).
Proof. apply find_setup_product_recorded. Qed.
Print Assumptions setup_readers_report_the_recorded_version.

(* ---- examples (world, environment and dependency lists of expansion_example) ---- *)
Definition rtext : str :=
  lit "# top table" ++ nlc ++ lit "setupRequired(b)" ++ nlc ++ lit "setupOptional(zz)" ++ nlc ++
  lit "envSet(FOO, bar)" ++ nlc ++ lit "if (flavor == Linux64) {" ++ nlc ++ lit "   envSet(X, mine)" ++ nlc ++
  lit "} else {" ++ nlc ++ lit "   envSet(X, other)" ++ nlc ++ lit "}" ++ nlc.
Definition verdict_text (v : verdict str) : str := match v with Inside t => t | _ => [] end.
Definition rtext1 : str := verdict_text (expand_text xworld xenv (lit "top") [] false xraw rtext).

(* reexpansion_is_idempotent_on_pins, on an instance (the general statement needs the rendering of a rewritten
   line to classify back to that line; pin_line_reads_back is that statement for the pins): a comment in front of the
   exact block, other commands and a flavor conditional behind the setup lines; expanding the expanded table gives
   the same text again - same pins, same lines *)
Example reexpansion_is_idempotent_example :
  shown_text (Inside rtext1)
  = Some "# top table
if (type == exact) {
   setupRequired(b               -j 1.0)
   setupRequired(a               -j 2.0)
} else {
   setupRequired(b 1.0 [>= 1.0])
   setupOptional(zz)
}
envSet(FOO, bar)
if (flavor == Linux64) {
envSet(X, mine)
} else {
envSet(X, other)
}
"%string /\
  reexpand_text xworld xenv (lit "top") [] false xraw rtext1 = Inside rtext1 /\
  exact_block_of_text rtext1 = exact_block_of_text (verdict_text (reexpand_text xworld xenv (lit "top") [] false xraw rtext1)).
Proof. repeat split; vm_compute; reflexivity. Qed.

(* an installed table whose exact block pins versions of an earlier build (b 0.9, c 3.0 - neither is set up now),
   with a block on type != exact in front and in other spellings: the old pins are gone, what is set up is pinned *)
Definition stale_text : str :=
  lit "if(type!=exact){" ++ nlc ++ lit "   setupRequired(c)" ++ nlc ++ lit "}" ++ nlc ++ lit "envSet(FOO, bar)" ++ nlc ++
  lit "if (type == exact) {   # written by expandtable" ++ nlc ++ lit "   setupRequired(b               -j 0.9)" ++ nlc ++
  lit "   setupRequired(c               -j 3.0)" ++ nlc ++ lit "}else{" ++ nlc ++ lit "   setupRequired(b [>= 0.5])" ++ nlc ++
  lit "}" ++ nlc ++ lit "envSet(BAR, foo)" ++ nlc.
Example reexpansion_drops_stale_pins :
  shown_text (reexpand_text xworld xenv (lit "top") [] false xraw stale_text)
  = Some "if (type != exact) {
   setupRequired(c 1.0 [>= 1.0])
}
envSet(FOO, bar)
if (type == exact) {
   setupRequired(c               -j 1.0)
   setupRequired(a               -j 2.0)
   setupRequired(b               -j 1.0)
} else {
   setupRequired(b 1.0 [>= 0.5])
}
envSet(BAR, foo)
"%string /\
  map String.string_of_list_ascii (own_lines (lines_of stale_text))
  = ["   setupRequired(c)"; "envSet(FOO, bar)"; "   setupRequired(b [>= 0.5])"; "envSet(BAR, foo)"]%string.
Proof. split; vm_compute; reflexivity. Qed.

(* the text model of the pinned tree keeps its verdict for such a table *)
Example reexpansion_outside_pinned :
  expand_text_pinned xworld xenv (lit "top") [] false xraw rtext1 = Outside XExactBlock.
Proof. vm_compute. reflexivity. Qed.

(* ------------------------------------------------------------------------------------------------------------------
   The switches of the entrances: app.expandTableFile(expandVersions=, addExactBlock=) and eups expandtable -N / --noExact
   (Model/ExpandOpt.v).  [expand_text_opt ev ab] is the text written with expandVersions = ev and addExactBlock = ab;
   [expand_layout_opt ev ab] the lines behind it with their indentation levels, on classified lines.
   [is_added o]: o is one of the lines an expansion adds (the four scaffold lines, a pin).  [strip_logical false r]: the
   written setup line r without its bracketed expression; [sz ev] the same on a written line with its level. *)
From Eupsv Require Import Model.ExpandOpt Proofs.ExpandOpt.

(* at their defaults the switches change nothing: every theorem above about expand_text / reexpand_text speaks about
   the entrances called without them *)
Theorem switches_at_their_defaults tf jf sf cf w e top plist force rd text :
  expand_text_opt true true tf jf sf cf w e top plist force rd text = expand_text_gen tf jf sf cf w e top plist force rd text /\
  reexpand_text_opt true true tf jf sf cf w e top plist force rd text = reexpand_text_gen tf jf sf cf w e top plist force rd text.
Proof. split; [apply expand_text_opt_defaults|apply reexpand_text_opt_defaults]. Qed.
Print Assumptions switches_at_their_defaults.

(* addExactBlock off (--noExact): no line of the written table is one an expansion adds - no if (type == exact), no
   pin, no else, no if (type != exact), no closing brace of its own - whatever expandVersions says *)
Theorem without_the_exact_block_nothing_is_added ev jf sf cf w e top plist force rd ls lay :
  expand_layout_opt ev false jf sf cf w e top plist force rd ls = Ok lay ->
  Forall (fun x => is_added (snd x) = false) lay.
Proof. apply no_exact_block. Qed.
Print Assumptions without_the_exact_block_nothing_is_added.

(* ... and what is written is the table itself: every setup line, in order, in the form subSetup gives it - with
   expandVersions on that is [rewrite], the form of the non-exact branch of the full expansion, which carries the
   original constraint (inexact_keeps_constraints above) - and every other line, in order, unchanged *)
Theorem without_the_exact_block_every_line_keeps_its_form ev jf sf cf w e top plist force rd ls lay :
  expand_layout_opt ev false jf sf cf w e top plist force rd ls = Ok lay ->
  setups_of (map snd lay) = map (fun s => strip_logical ev (rewrite w e plist s)) (setups_in ls) /\
  others_of (map snd lay) = others_in ls.
Proof. intro H. split; [eapply plain_layout_setups|eapply plain_layout_others]; exact H. Qed.
Print Assumptions without_the_exact_block_every_line_keeps_its_form.

Corollary without_the_exact_block_expressions_are_kept jf sf cf w e top plist force rd ls lay :
  expand_layout_opt true false jf sf cf w e top plist force rd ls = Ok lay ->
  setups_of (map snd lay) = map (rewrite w e plist) (setups_in ls).
Proof.
  intro H. destruct (without_the_exact_block_every_line_keeps_its_form _ _ _ _ _ _ _ _ _ _ _ _ H) as [S _].
  rewrite S. apply map_ext. intro s. apply strip_logical_true.
Qed.
Print Assumptions without_the_exact_block_expressions_are_kept.

(* expandVersions (-N) touches nothing but the expression on the rewritten setup lines: whatever the two switches, the
   expansion raises exactly where it raises with expandVersions on, and otherwise writes the same lines at the same
   levels, the expression taken off every rewritten setup line *)
Theorem expandVersions_only_takes_the_expressions_off ev ab jf sf cf w e top plist force rd ls :
  expand_layout_opt ev ab jf sf cf w e top plist force rd ls =
  match expand_layout_opt true ab jf sf cf w e top plist force rd ls with
  | Ok lay => Ok (map (sz ev) lay)
  | Err x => Err x
  end.
Proof. apply layout_strip. Qed.
Print Assumptions expandVersions_only_takes_the_expressions_off.

(* hence with expandVersions off and the exact block on: the exact block is the exact block of the full expansion
   [expand_gen] - complete and sound by the theorems above -, the other lines are the same, the setup lines are those of
   the full expansion without their expressions, and none carries an expression *)
Theorem without_expressions_the_exact_block_is_complete jf sf cf w e top plist force rd ls lay :
  expand_layout_opt false true jf sf cf w e top plist force rd ls = Ok lay ->
  exists out, expand_gen jf sf cf w e top plist force rd ls = Ok out /\
    pins_of (map snd lay) = pins_of out /\
    others_of (map snd lay) = others_of out /\
    setups_of (map snd lay) = map (strip_logical false) (setups_of out) /\
    Forall (fun r => carries_expression r = false) (setups_of (map snd lay)).
Proof.
  rewrite layout_strip, expand_layout_opt_defaults.
  destruct (expand_layout jf sf cf w e top plist force rd ls) as [lay0|x] eqn:L; [|discriminate].
  intro H. inversion H; subst. exists (map snd lay0). split; [now apply layout_lines|].
  rewrite pins_of_sz, others_of_sz, setups_of_sz. repeat split.
  apply Forall_forall. intros r I. apply in_map_iff in I. destruct I as [r0 [E _]]. subst r. apply stripped_carries_none.
Qed.
Print Assumptions without_expressions_the_exact_block_is_complete.

(* and it raises exactly where the full expansion raises *)
Theorem switches_raise_where_the_full_expansion_raises ev ab jf sf cf w e top plist force rd ls x :
  expand_layout_opt ev ab jf sf cf w e top plist force rd ls = Err x <-> expand_gen jf sf cf w e top plist force rd ls = Err x.
Proof.
  unfold expand_layout_opt, expand_gen. rewrite collected_any. unfold acc0.
  destruct (collect jf sf cf w e top plist force rd _ _); split; intro H; try discriminate; inversion H; reflexivity.
Qed.
Print Assumptions switches_raise_where_the_full_expansion_raises.

(* the hypotheses are inhabited: the table with the stale pins of an earlier build, expanded with each switch off *)
Example stale_table_without_expressions :
  shown_text (reexpand_text_opt false true true true true true xworld xenv (lit "top") [] false xraw stale_text)
  = Some "if (type != exact) {
   setupRequired(c 1.0)
}
envSet(FOO, bar)
if (type == exact) {
   setupRequired(c               -j 1.0)
   setupRequired(a               -j 2.0)
   setupRequired(b               -j 1.0)
} else {
   setupRequired(b 1.0)
}
envSet(BAR, foo)
"%string.
Proof. vm_compute. reflexivity. Qed.
Example stale_table_without_exact_block :
  shown_text (reexpand_text_opt true false true true true true xworld xenv (lit "top") [] false xraw stale_text)
  = Some "setupRequired(c 1.0 [>= 1.0])
envSet(FOO, bar)
setupRequired(b 1.0 [>= 0.5])
envSet(BAR, foo)
"%string.
Proof. vm_compute. reflexivity. Qed.
